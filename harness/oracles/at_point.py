"""Point oracles at a correspondence mismatch (DESIGN.md 4.3 (b)).

`probe(unit_name, case, impl)` turns the (shrunk) mismatching case of a correspondence unit into inputs of mir_eval's public
API and evaluates the PROPERTY relations there and in a small neighbourhood: the case's own parameters plus ladders of
tighter / looser ones (and values just below / at / just above the distances that occur in the data), exactly representable
time shifts, reorderings, exchanged roles, copies scored against themselves, octave / transposition factors, re-cut intervals,
and a few inputs derived from the case (an item dropped, a frame listed in another order, ...).  It returns a list of
findings {'function','relation','input','observed','why'}; every one is a relation between outputs of the REAL implementation
on stated inputs, so it can be replayed.

Soundness rule: a relation is only asserted under the preconditions of the property it belongs to (properties.jsonl), on
inputs the implementation itself accepts, and where float rounding cannot decide it (exact shifts, whole octaves, guards
around thresholds).  On the unchanged tree no probe may return a finding that is not listed in known_findings.json
(tools_probe_selftest.py checks this on generated cases of every adapted unit).

Every finding made here goes through `Ctx.add(pid, ...)`, which keeps it only if harness.oracles.all.classify maps its text
to exactly {pid}: a relation text can therefore never be attributed to another property by accident.  Findings of the
existing per-module oracles are passed through unchanged (`Ctx.take`)."""
import itertools
import math
import random
import time
import warnings
from fractions import Fraction

EPS = 1e-9
BUDGET = 4.0          # seconds per probe (the runner allows 60)


# ======================================================================================================================
# infrastructure
# ======================================================================================================================
def _np():
    import numpy as np
    return np


def call(fn, *a, **k):
    """('ok', value) | ('exc', class name): exceptions of the implementation are data."""
    np = _np()
    try:
        with warnings.catch_warnings():
            warnings.simplefilter('ignore')
            with np.errstate(all='ignore'):
                return ('ok', fn(*a, **k))
    except Exception as e:  # noqa
        return ('exc', type(e).__name__)


def vec(v):
    """value of a metric call -> list of floats (dict: values in order)"""
    np = _np()
    if isinstance(v, dict):
        return [float(x) for x in v.values()]
    if isinstance(v, (tuple, list)):
        return [float(x) for x in v]
    if isinstance(v, np.ndarray):
        return [float(x) for x in v.ravel()]
    return [float(v)]


def okvec(r):
    return vec(r[1]) if r[0] == 'ok' else None


def close(a, b, tol=EPS):
    if a != a or b != b:
        return a != a and b != b
    if math.isinf(a) or math.isinf(b):
        return a == b
    return abs(a - b) <= tol


def allclose(u, v, tol=EPS):
    return len(u) == len(v) and all(close(a, b, tol) for a, b in zip(u, v))


def in01(x):
    return x == x and -EPS <= x <= 1 + EPS


def exact_add(values, s):
    """t + s is computed without rounding for every t (and stays >= 0)"""
    fs = Fraction(s)
    return all(Fraction(t) + fs == Fraction(t + s) and t + s >= 0 for t in values)


def ladder(v, extra=(), crit=(), lo=None, hi=None, ncrit=4):
    """sorted parameter values around v: multiples of v, typical values, and values just below / at / just above the `ncrit`
    critical values (distances occurring in the data) nearest to v"""
    out = set()
    if v is not None and v > 0:
        out |= {v * m for m in (0.25, 0.5, 0.75, 1.0, 1.25, 1.5, 2.0, 4.0)}
    elif v is not None:
        out.add(v)
    out |= set(extra)
    cs = sorted(set(c for c in crit if c > 0 and c == c and not math.isinf(c)),
                key=lambda c: abs(math.log(c) - math.log(v)) if v and v > 0 else c)
    for c in cs[:ncrit]:
        out |= {c * m for m in (0.97, 0.99, 1.0, 1.01, 1.03)}
    out = sorted(x for x in out if (lo is None or x >= lo) and (hi is None or x <= hi))
    return out


def perms(n, rng, k=2):
    """reversed order and k shuffles of range(n) (without the identity)"""
    if n < 2:
        return []
    ident = list(range(n))
    out = [ident[::-1]]
    for _ in range(k):
        p = list(ident)
        rng.shuffle(p)
        if p != ident and p not in out:
            out.append(p)
    return out


class Ctx:
    def __init__(self, unit, case):
        self.unit = unit
        self.out = []
        self.dropped = []          # findings whose text does not classify to the intended property (reported by the self-test)
        self.seen = set()
        self.t0 = time.time()
        self.rng = random.Random('at_point/%s/%r' % (unit, case))

    def left(self):
        return BUDGET - (time.time() - self.t0)

    def over(self):
        return time.time() - self.t0 > BUDGET

    def add(self, pid, function, relation, inp, observed, why=''):
        from harness.oracles import all as ALL
        key = (function, relation)
        if key in self.seen:
            return
        f = {'function': function, 'relation': relation, 'input': inp, 'observed': observed, 'why': why}
        if ALL.classify(f) != {pid}:
            f['why'] = ''
            if ALL.classify(f) != {pid}:
                self.dropped.append((pid, sorted(ALL.classify(f)), function, relation))
                return
        self.seen.add(key)
        self.out.append(f)

    def take(self, fs):
        if not fs:
            return
        for f in (fs if isinstance(fs, list) else [fs]):
            if not f:
                continue
            if str(f.get('function', '')).startswith('oracle'):
                continue                      # a disagreement between two brute-force oracles is not about mir_eval
            key = (f.get('function'), f.get('relation'))
            if key in self.seen:
                continue
            self.seen.add(key)
            self.out.append(f)


def _guard(ctx, fn, *a):
    """run one family of checks; a crash of the probe itself is never a finding"""
    if ctx.over():
        return
    try:
        fn(ctx, *a)
    except Exception:  # noqa
        import traceback
        ctx.dropped.append(('crash', fn.__name__, traceback.format_exc()[-400:]))


# generic relation helpers ---------------------------------------------------------------------------------------------
def rel_range(ctx, function, names, values, inp, upper_only=(), nonneg=()):
    """C01: proportions finite in [0, 1]; `upper_only` names only <= 1; `nonneg` names finite and >= 0"""
    for nm, x in zip(names, values):
        if nm in upper_only:
            if not (x == x and x <= 1 + EPS):
                ctx.add('C01', function, '%s <= 1' % nm, inp, x)
        elif nm in nonneg:
            if not (x == x and not math.isinf(x) and x >= -EPS):
                ctx.add('C01', function, '%s is finite and >= 0' % nm, inp, x)
        elif not in01(x):
            ctx.add('C01', function, '%s is finite and in [0, 1]' % nm, inp, x)


def rel_mono(ctx, function, what, param, points, names, inp):
    """C07: points = [(parameter value, [scores])] sorted by parameter; no named score decreases"""
    prev = None
    for p, sc in points:
        if sc is None:
            prev = None
            continue
        if prev is not None:
            for nm, a, b in zip(names, prev[1], sc):
                if nm is not None and b < a - EPS:
                    ctx.add('C07', function, 'widening %s never lowers %s' % (param, nm), dict(inp, **{param: [prev[0], p]}),
                            {nm: [a, b]}, what)
        prev = (p, sc)


# ======================================================================================================================
# transcription / transcription_velocity  (units note_matching, transcription_scores)
# ======================================================================================================================
PAR_KEYS = ('onset_tolerance', 'pitch_tolerance', 'offset_ratio', 'offset_min_tolerance')
PAR_TYPICAL = {'onset_tolerance': (0.01, 0.025, 0.05, 0.1, 0.2), 'pitch_tolerance': (10.0, 25.0, 50.0, 100.0, 200.0),
               'offset_ratio': (0.01, 0.05, 0.1, 0.2, 0.3, 0.5, 1.0), 'offset_min_tolerance': (0.01, 0.025, 0.05, 0.1, 0.25)}


def _tr_subject(case, unit):
    """-> dict(ref, est: [[on, off, hz, vel]], par, beta, vtol, vel: bool) or None"""
    if unit == 'note_matching':
        ref = [list(x) + [64.0] for x in case['ref']]
        est = [list(x) + [64.0] for x in case['est']]
        beta, vtol, vel = 1.0, 0.1, False
    else:
        if case.get('fn') == 'aor':
            return None
        n, m = len(case['ri']), len(case['ei'])
        if not (len(case['rp']) == n and len(case['ep']) == m):
            return None
        vel = len(case['rv']) == n and len(case['ev']) == m
        rv = case['rv'] if vel else [64.0] * n
        ev = case['ev'] if vel else [64.0] * m
        ref = [[a[0], a[1], p, v] for a, p, v in zip(case['ri'], case['rp'], rv)]
        est = [[a[0], a[1], p, v] for a, p, v in zip(case['ei'], case['ep'], ev)]
        beta, vtol = case.get('beta', 1.0), case.get('vtol', 0.1)
    par = {'onset_tolerance': case['otol'], 'pitch_tolerance': case['ptol'], 'offset_ratio': case['ratio'],
           'offset_min_tolerance': case['mintol'], 'strict': bool(case['strict'])}
    return {'ref': ref, 'est': est, 'par': par, 'beta': beta, 'vtol': vtol, 'vel': vel}


def _tr_valid(T, TV, S):
    from harness.oracles import transcription as O
    for side in (S['ref'], S['est']):
        for n in side:
            if not (all(isinstance(x, (int, float)) and math.isfinite(x) for x in n) and n[2] > 0 and n[1] > n[0] >= 0):
                return False
    p = S['par']
    if not (p['onset_tolerance'] > 0 and p['pitch_tolerance'] > 0 and p['offset_min_tolerance'] > 0
            and (p['offset_ratio'] is None or p['offset_ratio'] > 0)):
        return False
    ri, rp, rv = O._arrays(S['ref'])
    ei, ep, ev = O._arrays(S['est'])
    if call(T.validate, ri, rp, ei, ep)[0] != 'ok':
        return False
    if S['vel'] and call(TV.validate, ri, rp, rv, ei, ep, ev)[0] != 'ok':
        return False
    return True


def _tr_crit(S):
    """distances occurring in the data, per parameter"""
    np = _np()
    on, off, rat, pit = set(), set(), set(), set()
    for r in S['ref']:
        for e in S['est']:
            on.add(float(np.around(abs(r[0] - e[0]), 4)))
            d = float(np.around(abs(r[1] - e[1]), 4))
            off.add(d)
            rat.add(d / abs(r[1] - r[0]))
            pit.add(abs(1200.0 * (math.log2(r[2]) - math.log2(e[2]))))
    return {'onset_tolerance': on, 'offset_min_tolerance': off, 'offset_ratio': rat, 'pitch_tolerance': pit}


def _tr_record(T, TV, ref, est, par, beta):
    """counts of the three matchers (+ notes without offsets) and the P/R/F triples, None where the call raised"""
    from harness.oracles import transcription as O
    rec = {}
    for name in O.MATCHERS:
        rec[name] = O._count(T, name, ref, est, par)
    rec['nooff'] = O._count(T, 'match_notes', ref, est, dict(par, offset_ratio=None))
    pb = dict(par, beta=beta)
    rec['prf'] = O.scores(T, TV, 'notes', ref, est, pb)
    rec['prf_nooff'] = O.scores(T, TV, 'notes', ref, est, dict(pb, offset_ratio=None))
    rec['onset'] = O.scores(T, TV, 'onset', ref, est, pb)
    rec['offset'] = O.scores(T, TV, 'offset', ref, est, pb) if par.get('offset_ratio') is not None else None
    return rec


TR_FN = {'prf': 'transcription.precision_recall_f1_overlap', 'prf_nooff': 'transcription.precision_recall_f1_overlap[offset_ratio=None]',
         'onset': 'transcription.onset_precision_recall_f1', 'offset': 'transcription.offset_precision_recall_f1'}


def _tr_pointwise(ctx, T, TV, S, par, rec):
    """relations that hold at one parameter setting: range (C01), nested criteria (C07), exchanged roles (C06)"""
    from harness.oracles import transcription as O
    ref, est, beta = S['ref'], S['est'], S['beta']
    inp = {'ref': ref, 'est': est, 'par': par, 'beta': beta}
    if beta > 0:
        for k, fn in TR_FN.items():
            s = rec[k]
            if s is not None:
                rel_range(ctx, fn, ('precision', 'recall', 'f_measure', 'average overlap ratio')[:len(s)], s, inp,
                          upper_only=('average overlap ratio',))
    a, b, c = rec['match_notes'], rec['nooff'], rec['match_note_onsets']
    if par['offset_ratio'] is not None and None not in (a, b, c) and not a <= b <= c:
        ctx.add('C07', 'transcription.match_notes', 'matched notes with offsets <= without offsets <= onset-only', inp, [a, b, c])
    if rec['prf'] is not None and rec['prf_nooff'] is not None and rec['onset'] is not None and par['offset_ratio'] is not None:
        for i, nm in enumerate(('precision', 'recall', 'f_measure')):
            x, y, z = rec['prf'][i], rec['prf_nooff'][i], rec['onset'][i]
            if not (x <= y + EPS and y <= z + EPS):
                ctx.add('C07', 'transcription.evaluate', '%s with offsets <= without offsets <= onset-only' % nm, inp, [x, y, z])
    # exchanged roles: onset-only and no-offset matching are symmetric criteria
    pb = dict(par, beta=beta)
    for k, which, p in (('onset', 'onset', pb), ('prf_nooff', 'notes', dict(pb, offset_ratio=None))):
        s = rec[k]
        if s is None:
            continue
        t = O.scores(T, TV, which, est, ref, p)
        if t is None:
            continue
        if not (close(s[0], t[1]) and close(s[1], t[0])):
            ctx.add('C06', TR_FN[k], 'swapping reference and estimate exchanges precision and recall', inp, {'fwd': list(s), 'swapped': list(t)})
        elif beta == 1.0 and not close(s[2], t[2]):
            ctx.add('C06', TR_FN[k], 'swapping reference and estimate keeps F (beta = 1)', inp, {'fwd': list(s), 'swapped': list(t)})


def probe_transcription(ctx, S):
    from mir_eval import transcription as T, transcription_velocity as TV
    from harness.oracles import transcription as O
    if S is None or not _tr_valid(T, TV, S):
        return
    ref, est, par, beta = S['ref'], S['est'], S['par'], S['beta']
    base = _tr_record(T, TV, ref, est, par, beta)
    inp0 = {'ref': ref, 'est': est, 'par': par, 'beta': beta}
    _tr_pointwise(ctx, T, TV, S, par, base)
    # C05 at the point
    for name in O.MATCHERS:
        ctx.take(O.check_matching(T, name, ref, est, par))
    # strict is the stronger criterion
    for name in O.MATCHERS + ('nooff',):
        nm, p0 = ('match_notes', dict(par, offset_ratio=None)) if name == 'nooff' else (name, par)
        a, b = O._count(T, nm, ref, est, dict(p0, strict=True)), O._count(T, nm, ref, est, dict(p0, strict=False))
        if a is not None and b is not None and a > b:
            ctx.add('C07', 'transcription.' + nm, 'strict=True matches <= strict=False matches', inp0, [a, b])
    # C02: each side against a copy of itself
    for side, notes in (('ref', ref), ('est', est)):
        if not notes:
            continue
        cp = [list(n) for n in notes]
        pb = dict(par, beta=beta)
        for k, which, p in (('onset', 'onset', pb), ('offset', 'offset', pb), ('prf', 'notes', pb), ('prf_nooff', 'notes', dict(pb, offset_ratio=None))):
            if which == 'offset' and par['offset_ratio'] is None:
                continue
            s = O.scores(T, TV, which, notes, cp, p)
            if s is None:
                continue
            if beta > 0 and any(abs(x - 1.0) > EPS for x in s[:3]):
                ctx.add('C02', TR_FN[k], 'perfect estimate (est = ref) scores precision = recall = F = 1', {'notes': notes, 'par': p}, list(s))
            elif len(s) == 4 and abs(s[3] - 1.0) > EPS:
                ctx.add('C02', 'transcription.precision_recall_f1_overlap', 'perfect estimate: est = ref has average overlap ratio 1',
                        {'notes': notes, 'par': p}, list(s))
    # C07 ladders: one tolerance at a time, the others fixed; then all together
    crit = _tr_crit(S)
    lads = []
    for k in PAR_KEYS:
        v = par[k]
        if v is None:
            continue
        lads.append((k, [dict(par, **{k: x}) for x in ladder(v, PAR_TYPICAL[k], crit[k])], lambda p, k=k: p[k]))
    joint = []
    for m in (0.25, 0.5, 0.75, 1.0, 1.5, 2.0, 4.0):
        q = dict(par)
        for k in PAR_KEYS:
            if q[k] is not None:
                q[k] = q[k] * m
        joint.append((m, q))
    lads.append(('all tolerances (common factor)', [q for _, q in joint], None))
    names = ['match_note_onsets', 'match_note_offsets', 'match_notes', 'nooff']
    for k, settings, getp in lads:
        if ctx.over():
            break
        pts_c, pts_s = [], {'prf': [], 'prf_nooff': [], 'onset': [], 'offset': []}
        for i, q in enumerate(settings):
            rec = _tr_record(T, TV, ref, est, q, beta)
            x = getp(q) if getp else joint[i][0]
            pts_c.append((x, [rec[n] for n in names] if None not in [rec[n] for n in names] else None))
            for kk in pts_s:
                pts_s[kk].append((x, list(rec[kk][:3]) if rec[kk] is not None else None))
            _tr_pointwise(ctx, T, TV, S, q, rec)
            if k in ('offset_min_tolerance', 'offset_ratio', 'onset_tolerance') and i % 2 == 0:
                for name in O.MATCHERS:
                    ctx.take(O.check_matching(T, name, ref, est, q))
        rel_mono(ctx, 'transcription.match_notes', '', k, pts_c,
                 ['matched onsets', 'matched offsets', 'matched notes', 'matched notes (no offsets)'], {'ref': ref, 'est': est, 'par': par})
        if beta > 0:
            for kk, pts in pts_s.items():
                rel_mono(ctx, TR_FN[kk], '', k, pts, ['precision', 'recall', 'f_measure'], {'ref': ref, 'est': est, 'par': par, 'beta': beta})
    # velocity: subset of the plain matching, monotone in the velocity tolerance
    if S['vel'] and ref and est:
        ri, rp, rv = O._arrays(ref)
        ei, ep, ev = O._arrays(est)
        mp = call(T.match_notes, ri, rp, ei, ep, **par)
        prev = None
        for vt in ladder(S['vtol'], (0.05, 0.1, 0.2, 0.5)):
            mv = call(TV.match_notes, ri, rp, rv, ei, ep, ev, velocity_tolerance=vt, **par)
            if mv[0] != 'ok' or mp[0] != 'ok':
                prev = None
                continue
            sv, sp = set((int(a), int(b)) for a, b in mv[1]), set((int(a), int(b)) for a, b in mp[1])
            if not sv <= sp:
                ctx.add('C07', 'transcription_velocity.match_notes', 'matches with velocity are a subset of the plain matches',
                        dict(inp0, velocity_tolerance=vt), [sorted(sv), sorted(sp)])
            if prev is not None and len(sv) < prev[1]:
                ctx.add('C07', 'transcription_velocity.match_notes', 'widening velocity_tolerance never lowers the number of matched notes',
                        dict(inp0, velocity_tolerance=[prev[0], vt]), [prev[1], len(sv)])
            prev = (vt, len(sv))
    # C08: exact time shifts, reordering of the notes
    times = [t for n in ref + est for t in n[:2]]
    pb = dict(par, beta=beta)

    def compare(r2, e2, what, extra):
        for k, which, p in (('onset', 'onset', pb), ('offset', 'offset', pb), ('prf', 'notes', pb), ('prf_nooff', 'notes', dict(pb, offset_ratio=None))):
            if which == 'offset' and par['offset_ratio'] is None:
                continue
            a = base[k] if k in base else None
            b = O.scores(T, TV, which, r2, e2, p)
            if a is None or b is None:
                continue
            if not allclose(a[:3], b[:3]):
                ctx.add('C08', TR_FN[k], what, dict(inp0, **extra), {'orig': list(a[:3]), 'changed': list(b[:3])})
    for s in (1.0, 0.25, 1 / 64., 7 / 64., 45 / 64., 16.0, 100.015625):
        if exact_add(times, s):
            compare([[n[0] + s, n[1] + s] + n[2:] for n in ref], [[n[0] + s, n[1] + s] + n[2:] for n in est],
                    'adding the same offset to all times leaves precision, recall and F unchanged', {'shift': s})
    for pr in perms(len(ref), ctx.rng) or [list(range(len(ref)))]:
        for pe in perms(len(est), ctx.rng) or [list(range(len(est)))]:
            compare([ref[i] for i in pr], [est[j] for j in pe], 'reordering the notes leaves precision, recall and F unchanged',
                    {'perm_ref': pr, 'perm_est': pe})
    # C09: whole octaves
    for k in (1, -1, 2):
        ctx.take(O.check_pitch_scale(T, TV, ref, est, par, k))


# ======================================================================================================================
# multipitch  (unit multipitch_metrics; 'tp' cases are lifted to metrics() inputs)
# ======================================================================================================================
MP_NAMES = ['Precision', 'Recall', 'Accuracy', 'Substitution Error', 'Miss Error', 'False Alarm Error', 'Total Error',
            'Chroma Precision', 'Chroma Recall', 'Chroma Accuracy', 'Chroma Substitution Error', 'Chroma Miss Error',
            'Chroma False Alarm Error', 'Chroma Total Error']


def _mp_call(mp, rt, RF, et, EF, w):
    np = _np()
    kw = {} if w is None else {'window': w}
    r = call(mp.metrics, np.array(rt, dtype=float), [np.array(f, dtype=float) for f in RF], np.array(et, dtype=float),
             [np.array(f, dtype=float) for f in EF], **kw)
    if r[0] != 'ok':
        return None
    v = vec(r[1])
    return v if len(v) == 14 else None


def _mp_inp(rt, RF, et, EF, w):
    return {'ref_time': list(rt), 'ref_freqs': [list(f) for f in RF], 'est_time': list(et), 'est_freqs': [list(f) for f in EF], 'window': w}


def _mp_subject(case):
    """-> (ref_time, ref_freqs, est_time, est_freqs, window) with plain lists, or None"""
    k = case.get('kind')
    if k in ('metrics', 'evaluate'):
        return (list(case['ref_time']), [list(f) for f in case['ref_freqs']], list(case['est_time']), [list(f) for f in case['est_freqs']],
                case['window'])
    if k == 'tp':
        # MIDI frames -> Hz frames on a common time base; whole octaves are added so that every pitch is inside (20 Hz, 5000 Hz)
        R = [[x for x in f if x is not None] for f in case['ref']]
        E = [[x for x in f if x is not None] for f in case['est']]
        n = min(len(R), len(E))
        R, E = R[:n], E[:n]
        vals = [x for f in R + E for x in f]
        if not vals or n == 0:
            return None
        for o in (0, 12, 24, 36, 48, 60, 72, -12, -24):
            if min(vals) + o >= 17 and max(vals) + o <= 110:
                hz = lambda m: 440.0 * 2.0 ** ((m + o - 69.0) / 12.0)
                return ([0.25 * i for i in range(n)], [[hz(x) for x in f] for f in R], [0.25 * i for i in range(n)],
                        [[hz(x) for x in f] for f in E], case['window'])
    return None


def _mp_midi(mp, F):
    np = _np()
    r = call(mp.frequencies_to_midi, [np.array(f, dtype=float) for f in F])
    return [[float(x) for x in f] for f in r[1]] if r[0] == 'ok' else None


def _circ(a, b):
    d = abs(a - b) % 12.0
    return min(d, 12.0 - d)


def _mp_near_threshold(mp, RF, EF, w, margin=1e-6, cross=True):
    """some raw or chroma distance between a reference pitch and an estimated pitch is within `margin` of the window (log2 /
    mod rounding could decide the comparison).  cross=True compares the pitches of ALL frames with each other, which covers
    whatever frame pairing the resampling produces."""
    if EF is None:
        return True
    rm, em = _mp_midi(mp, RF), _mp_midi(mp, EF)
    if rm is None or em is None:
        return True
    if cross:
        pairs = [([a for f in rm for a in f], [b for f in em for b in f])]
    else:
        pairs = list(zip(rm, em))
    for fr, fe in pairs:
        for a in fr:
            for b in fe:
                if abs(abs(a - b) - w) < margin or abs(_circ(a, b) - w) < margin:
                    return True
    return False


def _kuhn(n, m, ok):
    mate = [-1] * m

    def aug(i, seen):
        for j in range(m):
            if ok(i, j) and j not in seen:
                seen.add(j)
                if mate[j] < 0 or aug(mate[j], seen):
                    mate[j] = i
                    return True
        return False
    return sum(1 for i in range(n) if aug(i, set()))


def _mp_frame_checks(ctx, mp, RF, EF, w, inp):
    """C04 / C05: the per-frame true positive counts are sizes of maximum matchings of the stated (linear / circular) tolerance"""
    np = _np()
    rm, em = _mp_midi(mp, RF), _mp_midi(mp, EF)
    if rm is None or em is None or len(rm) != len(em) or _mp_near_threshold(mp, RF, EF, w, 1e-9, cross=False):
        return
    A = lambda F: [np.array(f, dtype=float) for f in F]
    tp = call(mp.compute_num_true_positives, A(rm), A(em), window=w)
    tc = call(lambda: mp.compute_num_true_positives(mp.midi_to_chroma(A(rm)), mp.midi_to_chroma(A(em)), window=w, chroma=True))
    for k, (fr, fe) in enumerate(zip(rm, em)):
        if len(fr) > 8 or len(fe) > 8:
            continue
        want = _kuhn(len(fr), len(fe), lambda i, j: abs(fr[i] - fe[j]) <= w)
        wantc = _kuhn(len(fr), len(fe), lambda i, j: _circ(fr[i], fe[j]) <= w)
        if tp[0] == 'ok' and int(tp[1][k]) != want:
            ctx.add('C04', 'multipitch.compute_num_true_positives', 'true positives of a frame equal the value prescribed by the definition (largest pairing inside the tolerance)',
                    dict(inp, frame=k), int(tp[1][k]), 'expected %d' % want)
            ctx.add('C05', 'multipitch.compute_num_true_positives', 'true positives of a frame = size of a maximum one-to-one matching within the window',
                    dict(inp, frame=k), int(tp[1][k]), 'expected %d' % want)
        if tc[0] == 'ok' and int(tc[1][k]) != wantc:
            ctx.add('C04', 'multipitch.compute_num_true_positives[chroma]', 'chroma true positives of a frame equal the value prescribed by the definition (largest pairing inside the circular mod-12 tolerance)',
                    dict(inp, frame=k), int(tc[1][k]), 'expected %d' % wantc)
            ctx.add('C05', 'multipitch.compute_num_true_positives[chroma]', 'chroma true positives of a frame = size of a maximum one-to-one matching under the circular (mod 12) tolerance',
                    dict(inp, frame=k), int(tc[1][k]), 'expected %d' % wantc)


def _mp_resampled(mp, rt, et, EF):
    """the estimate frames metrics() compares with the reference frames when the time bases differ"""
    np = _np()
    r = call(mp.resample_multipitch, np.array(et, dtype=float), [np.array(f, dtype=float) for f in EF], np.array(rt, dtype=float))
    return [[float(x) for x in f] for f in r[1]] if r[0] == 'ok' else None


def _mp_same_timebase(rt, et):
    return list(rt) == list(et)


def _mp_at_window(ctx, mp, rt, RF, et, EF, w, sc):
    """relations at one window on one input: range (C01), accounting (C18), raw <= chroma (C07), exchanged roles (C06)"""
    from harness.oracles import multipitch as O
    inp = _mp_inp(rt, RF, et, EF, w)
    rel_range(ctx, 'multipitch.metrics', MP_NAMES, sc, inp, nonneg=[n for n in MP_NAMES if 'Error' in n])
    ctx.take(O._scores_relations('multipitch.metrics', inp, sc))
    if _mp_near_threshold(mp, RF, EF, 0.5 if w is None else w, 1e-9):
        return        # a pitch distance within rounding error of the window: the linear and the circular distance may round differently
    for i in (0, 1, 2):
        if sc[i] > sc[i + 7] + EPS:
            ctx.add('C07', 'multipitch.metrics', 'chroma criterion is looser: %s <= Chroma %s (never lowers)' % (MP_NAMES[i], MP_NAMES[i]), inp, [sc[i], sc[i + 7]])
    if _mp_same_timebase(rt, et) or _mp_noise_equal(rt, et):
        sw = _mp_call(mp, et, EF, rt, RF, w)
        if sw is not None:
            for b in (0, 7):
                if not (close(sc[b], sw[b + 1]) and close(sc[b + 1], sw[b]) and close(sc[b + 2], sw[b + 2])):
                    ctx.add('C06', 'multipitch.metrics', 'swapping reference and estimate exchanges %sprecision and recall and keeps accuracy' % ('chroma ' if b else ''),
                            inp, {'fwd': sc[b:b + 3], 'swapped': sw[b:b + 3]})


def _mp_noise_equal(rt, et):
    """the two time bases agree up to floating-point noise (a few ulp): far inside the np.allclose band metrics() uses"""
    return len(rt) == len(et) and all(abs(a - b) <= 8 * 2.0 ** -52 * max(abs(a), abs(b), 1e-300) for a, b in zip(rt, et))


def _mp_windows(mp, RF, EF, w0):
    rm, em = _mp_midi(mp, RF), _mp_midi(mp, EF)
    crit = set()
    if rm and em:
        for fr, fe in zip(rm, em):
            for a in fr:
                for b in fe:
                    crit.add(abs(a - b))
                    crit.add(_circ(a, b))
    return ladder(w0, (0.1, 0.25, 0.5, 1.0, 2.0), crit)


def _mp_variants(ctx, mp, rt, RF, et, EF, w0):
    """inputs derived from the subject: (tag, rt, RF, et, EF)"""
    np = _np()
    out = [('the input itself', rt, RF, et, EF)]
    out.append(('frequencies of every frame listed in reversed order', rt, [f[::-1] for f in RF], et, [f[::-1] for f in EF]))
    out.append(('reference frames listed high to low', rt, [sorted(f, reverse=True) for f in RF], et, EF))
    # estimates added next to ONE reference pitch of each frame (two close estimates competing for one reference pitch)
    if _mp_same_timebase(rt, et):
        nmax = max([len(f) for f in RF] + [0])
        for j in range(min(nmax, 4)):
            for d in (0.0, 0.6 * w0, -0.6 * w0):
                add = [[f[j % len(f)] * 2.0 ** (d / 12.0)] * 2 if f else [] for f in RF]
                E2 = [[x for x in list(e) + a if 20.5 <= x <= 4990.0] for e, a in zip(EF, add)]
                for RR, tag in ((RF, ''), ([sorted(f, reverse=True) for f in RF], ', reference frames listed high to low')):
                    out.append(('two estimates %+.2f semitones from reference pitch %d of each frame added%s' % (d, j, tag), rt, RR, et, E2))
    # the same time base up to one ulp at an end point
    if _mp_same_timebase(rt, et) and len(rt) >= 1:
        for side in ('est', 'ref'):
            for end in (0, -1):
                t2 = list(rt)
                t2[end] = float(np.nextafter(t2[end], -np.inf if end == 0 else np.inf))
                if t2[end] < 0 or (len(t2) > 1 and not all(a < b for a, b in zip(t2, t2[1:]))):
                    continue
                tag = 'time stamp %d of the %s moved by one ulp' % (end, 'estimate' if side == 'est' else 'reference')
                out.append((tag, rt, RF, t2, EF) if side == 'est' else (tag, t2, RF, et, EF))
    return out


def _mp_fill(RF, EF):
    """canonical content for an input whose frames are (almost) empty: frame i gets distinct pitches, estimate = reference + one extra"""
    if sum(len(f) for f in RF) + sum(len(f) for f in EF) > 0:
        return None
    hz = lambda m: 440.0 * 2.0 ** ((m - 69.0) / 12.0)
    R = [[hz(48 + 2 * i), hz(55 + 2 * i)] for i in range(len(RF))]
    E = [[hz(48 + 2 * (i % max(1, len(RF)))), hz(70 + i)] for i in range(len(EF))]
    return R, E


def probe_multipitch(ctx, S):
    from mir_eval import multipitch as mp
    from harness.oracles import multipitch as O
    if S is None:
        return
    rt, RF, et, EF, w = S
    if len(rt) != len(RF) or len(et) != len(EF):
        return
    if any((not isinstance(x, (int, float))) or not (x != 0 and math.isfinite(x)) for f in RF + EF for x in f):
        return
    if w is not None and not (w > 0):
        return
    if _mp_call(mp, rt, RF, et, EF, w) is None:
        return
    w0 = 0.5 if w is None else w
    subjects = []
    if all(x > 0 for f in RF + EF for x in f):
        subjects.append((rt, RF, et, EF))
    else:
        # negative frequencies pass validate() but are outside the properties (known finding C18): the derived input |f| is probed
        RF, EF = [[abs(x) for x in f] for f in RF], [[abs(x) for x in f] for f in EF]
        subjects.append((rt, RF, et, EF))
    fill = _mp_fill(RF, EF)
    if fill is not None and len(rt) and len(et):
        RF, EF = fill
        subjects.append((rt, RF, et, EF))
    if len(rt) == len(et) and not _mp_same_timebase(rt, et):
        subjects.append((rt, RF, list(rt), EF))      # the same content on a common time base
    for (rt, RF, et, EF) in subjects:
        base = _mp_call(mp, rt, RF, et, EF, w)
        if base is None:
            continue
        variants = _mp_variants(ctx, mp, rt, RF, et, EF, w0)
        for vi, (tag, vrt, VRF, vet, VEF) in enumerate(variants):
            if ctx.over():
                return
            b = _mp_call(mp, vrt, VRF, vet, VEF, w)
            if b is None:
                continue
            inp = _mp_inp(vrt, VRF, vet, VEF, w)
            # C08: the order of the frequencies inside a frame carries no meaning
            if vi in (1, 2) and not allclose(base, b):
                ctx.add('C08', 'multipitch.metrics', 'permuting the frequencies within each frame leaves every score unchanged',
                        dict(_mp_inp(rt, RF, et, EF, w), permuted_ref_freqs=[list(f) for f in VRF], permuted_est_freqs=[list(f) for f in VEF]),
                        {'orig': base, 'permuted': b})
            wins = _mp_windows(mp, VRF, VEF, w0) if vi < 3 else [w0]
            pts = []
            for x in wins:
                sc = b if (x == w0 and w is not None) else _mp_call(mp, vrt, VRF, vet, VEF, x)
                pts.append((x, sc))
                if sc is not None:
                    _mp_at_window(ctx, mp, vrt, VRF, vet, VEF, x, sc)
            if w is None:
                _mp_at_window(ctx, mp, vrt, VRF, vet, VEF, None, b)
            names = [n if i in (0, 1, 2, 7, 8, 9) else None for i, n in enumerate(MP_NAMES)]
            rel_mono(ctx, 'multipitch.metrics', '', 'window', pts, names, _mp_inp(vrt, VRF, vet, VEF, None))
            if vi < 3:
                _mp_frame_checks(ctx, mp, VRF if _mp_same_timebase(vrt, vet) else [], VEF if _mp_same_timebase(vrt, vet) else [], w0, inp)
        if ctx.over():
            return
        # the existing C18 / C04 pipeline oracle at the point (valid input)
        if all(a < b for a, b in zip(rt, rt[1:])) and all(a < b for a, b in zip(et, et[1:])):
            ctx.take(O.check_metrics(mp, rt, RF, et, EF, window=w))     # (its nearest-frame rule is stated for strictly increasing times)
        # C02: each side against a copy of itself
        for side, (t, F) in (('reference', (rt, RF)), ('estimate', (et, EF))):
            if sum(len(f) for f in F) == 0:
                continue
            s = _mp_call(mp, t, F, list(t), [list(f) for f in F], w)
            if s is None:
                continue
            for i, nm in enumerate(MP_NAMES):
                want = 0.0 if 'Error' in nm else 1.0
                if not close(s[i], want):
                    ctx.add('C02', 'multipitch.metrics', 'perfect estimate: %s = %g' % (nm, want), {'time': list(t), 'freqs': [list(f) for f in F], 'window': w}, s[i])
        # C08: exact time shifts (only where metrics()'s "same time base" decision cannot change with the magnitude of the times)
        ident = _mp_same_timebase(rt, et)
        for s in (1.0, 0.25, 1 / 64., 7 / 64., 45 / 64., 100.015625):
            if not exact_add(list(rt) + list(et), s) or max(list(rt) + list(et) + [0]) + s > 29000:
                continue
            if not ident:
                if len(rt) == len(et):
                    dmax = max(abs(a - b) for a, b in zip(rt, et)) if rt else 0.0
                    tmax = max(abs(x) for x in rt) + s if rt else s
                    if dmax <= 2 * (1e-8 + 1e-5 * tmax):
                        continue
            sh = _mp_call(mp, [t + s for t in rt], RF, [t + s for t in et], EF, w)
            if sh is not None and not allclose(base, sh):
                ctx.add('C08', 'multipitch.metrics', 'adding the same offset to all times leaves every score unchanged',
                        dict(_mp_inp(rt, RF, et, EF, w), shift=s), {'orig': base, 'shifted': sh})
        # C09: whole octaves on the estimate keep the chroma scores; a common factor keeps everything (inputs on which log2
        # rounding could decide a comparison are skipped).  Also on the estimate detuned by a fraction of the window.
        hz_ok = lambda F: all(20.5 <= x <= 4990 for fr in F for x in fr)
        for dt in (0.0, 0.6 * w0, -0.6 * w0):
            if ctx.over():
                return
            ED = [[x * 2.0 ** (dt / 12.0) for x in fr] for fr in EF]
            if not hz_ok(ED) or _mp_near_threshold(mp, RF, ED, w0):
                continue
            b0 = _mp_call(mp, rt, RF, et, ED, w)
            if b0 is None:
                continue
            for k in (1, -1, 2):
                E2 = [[x * 2.0 ** k for x in fr] for fr in ED]
                if hz_ok(E2) and not _mp_near_threshold(mp, RF, E2, w0):
                    o = _mp_call(mp, rt, RF, et, E2, w)
                    if o is not None and not allclose(b0[7:], o[7:]):
                        ctx.add('C09', 'multipitch.metrics', 'shifting the estimate by whole octaves leaves the chroma scores unchanged',
                                dict(_mp_inp(rt, RF, et, ED, w), octaves=k), {'orig': b0[7:], 'shifted': o[7:]})
            for st in [12.0, -12.0, 24.0] + [0.5 * i for i in range(1, 24)] + [-0.5 * i for i in range(1, 24)]:
                f = 2.0 ** (st / 12.0)
                R2, E2 = [[x * f for x in fr] for fr in RF], [[x * f for x in fr] for fr in ED]
                if not (hz_ok(R2) and hz_ok(E2)) or _mp_near_threshold(mp, R2, E2, w0):
                    continue
                o = _mp_call(mp, rt, R2, et, E2, w)
                if o is not None and not allclose(b0, o):
                    ctx.add('C09', 'multipitch.metrics', 'transposing reference and estimate together (multiplying all frequencies by one factor) leaves every score unchanged',
                            dict(_mp_inp(rt, RF, et, ED, w), semitones=st), {'orig': b0, 'transposed': o})
                if _mp_same_timebase(rt, et):
                    _mp_frame_checks(ctx, mp, R2, E2, w0, _mp_inp(rt, R2, et, E2, w0))


# ======================================================================================================================
# hit-based event metrics: beat.f_measure, onset.f_measure, segment.detection, segment.deviation  (units event_metrics, match_events)
# ======================================================================================================================
EV_FN = {'beat': 'beat.f_measure', 'onset': 'onset.f_measure', 'detection': 'segment.detection', 'detection_trim': 'segment.detection'}
SHIFTS = (1.0, 0.25, 1 / 32., 7 / 32., 45 / 64., 50 / 64., 3 / 64., 16.0, 100.015625)


def _ev_call(M, kind, ref, est, w, beta=1.0):
    """(P, R, F) (P, R None for beat) or None when the call raises"""
    from harness.oracles import events as O
    f = O._metric(M, kind)
    r = call(f, ref, est, w, beta) if kind.startswith('detection') else call(f, ref, est, w)
    return tuple(r[1]) if r[0] == 'ok' else None


def _ev_inp(kind, ref, est, w, beta):
    d = {'kind': kind, 'ref': [list(x) if isinstance(x, (list, tuple)) else x for x in ref],
         'est': [list(x) if isinstance(x, (list, tuple)) else x for x in est], 'window': w}
    if kind.startswith('detection'):
        d['beta'] = beta
    return d


def _round5_id(vals):
    np = _np()
    return all(float(np.round(v, 5)) == v for v in vals)


def _dyadic(vals):
    """all values are multiples of 2**-10 below 2**20: sums and differences of two of them are exact in binary64"""
    return all(abs(v) < 2.0 ** 20 and v * 1024.0 == math.floor(v * 1024.0) for v in vals)


def _ev_near(ds, w, vals):
    """some distance is within 1e-9 of the window and the arithmetic deciding `|ref - est| <= w` is not exact: est - w and
    est + w round, so exchanging the roles (or moving the time origin) may decide such a pair differently"""
    if _dyadic(list(vals) + [w]):
        return False
    return any(abs(d - w) < 1e-9 for d in ds)


def probe_events(ctx, kind, ref, est, w, beta=1.0):
    """kind in beat | onset | detection | detection_trim; ref / est: event times or interval rows (floats)"""
    import mir_eval as M
    from harness.oracles import events as O
    fn = EV_FN[kind]
    if not (w >= 0 and beta > 0):
        return
    base = _ev_call(M, kind, ref, est, w, beta)
    if base is None:
        return
    flat = lambda x: [t for r in x for t in (r if isinstance(r, (list, tuple)) else [r])]
    names = ('precision', 'recall', 'f_measure')
    ds = O._distances(M, kind, ref, est)
    wins = ladder(w, (0.0, 0.05, 0.07, 0.5, 3.0), ds)
    pts = []
    for x in wins:
        if ctx.over():
            return
        sc = base if x == w else _ev_call(M, kind, ref, est, x, beta)
        pts.append((x, [v if v is not None else 0.0 for v in sc] if sc is not None else None))
        if sc is None:
            continue
        inp = _ev_inp(kind, ref, est, x, beta)
        rel_range(ctx, fn, [n for n, v in zip(names, sc) if v is not None], [v for v in sc if v is not None], inp)
        sw = _ev_call(M, kind, est, ref, x, beta) if not _ev_near(ds, x, flat(ref) + flat(est)) else None
        if sw is not None:
            if sc[0] is not None and not (close(sc[0], sw[1]) and close(sc[1], sw[0])):
                ctx.add('C06', fn, 'swapping reference and estimate exchanges precision and recall', inp, {'fwd': list(sc), 'swapped': list(sw)})
            elif beta == 1.0 and not close(sc[2], sw[2]):
                ctx.add('C06', fn, 'swapping reference and estimate keeps F (beta = 1)', inp, {'fwd': list(sc), 'swapped': list(sw)})
    rel_mono(ctx, fn, '', 'window', pts, [n if base[i] is not None else None for i, n in enumerate(names)], _ev_inp(kind, ref, est, None, beta))
    # beta in a neighbourhood (C01: F stays between P and R, hence in [0, 1], for every beta > 0)
    if kind.startswith('detection'):
        for b in ladder(beta, (0.25, 0.5, 0.58, 1.0, 1.7, 2.0)):
            for x in (w, ds[-1] if ds else w):
                sc = _ev_call(M, kind, ref, est, x, b)
                if sc is not None:
                    rel_range(ctx, fn, names, sc, _ev_inp(kind, ref, est, x, b))
    # C02: each side against a copy of itself
    for side in (ref, est):
        n = O._n_items(M, kind, side)
        if n == 0:
            continue
        cp = [list(r) if isinstance(r, (list, tuple)) else r for r in side]
        for b in ((beta, 1.0) if kind.startswith('detection') else (1.0,)):
            sc = _ev_call(M, kind, side, cp, w, b)
            if sc is not None and any(v is not None and not close(v, 1.0) for v in sc):
                ctx.add('C02', fn, 'perfect estimate (a copy of the annotation) scores precision = recall = F = 1', _ev_inp(kind, side, cp, w, b), list(sc))
    # C08: exact shifts (interval times must stay fixed points of the 5-decimal rounding of the boundaries), row order
    vals = flat(ref) + flat(est)
    ivl = kind.startswith('detection')
    for s in SHIFTS:
        if not exact_add(vals, s) or (ivl and not (_round5_id(vals) and _round5_id([v + s for v in vals]))) or _ev_near(ds, w, vals + [s]):
            continue
        sh = (lambda x: [[a + s, b + s] for a, b in x]) if ivl else (lambda x: [v + s for v in x])
        sc = _ev_call(M, kind, sh(ref), sh(est), w, beta)
        if sc is not None and not allclose([v for v in base if v is not None], [v for v in sc if v is not None]):
            ctx.add('C08', fn, 'adding the same offset to all times leaves the scores unchanged', dict(_ev_inp(kind, ref, est, w, beta), shift=s),
                    {'orig': list(base), 'shifted': list(sc)})
    if ivl:
        for pr in perms(len(ref), ctx.rng) or [list(range(len(ref)))]:
            for pe in perms(len(est), ctx.rng) or [list(range(len(est)))]:
                sc = _ev_call(M, kind, [ref[i] for i in pr], [est[j] for j in pe], w, beta)
                if sc is not None and not allclose(base, sc):
                    ctx.add('C08', fn, 'reordering the interval rows leaves the scores unchanged',
                            dict(_ev_inp(kind, ref, est, w, beta), perm_ref=pr, perm_est=pe), {'orig': list(base), 'permuted': list(sc)})


def probe_deviation(ctx, ref, est, trim):
    import mir_eval as M
    from harness.oracles import events as O
    vals = [t for r in ref + est for t in r]
    pr, pe = list(range(len(ref)))[::-1], list(range(len(est)))[::-1]
    ctx.take(O.check_deviation(M, ref, est, trim=trim, shift=1.0, perm_ref=pr, perm_est=pe))
    for s in SHIFTS[1:]:
        if exact_add(vals, s) and _round5_id(vals) and _round5_id([v + s for v in vals]):
            ctx.take(O.check_deviation(M, ref, est, trim=trim, shift=s))


def probe_match_events(ctx, ref, est, w, wm):
    """util.match_events on (possibly unsorted) values: C05; the sorted values as onset / beat annotations"""
    import mir_eval as M
    from harness.oracles import events as O
    ctx.take(O.check_match_events(M, ref, est, w))
    ctx.take(O.check_match_events(M, ref, est, wm, M.util._outer_distance_mod_n))
    for pr in perms(len(ref), ctx.rng):
        for pe in perms(len(est), ctx.rng) or [list(range(len(est)))]:
            ctx.take(O.check_match_events_order(M, ref, est, w, pr, pe))
    if all(v >= 0 for v in ref + est):
        for kind in ('onset', 'beat'):
            probe_events(ctx, kind, sorted(ref), sorted(est), w)


# ======================================================================================================================
# beat  (units beat_q, beat_ig)
# ======================================================================================================================
def _beat_valid(l):
    return all(isinstance(x, (int, float)) and math.isfinite(x) and 0 <= x <= 30000.0 for x in l) and all(a <= b for a, b in zip(l, l[1:]))


def _beat_one(ctx, B, ref, est, P):
    """all relations at one (ref, est) and one parameter setting P"""
    from harness.oracles import beat as O
    np = _np()
    r, e = np.array(ref, dtype=float), np.array(est, dtype=float)
    inp = {'ref': ref, 'est': est}
    # goto: binary
    ctx.take(O.check_goto(B, ref, est, P['gthr'], P['gmu'], P['gsig']) if 0 <= P['gthr'] < 1 else None)
    # continuity: range and nested levels
    for ph, pe in ((P['cph'], P['cpe']), (0.175, 0.175)):
        c = call(B.continuity, r, e, continuity_phase_threshold=ph, continuity_period_threshold=pe)
        if c[0] != 'ok':
            continue
        a, b, cc, d = vec(c[1])
        ci = dict(inp, continuity_phase_threshold=ph, continuity_period_threshold=pe)
        rel_range(ctx, 'beat.continuity', ('CMLc', 'CMLt', 'AMLc', 'AMLt'), (a, b, cc, d), ci)
        if a > cc + EPS or b > d + EPS:
            ctx.add('C07', 'beat.continuity', 'allowing other metrical levels never lowers the score: CMLc <= AMLc and CMLt <= AMLt', ci, [a, b, cc, d])
        if a > b + EPS or cc > d + EPS:
            ctx.add('C07', 'beat.continuity', 'dropping the continuity requirement never lowers the score: CMLc <= CMLt and AMLc <= AMLt', ci, [a, b, cc, d])
    # cemgil: the existing oracle separates the listed counterexamples ('known:') from violations
    for sg in (P['csig'], 0.04):
        m = call(B.cemgil, r, e, cemgil_sigma=sg)
        if m[0] == 'ok' and ref and est:
            x, y = vec(m[1])
            if x > y + EPS:
                ctx.add('C07', 'beat.cemgil', 'taking the best metrical level never lowers the score: Cemgil <= Cemgil best metric level', dict(inp, cemgil_sigma=sg), [x, y])
        ctx.take([f for f in (O.check_cemgil(B, ref, est, sg) or []) if 'sum of Gaussians' not in f['relation']] if sg > 0 else None)
    # p_score
    if ref and est and max(ref + est) - min(ref + est) <= 120.0 and P['pthr'] > 0:
        ctx.take(O.check_pscore(B, ref, est, P['pthr']))
    # information gain
    ctx.take(O.check_infogain(B, ref, est, 41))


def probe_beat(ctx, ref, est, P):
    from mir_eval import beat as B
    from harness.oracles import beat as O
    np = _np()
    if not (_beat_valid(ref) and _beat_valid(est)):
        return
    variants = [(ref, est)]
    for i in range(len(est)):
        if len(variants) < 14:
            variants.append((ref, est[:i] + est[i + 1:]))
    for i in range(len(ref)):
        if len(variants) < 26:
            variants.append((ref[:i] + ref[i + 1:], est))
    for (r, e) in variants:
        if ctx.over():
            return
        _beat_one(ctx, B, r, e, P)
    # f_measure as a hit-based metric (window ladder, swap, self, shift)
    probe_events(ctx, 'beat', ref, est, 0.07)
    # C02: each side against itself
    for side in (ref, est):
        if side and side[-1] - side[0] <= 120.0:          # (p_score builds 10 ms impulse trains over the whole span)
            ctx.take(O.check_self(B, side))
        ctx.take(O.check_infogain(B, side, list(side), 41))
    # C08: exact shifts, with the parameters of the case and with the defaults; p_score also over a ladder of thresholds
    vals = ref + est
    fns = [('goto', B.goto, {'goto_threshold': P['gthr'], 'goto_mu': P['gmu'], 'goto_sigma': P['gsig']}), ('goto', B.goto, {}),
           ('continuity', B.continuity, {'continuity_phase_threshold': P['cph'], 'continuity_period_threshold': P['cpe']}), ('continuity', B.continuity, {}),
           ('cemgil', B.cemgil, {'cemgil_sigma': P['csig']}), ('information_gain', B.information_gain, {}), ('f_measure', B.f_measure, {})]
    if ref and est and max(vals) - min(vals) <= 120.0:
        for thr in ladder(P['pthr'], (0.1, 0.2, 0.25, 0.5, 0.75, 1.0), lo=1e-6):
            fns.append(('p_score', B.p_score, {'p_score_threshold': thr}))
    r0, e0 = np.array(ref, dtype=float), np.array(est, dtype=float)
    bases = [call(fn, r0, e0, **kw) for _, fn, kw in fns]
    for s in SHIFTS:
        if ctx.over():
            return
        if not exact_add(vals, s) or (vals and max(vals) + s > 30000.0):
            continue
        r1, e1 = r0 + s, e0 + s
        for (name, fn, kw), a in zip(fns, bases):
            if a[0] != 'ok':
                continue
            b = call(fn, r1, e1, **kw)
            if b[0] == 'ok' and not allclose(vec(a[1]), vec(b[1])):
                ctx.add('C08', 'beat.' + name, 'adding the same offset to all times leaves the score unchanged', {'ref': ref, 'est': est, 'shift': s, 'parameters': kw},
                        {'orig': vec(a[1]), 'shifted': vec(b[1])})


# ======================================================================================================================
# tempo  (unit tempo_detection)
# ======================================================================================================================
def probe_tempo(ctx, ref, w, est, tol):
    from mir_eval import tempo as T
    np = _np()
    if not (len(ref) == 2 and len(est) == 2 and all(isinstance(x, (int, float)) and math.isfinite(x) for x in list(ref) + list(est) + [w, tol])):
        return
    if not (0 <= w <= 1 and tol >= 0):
        return
    r, e = np.array(ref, dtype=float), np.array(est, dtype=float)
    if call(T.detection, r, w, e, tol)[0] != 'ok':
        return

    def det(rr, ww, ee, tt):
        o = call(T.detection, np.array(rr, dtype=float), ww, np.array(ee, dtype=float), tt)
        return (float(o[1][0]), o[1][1], o[1][2]) if o[0] == 'ok' else None
    crit = [abs(a - b) / a for a in ref for b in est if a > 0]
    tols = ladder(tol, (0.0, 0.04, 0.08, 0.16, 0.5, 1.0), crit, lo=0.0)
    for ww in sorted(set([w, 0.0, 0.25, 0.5, 0.75, 1.0])):
        prev = None
        for tt in tols:
            v = det(ref, ww, est, tt)
            if v is None:
                prev = None
                continue
            p, one, both = v
            inp = {'reference_tempi': list(ref), 'reference_weight': ww, 'estimated_tempi': list(est), 'tol': tt}
            rel_range(ctx, 'tempo.detection', ('P-score',), (p,), inp)
            if not (isinstance(one, (bool, np.bool_)) and isinstance(both, (bool, np.bool_))):
                ctx.add('C01', 'tempo.detection', 'One-correct and Both-correct are binary (exactly 0 or 1)', inp, [repr(one), repr(both)])
            if both and not one:
                ctx.add('C07', 'tempo.detection', 'both tempi correct implies one tempo correct', inp, [p, bool(one), bool(both)])
            v2 = det(ref, ww, est[::-1], tt)
            if v2 is not None and not (close(v2[0], p) and bool(v2[1]) == bool(one) and bool(v2[2]) == bool(both)):
                ctx.add('C08', 'tempo.detection', 'permuting the two estimated tempi leaves the scores unchanged', inp, {'orig': [p, bool(one), bool(both)], 'permuted': [v2[0], bool(v2[1]), bool(v2[2])]})
            if prev is not None and (p < prev[1][0] - EPS or bool(one) < bool(prev[1][1]) or bool(both) < bool(prev[1][2])):
                ctx.add('C07', 'tempo.detection', 'widening tol never lowers the P-score or the hit flags', dict(inp, tol=[prev[0], tt]),
                        {'tighter': [prev[1][0], bool(prev[1][1]), bool(prev[1][2])], 'looser': [p, bool(one), bool(both)]})
            prev = (tt, v)
    # C02: the reference as its own estimate (a zero reference tempo is a listed finding and is not probed)
    if all(x > 0 for x in ref):
        v = det(ref, w, list(ref), tol)
        if v is not None and not (close(v[0], 1.0) and v[1] and v[2]):
            ctx.add('C02', 'tempo.detection', 'perfect estimate (est = ref) scores P-score 1, one correct, both correct',
                    {'reference_tempi': list(ref), 'reference_weight': w, 'tol': tol}, [v[0], bool(v[1]), bool(v[2])])


# ======================================================================================================================
# chord comparison rules  (unit chord_cmp)  and key  (unit key_score)
# ======================================================================================================================
CHORD_RULES = ['thirds', 'thirds_inv', 'triads', 'triads_inv', 'tetrads', 'tetrads_inv', 'root', 'mirex', 'majmin', 'majmin_inv', 'sevenths', 'sevenths_inv']


def probe_chord_pair(ctx, r, e):
    from mir_eval import chord as C
    from harness.oracles import chord as OC, key_chordscore as OK
    np = _np()
    if not (isinstance(r, str) and isinstance(e, str)):
        return
    if call(C.encode, r)[0] != 'ok' or call(C.encode, e)[0] != 'ok':
        return
    # C02: a label (a one-interval annotation) against a copy of itself
    for x in (r, e):
        iv = np.array([[0.0, 1.0]])
        ev = call(C.evaluate, iv, [x], iv.copy(), [str(x)])
        for name in CHORD_RULES:
            c = call(lambda: float(getattr(C, name)([x], [str(x)])[0]))
            if c[0] != 'ok':
                continue
            if c[1] == 0.0:
                ctx.add('C02', 'chord.' + name, 'perfect estimate: comparing a label with a copy of itself gives 1 (or -1 when it lies outside the vocabulary of the rule)', [x, x], c[1])
            if ev[0] == 'ok' and name in ev[1]:
                want = 1.0 if c[1] == 1.0 else 0.0
                if c[1] in (1.0, -1.0) and not close(float(ev[1][name]), want):
                    ctx.add('C02', 'chord.evaluate', 'perfect estimate: %s of an annotation against a copy of itself is 1 (0 by convention when nothing is comparable)' % name,
                            {'intervals': [[0.0, 1.0]], 'labels': [x]}, float(ev[1][name]))
        if ev[0] == 'ok':
            for name in ('underseg', 'overseg', 'seg'):
                if name in ev[1] and not close(float(ev[1][name]), 1.0):
                    ctx.add('C02', 'chord.evaluate', 'perfect estimate: %s of an annotation against a copy of itself is 1' % name,
                            {'intervals': [[0.0, 1.0]], 'labels': [x]}, float(ev[1][name]))
    # C11 at the point (existing oracle), C09: joint transposition / respelling
    ctx.take(OC.check_pair(C, r, e, others=['N', 'C:maj', 'G:min7/b7']))
    for k in range(12):
        for pick in (0, 1):
            ctx.take(OK.check_transpose_pair(C, r, e, k, pick, pick + 1))


def probe_key_pair(ctx, r, e):
    from mir_eval import key as K
    if not (isinstance(r, str) and isinstance(e, str)) or call(K.validate, r, e)[0] != 'ok':
        return
    a = call(K.weighted_score, r, e)
    if a[0] != 'ok':
        return
    s = float(a[1])
    if s not in (1.0, 0.5, 0.3, 0.2, 0.0):
        ctx.add('C01', 'key.weighted_score', 'score in {1, 0.5, 0.3, 0.2, 0}', [r, e], s)
    for x in (r, e):
        b = call(K.weighted_score, x, str(x))
        if b[0] == 'ok' and float(b[1]) != 1.0:
            ctx.add('C02', 'key.weighted_score', 'perfect estimate: a key against a copy of itself scores 1', [x, x], float(b[1]))
    if r.lower() == 'x' or e.lower() == 'x':
        return
    (rt, rm), (et, em) = r.split(), e.split()
    sem = {k: v for k, v in K.KEY_TO_SEMITONE.items() if v is not None}
    if rt.lower() not in sem or et.lower() not in sem:
        return
    for k in range(12):
        for rt2 in [t for t, v in sem.items() if v == (sem[rt.lower()] + k) % 12]:
            for et2 in [t for t, v in sem.items() if v == (sem[et.lower()] + k) % 12]:
                for f in (str, str.upper, str.capitalize):
                    r2, e2 = f(rt2) + ' ' + rm, f(et2) + ' ' + em
                    c = call(K.weighted_score, r2, e2)
                    if c[0] == 'ok' and float(c[1]) != s:
                        rel = ('enharmonic respelling of the tonics leaves the key score unchanged' if k == 0 else
                               'transposing reference and estimated key together leaves the key score unchanged')
                        ctx.add('C09', 'key.weighted_score', rel, {'reference_key': r, 'estimated_key': e, 'transposed_reference': r2, 'transposed_estimate': e2,
                                                                    'semitones': k}, {'orig': s, 'transposed': float(c[1])})


# ======================================================================================================================
# melody  (units melody_metrics: voicing / cent arrays; melody_resample: Hz series through to_cent_voicing / evaluate)
# ======================================================================================================================
def probe_melody_arrays(ctx, rv, rc, ev, ec, tol):
    from mir_eval import melody as M
    from harness.oracles import melody as O
    n = len(rv)
    if not (len(rc) == len(ev) == len(ec) == n and n > 0 and tol > 0):
        return
    if not all(isinstance(x, (int, float, bool)) and math.isfinite(float(x)) for l in (rv, rc, ev, ec) for x in l):
        return
    rv, ev = [float(x) for x in rv], [float(x) for x in ev]
    if not all(0 <= x <= 1 for x in rv + ev):
        return
    if call(O._five, M, rv, rc, ev, ec, tol)[0] != 'ok':
        return
    crit = []
    for a, b in zip(rc, ec):
        if a != 0 and b != 0:
            d = abs(a - b)
            crit += [d, abs(d - 1200.0 * math.floor(d / 1200.0 + 0.5))]
    tols = ladder(tol, (12.5, 25.0, 50.0, 100.0, 600.0), crit)
    for t in tols:
        ctx.take(O.check_definitions(M, rv, rc, ev, ec, t))       # range (C01), definition (C04), raw pitch <= raw chroma (C07)
    for t1, t2 in zip(tols, tols[1:]):
        ctx.take(O.check_tol_mono(M, rv, rc, ev, ec, t1, t2))
    for v, c in ((rv, rc), (ev, ec)):
        # a perfect estimate: binary voicing, a voiced frame, and no voiced frame at cent value 0 (0 marks "no pitch")
        if all(x in (0.0, 1.0) for x in v) and any(x > 0 for x in v) and not any(x > 0 and y == 0 for x, y in zip(v, c)):
            ctx.take(O.check_self(M, v, c, tol))
    for c in (100.0, -37.25, 1200.0, 0.25, 2400.0):
        ctx.take(O.check_shift(M, rv, rc, ev, ec, c, tol))
    for k in (1, -1, 2, -3):
        ctx.take(O.check_octave(M, rv, rc, ev, ec, k, tol))


def probe_melody_hz(ctx, rt, rf, et, ef, tol, hop):
    from mir_eval import melody as M
    from harness.oracles import melody as O
    if not (len(rt) == len(rf) and len(et) == len(ef) and len(rt) >= 2 and len(et) >= 2 and tol > 0):
        return
    if not all(isinstance(x, (int, float)) and math.isfinite(x) for l in (rt, rf, et, ef) for x in l):
        return
    if not (all(a < b for a, b in zip(rt, rt[1:])) and all(a < b for a, b in zip(et, et[1:])) and rt[0] >= 0 and et[0] >= 0):
        return
    if any(0 < abs(x) <= 40.0 for x in list(rf) + list(ef)):
        return        # base_frequency (10 Hz, cent value 0 = "no pitch") within reach of the factors used below: listed finding C02
    kw = {'cent_tolerance': tol}
    if hop is not None:
        if not hop > 0:
            return
        kw['hop'] = hop
    if call(O._evaluate, M, rt, rf, et, ef, **kw)[0] != 'ok':
        return
    ctx.take(O.check_evaluate_range(M, rt, rf, et, ef, **kw))
    for t, f in ((rt, rf), (et, ef)):
        if all(abs(x) != 10.0 for x in f):
            ctx.take(call(O.check_evaluate_self, M, t, f, **kw)[1] if call(O.check_evaluate_self, M, t, f, **kw)[0] == 'ok' else None)
    if all(x >= 0 for x in ef):
        r = call(O.check_sign_flip, M, rt, rf, et, ef, **kw)
        ctx.take(r[1] if r[0] == 'ok' else None)
    for ratio in (2.0, 0.5, 1.25, 1.0594630943592953):
        r = call(O.check_transpose, M, rt, rf, et, ef, ratio, **kw)
        ctx.take(r[1] if r[0] == 'ok' else None)
    for k in (1, -1, 2):
        r = call(O.check_octave_hz, M, rt, rf, et, ef, k, **kw)
        ctx.take(r[1] if r[0] == 'ok' else None)


# ======================================================================================================================
# alignment, pattern  (units alignment_scores, pattern_scores)
# ======================================================================================================================
def probe_alignment(ctx, ref, est, w, dur):
    from mir_eval import alignment as A
    from harness.oracles import pattern_alignment_tempo as O
    np = _np()
    if not (len(ref) == len(est) and len(ref) >= 1 and w >= 0):
        return
    if call(A.validate, np.array(ref, dtype=float), np.array(est, dtype=float))[0] != 'ok':
        return
    dev = [abs(a - b) for a, b in zip(ref, est)]
    wins = ladder(w, (0.0, 0.25, 0.3, 0.5, 1.0, 2.0), dev)
    d = dur if isinstance(dur, (int, float)) and dur > 0 and dur >= max(ref + est) else None
    for w1, w2 in zip(wins, wins[1:]):
        ctx.take(O.check_alignment(A, ref, est, w1, w2, d))
    for side in (ref, est):
        ctx.take(O.check_alignment_self(A, side, w, d if d is not None and d >= max(side) else None))
    for s in (0.25, 1.0, 7.75, 100.5):
        if exact_add(ref + est, s):
            ctx.take(O.check_pcs_shift(A, ref, est, s))


def probe_pattern(ctx, ref, est, tol, thres, n):
    from mir_eval import pattern as P
    from harness.oracles import pattern_alignment_tempo as O
    if call(P.validate, ref, est)[0] != 'ok' or not (O._wellformed(ref) and O._wellformed(est)):
        return
    if not (0 < thres <= 1 and tol > 0 and isinstance(n, int) and n >= 0):
        return
    for th in sorted(set([thres, 0.25, 0.5, 0.75, 1.0])):
        ctx.take(O.check_pattern_range(P, ref, est, th, n, tol))
        ctx.take(O.check_pattern_swap(P, ref, est, th))
        ctx.take(O.check_pattern_def(P, ref, est, th))
    for side in (ref, est):
        if not O._has_dup(side):
            ctx.take(O.check_pattern_self(P, side, thres, tol))
    onsets = [float(x[0]) for ps in (ref, est) for p in ps for o in p for x in o]
    for d in (1.0, 0.25, 7.75, 100.5):
        if exact_add(onsets, d):
            ctx.take(O.check_pattern_shift(P, ref, est, d, thres, tol))
    for pr in perms(len(ref), ctx.rng):
        ctx.take(O.check_pattern_ref_perm(P, ref, est, pr, thres, tol))
    for k in sorted(set([n, 1, 2, 5])):
        ctx.take(O.check_first_n(P, ref, est, k))


# ======================================================================================================================
# segment labelling scores  (units seg_cluster_q, index_labels), hierarchy (hier_measures, hier_gauc)
# ======================================================================================================================
SEG_FN = {'pairwise': 'segment.pairwise', 'rand': 'segment.rand_index', 'ari': 'segment.ari', 'mi': 'segment.mutual_information[MI]',
          'ami': 'segment.mutual_information[AMI]', 'nmi': 'segment.mutual_information[NMI]', 'nce': 'segment.nce', 'v': 'segment.vmeasure'}


def _seg_scores(S, rb, rl, eb, el, fs, beta):
    from harness.oracles import segment_cluster as O
    r = call(O.implementation_scores, S, rb, rl, eb, el, fs, beta)
    if r[0] != 'ok':
        return None
    out = {}
    for k, v in r[1].items():
        out[k] = [float(x) for x in v] if isinstance(v, tuple) else [float(v)]
    return out


def probe_segments(ctx, rb, rl, eb, el, beta, fs=0.25):
    """rb / eb: boundaries of contiguous annotations starting at 0 with the same end; rl / el: labels"""
    from mir_eval import segment as S
    from harness.oracles import segment_cluster as O, recut as RC
    if not (len(rb) == len(rl) + 1 and len(eb) == len(el) + 1 and len(rl) >= 1 and len(el) >= 1 and beta > 0):
        return
    if not (all(a < b for a, b in zip(rb, rb[1:])) and all(a < b for a, b in zip(eb, eb[1:])) and rb[0] == 0 and eb[0] == 0 and rb[-1] == eb[-1]):
        return
    if not all(isinstance(l, str) for l in list(rl) + list(el)):
        return
    rb, eb = [float(x) for x in rb], [float(x) for x in eb]
    fr, fe = O.frames_of(rb, rl, fs), O.frames_of(eb, el, fs)
    if len(fr) != len(fe) or None in fr or None in fe or len(fr) < 2:
        return
    got = _seg_scores(S, rb, rl, eb, el, fs, beta)
    if got is None:
        return
    inp = {'ref_bounds': rb, 'ref_labels': list(rl), 'est_bounds': eb, 'est_labels': list(el), 'frame_size': fs, 'beta': beta}
    # all C16 clauses (and the C01 / C02 rows with the listed degenerate conventions) through the existing oracle
    ctx.take(O.check_annotations(S, rb, list(rl), eb, list(el), fs, beta, strict=False))
    tolk = lambda k: 1e-6 if k == 'ami' else EPS
    # C01: F-measures over a ladder of beta: F lies between precision and recall
    for b in ladder(beta, (0.25, 0.5, 0.58, 1.0, 1.7, 2.0)):
        g = got if b == beta else _seg_scores(S, rb, rl, eb, el, fs, b)
        if g is None:
            continue
        for k in ('pairwise', 'nce', 'v'):
            p, r, f = g[k]
            if in01(p) and in01(r) and not in01(f):
                ctx.add('C01', SEG_FN[k], 'F-measure is finite and in [0, 1] (it lies between precision and recall)', dict(inp, beta=b), g[k])
    # C06
    sw = _seg_scores(S, eb, el, rb, rl, fs, beta)
    if sw is not None:
        for k in ('pairwise', 'nce', 'v'):
            (p, r, f), (p2, r2, f2) = got[k], sw[k]
            if not (close(p, r2) and close(r, p2)) or (beta == 1.0 and not close(f, f2)):
                ctx.add('C06', SEG_FN[k], 'swapping reference and estimate exchanges %s (and keeps F for beta = 1)' % ('precision and recall' if k == 'pairwise' else 'over- and under-segmentation'),
                        inp, {'fwd': got[k], 'swapped': sw[k]})
        for k in ('rand', 'ari', 'mi', 'nmi', 'ami'):
            if not close(got[k][0], sw[k][0], tolk(k)):
                ctx.add('C06', SEG_FN[k], 'swapping reference and estimate leaves the symmetric score unchanged', inp, {'fwd': got[k], 'swapped': sw[k]})
    # C08: label names (a bijection that reverses the alphabetical order, within each annotation independently)
    def rename(labels, pre):
        names = sorted(set(l.lower() for l in labels))
        m = {nm: '%s%03d' % (pre, 900 - i) for i, nm in enumerate(names)}
        return [m[l.lower()] for l in labels]
    alt = _seg_scores(S, rb, rename(rl, 'q'), eb, rename(el, 'z'), fs, beta)
    if alt is not None:
        for k in SEG_FN:
            if not allclose(got[k], alt[k], tolk(k)):
                ctx.add('C08', SEG_FN[k], 'renaming the segment labels by a bijection leaves the score unchanged',
                        dict(inp, renamed_ref_labels=rename(rl, 'q'), renamed_est_labels=rename(el, 'z')), {'orig': got[k], 'renamed': alt[k]})
    # C12: every interval cut in two at its midpoint (same label)
    def cut(b, l):
        nb, nl = [b[0]], []
        for (a, c), lab in zip(zip(b, b[1:]), l):
            nb += [(a + c) / 2.0, c]
            nl += [lab, lab]
        return nb, nl
    rb2, rl2 = cut(rb, rl)
    eb2, el2 = cut(eb, el)
    for (b1, l1, b2, l2, tag) in ((rb2, rl2, eb, el, 'reference'), (rb, rl, eb2, el2, 'estimate'), (rb2, rl2, eb2, el2, 'both')):
        c = _seg_scores(S, b1, l1, b2, l2, fs, beta)
        if c is not None:
            for k in SEG_FN:
                if not allclose(got[k], c[k], tolk(k)):
                    ctx.add('C12', SEG_FN[k], 're-cut: splitting every interval of the %s in two pieces with the same label leaves the frame-based score unchanged' % tag,
                            dict(inp, recut_ref_bounds=b1, recut_ref_labels=l1, recut_est_bounds=b2, recut_est_labels=l2), {'orig': got[k], 'recut': c[k]})


def _hier_ok(h):
    return isinstance(h, list) and len(h) >= 1 and all(isinstance(l, list) and len(l) >= 1 and all(len(r) == 2 and r[0] < r[1] for r in l) for l in h)


def probe_hierarchy(ctx, kind, ref, rl, est, el, tr, w, fs, beta):
    """kind 'tm': tmeasure(ref, est, transitive=tr, window=w, frame_size=fs); kind 'lm': lmeasure(ref, rl, est, el, frame_size=fs)"""
    from mir_eval import hierarchy as H
    from harness.oracles import hierarchy as O, recut as RC
    if not (_hier_ok(ref) and _hier_ok(est) and fs > 0 and beta > 0):
        return
    span = max(r[1] for l in ref + est for r in l) - min(r[0] for l in ref + est for r in l)
    nfr = span / fs
    if kind == 'tm':
        f = lambda a, b, bb=beta: call(H.tmeasure, O.arr(a), O.arr(b), transitive=tr, window=w, frame_size=fs, beta=bb)
    else:
        if not (len(rl) == len(ref) and len(el) == len(est) and all(len(a) == len(b) for a, b in zip(rl, ref)) and all(len(a) == len(b) for a, b in zip(el, est))):
            return
        f = lambda a, b, bb=beta, la=rl, lb=el: call(H.lmeasure, O.arr(a), la, O.arr(b), lb, frame_size=fs, beta=bb)
    base = f(ref, est)
    if base[0] != 'ok':
        return
    base = vec(base[1])
    fn = 'hierarchy.tmeasure' if kind == 'tm' else 'hierarchy.lmeasure'
    inp = {'ref': ref, 'est': est, 'frame_size': fs, 'beta': beta}
    inp.update({'transitive': tr, 'window': w} if kind == 'tm' else {'ref_labels': rl, 'est_labels': el})
    # C01 over a ladder of beta
    for b in ladder(beta, (0.25, 0.5, 0.58, 1.0, 1.7, 2.0)):
        r = f(ref, est, b)
        if r[0] == 'ok':
            rel_range(ctx, fn, ('precision', 'recall', 'f_measure'), vec(r[1]), dict(inp, beta=b))
    # C17 / C04: the triplet definition by brute force (small inputs only)
    if nfr <= 24:
        if kind == 'tm':
            ctx.take(O.check_tmeasure(H, ref, est, tr, w, fs, beta))
        else:
            ctx.take(O.check_lmeasure(H, ref, rl, est, el, fs, beta))
    # C06
    sw = f(est, ref) if kind == 'tm' else f(est, ref, beta, el, rl)
    if sw[0] == 'ok':
        s2 = vec(sw[1])
        if not (close(base[0], s2[1]) and close(base[1], s2[0])):
            ctx.add('C06', fn, 'swapping reference and estimate exchanges precision and recall', inp, {'fwd': base, 'swapped': s2})
        elif beta == 1.0 and not close(base[2], s2[2]):
            ctx.add('C06', fn, 'swapping reference and estimate keeps F (beta = 1)', inp, {'fwd': base, 'swapped': s2})
    # C02 (small inputs: the expected value, 1 or 0 without a reference triple, is computed by brute force)
    if nfr <= 24:
        for hier, labs in ((ref, rl), (est, el)):
            if kind == 'tm':
                labs = [['a'] * len(l) for l in hier]
            r = call(O.check_self, H, hier, labs, bool(tr), w if kind == 'tm' else None, fs)
            if r[0] == 'ok' and r[1]:
                if kind == 'tm' and r[1]['function'] != 'hierarchy.tmeasure':
                    continue
                ctx.take(r[1])
    if kind == 'lm':
        # C08: label names
        def rename(L, pre):
            names = sorted(set(x.lower() for l in L for x in l))
            m = {nm: '%s%03d' % (pre, 900 - i) for i, nm in enumerate(names)}
            return [[m[x.lower()] for x in l] for l in L]
        if all(isinstance(x, str) for l in rl + el for x in l):
            r = f(ref, est, beta, rename(rl, 'q'), rename(el, 'z'))
            if r[0] == 'ok' and not allclose(base, vec(r[1])):
                ctx.add('C08', fn, 'renaming the segment labels by a bijection leaves the score unchanged', dict(inp, renamed_ref_labels=rename(rl, 'q'), renamed_est_labels=rename(el, 'z')),
                        {'orig': base, 'renamed': vec(r[1])})
        # C12: one segment cut in two with the same label
        for _ in range(4):
            c1, c2 = RC.cut_level(ctx.rng, ref, rl), RC.cut_level(ctx.rng, est, el)
            if c1 and c2:
                r = f(c1[0], c2[0], beta, c1[1], c2[1])
                if r[0] == 'ok' and not allclose(base, vec(r[1])):
                    ctx.add('C12', fn, 're-cut: cutting a segment in two pieces with the same label leaves the L-measure unchanged',
                            dict(inp, recut_ref=c1[0], recut_ref_labels=c1[1], recut_est=c2[0], recut_est_labels=c2[1]), {'orig': base, 'recut': vec(r[1])})


def probe_gauc(ctx, R, E, tr, w):
    from mir_eval import hierarchy as H
    from harness.oracles import hierarchy as O
    n = len(R)
    if not (n >= 1 and len(E) == n and all(len(x) == n for x in R) and all(len(x) == n for x in E) and n <= 16):
        return
    if w is not None and not (isinstance(w, int) and w >= 1):
        return
    if call(H._gauc, O.csr(R), O.csr(E), tr, w)[0] != 'ok':
        return
    ctx.take(O.check_gauc(H, R, E, tr, w))


# ======================================================================================================================
# chord scoring  (units weighted_accuracy, chord_evaluate, chord_segmentation)
# ======================================================================================================================
def probe_weighted_accuracy(ctx, c, w):
    from mir_eval import chord as C
    from harness.oracles import key_chordscore as OK, recut as RC
    np = _np()
    if not (len(c) == len(w) and len(c) >= 1 and all(x in (1, 0, -1) for x in c) and all(isinstance(x, (int, float)) and math.isfinite(x) and x >= 0 for x in w)):
        return
    if not any(x >= 0 and y > 0 for x, y in zip(c, w)):
        return                       # no comparable weight: outside C12 (weights are durations of valid intervals)
    if call(C.weighted_accuracy, np.array(c, dtype=float), np.array(w, dtype=float))[0] != 'ok':
        return
    ctx.take(OK.check_wa_value(C, list(c), list(w)))
    for k in (2.0, 0.5, 3.0, 1 / 1024., 1024.0, 0.1):
        ctx.take(RC.check_weighted_accuracy(C, list(c), list(w), k))
    for i in range(min(len(c), 6)):
        ctx.take(OK.check_wa_split(C, list(c), list(w), i, w[i] / 2.0))
        if c[i] < 0:
            ctx.take(OK.check_wa_ignored(C, list(c), list(w), i, w[i] + 1.0))


def _chord_eval(C, ri, rl, ei, el):
    np = _np()
    A = lambda iv: np.array(iv, dtype=float).reshape(-1, 2)
    r = call(C.evaluate, A(ri), list(rl), A(ei), list(el))
    if r[0] != 'ok' or not isinstance(r[1], dict):
        return None
    return {k: float(v) for k, v in r[1].items()}


def probe_chord_annotations(ctx, ri, rl, ei, el):
    from mir_eval import chord as C
    from harness.oracles import key_chordscore as OK, recut as RC
    np = _np()
    if not (len(ri) == len(rl) >= 1 and len(ei) == len(el) >= 1):
        return
    ok_iv = lambda iv: all(len(r) == 2 and 0 <= r[0] < r[1] for r in iv) and all(a[1] <= b[0] for a, b in zip(iv, iv[1:]))
    if not (ok_iv(ri) and ok_iv(ei)) or not all(isinstance(x, str) for x in list(rl) + list(el)):
        return
    if any(call(C.encode, x)[0] != 'ok' for x in list(rl) + list(el)):
        return
    base = _chord_eval(C, ri, rl, ei, el)
    if base is None:
        return
    inp = {'ref_intervals': ri, 'ref_labels': list(rl), 'est_intervals': ei, 'est_labels': list(el)}
    keys = list(base)
    rel_range(ctx, 'chord.evaluate', keys, [base[k] for k in keys], inp)
    # C02: each annotation against a copy of itself
    for iv, lb in ((ri, rl), (ei, el)):
        s = _chord_eval(C, iv, lb, [list(r) for r in iv], [str(x) for x in lb])
        if s is None:
            continue
        for name in CHORD_RULES:
            if name not in s:
                continue
            cm = [call(lambda x=x: float(getattr(C, name)([x], [x])[0])) for x in lb]
            if any(c[0] != 'ok' for c in cm):
                continue
            want = 1.0 if any(c[1] == 1.0 for c in cm) else (0.0 if all(c[1] == -1.0 for c in cm) else None)
            if want is not None and all(c[1] in (1.0, -1.0) for c in cm) and not close(s[name], want):
                ctx.add('C02', 'chord.evaluate', 'perfect estimate: %s of an annotation against a copy of itself is 1 (0 by convention when nothing is comparable)' % name,
                        {'intervals': iv, 'labels': list(lb)}, s[name])
        for name in ('underseg', 'overseg', 'seg'):
            if name in s and not close(s[name], 1.0):
                ctx.add('C02', 'chord.evaluate', 'perfect estimate: %s of an annotation against a copy of itself is 1' % name, {'intervals': iv, 'labels': list(lb)}, s[name])
    # C06: over- and under-segmentation exchange
    A = lambda iv: np.array(iv, dtype=float).reshape(-1, 2)
    a, b = call(C.overseg, A(ri), A(ei)), call(C.underseg, A(ei), A(ri))
    c, d = call(C.underseg, A(ri), A(ei)), call(C.overseg, A(ei), A(ri))
    if a[0] == b[0] == 'ok' and not close(float(a[1]), float(b[1])):
        ctx.add('C06', 'chord.overseg', 'swapping reference and estimate exchanges over- and under-segmentation', inp, {'overseg(ref, est)': float(a[1]), 'underseg(est, ref)': float(b[1])})
    if c[0] == d[0] == 'ok' and not close(float(c[1]), float(d[1])):
        ctx.add('C06', 'chord.underseg', 'swapping reference and estimate exchanges over- and under-segmentation', inp, {'underseg(ref, est)': float(c[1]), 'overseg(est, ref)': float(d[1])})
    # C08: exact time shifts
    vals = [t for r in ri + ei for t in r]
    for s in (1.0, 0.25, 1 / 64., 7 / 64., 45 / 64., 100.015625):
        if exact_add(vals, s):
            sh = _chord_eval(C, [[a + s, b + s] for a, b in ri], rl, [[a + s, b + s] for a, b in ei], el)
            if sh is not None and not allclose([base[k] for k in keys], [sh.get(k, float('nan')) for k in keys]):
                ctx.add('C08', 'chord.evaluate', 'adding the same offset to all times leaves every score unchanged', dict(inp, shift=s),
                        {k: [base[k], sh.get(k)] for k in keys if not close(base[k], sh.get(k, float('nan')))})
    # C09: joint transposition / respelling of all labels
    for k in (1, 2, 5, 7, 11):
        for pick in (0, 1):
            r2 = [OK.transpose_label(x, k, pick) for x in rl]
            e2 = [OK.transpose_label(x, k, pick + 1) for x in el]
            if None in r2 or None in e2:
                continue
            t = _chord_eval(C, ri, r2, ei, e2)
            if t is not None and not allclose([base[k_] for k_ in keys], [t.get(k_, float('nan')) for k_ in keys]):
                ctx.add('C09', 'chord.evaluate', 'transposing all reference and estimated labels together (any spelling) leaves every score unchanged',
                        dict(inp, semitones=k, transposed_ref_labels=r2, transposed_est_labels=e2),
                        {k_: [base[k_], t.get(k_)] for k_ in keys if not close(base[k_], t.get(k_, float('nan')))})
    # C12: re-cut (every interval at its midpoint; random cuts at boundaries of the other annotation)
    def mid(iv, lb):
        oi, ol = [], []
        for (a, b), l in zip(iv, lb):
            m = (a + b) / 2.0
            oi += [[a, m], [m, b]] if a < m < b else [[a, b]]
            ol += [l, l] if a < m < b else [l]
        return oi, ol
    cuts = [(mid(ri, rl), (ei, list(el))), ((ri, list(rl)), mid(ei, el)), (mid(ri, rl), mid(ei, el))]
    for _ in range(3):
        cuts.append((RC.recut(ctx.rng, ri, list(rl), other=[t for r in ei for t in r]), RC.recut(ctx.rng, ei, list(el), other=[t for r in ri for t in r])))
    for (tri, trl), (tei, tel) in cuts:
        t = _chord_eval(C, tri, trl, tei, tel)
        if t is not None and not allclose([base[k] for k in keys], [t.get(k, float('nan')) for k in keys]):
            ctx.add('C12', 'chord.evaluate', 're-cut: splitting intervals into consecutive pieces with the same label changes no score',
                    dict(inp, recut_ref_intervals=tri, recut_ref_labels=trl, recut_est_intervals=tei, recut_est_labels=tel),
                    {k: [base[k], t.get(k)] for k in keys if not close(base[k], t.get(k, float('nan')))})
    ctx.take(RC.check_x_lengthened(C, ri, list(rl), ei, list(el)))


# ======================================================================================================================
# interval helpers of util (units adjust_intervals, merge_intervals, interpolate_intervals, boundaries) and
# multipitch.resample_multipitch (unit multipitch_resample): the existing C13 / C18 oracles at the point, in the mode that
# asserts only what is proved for the unchanged tree (the listed C13 findings are not re-reported)
# ======================================================================================================================
def _rows_ok(x):
    return isinstance(x, list) and all(isinstance(r, list) and len(r) == 2 and all(isinstance(t, (int, float)) and math.isfinite(t) for t in r) for r in x)


def probe_intervals(ctx, unit, case):
    from mir_eval import util as U
    from harness.oracles import intervals as O
    if unit == 'adjust_intervals':
        a, b = case['a'], case['b']
        if case.get('fn') == 'iv' and _rows_ok(case['x']) and len(case['x']) >= 1 and (a is None or b is None or a < b):
            labels = list(range(1, len(case['x']) + 1)) if case['lab'] else None
            ctx.take(O.check_adjust(U, [list(r) for r in case['x']], labels, case['a'], case['b'], mode='proved'))
    elif unit == 'merge_intervals':
        if _rows_ok(case['x']) and _rows_ok(case['y']):
            ctx.take(O.check_merge(U, [list(r) for r in case['x']], list(range(1, case['xl'] + 1)), [list(r) for r in case['y']],
                                   list(range(11, case['yl'] + 11)), mode='proved'))
    elif unit == 'interpolate_intervals':
        if not _rows_ok(case['x']) or len(case['x']) != case['nl'] or not O.is_valid(case['x']):
            return
        labs = list(range(1, case['nl'] + 1))
        if case['k'] == 'interp':
            ctx.take(O.check_interpolate(U, [list(r) for r in case['x']], labs, list(case['ts']), fill=0, mode='proved'))
        elif case['k'] == 'samples':
            ctx.take(O.check_samples(U, [list(r) for r in case['x']], labs, case['off'], case['sz'], fill=0))
    elif unit == 'boundaries':
        if case['k'] == 'b2i' and all(isinstance(t, (int, float)) and math.isfinite(t) for t in case['b']):
            ctx.take(O.check_boundaries(U, list(case['b']), 5, mode='proved'))
        elif case['k'] == 'i2b' and _rows_ok(case['x']) and isinstance(case['q'], int):
            ctx.take(O.check_contiguous(U, [list(r) for r in case['x']], case['q']))


def probe_mp_resample(ctx, times, freqs, targets):
    from mir_eval import multipitch as mp
    from harness.oracles import multipitch as O
    if not (len(times) == len(freqs) and all(a < b for a, b in zip(times, times[1:]))):
        return
    if not all(isinstance(t, (int, float)) and math.isfinite(t) for t in list(times) + list(targets)):
        return
    np = _np()
    if call(mp.resample_multipitch, np.array(times, dtype=float), [np.array(f, dtype=float) for f in freqs], np.array(targets, dtype=float))[0] != 'ok':
        return
    ctx.take(O.check_resample(mp, list(times), [list(f) for f in freqs], list(targets)))


# ======================================================================================================================
# dispatcher
# ======================================================================================================================
LAST = None


def _u_note_matching(ctx, case, impl):
    _guard(ctx, probe_transcription, _tr_subject(case, 'note_matching'))


def _u_transcription_scores(ctx, case, impl):
    _guard(ctx, probe_transcription, _tr_subject(case, 'transcription_scores'))


def _u_multipitch_metrics(ctx, case, impl):
    _guard(ctx, probe_multipitch, _mp_subject(case))


def _u_event_metrics(ctx, case, impl):
    k = case['kind']
    if k in ('beat', 'onset'):
        _guard(ctx, probe_events, k, [x / 64.0 for x in case['ref']], [x / 64.0 for x in case['est']], case['w'][0] / case['w'][1])
        return
    den = float(case['den'])
    ref = [[a / den, b / den] for a, b in case['ref']]
    est = [[a / den, b / den] for a, b in case['est']]
    if k == 'det':
        kind = 'detection_trim' if case['trim'] else 'detection'
        _guard(ctx, probe_events, kind, ref, est, case['w'][0] / case['w'][1], case['beta'][0] / case['beta'][1])
    _guard(ctx, probe_deviation, ref, est, bool(case['trim']))


def _u_match_events(ctx, case, impl):
    from harness.units.match_events import DEN
    _guard(ctx, probe_match_events, [k / DEN for k in case['ref']], [k / DEN for k in case['est']], case['w'][0] / case['w'][1], case['wm'][0] / case['wm'][1])


def _u_beat_q(ctx, case, impl):
    _guard(ctx, probe_beat, [float(x) for x in case['ref']], [float(x) for x in case['est']], case)


def _u_tempo_detection(ctx, case, impl):
    from harness.units.tempo_detection import dec
    ref, w, est, tol = case
    _guard(ctx, probe_tempo, [dec(x) for x in ref], w, [dec(x) for x in est], tol)


def _u_chord_cmp(ctx, case, impl):
    _guard(ctx, probe_chord_pair, case[0], case[1])


def _u_key_score(ctx, case, impl):
    _guard(ctx, probe_key_pair, case[0], case[1])


def _u_melody_metrics(ctx, case, impl):
    _guard(ctx, probe_melody_arrays, case['rv'], case['rc'], case['ev'], case['ec'], case['tol'])


def _u_melody_resample(ctx, case, impl):
    if case.get('k') in ('tcv', 'ev') and case.get('ev') is None and case.get('rr') is None:
        _guard(ctx, probe_melody_hz, case['rt'], case['rf'], case['et'], case['ef'], case.get('tol') or 50.0, case.get('hop'))


def _u_alignment_scores(ctx, case, impl):
    rs, es, w, dur = case
    if rs[0] == 'a' and es[0] == 'a':
        _guard(ctx, probe_alignment, [float(x) for x in rs[1]], [float(x) for x in es[1]], w, dur)


def _u_pattern_scores(ctx, case, impl):
    from harness.units.pattern_scores import as_py
    ref, est, tol, thres, n = case
    try:
        r, e = as_py(ref), as_py(est)
    except Exception:  # noqa: malformed entries
        return
    _guard(ctx, probe_pattern, r, e, tol, thres, n)


def _u_seg_cluster_q(ctx, case, impl):
    if case.get('kind') == 'pub':
        _guard(ctx, probe_segments, case['rb'], case['rl'], case['eb'], case['el'], case['beta'])


def _u_index_labels(ctx, case, impl):
    # the labels as two segmentations with one-second segments: label names carry no meaning (C08), case is ignored
    if case.get('kind') == 'il' and not case.get('cs') and len(case['labels']) >= 2 and all(isinstance(x, str) for x in case['labels']):
        L = list(case['labels'])
        b = [float(i) for i in range(len(L) + 1)]
        _guard(ctx, probe_segments, b, L, b, L[::-1], 1.0)


def _u_hier_measures(ctx, case, impl):
    k = case[0]
    if k == 'tm':
        _, r, e, tr, w, fs, beta = case
        _guard(ctx, probe_hierarchy, 'tm', r, None, e, None, tr, w, fs, beta)
    elif k == 'lm':
        _, r, lr, e, le, fs, beta = case
        _guard(ctx, probe_hierarchy, 'lm', r, lr, e, le, True, None, fs, beta)


def _u_hier_gauc(ctx, case, impl):
    r, e, tr, w = case
    _guard(ctx, probe_gauc, r, e, tr, w)


def _u_weighted_accuracy(ctx, case, impl):
    _guard(ctx, probe_weighted_accuracy, case[0], case[1])


def _u_chord_annotations(ctx, case, impl):
    _guard(ctx, probe_chord_annotations, case['ri'], case['rl'], case['ei'], case['el'])
    if 'tri' in case and (case['tri'] != case['ri'] or case['tei'] != case['ei']):
        _guard(ctx, probe_chord_annotations, case['tri'], case['trl'], case['tei'], case['tel'])


def _u_beat_ig(ctx, case, impl):
    P = {'gthr': 0.35, 'gmu': 0.2, 'gsig': 0.2, 'pthr': 0.2, 'cph': 0.175, 'cpe': 0.175, 'csig': 0.04}
    _guard(ctx, probe_beat, [float(x) for x in case['ref']], [float(x) for x in case['est']], P)


def _u_intervals(unit):
    def f(ctx, case, impl):
        _guard(ctx, probe_intervals, unit, case)
    return f


def _u_multipitch_resample(ctx, case, impl):
    _guard(ctx, probe_mp_resample, case['times'], case['freqs'], case['targets'])


UNITS = {
    'adjust_intervals': _u_intervals('adjust_intervals'),
    'merge_intervals': _u_intervals('merge_intervals'),
    'interpolate_intervals': _u_intervals('interpolate_intervals'),
    'boundaries': _u_intervals('boundaries'),
    'multipitch_resample': _u_multipitch_resample,
    'alignment_scores': _u_alignment_scores,
    'beat_ig': _u_beat_ig,
    'beat_q': _u_beat_q,
    'chord_cmp': _u_chord_cmp,
    'chord_evaluate': _u_chord_annotations,
    'chord_segmentation': _u_chord_annotations,
    'event_metrics': _u_event_metrics,
    'hier_gauc': _u_hier_gauc,
    'hier_measures': _u_hier_measures,
    'index_labels': _u_index_labels,
    'key_score': _u_key_score,
    'match_events': _u_match_events,
    'melody_metrics': _u_melody_metrics,
    'melody_resample': _u_melody_resample,
    'multipitch_metrics': _u_multipitch_metrics,
    'note_matching': _u_note_matching,
    'pattern_scores': _u_pattern_scores,
    'seg_cluster_q': _u_seg_cluster_q,
    'tempo_detection': _u_tempo_detection,
    'transcription_scores': _u_transcription_scores,
    'weighted_accuracy': _u_weighted_accuracy,
}


def probe(unit_name, case, impl=None):
    """-> list of findings at and around the mismatching input of correspondence unit `unit_name` ([] for units not adapted)"""
    global LAST
    fn = UNITS.get(unit_name)
    if fn is None:
        return []
    ctx = Ctx(unit_name, case)
    LAST = ctx
    try:
        fn(ctx, case, impl)
    except Exception:  # noqa: a crash of the probe is not a finding
        import traceback
        ctx.dropped.append(('crash', unit_name, traceback.format_exc()[-400:]))
    return ctx.out
