"""Numerical TESTS on the real mir_eval.separation API for C19 (reported as tests, never as proof).

The FFT least-squares projection is not modelled in Coq; the facts about it that the property relies on are checked here on
the implementation: the decomposition adds up to the estimate (relative 1e-9, private decomposition functions), the
two hypotheses of `scale_invariance_given_linear_partial` hold for `_project` (numerically), SDR/SIR/SAR(/ISR) are unchanged
under non-zero scaling of estimates / references (1e-6 dB), the permutation is a permutation maximising the mean SIR and
follows a reordering of the estimates, a perfect estimate gives the identity and SDR > 200 dB (or inf), framewise = the
non-framewise result per window, NaN in every metric for silent windows, documented arity for empty input.
Every check returns None or a finding dict {'function','relation','input','observed','why'}.

Expected findings on the unchanged library:
 * (a property of the BSS-Eval *images* criterion, not a coding slip) SDR and ISR of bss_eval_images are NOT invariant under
   scaling of an estimate or of a reference (check_scale_invariance, images=True);
 * (NumPy >= 2 only) check_singular_gram: `except np.linalg.linalg.LinAlgError` in _project/_project_images raises
   AttributeError when np.linalg.solve meets an exactly singular Gram matrix, so the lstsq fallback is unreachable."""
import itertools
import math
import warnings


def finding(function, relation, inp, observed, why):
    return {'function': function, 'relation': relation, 'input': inp, 'observed': observed, 'why': why}


def _quiet(fn, *a, **k):
    with warnings.catch_warnings():
        warnings.simplefilter('ignore')
        return fn(*a, **k)


def _close_db(a, b, tol):
    import numpy as np
    a, b = np.asarray(a, dtype=float), np.asarray(b, dtype=float)
    if a.shape != b.shape:
        return False
    for x, y in zip(a.ravel(), b.ravel()):
        if math.isnan(x) or math.isnan(y):
            if not (math.isnan(x) and math.isnan(y)):
                return False
        elif math.isinf(x) or math.isinf(y):
            if x != y:
                return False
        elif abs(x - y) > tol:
            return False
    return True


def signals(seed, nsrc, n, nchan=None, style='mix'):
    import numpy as np
    rs = np.random.RandomState(seed)
    shape = (nsrc, n) if nchan is None else (nsrc, n, nchan)
    ref = rs.randn(*shape)
    if style == 'perfect':
        return ref, ref.copy()
    est = ref + 0.4 * rs.randn(*shape) + 0.3 * ref[::-1]
    return ref, est


# ----------------------------------------------------------------------------------------------------------------
def check_decomp_sum(S, ref, est_j, j, flen=32, images=False):
    """s_true + e_spat + e_interf + e_artif == estimate padded with flen-1 zeros (relative 1e-9)."""
    import numpy as np
    if images:
        parts = _quiet(S._bss_decomp_mtifilt_images, ref, est_j, j, flen)
        target = np.hstack((est_j.transpose(), np.zeros((est_j.shape[1], flen - 1))))
    else:
        parts = _quiet(S._bss_decomp_mtifilt, ref, est_j, j, flen)
        target = np.hstack((est_j, np.zeros(flen - 1)))
    total = parts[0] + parts[1] + parts[2] + parts[3]
    err = float(np.max(np.abs(total - target)))
    scale = float(max(np.max(np.abs(p)) for p in parts)) or 1.0
    if total.shape != target.shape or err > 1e-9 * scale:
        return finding('separation._bss_decomp_mtifilt' + ('_images' if images else ''), 'components add up to the estimate',
                       {'shape': list(np.shape(ref)), 'j': j, 'flen': flen}, err, 'relative error above 1e-9')
    return None


def check_project_hypotheses(S, ref, est_j, flen=32, c=-2.5, images=False):
    """The two hypotheses of scale_invariance_given_linear_partial, numerically, on the real projection."""
    import numpy as np
    proj = S._project_images if images else S._project
    p0 = _quiet(proj, ref, est_j, flen)
    p1 = _quiet(proj, ref, c * est_j, flen)
    scale = float(np.max(np.abs(p0))) or 1.0
    e1 = float(np.max(np.abs(p1 - c * p0))) / (abs(c) * scale)
    d = np.array([3.0, -0.5, 7.0, 1.25][:ref.shape[0]] + [2.0] * max(0, ref.shape[0] - 4))
    refs2 = ref * d.reshape((-1,) + (1,) * (ref.ndim - 1))
    p2 = _quiet(proj, refs2, est_j, flen)
    e2 = float(np.max(np.abs(p2 - p0))) / scale
    if e1 > 1e-6:
        return finding('separation.' + proj.__name__, 'proj(refs, c*est) = c*proj(refs, est)', {'c': c, 'flen': flen}, e1, 'relative error above 1e-6')
    if e2 > 1e-6:
        return finding('separation.' + proj.__name__, 'proj(D*refs, est) = proj(refs, est), D non-zero diagonal', {'d': d.tolist(), 'flen': flen}, e2,
                       'relative error above 1e-6')
    return None


def check_scale_invariance(S, ref, est, which, k, c, images=False, tol=1e-6):
    """Multiplying estimate (which='est') or reference (which='ref') number k by c != 0 leaves every metric unchanged."""
    import numpy as np
    fn = S.bss_eval_images if images else S.bss_eval_sources
    names = ['sdr', 'isr', 'sir', 'sar'] if images else ['sdr', 'sir', 'sar']
    a = _quiet(fn, ref, est, False)
    r2, e2 = ref.copy(), est.copy()
    (e2 if which == 'est' else r2)[k] *= c
    b = _quiet(fn, r2, e2, False)
    bad = [n for n, x, y in zip(names, a, b) if not _close_db(x, y, tol)]
    if bad:
        return finding('separation.' + fn.__name__, 'unchanged when %s %d is multiplied by %r' % (which, k, c),
                       {'shape': list(ref.shape), 'which': which, 'k': k, 'c': c},
                       {n: [np.asarray(x).tolist(), np.asarray(y).tolist()] for n, x, y in zip(names, a, b) if n in bad},
                       'metrics that changed by more than %g dB: %s' % (tol, bad))
    return None


def _sir_table(S, ref, est, images):
    import numpy as np
    nsrc = est.shape[0]
    t = np.empty((nsrc, nsrc))
    if images:
        r3, e3 = np.atleast_3d(ref), np.atleast_3d(est)
        for a in range(nsrc):
            for b in range(nsrc):
                d = _quiet(S._bss_decomp_mtifilt_images, r3, np.reshape(e3[a], (e3.shape[1], e3.shape[2]), order='F'), b, 512)
                t[a, b] = S._bss_image_crit(*d)[2]
    else:
        for a in range(nsrc):
            for b in range(nsrc):
                d = _quiet(S._bss_decomp_mtifilt, ref, est[a], b, 512)
                t[a, b] = S._bss_source_crit(*d)[1]
    return t


def check_permutation(S, ref, est, sigma, images=False):
    """perm is a permutation of range(nsrc) with maximal mean SIR; reordering the estimates by sigma (est'[i] = est[sigma[i]])
    reorders it accordingly (sigma[perm'[j]] == perm[j]) and leaves the selected metrics unchanged."""
    import numpy as np
    fn = S.bss_eval_images if images else S.bss_eval_sources
    out = _quiet(fn, ref, est, True)
    perm = [int(x) for x in out[-1]]
    nsrc = est.shape[0]
    if sorted(perm) != list(range(nsrc)):
        return finding('separation.' + fn.__name__, 'perm is a permutation of range(nsrc)', {'shape': list(ref.shape)}, perm, '')
    sir = _sir_table(S, ref, est, images)
    if np.all(np.isfinite(sir)):
        means = {p: float(np.mean(sir[list(p), np.arange(nsrc)])) for p in itertools.permutations(range(nsrc))}
        best = max(means.values())
        if means[tuple(perm)] < best - 1e-9:
            return finding('separation.' + fn.__name__, 'perm maximises the mean SIR', {'shape': list(ref.shape)},
                           {'perm': perm, 'mean': means[tuple(perm)], 'best': best}, 'a permutation with a larger mean exists')
        margin = best - max([v for p, v in means.items() if p != tuple(perm)] + [-math.inf])
    else:
        margin = 0.0
    if margin > 1e-6:
        sigma = list(sigma)
        out2 = _quiet(fn, ref, est[sigma], True)
        perm2 = [int(x) for x in out2[-1]]
        if [sigma[i] for i in perm2] != perm:
            return finding('separation.' + fn.__name__, 'perm follows a reordering of the estimates',
                           {'shape': list(ref.shape), 'sigma': sigma}, {'perm': perm, 'perm_reordered': perm2}, 'sigma[perm2[j]] != perm[j]')
        for x, y in zip(out[:-1], out2[:-1]):
            if not _close_db(x, y, 1e-6):
                return finding('separation.' + fn.__name__, 'metrics unchanged by a reordering of the estimates',
                               {'shape': list(ref.shape), 'sigma': sigma}, [np.asarray(x).tolist(), np.asarray(y).tolist()], '')
    return None


def check_perfect(S, ref, sigma=None, images=False):
    """est = ref (optionally reordered by sigma): perm is the inverse reordering (identity without sigma), SDR > 200 dB or inf."""
    import numpy as np
    fn = S.bss_eval_images if images else S.bss_eval_sources
    nsrc = ref.shape[0]
    sigma = list(range(nsrc)) if sigma is None else list(sigma)
    est = ref[sigma].copy()
    out = _quiet(fn, ref, est, True)
    perm = [int(x) for x in out[-1]]
    want = [sigma.index(j) for j in range(nsrc)]
    if perm != want:
        return finding('separation.' + fn.__name__, 'perfect estimate: perm undoes the reordering (identity if none)',
                       {'shape': list(ref.shape), 'sigma': sigma}, perm, 'expected %r' % want)
    sdr = np.asarray(out[0], dtype=float)
    if not np.all((sdr > 200) | np.isposinf(sdr)):
        return finding('separation.' + fn.__name__, 'perfect estimate: SDR > 200 dB or inf', {'shape': list(ref.shape), 'sigma': sigma},
                       sdr.tolist(), '')
    return None


def check_framewise(S, ref, est, window, hop, images=False, cp=False):
    """Every column of the framewise result is the non-framewise result on that window (bit-identical), all-NaN in EVERY
    metric for a window with a silent source; number of windows floor((n - window + hop)/hop); arity 4 / 5."""
    import numpy as np
    fw = S.bss_eval_images_framewise if images else S.bss_eval_sources_framewise
    nf = S.bss_eval_images if images else S.bss_eval_sources
    arity = 5 if images else 4
    out = _quiet(fw, ref, est, window, hop, cp)
    inp = {'shape': list(ref.shape), 'window': window, 'hop': hop, 'cp': cp}
    if len(out) != arity:
        return finding('separation.' + fw.__name__, 'arity', inp, len(out), 'expected %d' % arity)
    r3 = np.atleast_3d(ref) if images else ref
    e3 = np.atleast_3d(est) if images else est
    n = r3.shape[1]
    nwin = (n - window + hop) // hop
    if nwin < 2:
        g = _quiet(nf, r3, e3, cp)
        for x, y in zip(out, g):
            if np.shape(x) != (r3.shape[0], 1) or not _close_db(np.asarray(x)[:, 0], y, 0.0):
                return finding('separation.' + fw.__name__, 'fewer than 2 windows: the global result with a trailing axis', inp,
                               [np.asarray(x).tolist(), np.asarray(y).tolist()], '')
        return None
    for x in out:
        if np.shape(x) != (r3.shape[0], nwin):
            return finding('separation.' + fw.__name__, 'shape (nsrc, nwin)', inp, list(np.shape(x)), 'expected %r' % [r3.shape[0], nwin])
    for k in range(nwin):
        sl = slice(k * hop, k * hop + window)
        rs, es = (r3[:, sl, :], e3[:, sl, :]) if images else (r3[:, sl], e3[:, sl])
        if S._any_source_silent(rs) or S._any_source_silent(es):
            for m, x in enumerate(out):
                if not np.all(np.isnan(np.asarray(x, dtype=float)[:, k])):
                    return finding('separation.' + fw.__name__, 'silent window: NaN in every metric', dict(inp, window_index=k, output=m),
                                   np.asarray(x)[:, k].tolist(), 'not NaN')
        else:
            g = _quiet(nf, rs, es, cp)
            for m, (x, y) in enumerate(zip(out, g)):
                if not _close_db(np.asarray(x)[:, k], y, 0.0):
                    return finding('separation.' + fw.__name__, 'column k = non-framewise result on window k', dict(inp, window_index=k, output=m),
                                   [np.asarray(x)[:, k].tolist(), np.asarray(y).tolist()], 'differs')
    return None


def check_cp_consistency(S, ref, est, images=False):
    """when the optimal permutation is the identity, compute_permutation=False returns exactly the metrics of compute_permutation=True"""
    import numpy as np
    fn = S.bss_eval_images if images else S.bss_eval_sources
    a = _quiet(fn, ref, est, True)
    if [int(x) for x in a[-1]] != list(range(est.shape[0])):
        return None
    b = _quiet(fn, ref, est, False)
    for m, (x, y) in enumerate(zip(a[:-1], b[:-1])):
        if not _close_db(x, y, 1e-9):
            return finding('separation.' + fn.__name__, 'compute_permutation=False equals compute_permutation=True when the best permutation is the identity',
                           {'shape': list(np.shape(ref)), 'metric_index': m}, [np.asarray(x).tolist(), np.asarray(y).tolist()], 'differs')
    return None


def targeted(S=None):
    """a fixed battery: every reordering of three sources (3-cycles are the permutations that differ from their inverse), the
    compute_permutation=False paths, and the fewer-than-two-windows fallback of the framewise functions with swapped estimates"""
    import numpy as np
    if S is None:
        from mir_eval import separation as S
    out = []

    def add(f):
        if f is not None:
            out.append(f)
    rs = np.random.RandomState(7)
    ref3 = rs.randn(3, 600)
    for sigma in ([1, 2, 0], [2, 0, 1], [0, 2, 1]):
        add(check_perfect(S, ref3, list(sigma)))
    est = ref3[[1, 2, 0]] + 0.3 * rs.randn(3, 600)
    add(check_permutation(S, ref3, est, [1, 2, 0]))
    ref2 = rs.randn(2, 700)
    est2 = ref2 + 0.4 * rs.randn(2, 700) + 0.2 * ref2[::-1]
    add(check_cp_consistency(S, ref2, est2))
    add(check_cp_consistency(S, ref2[:, :, None], est2[:, :, None], images=True))
    r2c = rs.randn(2, 600, 2)
    add(check_cp_consistency(S, r2c, r2c + 0.3 * rs.randn(2, 600, 2), images=True))
    # fewer than 2 windows, estimates swapped, compute_permutation False (the framewise default) and True
    r = rs.randn(2, 60)
    e = r[::-1] + 0.1 * rs.randn(2, 60)
    for cp in (False, True):
        add(check_framewise(S, r, e, 60, 30, False, cp))
        add(check_framewise(S, r, e, 60, 30, True, cp))
        add(check_framewise(S, r, e, 20, 20, False, cp))
        add(check_framewise(S, r, e, 20, 20, True, cp))
    return out


def check_empty_arity(S):
    """Documented arity (4 for sources, 5 for images) on empty input, all four public functions."""
    import numpy as np
    for fn, ar in [(S.bss_eval_sources, 4), (S.bss_eval_sources_framewise, 4), (S.bss_eval_images, 5), (S.bss_eval_images_framewise, 5)]:
        for e in (np.array([]), np.zeros((0, 0)), np.zeros((2, 0))):
            out = _quiet(fn, e, e)
            if len(out) != ar or any(np.asarray(x).size for x in out):
                return finding('separation.' + fn.__name__, 'empty input: %d empty arrays' % ar, {'shape': list(e.shape)},
                               [len(out)] + [list(np.shape(x)) for x in out], '')
    return None


def check_singular_gram(S):
    """Linearly dependent (proportional) references make the Gram matrix exactly singular; the code documents a
    least-squares fallback (`except LinAlgError: lstsq`), so valid non-silent input must not raise."""
    import numpy as np
    ref = np.array([[1., 0., 0., 0.], [2., 0., 0., 0.]])
    est = np.array([[1., 2., 0., 1.], [2., 1., 1., 0.]])
    for fn in (S.bss_eval_sources, S.bss_eval_images):
        try:
            _quiet(fn, ref, est)
        except Exception as e:  # noqa
            return finding('separation.' + fn.__name__, 'valid (non-silent, equally shaped) input with a singular Gram matrix is evaluated '
                           'through the lstsq fallback', {'ref': ref.tolist(), 'est': est.tolist()}, '%s: %s' % (type(e).__name__, e),
                           'the except clause names np.linalg.linalg.LinAlgError, which does not exist in NumPy >= 2')
    return None


# ----------------------------------------------------------------------------------------------------------------
def sweep(rng, n=6):
    """Self-test on the installed mir_eval; returns the findings (expected: only images SDR/ISR scale findings)."""
    import numpy as np
    from mir_eval import separation as S
    out = []

    def add(f):
        if f is not None:
            out.append(f)
    add(check_empty_arity(S))
    add(check_singular_gram(S))
    for it in range(n):
        seed = rng.randrange(10 ** 6)
        nsrc = rng.choice([1, 2, 2, 3])
        # private functions, short filters
        ref, est = signals(seed, nsrc, rng.choice([96, 128, 200]))
        for j in range(nsrc):
            add(check_decomp_sum(S, ref, est[rng.randrange(nsrc)], j, rng.choice([1, 8, 32])))
        add(check_project_hypotheses(S, ref, est[0], rng.choice([8, 32]), rng.choice([-2.5, 0.125, 40.0])))
        ref3, est3 = signals(seed + 1, min(nsrc, 2), 96, 2)
        add(check_decomp_sum(S, ref3, est3[0], 0, 8, images=True))
        add(check_project_hypotheses(S, ref3, est3[0], 8, -3.0, images=True))
        # public functions (flen = 512)
        nsrc = rng.choice([2, 2, 3]) if it % 3 == 0 else 2
        ref, est = signals(seed + 2, nsrc, rng.choice([1100, 1400]))
        k = rng.randrange(nsrc)
        c = rng.choice([-3.0, 0.25, 10.0])
        add(check_scale_invariance(S, ref, est, 'est', k, c))
        add(check_scale_invariance(S, ref, est, 'ref', k, c))
        add(check_scale_invariance(S, ref, est, 'est', k, c, images=True))
        add(check_scale_invariance(S, ref, est, 'ref', k, c, images=True))
        sigma = list(range(nsrc))
        rng.shuffle(sigma)
        add(check_permutation(S, ref, est, sigma))
        add(check_perfect(S, ref, sigma))
        add(check_perfect(S, ref))
        if it % 2 == 0:
            add(check_permutation(S, ref[:2], est[:2], [1, 0], images=True))
            add(check_perfect(S, ref[:2], [1, 0], images=True))
        # framewise on short integer signals with a silent stretch
        rs = np.random.RandomState(seed + 3)
        n1 = rng.randint(10, 24)
        r = rs.randint(1, 4, size=(rng.choice([1, 2]), n1)).astype(float)
        e = rs.randint(1, 4, size=r.shape).astype(float)
        hop = rng.randint(2, 5)
        window = rng.randint(2, 8)
        a = rng.randrange(0, n1)
        r[rng.randrange(r.shape[0]), a:a + window + hop] = 0.0
        if r.any(axis=1).all():
            add(check_framewise(S, r, e, window, hop, False, rng.random() < 0.5))
            add(check_framewise(S, r, e, window, hop, True, False))
            add(check_framewise(S, r, e, n1, hop, True, False))
    return out


if __name__ == '__main__':
    import json
    import random
    import sys
    fs = sweep(random.Random(0), int(sys.argv[1]) if len(sys.argv) > 1 else 6)
    kinds = {}
    for f in fs:
        kinds.setdefault((f['function'], f['relation'].split(' when ')[0], f['why']), []).append(f)
    for k, v in kinds.items():
        print(len(v), k, json.dumps(v[0]['input']), json.dumps(v[0]['observed'])[:300])
    print('findings:', len(fs))
