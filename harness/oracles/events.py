"""Property oracles on the implementation for event matching and the hit-based event metrics
(util.match_events, beat.f_measure, onset.f_measure, segment.detection, segment.deviation).

They state the properties proved for the model (Proofs/EventsSpec.v, Proofs/EventMetricsProps.v) directly on mir_eval's
API: range, ref/est swap, window monotonicity over nested windows (including windows equal to an occurring distance),
perfect estimate, time-shift invariance, order invariance, "the matching is valid and maximum".  Used only to search for a
concrete failing input once a proof obligation or a correspondence no longer checks; no verdict of "holds" rests on them.

Every check takes the imported package `M` (mir_eval) first and returns None or a finding dict
{'function','relation','input','observed','why'}.  Inputs are plain lists of floats; use lattice values (k/64, intervals
k/32) so that the float comparisons are exact."""
import itertools
import math

EPS = 1e-9


def finding(function, relation, inp, observed, why):
    return {'function': function, 'relation': relation, 'input': inp, 'observed': observed, 'why': why}


def _arr(x):
    import numpy as np
    return np.asarray(x, dtype=float)


def _ivs(x):
    import numpy as np
    return np.asarray(x, dtype=float).reshape(-1, 2) if len(x) else np.zeros((0, 2))


def _call(fn, *a, **k):
    import warnings
    with warnings.catch_warnings():
        warnings.simplefilter('ignore')
        return fn(*a, **k)


# ----------------------------------------------------------------------------------------------
# maximum matching, independently of util._bipartite_match
# ----------------------------------------------------------------------------------------------

def max_matching_size(n_ref, n_est, feasible):
    """Kuhn's augmenting-path algorithm; feasible(i, j) -> bool."""
    match_est = [-1] * n_est

    def try_ref(i, seen):
        for j in range(n_est):
            if feasible(i, j) and not seen[j]:
                seen[j] = True
                if match_est[j] < 0 or try_ref(match_est[j], seen):
                    match_est[j] = i
                    return True
        return False

    return sum(1 for i in range(n_ref) if try_ref(i, [False] * n_est))


def brute_max_matching_size(n_ref, n_est, feasible):
    """Exhaustive search (n_ref, n_est <= 6)."""
    best = 0
    small, large, f = (n_ref, n_est, feasible) if n_ref <= n_est else (n_est, n_ref, lambda a, b: feasible(b, a))

    def rec(i, used, size):
        nonlocal best
        best = max(best, size)
        if i == small or size + (small - i) <= best:
            return
        rec(i + 1, used, size)
        for j in range(large):
            if not used >> j & 1 and f(i, j):
                rec(i + 1, used | 1 << j, size + 1)

    rec(0, 0, 0)
    return best


def check_match_events(M, ref, est, window, distance=None):
    """util.match_events returns a sorted, valid, one-to-one matching of maximum size."""
    name = 'util.match_events'
    r, e = _arr(ref), _arr(est)
    inp = {'ref': list(ref), 'est': list(est), 'window': window, 'distance': getattr(distance, '__name__', None)}
    try:
        m = _call(M.util.match_events, r, e, window, distance) if distance is not None else _call(M.util.match_events, r, e, window)
    except Exception as ex:  # noqa
        return finding(name, 'does not raise', inp, type(ex).__name__, str(ex)[:200])
    m = [(int(i), int(j)) for i, j in m]
    if distance is not None:
        D = distance(r, e) if len(r) and len(e) else None
        feas = lambda i, j: bool(D[i, j] <= window)
    else:
        feas = lambda i, j: abs(r[i] - e[j]) <= window
    if m != sorted(m):
        return finding(name, 'the matching is sorted', inp, m, '')
    if len(set(i for i, _ in m)) != len(m) or len(set(j for _, j in m)) != len(m):
        return finding(name, 'each reference and each estimate is matched at most once', inp, m, '')
    for i, j in m:
        if not (0 <= i < len(r) and 0 <= j < len(e)) or not feas(i, j):
            return finding(name, 'every matched pair is within the window', inp, m, 'pair (%d,%d)' % (i, j))
    best = max_matching_size(len(r), len(e), feas)
    if len(r) <= 6 and len(e) <= 6:
        b2 = brute_max_matching_size(len(r), len(e), feas)
        if b2 != best:
            return finding('oracle', 'Kuhn = brute force', inp, [best, b2], 'oracle bug')
    if len(m) != best:
        return finding(name, 'the matching has maximum size', inp, {'matching': m, 'maximum': best}, '')
    # _fast_hit_windows == np.where(|outer| <= window)
    if distance is None:
        hr, he = _call(M.util._fast_hit_windows, r, e, window)
        got = sorted((int(a), int(b)) for a, b in zip(hr, he))
        want = sorted((i, j) for i in range(len(r)) for j in range(len(e)) if abs(r[i] - e[j]) <= window)
        if got != want:
            return finding('util._fast_hit_windows', 'equals np.where(abs(outer) <= window)', inp, {'got': got, 'want': want}, '')
    return None


def check_match_events_order(M, ref, est, window, perm_ref, perm_est):
    """Reordering the items leaves the size of the matching unchanged."""
    r, e = _arr(ref), _arr(est)
    a = len(_call(M.util.match_events, r, e, window))
    r2, e2 = _arr([ref[i] for i in perm_ref]), _arr([est[j] for j in perm_est])
    b = len(_call(M.util.match_events, r2, e2, window))
    if a != b:
        return finding('util.match_events', 'size is invariant under reordering of the items',
                       {'ref': list(ref), 'est': list(est), 'window': window, 'perm_ref': list(perm_ref), 'perm_est': list(perm_est)}, [a, b], '')
    return None


# ----------------------------------------------------------------------------------------------
# the P/R/F metrics, uniformly as (P, R, F)
# ----------------------------------------------------------------------------------------------

def _metric(M, kind):
    """kind -> function (ref, est, window) -> (P, R, F) with P, R possibly None (beat returns only F)."""
    if kind == 'beat':
        return lambda r, e, w: (None, None, float(_call(M.beat.f_measure, _arr(r), _arr(e), w)))
    if kind == 'onset':
        def f(r, e, w):
            F, P, R = _call(M.onset.f_measure, _arr(r), _arr(e), w)
            return float(P), float(R), float(F)
        return f
    if kind in ('detection', 'detection_trim'):
        trim = kind.endswith('trim')

        def g(r, e, w, beta=1.0):
            P, R, F = _call(M.segment.detection, _ivs(r), _ivs(e), window=w, beta=beta, trim=trim)
            return float(P), float(R), float(F)
        return g
    raise ValueError(kind)


def _n_items(M, kind, x):
    """number of events the metric sees (boundaries after trimming for detection)."""
    if kind in ('beat', 'onset'):
        return len(x)
    b = M.util.intervals_to_boundaries(_ivs(x))
    if kind.endswith('trim'):
        b = b[1:-1]
    return len(b)


def _distances(M, kind, ref, est):
    if kind in ('beat', 'onset'):
        a, b = list(ref), list(est)
    else:
        a, b = list(M.util.intervals_to_boundaries(_ivs(ref))), list(M.util.intervals_to_boundaries(_ivs(est)))
        if kind.endswith('trim'):
            a, b = a[1:-1], b[1:-1]
    return sorted(set(abs(x - y) for x in a for y in b))


def check_prf(M, kind, ref, est, window, shift=1.0):
    """range, swap, nested windows, self-score, shift invariance for one metric on one input.
    kind in beat | onset | detection | detection_trim.  `shift` must keep all values exactly representable."""
    name = {'beat': 'beat.f_measure', 'onset': 'onset.f_measure'}.get(kind, 'segment.detection')
    f = _metric(M, kind)
    inp = {'kind': kind, 'ref': [list(x) if isinstance(x, (list, tuple)) else x for x in ref],
           'est': [list(x) if isinstance(x, (list, tuple)) else x for x in est], 'window': window}
    try:
        P, R, F = f(ref, est, window)
    except ValueError:
        return None                      # rejected by the validators: outside the properties
    except Exception as ex:  # noqa
        return finding(name, 'raises only ValueError', inp, type(ex).__name__, str(ex)[:200])
    for nm, x in (('P', P), ('R', R), ('F', F)):
        if x is not None and not (0.0 <= x <= 1.0 and math.isfinite(x)):
            return finding(name, 'scores lie in [0, 1]', inp, {nm: x}, '')
    nr, ne = _n_items(M, kind, ref), _n_items(M, kind, est)
    if (nr == 0 or ne == 0) and F != 0.0:
        return finding(name, 'an empty side scores 0', inp, F, '')
    # swap
    P2, R2, F2 = f(est, ref, window)
    if abs(F - F2) > EPS or (P is not None and (abs(P - R2) > EPS or abs(R - P2) > EPS)):
        return finding(name, 'swapping reference and estimate exchanges P and R and keeps F', inp, {'fwd': [P, R, F], 'swapped': [P2, R2, F2]}, '')
    # nested windows: every occurring distance (exactly on the threshold), just below, and the given window
    ds = _distances(M, kind, ref, est)
    ws = sorted(set([0.0, window] + ds + [d / 2 for d in ds[:4]] + [ds[-1] + 1.0 if ds else 1.0]))
    prev = None
    for w in ws:
        cur = f(ref, est, w)
        if prev is not None:
            for a, b, nm in zip(prev[1], cur, 'PRF'):
                if a is not None and b < a - EPS:
                    return finding(name, 'a larger window never lowers %s' % nm, inp, {'windows': [prev[0], w], nm: [a, b]}, '')
        prev = (w, cur)
    if ds and nr and ne:
        top = f(ref, est, ds[-1])
        hmax = min(nr, ne)
        wantP, wantR = hmax / ne, hmax / nr
        if top[0] is not None and (abs(top[0] - wantP) > EPS or abs(top[1] - wantR) > EPS):
            return finding(name, 'with the window equal to the largest distance every pair is feasible: hits = min(|ref|, |est|)',
                           inp, {'window': ds[-1], 'PRF': top}, '')
    # self
    for x in (ref, est):
        n = _n_items(M, kind, x)
        S = f(x, x, window if window >= 0 else 0.0)
        want = 1.0 if n else 0.0
        if any(v is not None and abs(v - want) > EPS for v in S):
            return finding(name, 'a perfect estimate scores %g' % want, {'kind': kind, 'x': inp['ref'] if x is ref else inp['est'], 'window': window}, S, '')
    # shift
    sh = (lambda x: [v + shift for v in x]) if kind in ('beat', 'onset') else (lambda x: [[a + shift, b + shift] for a, b in x])
    S = f(sh(ref), sh(est), window)
    if any(a is not None and abs(a - b) > EPS for a, b in zip((P, R, F), S)):
        return finding(name, 'adding the same offset to all times leaves the scores unchanged', dict(inp, shift=shift), {'orig': [P, R, F], 'shifted': S}, '')
    return None


def check_detection_order(M, ref, est, window, perm_ref, perm_est, trim=False):
    """The order of the interval rows does not matter (boundaries are np.unique'd)."""
    f = _metric(M, 'detection_trim' if trim else 'detection')
    try:
        a = f(ref, est, window)
        b = f([ref[i] for i in perm_ref], [est[j] for j in perm_est], window)
    except ValueError:
        return None
    if any(abs(x - y) > EPS for x, y in zip(a, b)):
        return finding('segment.detection', 'invariant under reordering of the interval rows',
                       {'ref': [list(x) for x in ref], 'est': [list(x) for x in est], 'window': window, 'trim': trim,
                        'perm_ref': list(perm_ref), 'perm_est': list(perm_est)}, [a, b], '')
    return None


def check_detection_beta(M, ref, est, window, beta, trim=False):
    """F lies between min(P,R) and max(P,R) for every beta > 0 and equals util.f_measure(P, R, beta)."""
    try:
        P, R, F = _call(M.segment.detection, _ivs(ref), _ivs(est), window=window, beta=beta, trim=trim)
    except ValueError:
        return None
    lo, hi = min(P, R), max(P, R)
    inp = {'ref': [list(x) for x in ref], 'est': [list(x) for x in est], 'window': window, 'beta': beta, 'trim': trim}
    if not (lo - EPS <= F <= hi + EPS) and not (P == 0 or R == 0):
        return finding('segment.detection', 'F is a weighted harmonic mean: min(P,R) <= F <= max(P,R)', inp, [P, R, F], '')
    if abs(F - M.util.f_measure(P, R, beta=beta)) > EPS:
        return finding('segment.detection', 'F = util.f_measure(P, R, beta)', inp, [P, R, F], '')
    return None


def _same(a, b):
    return (a != a and b != b) or (a == a and b == b and abs(a - b) <= EPS)


def check_deviation(M, ref, est, trim=False, shift=1.0, perm_ref=None, perm_est=None):
    """non-negativity, swap, self = 0, NaN iff a side is empty, shift and row-order invariance of segment.deviation."""
    name = 'segment.deviation'
    inp = {'ref': [list(x) for x in ref], 'est': [list(x) for x in est], 'trim': trim}
    try:
        a, b = (float(x) for x in _call(M.segment.deviation, _ivs(ref), _ivs(est), trim=trim))
    except ValueError:
        return None
    except Exception as ex:  # noqa
        return finding(name, 'raises only ValueError', inp, type(ex).__name__, str(ex)[:200])
    nr, ne = _n_items(M, 'detection_trim' if trim else 'detection', ref), _n_items(M, 'detection_trim' if trim else 'detection', est)
    empty = nr == 0 or ne == 0
    if empty != (a != a) or empty != (b != b):
        return finding(name, 'NaN exactly when a side has no boundary', inp, [a, b], 'sizes %d, %d' % (nr, ne))
    if not empty and (a < 0 or b < 0 or not math.isfinite(a) or not math.isfinite(b)):
        return finding(name, 'deviations are finite and non-negative', inp, [a, b], '')
    b2, a2 = (float(x) for x in _call(M.segment.deviation, _ivs(est), _ivs(ref), trim=trim))
    if not (_same(a, a2) and _same(b, b2)):
        return finding(name, 'ref-to-est of (a, b) is est-to-ref of (b, a)', inp, {'fwd': [a, b], 'swapped': [b2, a2]}, '')
    for x, n in ((ref, nr), (est, ne)):
        s = [float(v) for v in _call(M.segment.deviation, _ivs(x), _ivs(x), trim=trim)]
        if n and s != [0.0, 0.0]:
            return finding(name, 'a perfect estimate has deviations 0', {'x': [list(v) for v in x], 'trim': trim}, s, '')
    sh = lambda x: [[p + shift, q + shift] for p, q in x]
    s = [float(v) for v in _call(M.segment.deviation, _ivs(sh(ref)), _ivs(sh(est)), trim=trim)]
    if not (_same(a, s[0]) and _same(b, s[1])):
        return finding(name, 'adding the same offset to all times leaves the deviations unchanged', dict(inp, shift=shift), {'orig': [a, b], 'shifted': s}, '')
    if perm_ref is not None and perm_est is not None:
        s = [float(v) for v in _call(M.segment.deviation, _ivs([ref[i] for i in perm_ref]), _ivs([est[j] for j in perm_est]), trim=trim)]
        if not (_same(a, s[0]) and _same(b, s[1])):
            return finding(name, 'invariant under reordering of the interval rows', dict(inp, perm_ref=list(perm_ref), perm_est=list(perm_est)), {'orig': [a, b], 'permuted': s}, '')
    return None


# ----------------------------------------------------------------------------------------------
# search driver
# ----------------------------------------------------------------------------------------------

def _events(rng, den=64):
    n = rng.choice([0, 1, 2, 3, 4, 5, 6, 8])
    span = rng.choice([8, 32, 200])
    l = sorted(rng.randint(0, span) for _ in range(n))
    return [k / den for k in l]


def _est_near(rng, ref, w, den=64):
    out = []
    for r in ref:
        c = rng.random()
        if c < 0.35:
            out.append(max(0.0, r + rng.choice([-1, 1]) * w))
        elif c < 0.5:
            out.append(max(0.0, r + rng.choice([-1, 1]) * (w + 1 / den)))
        elif c < 0.7:
            out.append(r)
        elif c < 0.85:
            out.append(rng.randint(0, 200) / den)
    if rng.random() < 0.4:
        out.append(rng.randint(0, 200) / den)
    return sorted(out)


def _intervals(bs):
    bs = sorted(set(bs))
    return [[bs[i], bs[i + 1]] for i in range(len(bs) - 1)]


def search(M, rng, n=300):
    """Run all oracles on n random structured inputs; return the first finding or None."""
    for _ in range(n):
        w = rng.choice([0.0, 1 / 64, 4 / 64, 0.5, 1.0, 0.07, 0.05])
        wl = rng.choice([1 / 64, 4 / 64, 0.5, 1.0])
        ref = _events(rng)
        est = _est_near(rng, ref, wl) if rng.random() < 0.8 else _events(rng)
        r2, e2 = list(ref), list(est)
        rng.shuffle(r2)
        rng.shuffle(e2)
        for x in (check_match_events(M, r2, e2, wl), check_match_events(M, ref, est, w),
                  check_match_events(M, r2, e2, rng.choice([0.0, 0.25, 0.5, 1.0]), M.util._outer_distance_mod_n)):
            if x:
                return x
        pr, pe = list(range(len(ref))), list(range(len(est)))
        rng.shuffle(pr)
        rng.shuffle(pe)
        x = check_match_events_order(M, ref, est, wl, pr, pe)
        if x:
            return x
        for kind in ('beat', 'onset'):
            x = check_prf(M, kind, ref, est, rng.choice([w, wl]), shift=rng.choice([1.0, 0.25, 100.0]))
            if x:
                return x
        # intervals on the 1/32 lattice (np.round(., 5) is the identity there)
        rb = [k / 32 for k in sorted(set(rng.randint(0, 400) for _ in range(rng.choice([0, 2, 3, 4, 6, 8]))))]
        eb = [max(0.0, b + rng.choice([-1, 0, 0, 1]) * rng.choice([wl, wl + 1 / 32])) for b in rb if rng.random() < 0.85]
        if rng.random() < 0.5:
            eb.append(rng.randint(0, 400) / 32)
        ri, ei = _intervals(rb), _intervals(eb)
        pr, pe = list(range(len(ri))), list(range(len(ei)))
        rng.shuffle(pr)
        rng.shuffle(pe)
        trim = rng.random() < 0.5
        for x in (check_prf(M, 'detection_trim' if trim else 'detection', ri, ei, rng.choice([0.5, 3.0, wl]), shift=rng.choice([1.0, 0.25, 100.0])),
                  check_detection_order(M, ri, ei, wl, pr, pe, trim), check_detection_beta(M, ri, ei, wl, rng.choice([0.5, 1.0, 2.0, 0.58]), trim),
                  check_deviation(M, ri, ei, trim, rng.choice([1.0, 0.25, 100.0]), pr, pe)):
            if x:
                return x
    return None


def fixed_cases(M):
    """Boundary cases run on every search."""
    cs = [([1.0, 2.0], [1.5, 0.5], 0.5), ([], [], 0.5), ([1.0], [], 0.5), ([], [1.0], 0.5), ([1.0, 1.0, 1.0], [1.0, 1.0], 0.0),
          ([1.0, 2.0, 3.0], [1.0, 2.0, 3.0], 0.0), ([1.0], [1.5], 0.5), ([1.0], [1.515625], 0.5)]
    for r, e, w in cs:
        x = check_match_events(M, r, e, w)
        if x:
            return x
        for kind in ('beat', 'onset'):
            x = check_prf(M, kind, sorted(r), sorted(e), w)
            if x:
                return x
    iv = [([[0, 10], [10, 20], [20, 30]], [[0, 10.5], [10.5, 22], [22, 30]]), ([], []), ([[0, 1]], []), ([[0, 1]], [[0, 1]]),
          ([[0, 1], [1, 2]], [[0, 1.5], [1.5, 2]])]
    for r, e in iv:
        for trim in (False, True):
            for x in (check_prf(M, 'detection_trim' if trim else 'detection', r, e, 0.5), check_deviation(M, r, e, trim)):
                if x:
                    return x
    return None


if __name__ == '__main__':
    import json
    import random
    import sys
    sys.path.insert(0, '/repo')
    import mir_eval
    n = int(sys.argv[1]) if len(sys.argv) > 1 else 300
    res = fixed_cases(mir_eval) or search(mir_eval, random.Random(0), n)
    print(json.dumps(res, indent=1, default=str) if res else 'no finding in fixed cases + %d random inputs' % n)
