"""Property oracles on mir_eval.melody's API (C01, C02, C04, C07, C09, C15). They state the properties directly on the
implementation, on (voicing, cent) arrays and on Hz inputs through `evaluate`. Used only to search for a concrete failing
input once a proof obligation or a correspondence no longer checks; no verdict of "holds" rests on them.

Every check takes the module (`import mir_eval.melody as M`) first and returns None or a finding dict
{'function','relation','input','observed','why'}.  `search(M, seed, n)` runs all of them on generated inputs."""
import copy
import math
import random
import warnings
from fractions import Fraction

TOL = 1e-9
KEYS = ['Voicing Recall', 'Voicing False Alarm', 'Raw Pitch Accuracy', 'Raw Chroma Accuracy', 'Overall Accuracy']


def finding(function, relation, inp, observed, why):
    return {'function': function, 'relation': relation, 'input': inp, 'observed': observed, 'why': why}


def _arr(l, dtype=float):
    import numpy as np
    return np.array(l, dtype=dtype)


def _quiet(fn, *a, **k):
    with warnings.catch_warnings():
        warnings.simplefilter('ignore')
        return fn(*a, **k)


def _five(M, rv, rc, ev, ec, tol):
    """the five measures on cent/voicing arrays -> list of floats (recall, false alarm, rpa, rca, oa)"""
    a = (_arr(rv), _arr(rc), _arr(ev), _arr(ec))
    r, f = _quiet(M.voicing_measures, a[0], a[2])
    return [float(r), float(f)] + [float(_quiet(g, *a, cent_tolerance=tol)) for g in
                                   (M.raw_pitch_accuracy, M.raw_chroma_accuracy, M.overall_accuracy)]


# ----------------------------------------------------------------------------------------------------------------------
# C04: the published definitions, evaluated independently in exact arithmetic
# ----------------------------------------------------------------------------------------------------------------------
def documented(rv, rc, ev, ec, tol):
    """Salamon et al. 2014 / Bittner & Bosch 2019 sums over frames, in Fractions (None where the definition is 0/0)."""
    F = Fraction
    rv, rc, ev, ec, tol = [F(x) for x in rv], [F(x) for x in rc], [F(x) for x in ev], [F(x) for x in ec], F(tol)
    n = len(rv)
    voiced = [1 if v > 0 else 0 for v in rv]

    def pitched(i):
        return rc[i] != 0 and ec[i] != 0

    def T(i):
        return 1 if pitched(i) and abs(rc[i] - ec[i]) < tol else 0

    def Tch(i):
        if not pitched(i):
            return 0
        d = abs(rc[i] - ec[i])
        return 1 if abs(d - 1200 * math.floor(d / 1200 + F(1, 2))) < tol else 0
    nv, nu, R = sum(voiced), n - sum(voiced), sum(rv)
    rec = sum(ev[i] * voiced[i] for i in range(n)) / nv if nv else None
    fa = sum(ev[i] * (1 - voiced[i]) for i in range(n)) / nu if nu else None
    rpa = sum(rv[i] * T(i) for i in range(n)) / R if R else None
    rca = sum(rv[i] * Tch(i) for i in range(n)) / R if R else None
    oa = None
    if n:
        first = (F(nv) / R) * sum(rv[i] * ev[i] * T(i) for i in range(n)) if R else 0
        oa = (first + sum((1 - voiced[i]) * (1 - ev[i]) for i in range(n))) / n
    return [rec, fa, rpa, rca, oa]


def check_definitions(M, rv, rc, ev, ec, tol=50.0):
    """C04 (+ C01 range, C07 rpa <= rca) on one valid frame sequence."""
    try:
        got = _five(M, rv, rc, ev, ec, tol)
    except Exception as e:  # noqa
        return finding('melody.*', 'valid arrays are accepted', [rv, rc, ev, ec, tol], type(e).__name__, str(e)[:80])
    want = documented(rv, rc, ev, ec, tol)
    for name, g, w in zip(KEYS, got, want):
        if not (math.isfinite(g) and -TOL <= g <= 1 + TOL):
            return finding('melody.' + name, 'score lies in [0, 1]', [rv, rc, ev, ec, tol], g, 'out of range')
        if w is not None and abs(g - float(w)) > TOL:
            return finding('melody.' + name, 'equals the published sum-over-frames definition', [rv, rc, ev, ec, tol], g,
                           'definition gives %r' % float(w))
    if got[2] > got[3] + TOL:
        return finding('melody.raw_chroma_accuracy', 'raw pitch accuracy <= raw chroma accuracy', [rv, rc, ev, ec, tol], got[2:4], '')
    return None


def check_tol_mono(M, rv, rc, ev, ec, tol1, tol2):
    """C07: RPA, RCA, OA are non-decreasing in cent_tolerance."""
    lo, hi = min(tol1, tol2), max(tol1, tol2)
    a, b = _five(M, rv, rc, ev, ec, lo), _five(M, rv, rc, ev, ec, hi)
    for i in (2, 3, 4):
        if a[i] > b[i] + TOL:
            return finding('melody.' + KEYS[i], 'non-decreasing in cent_tolerance', [rv, rc, ev, ec, lo, hi], [a[i], b[i]], '')
    return None


def check_self(M, rv, rc, tol=50.0):
    """C02 on arrays: a perfect estimate (binary voicing, >= 1 voiced frame)."""
    if not any(v > 0 for v in rv):
        return None
    got = _five(M, rv, rc, rv, rc, tol)
    want = [1.0, 0.0, 1.0, 1.0, 1.0]
    for name, g, w in zip(KEYS, got, want):
        if abs(g - w) > TOL:
            return finding('melody.' + name, 'perfect estimate scores %g' % w, [rv, rc, tol], g, '')
    return None


def check_shift(M, rv, rc, ev, ec, c, tol=50.0):
    """C09: adding c cents to all non-zero reference and estimate cents leaves RPA, RCA, OA unchanged."""
    sh = lambda l: [x + c if x != 0 else 0.0 for x in l]
    if any(x != 0 and x + c == 0 for x in rc + ec):
        return None
    a, b = _five(M, rv, rc, ev, ec, tol), _five(M, rv, sh(rc), ev, sh(ec), tol)
    for i in (2, 3, 4):
        if abs(a[i] - b[i]) > TOL:
            return finding('melody.' + KEYS[i], 'invariant under a joint cent shift', [rv, rc, ev, ec, c, tol], [a[i], b[i]], '')
    return None


def check_octave(M, rv, rc, ev, ec, k, tol=50.0):
    """C09: shifting only the estimate by k * 1200 cents leaves RCA unchanged."""
    sh = [x + 1200.0 * k if x != 0 else 0.0 for x in ec]
    if any(x != 0 and x + 1200.0 * k == 0 for x in ec):
        return None
    a, b = _five(M, rv, rc, ev, ec, tol), _five(M, rv, rc, ev, sh, tol)
    if abs(a[3] - b[3]) > TOL:
        return finding('melody.raw_chroma_accuracy', 'invariant under octave shifts of the estimate', [rv, rc, ev, ec, k, tol], [a[3], b[3]], '')
    return None


# ----------------------------------------------------------------------------------------------------------------------
# on Hz inputs through evaluate
# ----------------------------------------------------------------------------------------------------------------------
def _evaluate(M, rt, rf, et, ef, **kw):
    kw = {k: (_arr(v) if isinstance(v, list) else v) for k, v in kw.items()}
    s = _quiet(M.evaluate, _arr(rt), _arr(rf), _arr(et), _arr(ef), **kw)
    return [float(s[k]) for k in KEYS]


def check_evaluate_range(M, rt, rf, et, ef, **kw):
    """C01 through evaluate."""
    try:
        got = _evaluate(M, rt, rf, et, ef, **kw)
    except Exception:  # noqa  (malformed input is outside C01)
        return None
    for name, g in zip(KEYS, got):
        if not (math.isfinite(g) and -TOL <= g <= 1 + TOL):
            return finding('melody.evaluate', name + ' lies in [0, 1]', [rt, rf, et, ef, kw], g, 'out of range')
    if got[2] > got[3] + TOL:
        return finding('melody.evaluate', 'raw pitch accuracy <= raw chroma accuracy', [rt, rf, et, ef, kw], got[2:4], '')
    return None


def check_evaluate_self(M, t, f, **kw):
    """C02 through evaluate: the reference evaluated against itself (>= 1 voiced frame)."""
    if not any(x > 0 for x in f) or any(x < 0 for x in f):
        return None
    tk = {k: v for k, v in kw.items() if k in ('hop', 'base_frequency', 'kind')}
    if not _quiet(M.to_cent_voicing, _arr(t), _arr(f), _arr(t), _arr(f), **tk)[0].sum() > 0:
        return None            # resampling to `hop` can lose every voiced frame
    got = _evaluate(M, t, f, t, f, **kw)
    want = [1.0, 0.0, 1.0, 1.0, 1.0]
    for name, g, w in zip(KEYS, got, want):
        if abs(g - w) > TOL:
            return finding('melody.evaluate', 'perfect estimate: %s = %g' % (name, w), [t, f, kw], g, '')
    return None


def check_sign_flip(M, rt, rf, et, ef, **kw):
    """C09: negating the estimated frequencies (est_voicing not given) leaves RPA and RCA unchanged."""
    a = _evaluate(M, rt, rf, et, ef, **kw)
    b = _evaluate(M, rt, rf, et, [-x for x in ef], **kw)
    for i in (2, 3):
        if abs(a[i] - b[i]) > TOL:
            return finding('melody.evaluate', KEYS[i] + ' invariant under negating est_freq', [rt, rf, et, ef, kw], [a[i], b[i]], '')
    return None


def check_transpose(M, rt, rf, et, ef, ratio, **kw):
    """C09 in Hz: multiplying all frequencies by a common factor is a joint cent shift. The 50-cent threshold is crossed by
    rounding only when a difference sits within 1e-6 cents of it, so such inputs are skipped."""
    import numpy as np
    a = _evaluate(M, rt, rf, et, ef, **kw)
    b = _evaluate(M, rt, [x * ratio for x in rf], et, [x * ratio for x in ef], **kw)
    rv, rc, ev, ec = _quiet(M.to_cent_voicing, _arr(rt), _arr(rf), _arr(et), _arr(ef), **{k: (_arr(v) if isinstance(v, list) else v) for k, v in kw.items() if k != 'cent_tolerance'})
    d = np.abs(rc - ec)[(rc != 0) & (ec != 0)]
    tol = kw.get('cent_tolerance', 50)
    fold = np.abs(d - 1200 * np.floor(d / 1200 + 0.5))
    if d.size and (np.min(np.abs(d - tol)) < 1e-6 or np.min(np.abs(fold - tol)) < 1e-6 or np.min(np.abs(fold - 600)) < 1e-6):
        return None
    if any(abs(x) == 10.0 or abs(x * ratio) == 10.0 for x in list(rf) + list(ef)):   # cent value 0 = "no pitch" marker
        return None
    for i in (2, 3, 4):
        if abs(a[i] - b[i]) > 1e-7:
            return finding('melody.evaluate', KEYS[i] + ' invariant under transposing reference and estimate together',
                           [rt, rf, et, ef, ratio, kw], [a[i], b[i]], '')
    return None


def check_octave_hz(M, rt, rf, et, ef, k, **kw):
    """C09 in Hz: est_freq * 2**k leaves RCA unchanged (same near-threshold skip as check_transpose)."""
    import numpy as np
    rv, rc, ev, ec = _quiet(M.to_cent_voicing, _arr(rt), _arr(rf), _arr(et), _arr(ef))
    d = np.abs(rc - ec)[(rc != 0) & (ec != 0)]
    fold = np.abs(d - 1200 * np.floor(d / 1200 + 0.5))
    tol = kw.get('cent_tolerance', 50)
    if d.size and (np.min(np.abs(fold - tol)) < 1e-6 or np.min(np.abs(fold - 600)) < 1e-6):
        return None
    a = _evaluate(M, rt, rf, et, ef, **kw)
    b = _evaluate(M, rt, rf, et, [x * 2.0 ** k for x in ef], **kw)
    if abs(a[3] - b[3]) > 1e-7:
        return finding('melody.evaluate', 'Raw Chroma Accuracy invariant under octave transposition of the estimate',
                       [rt, rf, et, ef, k, kw], [a[3], b[3]], '')
    return None


# ----------------------------------------------------------------------------------------------------------------------
# C15: purity (snapshot of every argument) and repeatability
# ----------------------------------------------------------------------------------------------------------------------
def check_purity(M, fname, args, kwargs=None):
    """Call M.<fname>(*args, **kwargs) on NumPy copies of the (list) arguments; every argument must be bit-identical
    afterwards and a second call on fresh copies must give the same result."""
    import numpy as np
    kwargs = kwargs or {}
    conv = lambda v: _arr(v) if isinstance(v, list) else v
    a1, k1 = [conv(v) for v in args], {k: conv(v) for k, v in kwargs.items()}
    snap_a, snap_k = copy.deepcopy(a1), copy.deepcopy(k1)
    try:
        r1 = _quiet(getattr(M, fname), *a1, **k1)
    except Exception:  # noqa
        r1 = None

    def same(x, y):
        if isinstance(x, np.ndarray):
            return x.shape == y.shape and x.dtype == y.dtype and np.array_equal(x, y, equal_nan=True)
        return x == y
    for i, (x, y) in enumerate(zip(a1, snap_a)):
        if not same(x, y):
            return finding('melody.' + fname, 'does not modify its arguments', {'args': args, 'kwargs': kwargs},
                           {'argument': i, 'before': np.asarray(y).tolist(), 'after': np.asarray(x).tolist()}, 'caller array changed')
    for k in k1:
        if not same(k1[k], snap_k[k]):
            return finding('melody.' + fname, 'does not modify its arguments', {'args': args, 'kwargs': kwargs},
                           {'argument': k, 'before': np.asarray(snap_k[k]).tolist(), 'after': np.asarray(k1[k]).tolist()}, 'caller array changed')
    if r1 is not None:
        r2 = _quiet(getattr(M, fname), *[conv(v) for v in args], **{k: conv(v) for k, v in kwargs.items()})
        flat = lambda r: [np.asarray(x).tolist() for x in (r.values() if isinstance(r, dict) else r if isinstance(r, tuple) else [r])]
        if flat(r1) != flat(r2):
            return finding('melody.' + fname, 'repeatable', {'args': args, 'kwargs': kwargs}, [flat(r1), flat(r2)], 'two calls differ')
    return None


def known_purity_cases():
    """the inputs on which freq_to_voicing's in-place `voicing[frequencies == 0] = 0` reaches the caller's array"""
    t = [0.0, 0.1, 0.2]
    return [('evaluate', [t, [100.0, 100.0, 100.0], t, [100.0, 0.0, 100.0]], {'est_voicing': [1.0, 1.0, 1.0]}),
            ('evaluate', [t, [100.0, 0.0, 100.0], t, [100.0, 100.0, 100.0]], {'ref_reward': [1.0, 1.0, 1.0]}),
            ('to_cent_voicing', [t, [100.0, 100.0, 100.0], t, [100.0, 0.0, 100.0]], {'est_voicing': [0.5, 0.5, 0.5]}),
            ('freq_to_voicing', [[1.0, 0.0, 2.0], [0.5, 0.5, 0.5]], {})]


# ----------------------------------------------------------------------------------------------------------------------
# generators / driver
# ----------------------------------------------------------------------------------------------------------------------
def rnd_frames(rng, binary=None):
    n = rng.randint(1, 12)
    binary = rng.random() < 0.5 if binary is None else binary
    tol = rng.choice([50.0, 25.0, 100.0, 12.5])
    rv, rc, ev, ec = [], [], [], []
    for _ in range(n):
        a = float(rng.random() < 0.7) if binary else rng.choice([0.0, 0.25, 0.5, 1.0])
        b = float(rng.random() < 0.7) if binary else rng.choice([0.0, 0.25, 0.5, 1.0])
        r = 0.25 * rng.randint(4, 28000) if a > 0 or rng.random() < 0.2 else 0.0
        k = rng.choice([0, 0, 0, 1, -1, 2])
        e = r + 1200.0 * k + rng.choice([0.0, tol, -tol, tol - 0.25, tol + 0.25, 600.0, 599.75, 0.25 * rng.randint(-800, 800)]) if r else 0.25 * rng.randint(0, 20000)
        if rng.random() < 0.15:
            e = 0.0
        rv.append(a), rc.append(r), ev.append(b), ec.append(e)
    return rv, rc, ev, ec, tol


def rnd_hz(rng):
    n = rng.randint(2, 14)
    hop = rng.choice([0.01, 0.0058, 0.02, 0.125])
    t0 = rng.choice([0.0, 0.0, hop])
    rt = [t0 + i * hop for i in range(n)]
    rf = [0.0 if rng.random() < 0.3 else rng.uniform(60.0, 1200.0) for _ in range(n)]
    if rng.random() < 0.5:
        et = list(rt)
    else:
        m = rng.randint(2, 18)
        h2 = rng.choice([0.01, 0.005, 0.0116, 0.02])
        et = [i * h2 for i in range(m)]
    ef = []
    for i, t in enumerate(et):
        base = rf[min(i, n - 1)] or rng.uniform(60.0, 1200.0)
        u = rng.random()
        ef.append(0.0 if u < 0.2 else base * rng.choice([1.0, 1.0, 2.0, 0.5, 1.02, 0.98, 1.2]) * (-1.0 if rng.random() < 0.2 else 1.0))
    return rt, rf, et, ef


def search(M, seed=0, n=300):
    """Run every oracle on n generated inputs; returns the list of findings (known purity defects included)."""
    rng = random.Random(seed)
    out = []

    seen = set()

    def add(x):
        if x is None:
            return
        key = (x['function'], x['relation'], str(x['observed'].get('argument')) if isinstance(x['observed'], dict) else '')
        if key not in seen:          # keep the first input per (function, relation, argument)
            seen.add(key)
            out.append(x)
    for _ in range(n):
        rv, rc, ev, ec, tol = rnd_frames(rng)
        add(check_definitions(M, rv, rc, ev, ec, tol))
        add(check_tol_mono(M, rv, rc, ev, ec, tol, rng.choice([0.0, 12.5, 50.0, 75.25, 600.0, 650.0])))
        add(check_shift(M, rv, rc, ev, ec, 0.25 * rng.randint(-4000, 4000), tol))
        add(check_octave(M, rv, rc, ev, ec, rng.randint(-3, 3), tol))
        add(check_purity(M, 'overall_accuracy', [rv, rc, ev, ec]))
        add(check_purity(M, 'raw_chroma_accuracy', [rv, rc, ev, ec]))
        add(check_purity(M, 'voicing_measures', [rv, ev]))
        bv, bc, _, _, tol = rnd_frames(rng, binary=True)
        add(check_self(M, bv, bc, tol))
        rt, rf, et, ef = rnd_hz(rng)
        kw = rng.choice([{}, {}, {'hop': 0.0078125}, {'cent_tolerance': 25.0}])
        add(check_evaluate_range(M, rt, rf, et, ef, **kw))
        add(check_evaluate_self(M, rt, rf, **kw))
        add(check_sign_flip(M, rt, rf, et, ef, **kw))
        add(check_transpose(M, rt, rf, et, ef, rng.choice([2.0, 0.5, 1.25, 1.0594630943592953]), **kw))
        add(check_octave_hz(M, rt, rf, et, ef, rng.choice([-2, -1, 1, 2]), **kw))
        add(check_purity(M, 'evaluate', [rt, rf, et, ef], kw))
        add(check_purity(M, 'to_cent_voicing', [rt, rf, et, ef], {k: v for k, v in kw.items() if k == 'hop'}))
        add(check_purity(M, 'resample_melody_series', [et, [abs(x) for x in ef], [float(x > 0) for x in ef], rt]))
        if rng.random() < 0.3:
            add(check_purity(M, 'evaluate', [rt, rf, et, ef], dict(kw, est_voicing=[rng.choice([0.0, 0.5, 1.0]) for _ in ef])))
            add(check_purity(M, 'evaluate', [rt, rf, et, ef], dict(kw, ref_reward=[rng.choice([0.25, 0.5, 1.0]) for _ in rf])))
    for fname, args, kw in known_purity_cases():
        add(check_purity(M, fname, args, kw))
    # a voiced reference at exactly base_frequency (cent value 0) evaluated against itself
    add(check_evaluate_self(M, [0.0, 0.1, 0.2], [10.0, 10.0, 10.0]))
    return out


if __name__ == '__main__':
    import json
    import sys
    sys.path.insert(0, '/repo')
    import mir_eval.melody as M
    res = search(M, int(sys.argv[1]) if len(sys.argv) > 1 else 0, int(sys.argv[2]) if len(sys.argv) > 2 else 300)
    seen = {}
    for f in res:
        seen.setdefault((f['function'], f['relation'], str(f['observed'].get('argument')) if isinstance(f['observed'], dict) else ''), f)
    print(json.dumps(list(seen.values()), indent=1, default=str))
