"""Generators of VALID inputs for each mir_eval task, on exact-arithmetic lattices (shared by the property oracles).
Every function takes a random.Random and returns the positional arguments of the task's evaluate()."""
import numpy as np

CHORDS = ['N', 'C', 'C:maj', 'C:min', 'G:7', 'A:min7', 'F#:dim', 'Bb:maj7/3', 'D:sus4', 'E:min/b3', 'X', 'Ab:aug', 'C:maj6', 'D:min7/b7',
          'G:maj(9)', 'F:min(*5)', 'B:hdim7', 'Eb:9', 'C#:5', 'Db:1']
SEGLABELS = ['a', 'b', 'c', 'A', 'verse', 'Chorus', 'chorus', 'x']


def lattice_times(rng, n, step=1 / 64.0, lo=0.0, hi=30.0, dup=0.1):
    k = int((hi - lo) / step)
    vals = sorted(rng.randrange(0, k + 1) for _ in range(n))
    if vals and rng.random() < dup and len(vals) > 1:
        i = rng.randrange(1, len(vals))
        vals[i] = vals[i - 1]
    return np.array([lo + v * step for v in vals], dtype=float)


def beat(rng):
    n = rng.choice([0, 1, 2, 5, 8, 12, 20])
    ref = lattice_times(rng, n, 1 / 32.0, 0.0, 25.0, 0.0)
    ref = np.unique(ref)
    r = rng.random()
    if r < 0.2:
        est = ref.copy()
    elif r < 0.6:
        est = np.unique(np.clip(ref + np.array([rng.choice([-4, -2, -1, 0, 0, 1, 2, 4]) for _ in ref]) / 64.0, 0, None))
    else:
        est = np.unique(lattice_times(rng, rng.choice([0, 1, 3, 9, 15]), 1 / 32.0, 0.0, 25.0, 0.0))
    return ref, est


def onset(rng):
    ref = lattice_times(rng, rng.choice([0, 1, 3, 8, 15]))
    if rng.random() < 0.5 and len(ref):
        est = np.sort(np.clip(ref + np.array([rng.choice([-8, -3, -1, 0, 1, 3, 8]) for _ in ref]) / 64.0, 0, None))
    else:
        est = lattice_times(rng, rng.choice([0, 1, 4, 9]))
    return ref, est


def tempo(rng):
    ts = [30.0, 60.0, 64.0, 90.0, 96.0, 120.0, 128.0, 180.0]
    ref = np.array(sorted(rng.sample(ts, 2)))
    est = np.array([rng.choice(ts) * rng.choice([1.0, 1.0, 1.03125, 0.5, 2.0]) for _ in range(2)])
    return ref, rng.choice([0.0, 0.25, 0.5, 0.75, 1.0]), est


def key(rng):
    tonics = ['C', 'C#', 'Db', 'D', 'Eb', 'E', 'F', 'F#', 'G', 'Ab', 'A', 'Bb', 'B']
    modes = ['major', 'minor', 'other']
    k = lambda: 'X' if rng.random() < 0.08 else rng.choice(tonics) + ' ' + rng.choice(modes)
    return k(), k()


def _freqs(rng, n):
    base = [110.0, 220.0, 440.0, 880.0, 330.0, 660.0, 247.5, 495.0]
    return np.array(sorted(set(rng.choice(base) for _ in range(n))), dtype=float)


def multipitch(rng):
    n = rng.choice([1, 2, 4, 7])
    rt = np.arange(n) * 0.25
    rf = [_freqs(rng, rng.choice([0, 1, 2, 3])) for _ in range(n)]
    if rng.random() < 0.6:
        et = rt.copy()
    else:
        et = np.arange(rng.choice([1, 3, 5, 9])) * 0.125
    ef = [_freqs(rng, rng.choice([0, 1, 2, 3])) for _ in range(len(et))]
    if rng.random() < 0.2 and len(et) == len(rt):
        ef = [f.copy() for f in rf]
    return rt, rf, et, ef


def melody(rng):
    n = rng.choice([2, 4, 8, 16])
    rt = np.arange(n) * 0.125
    base = [0.0, 110.0, 220.0, 440.0, 466.0, 880.0, 233.0]
    rf = np.array([rng.choice(base) for _ in range(n)])
    et = rt.copy() if rng.random() < 0.6 else np.arange(rng.choice([2, 5, 9, 17])) * 0.0625
    ef = np.array([rng.choice(base + [-220.0, -440.0]) for _ in range(len(et))])
    if rng.random() < 0.2 and len(et) == len(rt):
        ef = rf.copy()
    return rt, rf, et, ef


def pattern(rng):
    def occ(shift, tr):
        return [(float(shift + o), float(60 + tr + p)) for o, p in zip(onsets, pitches)]

    def pat():
        return [occ(s, rng.choice([0, 0, 2, 5])) for s in rng.sample(range(0, 40, 4), rng.choice([1, 2, 3]))]
    out = []
    for _ in range(2):
        ps = []
        for _ in range(rng.choice([1, 2, 3])):
            k = rng.choice([2, 3, 4])
            onsets = sorted(rng.sample(range(0, 8), k))
            pitches = [rng.randrange(0, 12) for _ in range(k)]
            ps.append(pat())
        out.append(ps)
    if rng.random() < 0.2:
        out[1] = [[list(o) for o in p] for p in out[0]]
    return out[0], out[1]


def _segmentation(rng, end, labels, step=0.5):
    k = int(end / step)
    n = rng.choice([1, 2, 3, 5])
    cuts = sorted(set(rng.sample(range(1, k), min(n - 1, k - 1)))) if k > 1 else []
    b = [0.0] + [c * step for c in cuts] + [end]
    iv = np.array([[b[i], b[i + 1]] for i in range(len(b) - 1)])
    return iv, [rng.choice(labels) for _ in range(len(iv))]


def segment(rng):
    end = rng.choice([4.0, 8.0, 10.0])
    ri, rl = _segmentation(rng, end, SEGLABELS)
    r = rng.random()
    if r < 0.2:
        ei, el = ri.copy(), list(rl)
    else:
        ei, el = _segmentation(rng, rng.choice([end, end, end - 1.0, end + 2.0]), SEGLABELS)
    return ri, rl, ei, el


def hierarchy(rng):
    end = rng.choice([6.0, 8.0])

    def hier():
        ivs, labs = [], []
        for _ in range(rng.choice([1, 2, 3])):
            iv, lb = _segmentation(rng, end, SEGLABELS)
            ivs.append(iv)
            labs.append(lb)
        return ivs, labs
    ri, rl = hier()
    if rng.random() < 0.2:
        ei, el = [x.copy() for x in ri], [list(x) for x in rl]
    else:
        ei, el = hier()
    return ri, rl, ei, el


def chord(rng):
    end = rng.choice([4.0, 8.0])
    ri, rl = _segmentation(rng, end, CHORDS)
    r = rng.random()
    if r < 0.2:
        ei, el = ri.copy(), list(rl)
    else:
        ei, el = _segmentation(rng, rng.choice([end, end - 1.0, end + 1.5]), CHORDS)
        if rng.random() < 0.3:
            ei = ei + 0.5
    return ri, rl, ei, el


def _notes(rng, n):
    on = lattice_times(rng, n, 1 / 16.0, 0.0, 10.0, 0.0)
    dur = np.array([rng.choice([0.125, 0.25, 0.5, 1.0]) for _ in range(n)])
    iv = np.stack([on, on + dur], axis=1) if n else np.zeros((0, 2))
    p = np.array([rng.choice([220.0, 440.0, 880.0, 330.0, 660.0, 466.1637615180899]) for _ in range(n)])
    return iv, p


def transcription(rng):
    ri, rp = _notes(rng, rng.choice([0, 1, 3, 6]))
    if rng.random() < 0.3:
        ei, ep = ri.copy(), rp.copy()
    elif rng.random() < 0.5 and len(ri):
        ei = ri + np.array([[rng.choice([-2, 0, 1, 3]) / 64.0, rng.choice([-4, 0, 2, 8]) / 64.0] for _ in ri])
        ei[:, 0] = np.clip(ei[:, 0], 0, None)
        ei[:, 1] = np.maximum(ei[:, 1], ei[:, 0] + 1 / 64.0)
        ep = rp.copy()
    else:
        ei, ep = _notes(rng, rng.choice([0, 2, 5]))
    return ri, rp, ei, ep


def transcription_velocity(rng):
    ri, rp, ei, ep = transcription(rng)
    rv = np.array([float(rng.choice([20, 40, 64, 100, 127])) for _ in rp])
    ev = np.array([float(rng.choice([20, 40, 64, 100, 127])) for _ in ep])
    return ri, rp, rv, ei, ep, ev


def alignment(rng):
    n = rng.choice([2, 3, 4, 8])
    ref = np.unique(lattice_times(rng, n, 1 / 16.0, 0.0, 20.0, 0.0))
    if len(ref) < 2:
        ref = np.array([0.5, 1.5])
    est = np.sort(np.clip(ref + np.array([rng.choice([-8, -2, 0, 0, 1, 4, 16]) for _ in ref]) / 32.0, 0, None))
    return ref, est


def separation(rng):
    nsrc = rng.choice([1, 2])
    n = 2 * nsrc * 512 + 64
    r = np.random.RandomState(rng.randrange(1 << 30))
    ref = r.randn(nsrc, n)
    est = ref + 0.1 * r.randn(nsrc, n) if rng.random() < 0.7 else r.randn(nsrc, n)
    return ref, est


TASKS = {'alignment': alignment, 'beat': beat, 'chord': chord, 'hierarchy': hierarchy, 'key': key, 'melody': melody,
         'multipitch': multipitch, 'onset': onset, 'pattern': pattern, 'segment': segment, 'separation': separation, 'tempo': tempo,
         'transcription': transcription, 'transcription_velocity': transcription_velocity}
