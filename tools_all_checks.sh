#!/bin/bash
# run every registered quick check once, sequentially; summary on stdout
cd "$(dirname "$0")"
for p in $(python3 -c "import json; print(' '.join(c['property_id'] for c in json.load(open('MANIFEST.json'))['checks']))"); do
  s=$(date +%s); out=$(./check $p --tier ${1:-quick} 2>&1 | grep -E "^(OK|VIOLATION|BROKEN)"); e=$(date +%s)
  echo "$p $((e-s))s $out"
done
