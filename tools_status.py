#!/venv/bin/python
"""Regenerate the machine-written status section of DESIGN.md (between the STATUS markers) from MANIFEST.json, the
evidence files, known_findings.json, the seeded changes and the recorded results of running the checks on them
(build/mutants/*.txt, copied to seeded/<id>/result.txt)."""
import glob, json, os, re, subprocess
HERE = os.path.dirname(os.path.abspath(__file__))
os.chdir(HERE)
man = json.load(open('MANIFEST.json'))
out = []
out.append('### S.1 Checks as built (from MANIFEST.json and the last evidence files)\n')
out.append('| id | theorems | correspondence units (cases in the last quick run) | axioms | wall (s) |\n|---|---|---|---|---|')
for c in man['checks']:
    pid = c['property_id']
    ev = {}
    try:
        ev = json.load(open('evidence/%s.json' % pid))
    except Exception:
        pass
    cov = ev.get('coverage', {})
    th = cov.get('theorems', [])
    ax = sorted({a for t in th for a in t.get('axioms', [])})
    units = ', '.join('%s (%d)' % (u['unit'], u['cases']) for u in cov.get('units', []))
    out.append('| %s | %d | %s | %s | %s |' % (pid, len(th), units or '- (translator-tied)', ', '.join(a.split('.')[-1] for a in ax) or 'none', ev.get('wall_s', '')))
out.append('')
kf = json.load(open('known_findings.json'))['findings']
out.append('### S.2 Defects of mir_eval found by the checks\n')
out.append('Repaired by `fix:` commits in /repo (each entry is `fixed` in known_findings.json and suppresses nothing):\n')
for f in kf:
    if f['status'] == 'fixed':
        out.append('* **%s** (%s, commit %s) %s - witness: %s' % (f['id'], f['function'], f.get('commit'), f['relation'], f.get('witness')))
out.append('\nRecorded as known findings (`KNOWN-FINDING` lines; each has a `_refuted` theorem or replayed witness):\n')
for f in kf:
    if f['status'] == 'finding':
        out.append('* **%s** (%s): %s  \n  *why not fixed:* %s' % (f['id'], f['function'], f['text'], f.get('why_not_fixed', '')))
out.append('')
out.append('### S.3 Seeded changes (written by independent sub-agents from the property text only) and which check catches them\n')
out.append('| seeded change | what it does | needs | result of the property\'s check |\n|---|---|---|---|')
for d in sorted(glob.glob('seeded/*/')):
    sid = os.path.basename(d.rstrip('/'))
    try:
        meta = json.load(open(d + 'meta.json'))
    except Exception:
        meta = {}
    res = ''
    rp = d + 'result.txt'
    if os.path.exists(rp):
        lines = [l for l in open(rp).read().split('\n') if re.match(r'^(VIOLATION|OK|KNOWN|PATCH)', l)]
        v = [l for l in lines if l.startswith('VIOLATION')]
        if v:
            res = 'caught: VIOLATION' + (' (no-failing-input-found)' if 'no-failing-input-found' in v[0] else ' with replay')
            extra = [l for l in open(rp).read().split('\n') if l.startswith(('failing input found for:', 'no longer checks:'))]
            if extra:
                res += ' - ' + extra[0][:170]
        elif lines:
            res = 'MISSED: ' + lines[0][:60]
        else:
            res = 'no verdict recorded'
    hp = d + 'history.txt'
    if os.path.exists(hp) and res:
        hist = [h for h in open(hp).read().split() if h]
        if hist:
            res += ' (earlier runs: ' + ', '.join(hist) + ('; the check was strengthened, see 0.5)' if 'missed' in hist else '; point oracles added since)')
    def cell(x):
        return str(x).replace('|', '/').replace('\n', ' ')[:200]
    out.append('| %s | %s | %s | %s |' % (sid, cell(meta.get('summary', '')), cell(meta.get('needs', '')), res))
import collections
cnt = collections.Counter()
for l in out:
    if l.startswith('| C') and '| caught' in l:
        cnt['caught with a failing input' if 'with replay' in l else 'caught, no failing input found'] += 1
        if re.search(r'earlier runs: [^;]*missed', l):
            cnt['of which escaped (verdict OK) an earlier version of the check'] += 1
    elif l.startswith('| C') and 'MISSED' in l:
        cnt['missed'] += 1
out.append('')
out.append('Totals over the %d seeded changes: ' % sum(1 for l in out if re.match(r'^\| C\d\d-', l)) + '; '.join('%s: %d' % kv for kv in sorted(cnt.items())) + '.')
text = '\n'.join(out) + '\n'
src = open('DESIGN.md').read()
a, b = '<!-- STATUS:BEGIN -->', '<!-- STATUS:END -->'
if a in src:
    src = src[:src.index(a) + len(a)] + '\n' + text + src[src.index(b):]
    open('DESIGN.md', 'w').write(src)
    print('DESIGN.md status section regenerated (%d lines)' % len(out))
else:
    print(text)
