(* C05 — Hit counts come from a valid, maximum one-to-one matching.
   Statements only; every proof is [exact <lemma>] and is followed by Print Assumptions. *)
From Coq Require Import List Arith.
From ME Require Import Model.Dict Model.Matching Proofs.HKRecurse Proofs.HKLayering Proofs.HKCorrect Proofs.MaxMatching.
Import ListNotations.

(* The model of util._bipartite_match returns a valid matching of maximum size, for every graph. *)
Theorem C05_bipartite_match_valid_and_maximum :
  forall (g : graph) (m : matching), NoDup (keys g) -> bipartite_match g = Some m ->
    matching_ok g m /\ forall l, matching_ok g l -> length l <= length m.
Proof. exact bipartite_match_correct. Qed.
Print Assumptions C05_bipartite_match_valid_and_maximum.

Theorem C05_size_is_the_maximum_size :
  forall (g : graph) (m : matching), NoDup (keys g) -> bipartite_match g = Some m ->
    max_size (edge g) (length m).
Proof. exact hk_max_size. Qed.
Print Assumptions C05_size_is_the_maximum_size.
