(* C10 — Chord labels: total parsing, sound encoding, split/join round trip.
   Statements only; every proof is [exact <lemma>] and is followed by Print Assumptions. *)
From Coq Require Import String ZArith List Bool Permutation.
From ME Require Import Model.Prelude Model.Regex Model.ChordParse Gen.ChordRe Gen.ChordTables
  Proofs.RegexLang Proofs.RegexEquiv Proofs.ChordRegex Proofs.ChordQualities Proofs.ChordSound Proofs.ChordTotal Proofs.ChordRoundTrip.
From ME Require Import Model.PyStr Model.PyStrChord Gen.ChordParseGen Proofs.ChordParseTie.
From ME Require Model.ChordPipeline Model.ChordCmp.
Import ListNotations.
Open Scope Z_scope.


(* acceptance by validate_chord_label (CHORD_RE.match, translated from the source on every run) coincides with the
   documented Harte syntax root[:shorthand][(degrees)][/bass] plus N and X, for every string *)
Theorem C10_validate_accepts_exactly_harte : forall s, rmatch chord_re s = rmatch harte s.
Proof. exact chord_re_is_harte. Qed.
Print Assumptions C10_validate_accepts_exactly_harte.
(* ... where the matcher decides the inductively defined language of the grammar *)
Theorem C10_matcher_decides_language : forall r s, rmatch r s = true <-> lang r s.
Proof. exact rmatch_iff_lang. Qed.
Print Assumptions C10_matcher_decides_language.
Theorem C10_validate_total : forall s, validate_label s = Ok tt \/ validate_label s = Raise InvalidChord.
Proof. exact validate_label_total. Qed.
Print Assumptions C10_validate_total.
(* for every string, splitting / encoding / joining either succeeds or raises InvalidChordException and nothing else
   (the model has explicit ValueError / TypeError sites for tuple unpacking and None arithmetic: they are unreachable) *)
Theorem C10_split_total : forall (s : str) (reduce : bool),
  (exists x, split s reduce = Ok x) \/ split s reduce = Raise InvalidChord.
Proof. exact split_total. Qed.
Print Assumptions C10_split_total.
Theorem C10_encode_total : forall (s : str) (reduce strict : bool),
  (exists x, encode s reduce strict = Ok x) \/ encode s reduce strict = Raise InvalidChord.
Proof. exact encode_total. Qed.
Print Assumptions C10_encode_total.
Theorem C10_join_total : forall rt q exts bass,
  (exists x, join rt q exts bass = Ok x) \/ join rt q exts bass = Raise InvalidChord.
Proof. exact join_total. Qed.
Print Assumptions C10_join_total.
(* N and X encode to their reserved sentinels *)
Theorem C10_sentinels : (forall r b, encode NO_CHORD r b = Ok (-1, [0;0;0;0;0;0;0;0;0;0;0;0], -1)) /\
                        (forall r b, encode X_CHORD r b = Ok (-1, [-1;-1;-1;-1;-1;-1;-1;-1;-1;-1;-1;-1], -1)).
Proof. destruct sentinels as [EN EX]. split; intros r b; [rewrite <- EN; apply encode_N|rewrite <- EX; apply encode_X]. Qed.
Print Assumptions C10_sentinels.
(* every accepted, encodable label other than N/X: root in 0..11, 12-element 0/1 bitmap containing the bass, bass in 0..11 *)
Theorem C10_encode_sound : forall s r b root bm bass,
  encode s r b = Ok (root, bm, bass) -> seqb s NO_CHORD = false -> seqb s X_CHORD = false ->
  0 <= root < 12 /\ 0 <= bass < 12 /\ List.length bm = 12%nat /\ Forall (fun x => x = 0 \/ x = 1) bm /\ nth (Z.to_nat bass) bm 0 = 1.
Proof. exact encode_sound. Qed.
Print Assumptions C10_encode_sound.
Theorem C10_strict_bass_only_rejects : forall s r e, encode s r true = Ok e -> encode s r false = Ok e.
Proof. exact encode_strict_bass. Qed.
Print Assumptions C10_strict_bass_only_rejects.
(* quality shorthands and extended-chord reduction are the documented ones (over the translated tables) *)
Theorem C10_qualities_as_documented :
  forallb row_ok quality_degrees = true /\
  forallb (fun r => existsb (fun d => seqb (fst r) (s2l (fst d))) quality_degrees) QUALITIES = true /\
  List.length QUALITIES = List.length quality_degrees.
Proof. exact qualities_as_documented. Qed.
Print Assumptions C10_qualities_as_documented.
Theorem C10_redux_as_documented : forallb redux_row_ok EXTENDED_QUALITY_REDUX = true.
Proof. exact redux_as_documented. Qed.
Print Assumptions C10_redux_as_documented.
Theorem C10_grammar_shorthands_without_quality_row : unencodable_shorthands = [ s2l "aug7"%string; s2l "maj11"%string ].
Proof. exact shorthands_known. Qed.
Print Assumptions C10_grammar_shorthands_without_quality_row.
(* joining the parts returned by split reproduces a label with the identical encoding (any iteration order of the degree set);
   stated for labels other than N and X, like the encoding clause of the property *)
Theorem C10_split_join_roundtrip : forall (s : str) (strict : bool) rt q ds b,
  split s false = Ok (rt, q, ds, b) -> seqb s NO_CHORD = false -> seqb s X_CHORD = false ->
  forall ds', Permutation ds ds' ->
  exists s', join rt q ds' b = Ok s' /\ encode s' false strict = encode s false strict.
Proof. exact split_join_roundtrip. Qed.
Print Assumptions C10_split_join_roundtrip.
(* the X sentinel is outside that clause: split treats "X" as a root and join cannot re-validate "X:maj" *)
Theorem C10_split_join_X_is_excluded : split X_CHORD false = Ok (X_CHORD, s_maj, [], s_one) /\ join X_CHORD s_maj [] s_one = Raise InvalidChord.
Proof. exact split_join_X_counterexample. Qed.
Print Assumptions C10_split_join_X_is_excluded.
(* --- tie by TRANSLATION of the parser / encoder itself: Gen/ChordParseGen.v is regenerated from chord.py on every run (translator/chordparse.py, *)
(* Python-string language Model/PyStr.v); each function is proved equal to the model function for ALL strings, flags and exception classes --- *)
Theorem C10_signatures_as_assumed :
  chord_sigs =
         [("pitch_class_to_semitone", Some [("pitch_class", None)]);
          ("scale_degree_to_semitone", Some [("scale_degree", None)]);
          ("scale_degree_to_bitmap",
           Some
             [("scale_degree", None); ("modulo", Some (VBool false));
              ("length", Some (VInt (Z.of_nat BITMAP_LENGTH)))]);
          ("quality_to_bitmap", Some [("quality", None)]);
          ("reduce_extended_quality", Some [("quality", None)]);
          ("validate_chord_label", Some [("chord_label", None)]);
          ("split", Some [("chord_label", None); ("reduce_extended_chords", Some (VBool false))]);
          ("join",
           Some
             [("chord_root", None); ("quality", Some (VStr [])); ("extensions", Some VNone);
              ("bass", Some (VStr []))]);
          ("encode",
           Some
             [("chord_label", None); ("reduce_extended_chords", Some (VBool false));
              ("strict_bass_intervals", Some (VBool false))]);
          ("encode_many", Some [("chord_labels", None); ("reduce_extended_chords", Some (VBool false))]);
          ("rotate_bitmap_to_root", Some [("bitmap", None); ("chord_root", None)]);
          ("CHORD_RE.match", Some [("string", None)])].
Proof. exact (@chord_sigs_expected). Qed.
Print Assumptions C10_signatures_as_assumed.
Theorem C10_pitch_class_to_semitone_source_is_model :
  forall (sord : list str -> list str) (s : str),
         run sord gen_pitch_class_to_semitone [VStr s] = lift VInt (pitch_class_to_semitone s).
Proof. exact (@pitch_class_to_semitone_tie). Qed.
Print Assumptions C10_pitch_class_to_semitone_source_is_model.
Theorem C10_scale_degree_to_semitone_source_is_model :
  forall (sord : list str -> list str) (s : str),
         run sord gen_scale_degree_to_semitone [VStr s] = lift VInt (scale_degree_to_semitone s).
Proof. exact (@scale_degree_to_semitone_tie). Qed.
Print Assumptions C10_scale_degree_to_semitone_source_is_model.
Theorem C10_scale_degree_to_bitmap_source_is_model :
  forall (sord : list str -> list str) (s : str) (m : bool),
         run sord gen_scale_degree_to_bitmap [VStr s; VBool m; VInt (Z.of_nat BITMAP_LENGTH)] =
         lift VArr (scale_degree_to_bitmap s m).
Proof. exact (@scale_degree_to_bitmap_tie). Qed.
Print Assumptions C10_scale_degree_to_bitmap_source_is_model.
Theorem C10_quality_to_bitmap_source_is_model :
  forall (sord : list str -> list str) (q : str),
         run sord gen_quality_to_bitmap [VStr q] = lift VArr (quality_to_bitmap q).
Proof. exact (@quality_to_bitmap_tie). Qed.
Print Assumptions C10_quality_to_bitmap_source_is_model.
Theorem C10_reduce_extended_quality_source_is_model :
  forall (sord : list str -> list str) (q : str),
         run sord gen_reduce_extended_quality [VStr q] = OK (v_redux (reduce_extended_quality q)).
Proof. exact (@reduce_extended_quality_tie). Qed.
Print Assumptions C10_reduce_extended_quality_source_is_model.
Theorem C10_validate_chord_label_source_is_model :
  forall (sord : list str -> list str) (s : str),
         run sord gen_validate_chord_label [VStr s] = lift v_unit (validate_label s).
Proof. exact (@validate_chord_label_tie). Qed.
Print Assumptions C10_validate_chord_label_source_is_model.
Theorem C10_split_source_is_model :
  forall (sord : list str -> list str) (s : str) (red : bool),
         run sord gen_split [VStr s; VBool red] = lift v_split (split s red).
Proof. exact (@split_tie). Qed.
Print Assumptions C10_split_source_is_model.
Theorem C10_join_source_is_model :
  forall (sord : list str -> list str) (rt q : str) (exts : list str) (b : str),
         run sord gen_join [VStr rt; VStr q; v_strs exts; VStr b] = lift VStr (join rt q exts b).
Proof. exact (@join_tie). Qed.
Print Assumptions C10_join_source_is_model.
(* for every iteration order of the scale-degree set *)
Theorem C10_encode_source_is_model :
  forall sord : list str -> list str,
         (forall l : list str, Permutation (sord l) l) ->
         forall (s : str) (red strict : bool),
         run sord gen_encode [VStr s; VBool red; VBool strict] = lift v_enc (encode s red strict).
Proof. exact (@encode_tie). Qed.
Print Assumptions C10_encode_source_is_model.
Theorem C10_encode_many_source_is_model :
  forall (sord : list str -> list str) (labels : list str) (red : bool),
         run sord gen_encode_many [v_strs labels; VBool red] =
         lift v_encs (ChordPipeline.encode_many labels red).
Proof. exact (@encode_many_tie). Qed.
Print Assumptions C10_encode_many_source_is_model.
Theorem C10_rotate_bitmap_to_root_source_is_model :
  forall (sord : list str -> list str) (b : list Z) (rt : Z),
         Datatypes.length b = 12%nat ->
         run sord gen_rotate_bitmap_to_root [VArr b; VInt rt] = OK (VArr (ChordCmp.rot b rt)).
Proof. exact (@rotate_bitmap_to_root_tie). Qed.
Print Assumptions C10_rotate_bitmap_to_root_source_is_model.
