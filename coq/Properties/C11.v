(* C11 — Chord comparison rules form the documented lattice.
   Statements only; every proof is [exact <lemma>] and is followed by Print Assumptions. *)
From Coq Require Import ZArith List Bool Lia.
From ME Require Import Model.Prelude Model.ChordParse Model.ChordCmp Proofs.ChordLattice Proofs.ChordVocab Proofs.ChordSound.
From ME Require Import Model.RowExp Gen.ChordRules Proofs.ChordRulesTie.
From ME Require Import Model.PyStr Model.PyStrChord Gen.ChordParseGen Proofs.ChordParseTie.
Import ListNotations.
Open Scope Z_scope.

Theorem C11_values : forall c r e, In c rules -> c r e = 1 \/ c r e = 0 \/ c r e = -1.
Proof. exact cmp_values. Qed.
Print Assumptions C11_values.
Theorem C11_ignore_depends_on_reference_only : forall c r e e', In c rules -> (c r e = -1 <-> c r e' = -1).
Proof. exact ignore_ref_only. Qed.
Print Assumptions C11_ignore_depends_on_reference_only.
Theorem C11_reflexive_never_mismatch : forall c r, enc_ok r -> In c rules -> c r r <> 0.
Proof. exact cmp_refl. Qed.
Print Assumptions C11_reflexive_never_mismatch.
Theorem C11_tetrads_inv_implies_tetrads : forall r e, tetrads_inv r e = 1 -> tetrads r e = 1.
Proof. exact tetrads_inv_tetrads. Qed.
Print Assumptions C11_tetrads_inv_implies_tetrads.
Theorem C11_tetrads_implies_triads : forall r e, tetrads r e = 1 -> triads r e = 1.
Proof. exact tetrads_triads. Qed.
Print Assumptions C11_tetrads_implies_triads.
Theorem C11_triads_implies_thirds : forall r e, triads r e = 1 -> thirds r e = 1.
Proof. exact triads_thirds. Qed.
Print Assumptions C11_triads_implies_thirds.
Theorem C11_thirds_implies_root : forall r e, thirds r e = 1 -> root_cmp r e = 1.
Proof. exact thirds_root. Qed.
Print Assumptions C11_thirds_implies_root.
Theorem C11_triads_inv_implies_triads : forall r e, triads_inv r e = 1 -> triads r e = 1.
Proof. exact triads_inv_triads. Qed.
Print Assumptions C11_triads_inv_implies_triads.
Theorem C11_thirds_inv_implies_thirds : forall r e, thirds_inv r e = 1 -> thirds r e = 1.
Proof. exact thirds_inv_thirds. Qed.
Print Assumptions C11_thirds_inv_implies_thirds.
Theorem C11_majmin_inv_implies_majmin : forall r e, majmin_inv r e = 1 -> majmin r e = 1.
Proof. exact majmin_inv_majmin. Qed.
Print Assumptions C11_majmin_inv_implies_majmin.
Theorem C11_sevenths_inv_implies_sevenths : forall r e, sevenths_inv r e = 1 -> sevenths r e = 1.
Proof. exact sevenths_inv_sevenths. Qed.
Print Assumptions C11_sevenths_inv_implies_sevenths.
Theorem C11_majmin_implies_triads : forall r e, enc_ok r -> majmin r e = 1 -> triads r e = 1.
Proof. exact majmin_triads. Qed.
Print Assumptions C11_majmin_implies_triads.
Theorem C11_sevenths_implies_tetrads : forall r e, enc_ok r -> sevenths r e = 1 -> tetrads r e = 1.
Proof. exact sevenths_tetrads. Qed.
Print Assumptions C11_sevenths_implies_tetrads.
Theorem C11_tetrads_match_is_never_a_mirex_mismatch : forall r e, enc_ok r -> tetrads r e = 1 -> mirex r e <> 0.
Proof. exact tetrads_mirex. Qed.
Print Assumptions C11_tetrads_match_is_never_a_mirex_mismatch.
Theorem C11_X_always_ignored : forall c e, In c rules -> c (of_enc Xenc) e = -1.
Proof. exact x_always_ignored. Qed.
Print Assumptions C11_X_always_ignored.
Theorem C11_majmin_vocabulary : forall r e, majmin r e = -1 <->
  ~ (firstn 8 (bm r) = [1;0;0;0;1;0;0;1] \/ firstn 8 (bm r) = [1;0;0;1;0;0;0;1] \/ (root r < 0 /\ Forall (fun x => x = 0) (bm r))).
Proof. intros r e. rewrite majmin_ignored_iff, <- majmin_vocabulary. destruct (mm_in r); split; congruence. Qed.
Print Assumptions C11_majmin_vocabulary.
Theorem C11_sevenths_vocabulary : forall r e, sevenths r e = -1 <->
  ~ In (bm r) [ [1;0;0;0;1;0;0;1;0;0;0;0]; [1;0;0;1;0;0;0;1;0;0;0;0]; [1;0;0;0;1;0;0;1;0;0;0;1];
                [1;0;0;0;1;0;0;1;0;0;1;0]; [1;0;0;1;0;0;0;1;0;0;1;0]; [0;0;0;0;0;0;0;0;0;0;0;0] ].
Proof. intros r e. rewrite sevenths_ignored_iff, <- sevenths_vocabulary. destruct (sv_in r); split; congruence. Qed.
Print Assumptions C11_sevenths_vocabulary.
Theorem C11_inv_rules_require_bass_chord_tone : forall r e,
  (majmin_inv r e = -1 <-> majmin r e = -1 \/ (0 <= bass r /\ nthz (bm r) (Z.to_nat (bass r)) = 0)) /\
  (sevenths_inv r e = -1 <-> sevenths r e = -1 \/ (0 <= bass r /\ nthz (bm r) (Z.to_nat (bass r)) = 0)).
Proof. intros r e. rewrite majmin_inv_ignored_iff, sevenths_inv_ignored_iff, majmin_ignored_iff, sevenths_ignored_iff.
  unfold bad_inv. rewrite andb_true_iff, Z.leb_le, Z.eqb_eq. tauto. Qed.
Print Assumptions C11_inv_rules_require_bass_chord_tone.
Theorem C11_plain_rules_ignore_only_X : forall r e,
  (thirds r e = -1 <-> isX r = true) /\ (triads r e = -1 <-> isX r = true) /\ (tetrads r e = -1 <-> isX r = true) /\
  (root_cmp r e = -1 <-> isX r = true) /\ (thirds_inv r e = -1 <-> isX r = true) /\ (triads_inv r e = -1 <-> isX r = true) /\
  (tetrads_inv r e = -1 <-> isX r = true).
Proof. exact plain_rules_ignore_only_X. Qed.
Print Assumptions C11_plain_rules_ignore_only_X.
(* lifted to labels: every encodable label's encoding satisfies enc_ok, so the conditional theorems above
   apply to every pair of labels the comparison functions accept *)
Theorem C11_encodings_of_labels_are_well_formed : forall s reduce strict e, encode s reduce strict = Ok e -> enc_ok (of_enc e).
Proof. exact encode_enc_ok. Qed.
Print Assumptions C11_encodings_of_labels_are_well_formed.
(* non-vacuity: a real chord satisfies enc_ok (C:maj7/3 = root 0, bass 4) *)
Example C11_enc_ok_inhabited : enc_ok {| root := 0; bm := [1;0;0;0;1;0;0;1;0;0;0;1]; bass := 4 |}.
Proof. right. unfold bits, nthz. cbn. split; [lia|]. split; [lia|]. split; [|reflexivity]. split; [reflexivity|]. apply Forall_forall. intros x Hx. cbn in Hx. intuition lia. Qed.

(* --- tie by TRANSLATION: Gen/ChordRules.v is regenerated from the bodies of the 12 comparison functions of chord.py on every run
   (translator/chordrules.py, fail-closed); its row-wise programs, evaluated by Model/RowExp.v, are proved equal to the hand-written
   rules above for ALL encodings and ALL label pairs, so the lattice theorems speak about what the source says now *)
Theorem C11_translated_rules_agree_with_model :
  Forall2 (fun g m => forall r e : cenc, enc_ok r -> enc_ok e -> reval g r e = m r e) gen_rules rules.
Proof. exact gen_rules_agree. Qed.
Print Assumptions C11_translated_rules_agree_with_model.
Theorem C11_translated_rules_agree_on_labels :
  Forall2 (fun g m => forall r e : str, reval_labels g r e = cmp_labels m r e) gen_rules rules.
Proof. exact gen_rules_labels_agree. Qed.
Print Assumptions C11_translated_rules_agree_on_labels.
(* --- the encodings the rules are applied to come from the source's (translated) encode / encode_many --- *)
Theorem C11_encode_source_is_model :
  forall sord : list str -> list str,
         (forall l : list str, Permutation.Permutation (sord l) l) ->
         forall (s : str) (red strict : bool),
         run sord gen_encode [VStr s; VBool red; VBool strict] = lift v_enc (encode s red strict).
Proof. exact (@encode_tie). Qed.
Print Assumptions C11_encode_source_is_model.
Theorem C11_encode_many_source_is_model :
  forall (sord : list str -> list str) (labels : list str) (red : bool),
         run sord gen_encode_many [v_strs labels; VBool red] =
         lift v_encs (ChordPipeline.encode_many labels red).
Proof. exact (@encode_many_tie). Qed.
Print Assumptions C11_encode_many_source_is_model.
Theorem C11_rotate_bitmap_to_root_source_is_model :
  forall (sord : list str -> list str) (b : list Z) (rt : Z),
         length b = 12%nat -> run sord gen_rotate_bitmap_to_root [VArr b; VInt rt] = OK (VArr (rot b rt)).
Proof. exact (@rotate_bitmap_to_root_tie). Qed.
Print Assumptions C11_rotate_bitmap_to_root_source_is_model.
