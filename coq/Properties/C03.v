(* C03 — evaluate() is exactly the documented bundle of the individual metrics.
   Statements only. The programs, signatures and return arities (Gen.Evaluate) are translated from /repo on every run;
   the bundles (Model.EvalSpec) are the documented ones. Each proof is a computation checked by the kernel. *)
From Coq Require Import List String ZArith.
From ME Require Import Model.EvalLang Model.EvalSpec Gen.Evaluate.
Import ListNotations.
Open Scope string_scope.

(* alignment.evaluate: same keys in the same order, each computed by the documented metric on the documented pre-processed
   inputs with the documented forced parameter; nothing else is forced *)
Theorem C03_alignment_bundle : symexec alignment_sigs alignment_prog = alignment_spec.
Proof. vm_compute. reflexivity. Qed.
Print Assumptions C03_alignment_bundle.
(* every metric stored under a single key returns a scalar on every return path (also for empty annotations), and every
   tuple unpacked into n keys has n components on every return path *)
Theorem C03_alignment_arities : first_bad_arity alignment_arities alignment_prog = None.
Proof. vm_compute. reflexivity. Qed.
Print Assumptions C03_alignment_arities.
(* beat.evaluate: same keys in the same order, each computed by the documented metric on the documented pre-processed
   inputs with the documented forced parameter; nothing else is forced *)
Theorem C03_beat_bundle : symexec beat_sigs beat_prog = beat_spec.
Proof. vm_compute. reflexivity. Qed.
Print Assumptions C03_beat_bundle.
(* every metric stored under a single key returns a scalar on every return path (also for empty annotations), and every
   tuple unpacked into n keys has n components on every return path *)
Theorem C03_beat_arities : first_bad_arity beat_arities beat_prog = None.
Proof. vm_compute. reflexivity. Qed.
Print Assumptions C03_beat_arities.
(* chord.evaluate: same keys in the same order, each computed by the documented metric on the documented pre-processed
   inputs with the documented forced parameter; nothing else is forced *)
Theorem C03_chord_bundle : symexec chord_sigs chord_prog = chord_spec.
Proof. vm_compute. reflexivity. Qed.
Print Assumptions C03_chord_bundle.
(* every metric stored under a single key returns a scalar on every return path (also for empty annotations), and every
   tuple unpacked into n keys has n components on every return path *)
Theorem C03_chord_arities : first_bad_arity chord_arities chord_prog = None.
Proof. vm_compute. reflexivity. Qed.
Print Assumptions C03_chord_arities.
(* hierarchy.evaluate: same keys in the same order, each computed by the documented metric on the documented pre-processed
   inputs with the documented forced parameter; nothing else is forced *)
Theorem C03_hierarchy_bundle : symexec hierarchy_sigs hierarchy_prog = hierarchy_spec.
Proof. vm_compute. reflexivity. Qed.
Print Assumptions C03_hierarchy_bundle.
(* every metric stored under a single key returns a scalar on every return path (also for empty annotations), and every
   tuple unpacked into n keys has n components on every return path *)
Theorem C03_hierarchy_arities : first_bad_arity hierarchy_arities hierarchy_prog = None.
Proof. vm_compute. reflexivity. Qed.
Print Assumptions C03_hierarchy_arities.
(* key.evaluate: same keys in the same order, each computed by the documented metric on the documented pre-processed
   inputs with the documented forced parameter; nothing else is forced *)
Theorem C03_key_bundle : symexec key_sigs key_prog = key_spec.
Proof. vm_compute. reflexivity. Qed.
Print Assumptions C03_key_bundle.
(* every metric stored under a single key returns a scalar on every return path (also for empty annotations), and every
   tuple unpacked into n keys has n components on every return path *)
Theorem C03_key_arities : first_bad_arity key_arities key_prog = None.
Proof. vm_compute. reflexivity. Qed.
Print Assumptions C03_key_arities.
(* melody.evaluate: same keys in the same order, each computed by the documented metric on the documented pre-processed
   inputs with the documented forced parameter; nothing else is forced *)
Theorem C03_melody_bundle : symexec melody_sigs melody_prog = melody_spec.
Proof. vm_compute. reflexivity. Qed.
Print Assumptions C03_melody_bundle.
(* every metric stored under a single key returns a scalar on every return path (also for empty annotations), and every
   tuple unpacked into n keys has n components on every return path *)
Theorem C03_melody_arities : first_bad_arity melody_arities melody_prog = None.
Proof. vm_compute. reflexivity. Qed.
Print Assumptions C03_melody_arities.
(* multipitch.evaluate: same keys in the same order, each computed by the documented metric on the documented pre-processed
   inputs with the documented forced parameter; nothing else is forced *)
Theorem C03_multipitch_bundle : symexec multipitch_sigs multipitch_prog = multipitch_spec.
Proof. vm_compute. reflexivity. Qed.
Print Assumptions C03_multipitch_bundle.
(* every metric stored under a single key returns a scalar on every return path (also for empty annotations), and every
   tuple unpacked into n keys has n components on every return path *)
Theorem C03_multipitch_arities : first_bad_arity multipitch_arities multipitch_prog = None.
Proof. vm_compute. reflexivity. Qed.
Print Assumptions C03_multipitch_arities.
(* onset.evaluate: same keys in the same order, each computed by the documented metric on the documented pre-processed
   inputs with the documented forced parameter; nothing else is forced *)
Theorem C03_onset_bundle : symexec onset_sigs onset_prog = onset_spec.
Proof. vm_compute. reflexivity. Qed.
Print Assumptions C03_onset_bundle.
(* every metric stored under a single key returns a scalar on every return path (also for empty annotations), and every
   tuple unpacked into n keys has n components on every return path *)
Theorem C03_onset_arities : first_bad_arity onset_arities onset_prog = None.
Proof. vm_compute. reflexivity. Qed.
Print Assumptions C03_onset_arities.
(* pattern.evaluate: same keys in the same order, each computed by the documented metric on the documented pre-processed
   inputs with the documented forced parameter; nothing else is forced *)
Theorem C03_pattern_bundle : symexec pattern_sigs pattern_prog = pattern_spec.
Proof. vm_compute. reflexivity. Qed.
Print Assumptions C03_pattern_bundle.
(* every metric stored under a single key returns a scalar on every return path (also for empty annotations), and every
   tuple unpacked into n keys has n components on every return path *)
Theorem C03_pattern_arities : first_bad_arity pattern_arities pattern_prog = None.
Proof. vm_compute. reflexivity. Qed.
Print Assumptions C03_pattern_arities.
(* segment.evaluate: same keys in the same order, each computed by the documented metric on the documented pre-processed
   inputs with the documented forced parameter; nothing else is forced *)
Theorem C03_segment_bundle : symexec segment_sigs segment_prog = segment_spec.
Proof. vm_compute. reflexivity. Qed.
Print Assumptions C03_segment_bundle.
(* every metric stored under a single key returns a scalar on every return path (also for empty annotations), and every
   tuple unpacked into n keys has n components on every return path *)
Theorem C03_segment_arities : first_bad_arity segment_arities segment_prog = None.
Proof. vm_compute. reflexivity. Qed.
Print Assumptions C03_segment_arities.
(* separation.evaluate: same keys in the same order, each computed by the documented metric on the documented pre-processed
   inputs with the documented forced parameter; nothing else is forced *)
Theorem C03_separation_bundle : symexec separation_sigs separation_prog = separation_spec.
Proof. vm_compute. reflexivity. Qed.
Print Assumptions C03_separation_bundle.
(* every metric stored under a single key returns a scalar on every return path (also for empty annotations), and every
   tuple unpacked into n keys has n components on every return path *)
Theorem C03_separation_arities : first_bad_arity separation_arities separation_prog = None.
Proof. vm_compute. reflexivity. Qed.
Print Assumptions C03_separation_arities.
(* tempo.evaluate: same keys in the same order, each computed by the documented metric on the documented pre-processed
   inputs with the documented forced parameter; nothing else is forced *)
Theorem C03_tempo_bundle : symexec tempo_sigs tempo_prog = tempo_spec.
Proof. vm_compute. reflexivity. Qed.
Print Assumptions C03_tempo_bundle.
(* every metric stored under a single key returns a scalar on every return path (also for empty annotations), and every
   tuple unpacked into n keys has n components on every return path *)
Theorem C03_tempo_arities : first_bad_arity tempo_arities tempo_prog = None.
Proof. vm_compute. reflexivity. Qed.
Print Assumptions C03_tempo_arities.
(* transcription.evaluate: same keys in the same order, each computed by the documented metric on the documented pre-processed
   inputs with the documented forced parameter; nothing else is forced *)
Theorem C03_transcription_bundle : symexec transcription_sigs transcription_prog = transcription_spec.
Proof. vm_compute. reflexivity. Qed.
Print Assumptions C03_transcription_bundle.
(* every metric stored under a single key returns a scalar on every return path (also for empty annotations), and every
   tuple unpacked into n keys has n components on every return path *)
Theorem C03_transcription_arities : first_bad_arity transcription_arities transcription_prog = None.
Proof. vm_compute. reflexivity. Qed.
Print Assumptions C03_transcription_arities.
(* transcription_velocity.evaluate: same keys in the same order, each computed by the documented metric on the documented pre-processed
   inputs with the documented forced parameter; nothing else is forced *)
Theorem C03_transcription_velocity_bundle : symexec transcription_velocity_sigs transcription_velocity_prog = transcription_velocity_spec.
Proof. vm_compute. reflexivity. Qed.
Print Assumptions C03_transcription_velocity_bundle.
(* every metric stored under a single key returns a scalar on every return path (also for empty annotations), and every
   tuple unpacked into n keys has n components on every return path *)
Theorem C03_transcription_velocity_arities : first_bad_arity transcription_velocity_arities transcription_velocity_prog = None.
Proof. vm_compute. reflexivity. Qed.
Print Assumptions C03_transcription_velocity_arities.
