(* chord.weighted_accuracy(comparisons, weights), in the order of the code's checks.
   comparisons is a float array: a row is "comparable" iff comparisons[i] >= 0 (the code does not
   require the value to be 0 or 1), so the general model takes comparisons in Q; `wa` is the
   instance for the values the 12 comparison functions produce (1, 0, -1 as integers).
   The score is a NumPy float: when every comparable row has weight 0 but some ignored row has a
   positive weight, the code divides 0/0 and returns nan; this is the explicit `NaN`. Definitions only. *)
From Coq Require Import List Bool Arith ZArith QArith.
From ME Require Import Model.Prelude.
Import ListNotations.

Definition wa_valid (c : Q) : bool := Qle_bool 0 c.                 (* comparisons >= 0 *)
(* rows (comparisons[valid_idx], weights[valid_idx]) *)
Fixpoint wa_keep (c w : list Q) : list (Q * Q) :=
  match c, w with
  | x :: c', y :: w' => if wa_valid x then (x, y) :: wa_keep c' w' else wa_keep c' w'
  | _, _ => [] end.
Definition wa_total (rows : list (Q * Q)) : Q := qsum (map snd rows).
(* np.sum(comparisons * (weights / total_weight)) *)
Definition wa_score (rows : list (Q * Q)) : Q :=
  let total := wa_total rows in qsum (map (fun r => (fst r * (snd r / total))%Q) rows).

Definition wa_q (c w : list Q) : res xval :=
  if negb (Nat.eqb (length w) (length c)) then Raise ValueError            (* weights.shape[0] != N *)
  else if existsb (fun x => qltb x 0) w then Raise ValueError              (* (weights < 0).any() *)
  else if qeqb (qsum w) 0 then Ok (Fin 0)                                  (* np.sum(weights) == 0 -> 0 *)
  else match wa_keep c w with
       | [] => Ok (Fin 0)                                                  (* valid_idx.sum() == 0 -> 0 *)
       | rows => if qeqb (wa_total rows) 0 then Ok NaN                     (* weights / 0.0 = nan, nan sums to nan *)
                 else Ok (Fin (wa_score rows)) end.

Definition wa (c : list Z) (w : list Q) : res xval := wa_q (map inject_Z c) w.
