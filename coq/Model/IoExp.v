(* A small deep-embedded Python sub-language for the annotation loaders of mir_eval/io.py (load_delimited, the wrappers
   built on it, load_patterns, load_ragged_time_series): values, operators with the CPython / NumPy semantics of exactly
   the operations these functions use, and an environment + heap evaluator with try/except, warnings and exception
   messages. Same architecture as Model/PyStr.v (which it does not modify). Definitions only.

   translator/iofuncs.py maps the syntax of each function body to an [fdef] (Gen/IOGen.v); what the syntax means on each
   type of value is decided HERE; Proofs/IOTie*.v prove each generated program equal to the hand-written model function of
   Model/IO.v for all inputs, with the callees instantiated by the model's own functions.

   Reading of Python
   * Values: None, bool, int, str (code points), a float read from a file ([PNum], the abstract `num` of Model/IO.v),
     a float literal ([PQ]), tuples, lists, the builtin functions `float` / `str` as objects ([PFun]), exception objects
     and their message, 1-d / 2-d float arrays, and the objects the loaders get from outside:
       [PPath text]   the `filename` argument (a path or an open text file) whose decoded content is `text`;
                      `_open(filename, mode="r")` (an opaque step) yields [PFile text];
       [PFile text]   a text stream: iterating it / `.readlines()` yields `IO.lines text` (pieces ending in "\n");
                      `.read()` yields the text, on which `.splitlines()` is str.splitlines (which ALSO cuts at
                      \x0b \x0c \x1c-\x1e \x85 U+2028 U+2029 and drops the terminators): the two are different functions;
       [PSrc p]       a str that is the SOURCE of a regular expression, known only by its meaning: a delimiter
                      ([PDelim d], d as in Model/IO.v), a comment expression r ([PComment r]) or "^" + the source of r
                      ([PAnch r], what `"^{}".format(comment)` gives); `re.compile` turns it into [PRe p].
                      `.match` on a compiled comment expression is a prefix match at the start of the string (with or
                      without the "^"); `.search`, `.startswith(<source>)` ... are not defined ([UNM]).
   * Lists. A list whose identity cannot be observed is a [PList]; `.append` on it is [UNM]. A list created by a
     statement `x = []` / `x = [..]` / `x = list()` / `x = tuple(<list display> for _ in ..)` lives in the HEAP and the
     name holds a reference [PRef]; references can be stored in tuples and other lists, iterated over, appended to:
     aliasing is what the heap says. Nested list displays inside other expressions are [PList]s (never mutated: a
     mutation would be [UNM]). The value a function returns is resolved through the heap ([deep]).
   * Exceptions carry their class and what the model records of the message ([xinfo]): the integers formatted by
     the `{:d}` fields of the message ([XRows [row]] = "names the row", [XRows []] = no row), or, for a validator's
     ValueError, which warning text it is ([XWarn w]). `warnings.warn(error.args[0])` appends that to the list of
     warnings issued, which is part of the result of a run.
   * try / except with ONE handler: `except:` ([None]: everything), `except C as e` / `except (C1, C2) as e`
     ([Some classes]); the name is unbound again when the handler completes. The body of a try must be one simple
     statement (the state at the raise is then the state before it), anything else is [UNM].
   * `with _open(..) as f:` binds f and runs the block; exceptions pass through (contextlib generator without try).
   * [UNM] ("unmodelled") is the result of every operation on operands outside the cases written below; a tie theorem
     can only hold if the program never reaches such a case.
   * Locals and calls as in Model/PyStr.v: one slot per parameter and local from the start, reading an unbound slot
     raises; callees are opaque, arguments bound to the signature read from the source in the same run. *)
From Coq Require Import String.
From Coq Require Import List Bool Arith ZArith QArith.
From ME Require Import Model.Prelude Model.Regex Model.ChordParse Model.Key Model.IO.
Import ListNotations.
Close Scope Q_scope.

Inductive xinfo := XRows (l : list Z) | XWarn (w : warning).
Inductive pat := PDelim (d : delim) | PComment (r : re) | PAnch (r : re).

(* ------------------------------------------------------------------ syntax *)
Inductive cmpop := CEq | CNe | CLt | CLe | CGt | CGe.
Inductive exp :=
| ELoc (x : string)
| EFn (c : cv)                                      (* the builtins float / str as objects *)
| ENone | EBool (b : bool) | EInt (z : Z) | EStr (s : str) | EFloat (q : Q)
| ETuple (l : list exp) | EList (l : list exp)
| ECmp (op : cmpop) (a b : exp)
| EIn (a b : exp)
| EIsNone (a : exp) | EIsNotNone (a : exp)
| ENot (a : exp) | EAnd (a b : exp) | EOr (a b : exp)
| ESub (a b : exp)
| EIndex (a i : exp)
| ESliceFrom (a i : exp)                            (* a[i:] *)
| EAttr (a : exp) (m : string)                      (* a.T, a.args, a.__name__ *)
| EMeth (a : exp) (m : string) (args : list exp)
| EBuiltin (f : string) (args : list exp)
| ECall (f : string) (pos : list exp) (kws : list (string * exp))
| ECallV (x : string) (args : list exp)             (* call of the function a local holds *)
| EGenTup (body : exp) (x : string) (it : exp).     (* tuple(body for x in it) *)

Inductive stmt :=
| SAssign (x : string) (e : exp)
| SUnpack (xs : list string) (e : exp)
| SAppend (x : string) (e : exp)                    (* x.append(e), x a local *)
| SExpr (e : exp)
| SWarn (e : exp)                                   (* warnings.warn(e) *)
| SIf (c : exp) (a b : list stmt)
| SFor (xs : list string) (it : exp) (body : list stmt)
| SWith (x : string) (e : exp) (body : list stmt)
| STry (s : stmt) (classes : option (list exn)) (name : option string) (handler : list stmt)
| SReturn (e : exp)
| SRaise (cls : exn) (fmt : str) (args : list exp)  (* raise Cls(fmt.format(args...)) [from ..] *)
| SContinue
| SPass.

Record fdef := { f_params : list (string * option exp);
                 f_locals : list string;
                 f_body : list stmt }.

(* ------------------------------------------------------------------ strings *)
(* str.splitlines(): line boundaries \n \r \r\n \v \f \x1c \x1d \x1e \x85 U+2028 U+2029, terminators dropped *)
Definition is_lb (c : nat) : bool :=
  let n := N.of_nat c in
  ((10 <=? n) && (n <=? 13) || (28 <=? n) && (n <=? 30) || (n =? 133) || (n =? 8232) || (n =? 8233))%N.
Fixpoint splitlines_aux (cur : str) (s : str) : list str :=
  match s with
  | [] => match cur with [] => [] | _ => [rev cur] end
  | c :: t =>
      if is_lb c then
        rev cur :: (if Nat.eqb c 13
                    then match t with c2 :: t' => if Nat.eqb c2 10 then splitlines_aux [] t' else splitlines_aux [] t
                                    | [] => splitlines_aux [] t end
                    else splitlines_aux [] t)
      else splitlines_aux (c :: cur) t
  end.
Definition splitlines (s : str) : list str := splitlines_aux [] s.

(* "...{}...{:d}...".format: literal characters, `{}` and `{:d}` fields (automatic numbering); anything else: None *)
Inductive piece := FLit (c : nat) | FAuto | FInt.
Fixpoint fmt_parse (s : str) : option (list piece) :=
  match s with
  | [] => Some []
  | c :: t =>
      if Nat.eqb c 123 then
        match t with
        | c1 :: t1 =>
            if Nat.eqb c1 125 then option_map (cons FAuto) (fmt_parse t1)
            else match t1 with
                 | c2 :: c3 :: t3 => if Nat.eqb c1 58 && Nat.eqb c2 100 && Nat.eqb c3 125
                                     then option_map (cons FInt) (fmt_parse t3) else None
                 | _ => None end
        | [] => None end
      else if Nat.eqb c 125 then None
      else option_map (cons (FLit c)) (fmt_parse t)
  end.

Definition fn_name (c : cv) : str := match c with CFloat => [102;108;111;97;116] | CStr => [115;116;114] end.
Definition zcmp (op : cmpop) (x y : Z) : bool :=
  match op with CEq => Z.eqb x y | CNe => negb (Z.eqb x y) | CLt => Z.ltb x y | CLe => Z.leb x y
  | CGt => Z.ltb y x | CGe => Z.leb y x end.
Definition xcmp (op : cmpop) (a b : xval) : bool :=
  match op with CEq => xeq a b | CNe => negb (xeq a b) | CLt => xlt a b | CLe => xle a b
  | CGt => xlt b a | CGe => xle b a end.
Fixpoint omap {A B} (f : A -> option B) (l : list A) : option (list B) :=
  match l with
  | [] => Some []
  | a :: t => match f a with Some b => option_map (cons b) (omap f t) | None => None end
  end.
Definition exn_in (e : exn) (l : list exn) : bool := existsb (exn_eqb e) l.
Definition catches (classes : option (list exn)) (e : exn) : bool :=
  match classes with None => true | Some l => exn_in e l end.

Section Values.
Variable num : Type.

Inductive pv :=
| PNone | PBool (b : bool) | PInt (z : Z) | PStr (s : str) | PNum (x : num) | PQ (q : Q)
| PList (l : list pv) | PTup (l : list pv) | PRef (n : nat)
| PFun (c : cv)
| PSrc (p : pat) | PRe (p : pat)
| PPath (text : str) | PFile (text : str)
| PArr (l : list num) | PMat (c : nat) (rows : list (list num))
| PMatch
| PExc (e : exn) (i : xinfo) | PMsg (i : xinfo)
| PUnbound.

Inductive out (A : Type) := OK (a : A) | EXN (e : exn) (i : xinfo) | UNM.
Arguments OK {A}. Arguments EXN {A}. Arguments UNM {A}.
Definition obind {A B} (r : out A) (f : A -> out B) : out B :=
  match r with OK a => f a | EXN e i => EXN e i | UNM => UNM end.
Notation "x <~ r ;; k" := (obind r (fun x => k)) (at level 61, r at next level, right associativity).
Definition of_opt {A} (o : option A) : out A := match o with Some a => OK a | None => UNM end.

Definition heap := list (list pv).
Fixpoint set_nth {A} (l : list A) (i : nat) (v : A) : list A :=
  match l, i with [], _ => [] | _ :: t, O => v :: t | x :: t, S j => x :: set_nth t j v end.
(* the value with every reference replaced by the list it points to; [f] bounds the nesting depth *)
Fixpoint deep (f : nat) (h : heap) (v : pv) : option pv :=
  match f with
  | O => None
  | S f' =>
      match v with
      | PRef n => match nth_error h n with Some l => option_map PList (omap (deep f' h) l) | None => None end
      | PList l => option_map PList (omap (deep f' h) l)
      | PTup l => option_map PTup (omap (deep f' h) l)
      | _ => Some v
      end
  end.
Definition deep_fuel := 8.

(* the elements a for loop / len / zip / an unpacking sees (one level: references inside stay references) *)
Definition elems (h : heap) (v : pv) : out (list pv) :=
  match v with
  | PList l | PTup l => OK l
  | PRef n => of_opt (nth_error h n)
  | PFile t => OK (map PStr (lines t))
  | PArr l => OK (map PNum l)
  | _ => UNM
  end.
Fixpoint enum_from (n : Z) (l : list pv) : list pv :=
  match l with [] => [] | v :: t => PTup [PInt n; v] :: enum_from (n + 1)%Z t end.
Fixpoint heads_tails (ls : list (list pv)) : option (list pv * list (list pv)) :=
  match ls with
  | [] => Some ([], [])
  | [] :: _ => None
  | (x :: t) :: r => match heads_tails r with Some (hs, ts) => Some (x :: hs, t :: ts) | None => None end
  end.
Fixpoint zipn (l : list pv) (rest : list (list pv)) : list pv :=
  match l with
  | [] => []
  | x :: t => match heads_tails rest with Some (hs, ts) => PTup (x :: hs) :: zipn t ts | None => [] end
  end.
Definition norm_idx (i : Z) (n : nat) : option nat :=
  if ((0 <=? i) && (i <? Z.of_nat n))%Z then Some (Z.to_nat i)
  else if ((i <? 0) && (- Z.of_nat n <=? i))%Z then Some (Z.to_nat (Z.of_nat n + i)) else None.
Definition as_int (v : pv) : option Z :=
  match v with PInt z => Some z | PBool b => Some (if b then 1 else 0)%Z | _ => None end.
Definition get_num (v : pv) : option num := match v with PNum x => Some x | _ => None end.
Definition get_str (v : pv) : option str := match v with PStr s => Some s | _ => None end.
Definition get_row (v : pv) : option (list num) := match v with PList l => omap get_num l | _ => None end.
Definition is_none (v : pv) : bool := match v with PNone => true | _ => false end.

Definition truth (h : heap) (v : pv) : out bool :=
  match v with
  | PNone => OK false | PBool b => OK b | PInt z => OK (negb (Z.eqb z 0))
  | PStr s => OK (nonempty s)
  | PList l | PTup l => OK (nonempty l)
  | PRef n => match nth_error h n with Some l => OK (nonempty l) | None => UNM end
  | PMatch => OK true
  | _ => UNM
  end.

Variable conv : str -> option num.          (* float(s) on a str *)
Variable convv : str -> option num.         (* one element of np.array(<list of str>, dtype=float) *)
Variable val : num -> xval.

Definition as_x (v : pv) : option xval :=
  match v with
  | PInt z => Some (Fin (inject_Z z)) | PBool b => Some (Fin (inject_Z (if b then 1 else 0)))
  | PNum x => Some (val x) | PQ q => Some (Fin q) | _ => None end.
Definition scalar (v : pv) : bool :=
  match v with PNone | PBool _ | PInt _ | PStr _ | PNum _ | PQ _ => true | _ => false end.
Definition listlike (h : heap) (v : pv) : option (list pv) :=
  match v with PList l => Some l | PRef n => nth_error h n | _ => None end.
(* == : lists of different lengths are unequal without looking at the elements; element comparison is not modelled *)
Definition py_eq (h : heap) (a b : pv) : option bool :=
  match as_int a, as_int b with
  | Some x, Some y => Some (Z.eqb x y)
  | _, _ =>
      match as_x a, as_x b with
      | Some x, Some y => Some (xeq x y)
      | _, _ =>
          match a, b with
          | PStr s, PStr t => Some (seqb s t)
          | PNone, PNone => Some true
          | _, _ =>
              match listlike h a, listlike h b with
              | Some x, Some y => if negb (Nat.eqb (List.length x) (List.length y)) then Some false
                                  else if Nat.eqb (List.length x) 0 then Some true else None
              | _, _ => if scalar a && scalar b then Some false else None
              end
          end
      end
  end.
Definition cmp_op (h : heap) (op : cmpop) (a b : pv) : out pv :=
  match op with
  | CEq => of_opt (option_map PBool (py_eq h a b))
  | CNe => of_opt (option_map (fun t => PBool (negb t)) (py_eq h a b))
  | _ => match as_int a, as_int b with
         | Some x, Some y => OK (PBool (zcmp op x y))
         | _, _ => match as_x a, as_x b with
                   | Some x, Some y => OK (PBool (xcmp op x y))
                   | _, _ => UNM end
         end
  end.
Definition contains_op (a b : pv) : out bool :=
  match a, b with PStr x, PStr s => OK (IO.contains x s) | _, _ => UNM end.
Definition get_item (h : heap) (a i : pv) : out pv :=
  match i with
  | PInt z =>
      match a with
      | PList _ | PTup _ | PRef _ =>
          l <~ elems h a ;;
          match norm_idx z (List.length l) with Some n => of_opt (nth_error l n) | None => EXN IndexError (XRows []) end
      | PArr l =>
          match norm_idx z (List.length l) with Some n => of_opt (option_map PNum (nth_error l n)) | None => EXN IndexError (XRows []) end
      | _ => UNM
      end
  | _ => UNM
  end.
Definition slice_from (a i : pv) : out pv :=
  match a, i with
  | PList l, PInt z => if (0 <=? z)%Z then OK (PList (skipn (Z.to_nat z) l)) else UNM
  | _, _ => UNM
  end.

Local Open Scope string_scope.
Definition attr (a : pv) (m : string) : out pv :=
  match a with
  | PMat c rows => if m =? "T" then OK (PMat (List.length rows) (transpose c rows)) else UNM
  | PExc e i => if m =? "args" then OK (PTup [PMsg i]) else UNM
  | PFun c => if m =? "__name__" then OK (PStr (fn_name c)) else UNM
  | _ => UNM
  end.
(* fmt.format(args...) as a value: a string when every field is `{}` on a str, or "^" + a regular expression source *)
Fixpoint render (ps : list piece) (args : list pv) : option str :=
  match ps with
  | [] => Some []
  | FLit c :: t => option_map (cons c) (render t args)
  | FAuto :: t => match args with PStr s :: r => option_map (app s) (render t r) | _ => None end
  | FInt :: _ => None
  end.
Definition format (fmt : str) (args : list pv) : out pv :=
  match fmt_parse fmt with
  | None => UNM
  | Some ps =>
      match ps, args with
      | [FLit c; FAuto], [PSrc (PComment r)] => if Nat.eqb c 94 then OK (PSrc (PAnch r)) else UNM
      | _, _ => of_opt (option_map PStr (render ps args))
      end
  end.
(* the integers the `{:d}` fields of an exception message show *)
Fixpoint msg_rows (ps : list piece) (args : list pv) : option (list Z) :=
  match ps with
  | [] => Some []
  | FLit _ :: t => msg_rows t args
  | FAuto :: t => match args with _ :: r => msg_rows t r | [] => None end
  | FInt :: t => match args with PInt z :: r => option_map (cons z) (msg_rows t r) | _ => None end
  end.

Definition meth (a : pv) (m : string) (args : list pv) : out pv :=
  match a with
  | PStr s =>
      if m =? "strip" then match args with [] => OK (PStr (pystrip s)) | _ => UNM end
      else if m =? "split" then match args with [PStr [c]] => OK (PList (map PStr (split_on c s))) | _ => UNM end
      else if m =? "startswith" then match args with [PStr p] => OK (PBool (is_prefix p s)) | _ => UNM end
      else if m =? "splitlines" then match args with [] => OK (PList (map PStr (splitlines s))) | _ => UNM end
      else if m =? "format" then format s args
      else UNM
  | PRe (PAnch r) | PRe (PComment r) =>
      if m =? "match" then match args with [PStr s] => OK (if prefix_match r s then PMatch else PNone) | _ => UNM end
      else UNM
  | PRe (PDelim d) =>
      if m =? "split" then
        match args with
        | [PStr s] => of_opt (option_map (fun l => PList (map PStr l)) (re_split d 0 s))
        | [PStr s; PInt k] => of_opt (option_map (fun l => PList (map PStr l)) (re_split d k s))
        | _ => UNM end
      else UNM
  | PFile t =>
      if m =? "readlines" then match args with [] => OK (PList (map PStr (lines t))) | _ => UNM end
      else if m =? "read" then match args with [] => OK (PStr t) | _ => UNM end
      else UNM
  | _ => UNM
  end.
Definition call_fn (c : cv) (args : list pv) : out pv :=
  match c, args with
  | CFloat, [PStr s] => match conv s with Some x => OK (PNum x) | None => EXN ValueError (XRows []) end
  | CStr, [PStr s] => OK (PStr s)
  | _, _ => UNM
  end.
Definition same_len (c : nat) (rows : list (list num)) : bool := forallb (fun r => Nat.eqb (List.length r) c) rows.
Definition np_array (l : list pv) : out pv :=
  match omap get_num l with
  | Some xs => OK (PArr xs)
  | None =>
      match omap get_row l with
      | Some (r :: rows) => if same_len (List.length r) rows then OK (PMat (List.length r) (r :: rows)) else UNM
      | _ => UNM
      end
  end.
Definition as_vec (v : pv) : option (list num) :=
  match v with PList l => omap get_num l | PArr l => Some l | _ => None end.
Definition builtin (h : heap) (f : string) (args : list pv) : out pv :=
  if f =? "len" then
    match args with
    | [PStr s] => OK (PInt (Z.of_nat (List.length s)))
    | [PList _ as v] | [PTup _ as v] | [PRef _ as v] | [PArr _ as v] => l <~ elems h v ;; OK (PInt (Z.of_nat (List.length l)))
    | _ => UNM end
  else if f =? "enumerate" then
    match args with
    | [v] => l <~ elems h v ;; OK (PList (enum_from 0 l))
    | [v; PInt k] => l <~ elems h v ;; OK (PList (enum_from k l))
    | _ => UNM end
  else if f =? "zip" then
    match args with
    | v :: vs => l <~ elems h v ;;
                 ls <~ (fix go (vs : list pv) : out (list (list pv)) :=
                          match vs with [] => OK [] | w :: r => x <~ elems h w ;; xs <~ go r ;; OK (x :: xs) end) vs ;;
                 OK (PList (zipn l ls))
    | [] => UNM end
  else if f =? "range" then
    match args with [PInt n] => OK (PList (map (fun i => PInt (Z.of_nat i)) (seq 0 (Z.to_nat n)))) | _ => UNM end
  else if f =? "list" then match args with [] => OK (PList []) | _ => UNM end
  else if f =? "float" then call_fn CFloat args
  else if f =? "str" then call_fn CStr args
  else if f =? "re.compile" then
    match args with
    | [PSrc (PDelim DUnsupported)] => UNM
    | [PSrc p] => OK (PRe p)
    | _ => UNM end
  else if f =? "np.array" then
    match args with [PList _ as v] | [PRef _ as v] => l <~ elems h v ;; np_array l | _ => UNM end
  else if f =? "np.array_dtype" then                  (* np.array(<list of str>, dtype=float) *)
    match args with
    | [PList l; PFun CFloat] =>
        match omap get_str l with
        | Some ss => match map_opt convv ss with Some xs => OK (PArr xs) | None => EXN ValueError (XRows []) end
        | None => UNM end
    | _ => UNM end
  else if f =? "np.concatenate" then
    match args with
    | [PList [a; b]] => match as_vec a, as_vec b with Some x, Some y => OK (PArr (x ++ y)) | _, _ => UNM end
    | _ => UNM end
  else UNM.
Local Close Scope string_scope.

(* ------------------------------------------------------------------ binding of call arguments (as Model/PyStr.v) *)
Definition env := list (string * pv).
Fixpoint lookup (x : string) (en : env) : option pv :=
  match en with [] => None | (y, v) :: t => if String.eqb x y then Some v else lookup x t end.
Fixpoint update (x : string) (v : pv) (en : env) : option env :=
  match en with
  | [] => None
  | (y, w) :: t => if String.eqb x y then Some ((y, v) :: t) else option_map (cons (y, w)) (update x v t)
  end.
Fixpoint mem_name (p : string) (l : list string) : bool :=
  match l with [] => false | k :: t => String.eqb p k || mem_name p t end.
Fixpoint nodup_names (l : list string) : bool :=
  match l with [] => true | k :: t => negb (mem_name k t) && nodup_names t end.
Definition sigv := list (string * option pv).
Fixpoint bind_params (ps : sigv) (pos : list pv) (kws : list (string * pv)) : option (list pv) :=
  match ps with
  | [] => match pos with [] => Some [] | _ => None end
  | (p, d) :: ps' =>
      match pos with
      | a :: pos' => match lookup p kws with
                     | Some _ => None
                     | None => option_map (cons a) (bind_params ps' pos' kws) end
      | [] => match lookup p kws, d with
              | Some a, _ => option_map (cons a) (bind_params ps' [] kws)
              | None, Some dv => option_map (cons dv) (bind_params ps' [] kws)
              | None, None => None
              end
      end
  end.
Definition bind_args (ps : sigv) (pos : list pv) (kws : list (string * pv)) : option (list pv) :=
  if forallb (fun kw => mem_name (fst kw) (map fst ps)) kws && nodup_names (map fst kws)
  then bind_params ps pos kws else None.
(* default expressions: literals, and the builtins float / str. A str default of a regular-expression parameter is
   only ever bound when the caller omits it, which the tied programs never do. *)
Definition const_val (e : exp) : option pv :=
  match e with
  | ENone => Some PNone | EBool b => Some (PBool b) | EInt z => Some (PInt z) | EStr s => Some (PStr s)
  | EFloat q => Some (PQ q) | EFn c => Some (PFun c)
  | _ => None
  end.
Fixpoint sig_of (ps : list (string * option exp)) : option sigv :=
  match ps with
  | [] => Some []
  | (p, None) :: t => option_map (cons (p, None)) (sig_of t)
  | (p, Some d) :: t => match const_val d, sig_of t with
                        | Some v, Some r => Some ((p, Some v) :: r)
                        | _, _ => None end
  end.
Fixpoint sigs_of (l : list (string * list (string * option exp))) : list (string * option sigv) :=
  match l with [] => [] | (n, ps) :: t => (n, sig_of ps) :: sigs_of t end.

(* ------------------------------------------------------------------ evaluation *)
Variable sigs : list (string * option sigv).
Variable ext : string -> list pv -> out pv.

Fixpoint assoc_sig (f : string) (l : list (string * option sigv)) : option sigv :=
  match l with [] => None | (g, s) :: t => if String.eqb f g then s else assoc_sig f t end.
Definition lookup_sig (f : string) : option sigv := assoc_sig f sigs.

Definition get_loc (en : env) (x : string) : out pv :=
  match lookup x en with Some PUnbound => EXN OtherExn (XRows []) | Some v => OK v | None => UNM end.
Fixpoint eval (en : env) (h : heap) (e : exp) {struct e} : out pv :=
  match e with
  | ELoc x => get_loc en x
  | EFn c => OK (PFun c)
  | ENone => OK PNone | EBool b => OK (PBool b) | EInt z => OK (PInt z) | EStr s => OK (PStr s) | EFloat q => OK (PQ q)
  | ETuple l => vs <~ (fix evs (l : list exp) : out (list pv) :=
                         match l with [] => OK [] | a :: t => v <~ eval en h a ;; r <~ evs t ;; OK (v :: r) end) l ;;
                OK (PTup vs)
  | EList l => vs <~ (fix evs (l : list exp) : out (list pv) :=
                        match l with [] => OK [] | a :: t => v <~ eval en h a ;; r <~ evs t ;; OK (v :: r) end) l ;;
               OK (PList vs)
  | ECmp op a b => x <~ eval en h a ;; y <~ eval en h b ;; cmp_op h op x y
  | EIn a b => x <~ eval en h a ;; y <~ eval en h b ;; t <~ contains_op x y ;; OK (PBool t)
  | EIsNone a => x <~ eval en h a ;; OK (PBool (is_none x))
  | EIsNotNone a => x <~ eval en h a ;; OK (PBool (negb (is_none x)))
  | ENot a => x <~ eval en h a ;; t <~ truth h x ;; OK (PBool (negb t))
  | EAnd a b => x <~ eval en h a ;; t <~ truth h x ;; if t then eval en h b else OK x
  | EOr a b => x <~ eval en h a ;; t <~ truth h x ;; if t then OK x else eval en h b
  | ESub a b => x <~ eval en h a ;; y <~ eval en h b ;;
                match as_int x, as_int y with Some p, Some q => OK (PInt (p - q)) | _, _ => UNM end
  | EIndex a i => x <~ eval en h a ;; y <~ eval en h i ;; get_item h x y
  | ESliceFrom a i => x <~ eval en h a ;; y <~ eval en h i ;; slice_from x y
  | EAttr a m => x <~ eval en h a ;; attr x m
  | EMeth a m args =>
      x <~ eval en h a ;;
      vs <~ (fix evs (l : list exp) : out (list pv) :=
               match l with [] => OK [] | a :: t => v <~ eval en h a ;; r <~ evs t ;; OK (v :: r) end) args ;;
      meth x m vs
  | EBuiltin f args =>
      vs <~ (fix evs (l : list exp) : out (list pv) :=
               match l with [] => OK [] | a :: t => v <~ eval en h a ;; r <~ evs t ;; OK (v :: r) end) args ;;
      builtin h f vs
  | ECall f pos kws =>
      ps <~ (fix evs (l : list exp) : out (list pv) :=
               match l with [] => OK [] | a :: t => v <~ eval en h a ;; r <~ evs t ;; OK (v :: r) end) pos ;;
      ks <~ (fix evk (l : list (string * exp)) : out (list (string * pv)) :=
               match l with [] => OK [] | (k, a) :: t => v <~ eval en h a ;; r <~ evk t ;; OK ((k, v) :: r) end) kws ;;
      match lookup_sig f with
      | Some sg => match bind_args sg ps ks with Some vs => ext f vs | None => UNM end
      | None => UNM
      end
  | ECallV x args =>
      fv <~ get_loc en x ;;
      vs <~ (fix evs (l : list exp) : out (list pv) :=
               match l with [] => OK [] | a :: t => v <~ eval en h a ;; r <~ evs t ;; OK (v :: r) end) args ;;
      match fv with PFun c => call_fn c vs | _ => UNM end
  | EGenTup body x it =>
      v <~ eval en h it ;; els <~ elems h v ;;
      vs <~ (fix go (els : list pv) : out (list pv) :=
               match els with [] => OK [] | el :: t => w <~ eval ((x, el) :: en) h body ;; r <~ go t ;; OK (w :: r) end) els ;;
      OK (PTup vs)
  end.

(* the right-hand side of `x = e`: a list display / list() / tuple(<such> for ..) creates heap lists *)
Definition is_alloc (e : exp) : bool :=
  match e with EList _ => true | EBuiltin f [] => String.eqb f "list" | _ => false end.
Definition alloc (h : heap) (l : list pv) : pv * heap := (PRef (List.length h), h ++ [l]).
Definition eval_alloc (en : env) (h : heap) (e : exp) : out (pv * heap) :=
  v <~ eval en h e ;; match v with PList l => OK (alloc h l) | _ => UNM end.
Fixpoint alloc_each (en : env) (x : string) (body : exp) (els : list pv) (h : heap) : out (list pv * heap) :=
  match els with
  | [] => OK ([], h)
  | el :: t => r <~ eval_alloc ((x, el) :: en) h body ;; let '(v, h') := r in
               r' <~ alloc_each en x body t h' ;; let '(vs, h'') := r' in OK (v :: vs, h'')
  end.
Definition eval_top (en : env) (h : heap) (e : exp) : out (pv * heap) :=
  if is_alloc e then eval_alloc en h e
  else match e with
       | EGenTup body x it =>
           if is_alloc body then
             v <~ eval en h it ;; els <~ elems h v ;; r <~ alloc_each en x body els h ;; OK (PTup (fst r), snd r)
           else v <~ eval en h e ;; OK (v, h)
       | _ => v <~ eval en h e ;; OK (v, h)
       end.

(* ---- statements ---- *)
Record st := { s_env : env; s_heap : heap; s_warn : list xinfo }.
Inductive sres := SNorm (s : st) | SCnt (s : st) | SRet (v : pv) (s : st) | SExn (e : exn) (i : xinfo) (w : list xinfo) | SUnm.
Definition lift_e {A} (w : list xinfo) (r : out A) (k : A -> sres) : sres :=
  match r with OK a => k a | EXN e i => SExn e i w | UNM => SUnm end.
Definition set1 (x : string) (v : pv) (s : st) : sres :=
  match update x v (s_env s) with Some en' => SNorm {| s_env := en'; s_heap := s_heap s; s_warn := s_warn s |} | None => SUnm end.
Fixpoint set_all (xs : list string) (vs : list pv) (s : st) : sres :=
  match xs, vs with
  | [], [] => SNorm s
  | x :: xt, v :: vt => match set1 x v s with SNorm s' => set_all xt vt s' | o => o end
  | _, _ => SExn ValueError (XRows []) (s_warn s)          (* too many / not enough values to unpack *)
  end.
Definition unpack (xs : list string) (v : pv) (s : st) : sres :=
  lift_e (s_warn s) (elems (s_heap s) v) (fun els => set_all xs els s).
Definition bind_target (xs : list string) (v : pv) (s : st) : sres :=
  match xs with [x] => set1 x v s | _ => unpack xs v s end.
Fixpoint for_loop (step : pv -> st -> sres) (els : list pv) (s : st) : sres :=
  match els with
  | [] => SNorm s
  | v :: t => match step v s with SNorm s' | SCnt s' => for_loop step t s' | r => r end
  end.
Definition run_block (f : stmt -> st -> sres) : list stmt -> st -> sres :=
  fix go (l : list stmt) (s : st) : sres :=
    match l with [] => SNorm s | x :: r => match f x s with SNorm s' => go r s' | o => o end end.
Definition for_step (blk : list stmt -> st -> sres) (xs : list string) (body : list stmt) (el : pv) (s : st) : sres :=
  match bind_target xs el s with SNorm s' => blk body s' | o => o end.
Definition simple (s : stmt) : bool := match s with SAssign _ _ | SUnpack _ _ | SExpr _ => true | _ => false end.
Definition append_to (x : string) (v : pv) (s : st) : sres :=
  match lookup x (s_env s) with
  | Some (PRef n) =>
      match nth_error (s_heap s) n with
      | Some l => SNorm {| s_env := s_env s; s_heap := set_nth (s_heap s) n (l ++ [v]); s_warn := s_warn s |}
      | None => SUnm end
  | Some PUnbound => SExn OtherExn (XRows []) (s_warn s)
  | _ => SUnm
  end.

Fixpoint exec (c : stmt) (s : st) {struct c} : sres :=
  let en := s_env s in let h := s_heap s in let w := s_warn s in
  match c with
  | SAssign x e => lift_e w (eval_top en h e) (fun r =>
                     set1 x (fst r) {| s_env := en; s_heap := snd r; s_warn := w |})
  | SUnpack xs e => lift_e w (eval en h e) (fun v => unpack xs v s)
  | SAppend x e => lift_e w (eval en h e) (fun v => append_to x v s)
  | SExpr e => lift_e w (eval en h e) (fun _ => SNorm s)
  | SWarn e => lift_e w (eval en h e) (fun v =>
                 match v with PMsg i => SNorm {| s_env := en; s_heap := h; s_warn := w ++ [i] |} | _ => SUnm end)
  | SIf c a b => lift_e w (eval en h c) (fun v => lift_e w (truth h v) (fun t => run_block exec (if t then a else b) s))
  | SFor xs it body =>
      lift_e w (eval en h it) (fun v => lift_e w (elems h v) (fun els =>
        for_loop (for_step (run_block exec) xs body) els s))
  | SWith x e body =>
      lift_e w (eval en h e) (fun v => match set1 x v s with SNorm s' => run_block exec body s' | o => o end)
  | STry c' classes name handler =>
      if simple c' then
        match exec c' s with
        | SExn e i w' =>
            if catches classes e then
              match name with
              | None => run_block exec handler s
              | Some x => match set1 x (PExc e i) s with
                          | SNorm s' => match run_block exec handler s' with
                                        | SNorm s'' => set1 x PUnbound s''
                                        | o => o end
                          | o => o end
              end
            else SExn e i w'
        | o => o
        end
      else SUnm
  | SReturn e => lift_e w (eval en h e) (fun v => SRet v s)
  | SRaise cls fmt args =>
      lift_e w ((fix evs (l : list exp) : out (list pv) :=
                   match l with [] => OK [] | a :: t => v <~ eval en h a ;; r <~ evs t ;; OK (v :: r) end) args)
        (fun vs => match fmt_parse fmt with
                   | Some ps => match msg_rows ps vs with Some rows => SExn cls (XRows rows) w | None => SUnm end
                   | None => SUnm end)
  | SContinue => SCnt s
  | SPass => SNorm s
  end.
Definition exec_block : list stmt -> st -> sres := run_block exec.

Definition init_env (f : fdef) (args : list pv) : env :=
  combine (map fst (f_params f)) args ++ map (fun x => (x, PUnbound)) (f_locals f).
(* a call with one value per parameter: (what is returned or raised, the warnings issued) *)
Definition run_fun (f : fdef) (args : list pv) : out pv * list xinfo :=
  if Nat.eqb (List.length args) (List.length (f_params f)) then
    match exec_block (f_body f) {| s_env := init_env f args; s_heap := []; s_warn := [] |} with
    | SNorm s => (OK PNone, s_warn s)
    | SRet v s => (of_opt (deep deep_fuel (s_heap s) v), s_warn s)
    | SExn e i w => (EXN e i, w)
    | SCnt _ | SUnm => (UNM, [])
    end
  else (UNM, []).
End Values.

Arguments OK {A}. Arguments EXN {A}. Arguments UNM {A}.
