(* mir_eval/transcription.py and mir_eval/transcription_velocity.py.  Definitions only.

   Numbers.  Times, tolerances, velocities are Q.  The functions compare *rounded* quantities
   (np.around(., 4) of |onset difference|, offset_ratio * duration, 1200 * (log2 f_r - log2 f_e)), and the
   outcome of `<` / `<=` at a tolerance depends on the binary64 rounding of those quantities (e.g.
   np.around(0.05004, 4) is the double 0.05 and is NOT < 0.05 although 1/20 < Fraction(0.05)).  The model
   therefore rounds exactly where NumPy rounds: `fl64` is round-to-nearest-even to 53 significant bits
   (unbounded exponent: overflow and subnormals are outside the model).  With `fl64` at every NumPy operation the
   three hit matrices are bit-exact for all finite double inputs in the normal range.
   Pitches: the code takes Hz and compares 1200*|log2 f_r - log2 f_e| with pitch_tolerance (cents).  log2 is not
   rational: a pitch is the pair (Hz value, np.log2 of it) and the matching only reads the second component (the unit
   feeds the implementation's own np.log2 outputs as exact fractions); `validate` only reads the first.
   Scores (P, R, F, AOR) and the velocity regression are exact Q (compared with 1e-9 / decided away from thresholds).
   `option` = fuel of Model.Matching.bipartite_match exhausted (never observed). *)
From Coq Require Import List Bool Arith ZArith QArith Qabs Qminmax Qround Qpower Qreduction.
From ME Require Import Model.Prelude Model.Dict Model.Matching Model.Events.
Import ListNotations.
Local Open Scope Q_scope.

(* ---------- binary64 rounding ---------- *)
(* np.rint: round half to even *)
Definition rhe (x : Q) : Z :=
  let f := Qfloor x in
  let r := x - inject_Z f in
  if qltb r (1#2) then f else if qltb (1#2) r then (f + 1)%Z else if Z.even f then f else (f + 1)%Z.
Definition pow2 (e : Z) : Q := Qpower 2 e.
(* floor (log2 x) for x > 0 *)
Definition ilog2 (x : Q) : Z :=
  let k := (Z.log2 (Qnum x) - Z.log2 (Zpos (Qden x)))%Z in
  if qleb (pow2 k) x then k else (k - 1)%Z.
Definition fl64_pos (x : Q) : Q :=
  let e := (ilog2 x - 52)%Z in inject_Z (rhe (x / pow2 e)) * pow2 e.
Definition fl64 (x : Q) : Q :=
  let y := Qred x in
  if qeqb y 0 then 0 else if qltb 0 y then fl64_pos y else - fl64_pos (- y).

(* ---------- NumPy element operations ---------- *)
Definition fsub_abs (a b : Q) : Q := fl64 (Qabs (a - b)).                 (* np.abs(a - b) *)
Definition np_around4 (x : Q) : Q :=                                       (* np.around(x, 4): multiply, rint, divide *)
  fl64 (inject_Z (rhe (fl64 (x * 10000))) / 10000).
Definition cmpb (strict : bool) (a b : Q) : bool := if strict then qltb a b else qleb a b.   (* np.less / np.less_equal *)

(* ---------- intervals ---------- *)
Definition ivl := (Q * Q)%type.
(* util.validate_intervals on an (n,2) array *)
Definition validate_ivs (l : list ivl) : res unit :=
  if existsb (fun i => qltb (fst i) 0 || qltb (snd i) 0) l then Raise ValueError
  else if existsb (fun i => qleb (snd i) (fst i)) l then Raise ValueError
  else Ok tt.
Definition duration (i : ivl) : Q := fsub_abs (snd i) (fst i).             (* np.abs(np.diff(intervals)) *)

(* ---------- the three hit predicates (reference note first) ---------- *)
Definition onset_hitb (strict : bool) (tol : Q) (r e : ivl) : bool :=
  cmpb strict (np_around4 (fsub_abs (fst r) (fst e))) tol.
Definition offset_tol (ratio mintol : Q) (r : ivl) : Q := Qmax (fl64 (ratio * duration r)) mintol.
Definition offset_hitb (strict : bool) (ratio mintol : Q) (r e : ivl) : bool :=
  cmpb strict (np_around4 (fsub_abs (snd r) (snd e))) (offset_tol ratio mintol r).
(* arguments: np.log2 of the two pitches *)
Definition pitch_hitb (strict : bool) (ptol : Q) (lr le : Q) : bool :=
  cmpb strict (fl64 (1200 * fl64 (Qabs (lr - le)))) ptol.
(* a note for the matcher: interval and log2(pitch) *)
Definition note := (ivl * Q)%type.
Definition note_hitb (strict : bool) (otol ptol : Q) (ratio : option Q) (mintol : Q) (r e : note) : bool :=
  onset_hitb strict otol (fst r) (fst e) && pitch_hitb strict ptol (snd r) (snd e) &&
  match ratio with Some q => offset_hitb strict q mintol (fst r) (fst e) | None => true end.

(* np.where(hit_matrix): (ref index, est index), row-major *)
Fixpoint row_hits {B} (q : B -> bool) (i j : nat) (est : list B) : list (nat * nat) :=
  match est with [] => [] | e :: t => (if q e then [(i, j)] else []) ++ row_hits q i (S j) t end.
Fixpoint hits_from {A B} (p : A -> B -> bool) (i : nat) (ref : list A) (est : list B) : list (nat * nat) :=
  match ref with [] => [] | r :: t => row_hits (p r) i 0 est ++ hits_from p (S i) t est end.
Definition hits_where {A B} (p : A -> B -> bool) (ref : list A) (est : list B) : list (nat * nat) := hits_from p 0 ref est.
(* graph (est-indexed, in hit order), util._bipartite_match, sorted(items) *)
Definition match_pred {A B} (p : A -> B -> bool) (ref : list A) (est : list B) : option (list (nat * nat)) :=
  match_hits (hits_where p ref est).

Definition match_note_onsets (ref est : list ivl) (tol : Q) (strict : bool) : res (option (list (nat * nat))) :=
  Ok (match_pred (onset_hitb strict tol) ref est).
(* util.intervals_to_durations validates the reference intervals *)
Definition match_note_offsets (ref est : list ivl) (ratio mintol : Q) (strict : bool) : res (option (list (nat * nat))) :=
  _ <- validate_ivs ref ;; Ok (match_pred (offset_hitb strict ratio mintol) ref est).
(* intervals and pitches of equal length (zipped); unequal lengths (NumPy broadcasting / ValueError) are outside the model *)
Definition match_notes (ref est : list note) (otol ptol : Q) (ratio : option Q) (mintol : Q) (strict : bool)
  : res (option (list (nat * nat))) :=
  _ <- (match ratio with Some _ => validate_ivs (map fst ref) | None => Ok tt end) ;;
  Ok (match_pred (note_hitb strict otol ptol ratio mintol) ref est).

(* ---------- validation ---------- *)
Definition validate_intervals2 (ref est : list ivl) : res unit := _ <- validate_ivs ref ;; validate_ivs est.
(* a pitch = (Hz, np.log2 Hz) *)
Definition pitch := (Q * Q)%type.
Definition validate (ref_int : list ivl) (ref_p : list pitch) (est_int : list ivl) (est_p : list pitch) : res unit :=
  _ <- validate_intervals2 ref_int est_int ;;
  if negb (length ref_int =? length ref_p)%nat then Raise ValueError
  else if negb (length est_int =? length est_p)%nat then Raise ValueError
  else if existsb (fun p => qleb (fst p) 0) ref_p then Raise ValueError
  else if existsb (fun p => qleb (fst p) 0) est_p then Raise ValueError
  else Ok tt.

(* ---------- scores ---------- *)
Definition nQ (n : nat) : Q := inject_Z (Z.of_nat n).
Definition prf_of (m nr ne : nat) (beta : Q) : Q * Q * Q :=
  let p := nQ m / nQ ne in let r := nQ m / nQ nr in (p, r, f_measure p r beta).

Definition xadd (a b : xval) : xval :=
  match a, b with
  | Fin x, Fin y => Fin (x + y)
  | NaN, _ | _, NaN => NaN
  | PInf, NInf | NInf, PInf => NaN
  | PInf, _ | _, PInf => PInf
  | NInf, _ | _, NInf => NInf
  end.
Definition overlap_ratio (r e : ivl) : xval :=
  xdiv (Qmin (snd r) (snd e) - Qmax (fst r) (fst e)) (Qmax (snd r) (snd e) - Qmin (fst r) (fst e)).
Fixpoint ratios (ref est : list ivl) (m : list (nat * nat)) : res (list xval) :=
  match m with
  | [] => Ok []
  | (i, j) :: t =>
      match nth_error ref i, nth_error est j with
      | Some r, Some e => rs <- ratios ref est t ;; Ok (overlap_ratio r e :: rs)
      | _, _ => Raise IndexError
      end
  end.
Definition xmean (l : list xval) : xval :=
  match fold_right xadd (Fin 0) l with Fin s => Fin (s / nQ (length l)) | other => other end.
Definition average_overlap_ratio (ref est : list ivl) (m : list (nat * nat)) : res xval :=
  rs <- ratios ref est m ;; Ok (match rs with [] => Fin 0 | _ => xmean rs end).

Definition zip_notes (ints : list ivl) (ps : list pitch) : list note := combine ints (map snd ps).

Definition precision_recall_f1_overlap (ref_int : list ivl) (ref_p : list pitch) (est_int : list ivl) (est_p : list pitch)
    (otol ptol : Q) (ratio : option Q) (mintol : Q) (strict : bool) (beta : Q) : res (option (Q * Q * Q * xval)) :=
  _ <- validate ref_int ref_p est_int est_p ;;
  if (length ref_p =? 0)%nat || (length est_p =? 0)%nat then Ok (Some (0, 0, 0, Fin 0)) else
  om <- match_notes (zip_notes ref_int ref_p) (zip_notes est_int est_p) otol ptol ratio mintol strict ;;
  match om with
  | None => Ok None
  | Some m =>
      a <- average_overlap_ratio ref_int est_int m ;;
      let '(p, r, f) := prf_of (length m) (length ref_p) (length est_p) beta in Ok (Some (p, r, f, a))
  end.

Definition onset_precision_recall_f1 (ref est : list ivl) (tol : Q) (strict : bool) (beta : Q) : res (option (Q * Q * Q)) :=
  _ <- validate_intervals2 ref est ;;
  if (length ref =? 0)%nat || (length est =? 0)%nat then Ok (Some (0, 0, 0)) else
  om <- match_note_onsets ref est tol strict ;;
  Ok (option_map (fun m => prf_of (length m) (length ref) (length est) beta) om).

Definition offset_precision_recall_f1 (ref est : list ivl) (ratio mintol : Q) (strict : bool) (beta : Q) : res (option (Q * Q * Q)) :=
  _ <- validate_intervals2 ref est ;;
  if (length ref =? 0)%nat || (length est =? 0)%nat then Ok (Some (0, 0, 0)) else
  om <- match_note_offsets ref est ratio mintol strict ;;
  Ok (option_map (fun m => prf_of (length m) (length ref) (length est) beta) om).

(* evaluate with every keyword argument given; the scores in the order of the returned OrderedDict *)
Record targs := { a_otol : Q; a_ptol : Q; a_ratio : option Q; a_mintol : Q; a_strict : bool; a_beta : Q }.
Definition q4 (x : Q * Q * Q * xval) : list xval := let '(p, r, f, a) := x in [Fin p; Fin r; Fin f; a].
Definition q3 (x : Q * Q * Q) : list xval := let '(p, r, f) := x in [Fin p; Fin r; Fin f].
Definition obind {A B} (r : res (option A)) (k : A -> res (option B)) : res (option B) :=
  o <- r ;; match o with None => Ok None | Some a => k a end.
Definition evaluate (ref_int : list ivl) (ref_p : list pitch) (est_int : list ivl) (est_p : list pitch) (k : targs)
  : res (option (list xval)) :=
  obind (match a_ratio k with
         | Some _ => obind (precision_recall_f1_overlap ref_int ref_p est_int est_p (a_otol k) (a_ptol k) (a_ratio k)
                              (a_mintol k) (a_strict k) (a_beta k)) (fun x => Ok (Some (q4 x)))
         | None => Ok (Some [])
         end) (fun s1 =>
  obind (precision_recall_f1_overlap ref_int ref_p est_int est_p (a_otol k) (a_ptol k) None (a_mintol k) (a_strict k) (a_beta k)) (fun x2 =>
  obind (onset_precision_recall_f1 ref_int est_int (a_otol k) (a_strict k) (a_beta k)) (fun x3 =>
  obind (match a_ratio k with
         | Some q => obind (offset_precision_recall_f1 ref_int est_int q (a_mintol k) (a_strict k) (a_beta k)) (fun x => Ok (Some (q3 x)))
         | None => Ok (Some [])
         end) (fun s4 =>
  Ok (Some (s1 ++ q4 x2 ++ q3 x3 ++ s4)))))).

(* ---------- transcription_velocity ---------- *)
Definition vel_validate (ref_int : list ivl) (ref_p : list pitch) (ref_v : list Q)
                        (est_int : list ivl) (est_p : list pitch) (est_v : list Q) : res unit :=
  _ <- validate ref_int ref_p est_int est_p ;;
  if negb (length ref_v =? length ref_p)%nat then Raise ValueError
  else if negb (length est_v =? length est_p)%nat then Raise ValueError
  else if existsb (fun v => qltb v 0) ref_v then Raise ValueError
  else if existsb (fun v => qltb v 0) est_v then Raise ValueError
  else Ok tt.

(* velocities of the matched pairs: fancy indexing raises IndexError when out of range *)
Fixpoint matched_vel (rv ev : list Q) (m : list (nat * nat)) : res (list (Q * Q)) :=
  match m with
  | [] => Ok []
  | (i, j) :: t =>
      match nth_error rv i, nth_error ev j with
      | Some r, Some e => rs <- matched_vel rv ev t ;; Ok ((r, e) :: rs)
      | _, _ => Raise IndexError
      end
  end.
(* np.linalg.lstsq([e, 1], r): (slope, intercept).  Full rank: the normal equations.  Rank-deficient (all matched
   estimated velocities equal to c): the minimum-norm solution, proportional to (c, 1), predicting mean(r). *)
Definition lstsq_line (pairs : list (Q * Q)) : Q * Q :=
  let n := nQ (length pairs) in
  let sx := qsum (map snd pairs) in let sy := qsum (map fst pairs) in
  let sxx := qsum (map (fun p => snd p * snd p) pairs) in let sxy := qsum (map (fun p => snd p * fst p) pairs) in
  let d := n * sxx - sx * sx in
  if qeqb d 0 then
    let c := sx / n in let ybar := sy / n in (c * ybar / (c * c + 1), ybar / (c * c + 1))
  else
    let slope := (n * sxy - sx * sy) / d in (slope, (sy - slope * sx) / n).
Fixpoint filter2 {A B} (f : B -> bool) (l : list A) (k : list B) : list A :=
  match l, k with a :: l', b :: k' => if f b then a :: filter2 f l' k' else filter2 f l' k' | _, _ => [] end.
Definition vel_filter (ref_v est_v : list Q) (vtol : Q) (m : list (nat * nat)) : res (list (nat * nat)) :=
  match qmin_list ref_v, qmax_list ref_v with
  | Some vmin, Some vmax =>
      let range := Qmax 1 (vmax - vmin) in
      let rv := map (fun v => (v - vmin) / range) ref_v in
      match m with
      | [] => Ok []
      | _ =>
          pairs <- matched_vel rv est_v m ;;
          let '(slope, icpt) := lstsq_line pairs in
          Ok (filter2 (fun p => qltb (Qabs (slope * snd p + icpt - fst p)) vtol) m pairs)
      end
  | _, _ => Raise ValueError                      (* np.min of an empty array *)
  end.
Definition vel_match_notes (ref : list note) (ref_v : list Q) (est : list note) (est_v : list Q)
    (otol ptol : Q) (ratio : option Q) (mintol : Q) (strict : bool) (vtol : Q) : res (option (list (nat * nat))) :=
  obind (match_notes ref est otol ptol ratio mintol strict) (fun m =>
  m' <- vel_filter ref_v est_v vtol m ;; Ok (Some m')).

Definition vel_precision_recall_f1_overlap (ref_int : list ivl) (ref_p : list pitch) (ref_v : list Q)
    (est_int : list ivl) (est_p : list pitch) (est_v : list Q)
    (otol ptol : Q) (ratio : option Q) (mintol : Q) (strict : bool) (vtol beta : Q) : res (option (Q * Q * Q * xval)) :=
  _ <- vel_validate ref_int ref_p ref_v est_int est_p est_v ;;
  if (length ref_p =? 0)%nat || (length est_p =? 0)%nat then Ok (Some (0, 0, 0, Fin 0)) else
  obind (vel_match_notes (zip_notes ref_int ref_p) ref_v (zip_notes est_int est_p) est_v otol ptol ratio mintol strict vtol) (fun m =>
  a <- average_overlap_ratio ref_int est_int m ;;
  let '(p, r, f) := prf_of (length m) (length ref_p) (length est_p) beta in Ok (Some (p, r, f, a))).

Definition vel_evaluate (ref_int : list ivl) (ref_p : list pitch) (ref_v : list Q)
    (est_int : list ivl) (est_p : list pitch) (est_v : list Q) (k : targs) (vtol : Q) : res (option (list xval)) :=
  obind (match a_ratio k with
         | Some _ => obind (vel_precision_recall_f1_overlap ref_int ref_p ref_v est_int est_p est_v (a_otol k) (a_ptol k)
                              (a_ratio k) (a_mintol k) (a_strict k) vtol (a_beta k)) (fun x => Ok (Some (q4 x)))
         | None => Ok (Some [])
         end) (fun s1 =>
  obind (vel_precision_recall_f1_overlap ref_int ref_p ref_v est_int est_p est_v (a_otol k) (a_ptol k) None
           (a_mintol k) (a_strict k) vtol (a_beta k)) (fun x2 =>
  Ok (Some (s1 ++ q4 x2)))).
