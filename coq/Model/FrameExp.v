(* A small deep-embedded Python / NumPy sub-language for the frame pre-processing and counting helpers of
   mir_eval/multipitch.py (compute_num_freqs, compute_num_true_positives, midi_to_chroma, frequencies_to_midi,
   resample_multipitch, the part of `metrics` before the final assembly) and mir_eval/melody.py (freq_to_voicing,
   to_cent_voicing): values, operators with the CPython / NumPy meaning of exactly the operations used, and an
   environment-based evaluator with `for` loops over enumerate / zip, list comprehensions, in-place stores into
   fresh locals, opaque callees, `util.filter_kwargs` and `**kwargs`. Definitions only.

   translator/framefuncs.py maps the syntax of each function body to an [fdef] (Gen/FrameGen.v); what the syntax
   means on each type of value is decided HERE; Proofs/FrameTie*.v prove each generated program equal to the
   hand-written model function of Model/Multipitch.v / Model/Melody.v for all inputs.

   Reading of Python / NumPy / SciPy (the trusted part)
   * Numbers are exact: a float is a rational [VFlt], an int an unbounded Z. A float64 array is [VArrQ] (all entries
     finite) or [VArrM] (entries may be nan = None; produced by np.log2 of a negative number, as in
     Model/Multipitch.v). np.log2 is an arbitrary function [flog2] of a positive float; log2 of a negative entry is nan;
     log2(0) = -inf is not representable: [UNM].
   * [UNM] ("unmodelled") is the result of every operation on operands outside the cases written below; a tie
     theorem can only hold if the program never reaches such a case.
   * Locals: one slot per parameter and local from the start; reading an unbound slot raises. A list comprehension
     has its own scope: its targets shadow the enclosing names while the element expression is evaluated.
   * Mutation: x[i] = v is in-place in Python. The translator only emits it for names whose object no other name,
     container or callee can reach (it fails otherwise), so that rebinding the local is an exact reading.
   * warnings.warn(<literal>) is a no-op ([SWarn]); warnings are modelled and sampled separately.
   * Calls of functions of mir_eval are opaque ([ECall]): arguments are evaluated left to right and bound to the
     callee's parameters as Python does (signatures read from the source in the same run; a call that Python
     would reject with a TypeError is [UNM]). util.filter_kwargs(f, *args, **kw) keeps the keywords that are
     parameter names of f and calls f ([EFilterKw]). A function used as a value is [VFun].
   * NumPy functions are bound to the signatures of [np_sigs] (names and defaults of NumPy 1.x, only the parameters
     that are interpreted), so that np.allclose(a, b, 1e-3) and np.allclose(a, b, rtol=1e-3) mean the same.
   * scipy.interpolate.interp1d(x, y, ...)(x_new) is the primitive [interp1d_prim]; only the argument combinations
     written there are interpreted: kind='nearest' with a fill value on a non-decreasing x (multipitch), and kind
     'linear' / 'zero' with the default bounds_error / fill_value / assume_sorted (melody: stable sort of the points,
     ValueError outside the range, 'zero' refuses duplicate abscissae, 'linear' on duplicate abscissae divides by zero:
     the result is [VOpaque], an array whose entries are not modelled and on which every operation is [UNM]).
   * [VNan] is the scalar nan (only produced as the mean of an empty array; np.allclose(a, nan) is True iff a is empty).
     A scalar division by zero is [UNM] (NumPy would give inf / nan): ties are stated where it does not occur. *)
From Coq Require Import String.
From Coq Require Import List Bool Arith ZArith QArith Qabs Qminmax Qround.
From ME Require Import Model.Prelude Model.Events.
Import ListNotations.
Open Scope Q_scope.

Inductive out (A : Type) := OK (a : A) | EXN (e : exn) | UNM.
Arguments OK {A}. Arguments EXN {A}. Arguments UNM {A}.
Definition obind {A B} (r : out A) (f : A -> out B) : out B :=
  match r with OK a => f a | EXN e => EXN e | UNM => UNM end.
Notation "x <~ r ;; k" := (obind r (fun x => k)) (at level 61, r at next level, right associativity).
Definition of_opt {A} (o : option A) : out A := match o with Some a => OK a | None => UNM end.

Inductive fv :=
| VNone
| VBool (b : bool)
| VInt (z : Z)
| VFlt (q : Q)
| VStr (s : string)
| VArrQ (l : list Q)                 (* float64 array, all finite *)
| VArrM (l : list (option Q))        (* float64 array, None = nan *)
| VArrZ (l : list Z)                 (* int64 array *)
| VArrB (l : list bool)
| VList (l : list fv)
| VTup (l : list fv)
| VDict (d : list (string * fv))     (* a **kwargs dictionary *)
| VFun (f : string)                  (* a function of mir_eval used as a value *)
| VMatching (m : list (nat * nat))   (* the list util.match_events returns *)
| VNan                              (* the float nan as a scalar (the mean of an empty array) *)
| VOpaque                           (* a float array with entries that are not modelled (inf / nan produced by a division by zero) *)
| VUnbound.

Section MapM.
Context {A B : Type}.
Variable f : A -> out B.
Fixpoint mapM (l : list A) : out (list B) :=
  match l with [] => OK [] | a :: t => v <~ f a ;; r <~ mapM t ;; OK (v :: r) end.
End MapM.

(* ------------------------------------------------------------------ lists *)
Definition norm_idx (i : Z) (n : nat) : option nat :=
  match i with
  | Z0 => if (0 <? n)%nat then Some 0%nat else None
  | Zpos p => if (Pos.to_nat p <? n)%nat then Some (Pos.to_nat p) else None
  | Zneg p => if (Pos.to_nat p <=? n)%nat then Some (n - Pos.to_nat p)%nat else None
  end.
Fixpoint set_nth {A} (l : list A) (i : nat) (v : A) : list A :=
  match l, i with [], _ => [] | _ :: t, O => v :: t | x :: t, S j => x :: set_nth t j v end.
Fixpoint vselect {A} (m : list bool) (l : list A) : list A :=
  match m, l with b :: m', x :: l' => if b then x :: vselect m' l' else vselect m' l' | _, _ => [] end.
Fixpoint vmap2 {A B C} (f : A -> B -> C) (a : list A) (b : list B) : list C :=
  match a, b with x :: a', y :: b' => f x y :: vmap2 f a' b' | _, _ => [] end.
Definition zrange (a b : Z) : list Z := map (fun i => (a + Z.of_nat i)%Z) (seq 0 (Z.to_nat (b - a))).
Fixpoint enum_from (i : Z) (l : list fv) : list fv :=
  match l with [] => [] | v :: t => VTup [VInt i; v] :: enum_from (i + 1)%Z t end.
Fixpoint zip2 (a b : list fv) : list fv :=
  match a, b with x :: a', y :: b' => VTup [x; y] :: zip2 a' b' | _, _ => [] end.
Definition py_norm (n x : Z) : Z := if (x <? 0)%Z then Z.max (x + n) 0 else Z.min x n.
Definition py_slice {A} (a b : Z) (l : list A) : list A :=
  let n := Z.of_nat (length l) in
  let a' := py_norm n a in let b' := py_norm n b in
  firstn (Z.to_nat (b' - a')) (skipn (Z.to_nat a') l).
(* truncation towards zero: float -> int conversion of astype(int) *)
Definition qtrunc (q : Q) : Z := if qltb q 0 then (- Qfloor (- q))%Z else Qfloor q.
Fixpoint nondecreasing (l : list Q) : bool :=
  match l with a :: (b :: _) as t => qleb a b && nondecreasing t | _ => true end.
(* interp1d(kind='nearest'): x_bds = x / 2.0; x_bds = x_bds[1:] + x_bds[:-1] *)
Fixpoint midpoints (l : list Q) : list Q :=
  match l with a :: (b :: _) as t => (b / 2 + a / 2) :: midpoints t | _ => [] end.
(* one sample of interp1d(x, y, kind='nearest', bounds_error=False, fill_value=fill, assume_sorted=True) on a
   non-decreasing non-empty x: outside [x[0], x[-1]] the fill value, otherwise
   y[clip(searchsorted(x_bds, t, side='left'), 0, len(x) - 1)] *)
Definition nearest_sample (x y : list Q) (fill : Q) (t : Q) : Q :=
  match x with
  | [] => fill
  | x0 :: _ => if qltb t x0 || qltb (last x x0) t then fill
               else nth (Nat.min (searchsorted_left (midpoints x) t) (length x - 1)) y fill
  end.

Fixpoint diffs (l : list Q) : list Q :=
  match l with x :: t => match t with y :: _ => (y - x) :: diffs t | [] => [] end | [] => [] end.
Definition qlen {A} (l : list A) : Q := inject_Z (Z.of_nat (length l)).
(* np.round(x, 10): round half to even at the 10th decimal *)
Definition round_half_even (y : Q) : Z :=
  let f := Qfloor y in let r := y - inject_Z f in
  if qltb r (1#2) then f else if qltb (1#2) r then (f + 1)%Z else if Z.even f then f else (f + 1)%Z.
Definition round10 (x : Q) : Q := inject_Z (round_half_even (x * 10000000000)) / 10000000000.
(* scipy.interpolate.interp1d(x, y, kind)(x_new), kind in {'linear', 'zero'}, default bounds_error / fill_value /
   assume_sorted: the points are sorted by abscissa (stable); x_new outside [min x, max x] raises ValueError;
   'zero' refuses duplicate abscissae (ValueError); 'linear' on duplicate abscissae divides by zero (the affected
   entries are inf / nan: [VOpaque], see interp1d_prim) *)
Fixpoint ins_pt (p : Q * Q) (l : list (Q * Q)) : list (Q * Q) :=
  match l with [] => [p] | q :: t => if qltb (fst p) (fst q) then p :: l else q :: ins_pt p t end.
Definition sort_pts (l : list (Q * Q)) : list (Q * Q) := fold_left (fun acc p => ins_pt p acc) l [].
Fixpoint has_dup (l : list (Q * Q)) : bool :=
  match l with p :: t => match t with q :: _ => qeqb (fst p) (fst q) || has_dup t | [] => false end | [] => false end.
Fixpoint interp_lin (pts : list (Q * Q)) (x : Q) : Q :=
  match pts with
  | [] => 0
  | (x0, y0) :: t => match t with
                     | [] => y0
                     | (x1, y1) :: _ => if qltb x x1 then y0 + (y1 - y0) / (x1 - x0) * (x - x0) else interp_lin t x
                     end
  end.
Fixpoint interp_zero (pts : list (Q * Q)) (x : Q) : Q :=
  match pts with
  | [] => 0
  | (x0, y0) :: t => match t with [] => y0 | (x1, _) :: _ => if qltb x x1 then y0 else interp_zero t x end
  end.

(* np.flatnonzero on a float array: the positions of the entries that are not 0, from position i on *)
Fixpoint nz_from (i : Z) (l : list Q) : list Z :=
  match l with [] => [] | x :: t => if qeqb x 0 then nz_from (i + 1)%Z t else i :: nz_from (i + 1)%Z t end.
Fixpoint all_some (l : list (option Q)) : option (list Q) :=
  match l with [] => Some [] | Some x :: t => option_map (cons x) (all_some t) | None :: _ => None end.
(* np.linspace(a, b, num) (endpoint included): num samples a + i * ((b - a) / (num - 1)); one sample: [a] *)
Definition linspace (a b : Q) (num : nat) : list Q :=
  match num with
  | O => []
  | S O => [a]
  | _ => map (fun i => a + inject_Z (Z.of_nat i) * ((b - a) / inject_Z (Z.of_nat (num - 1)))) (seq 0 num)
  end.

(* a[idx] for an integer index array (a copy), and a[idx] = vals (idx and vals of equal length), entry by entry *)
Fixpoint gather (l : list Q) (idx : list Z) : out (list Q) :=
  match idx with
  | [] => OK []
  | z :: t => match norm_idx z (length l) with
              | Some k => match nth_error l k with Some x => r <~ gather l t ;; OK (x :: r) | None => UNM end
              | None => EXN IndexError
              end
  end.
Fixpoint scatter (l : list Q) (idx : list Z) (vals : list Q) : out (list Q) :=
  match idx, vals with
  | [], [] => OK l
  | z :: t, v :: u => match norm_idx z (length l) with Some k => scatter (set_nth l k v) t u | None => EXN IndexError end
  | _, _ => EXN ValueError                         (* shape mismatch *)
  end.

(* ------------------------------------------------------------------ operators *)
Inductive binop := Add | Sub | Mul | Div.
Inductive cmpop := Eq | Ne | Lt | Le | Gt | Ge.
Definition qcmp (op : cmpop) (x y : Q) : bool :=
  match op with Eq => qeqb x y | Ne => negb (qeqb x y) | Lt => qltb x y | Le => qleb x y | Gt => qltb y x | Ge => qleb y x end.
Definition zcmp (op : cmpop) (x y : Z) : bool :=
  match op with Eq => Z.eqb x y | Ne => negb (Z.eqb x y) | Lt => Z.ltb x y | Le => Z.leb x y | Gt => Z.ltb y x | Ge => Z.leb y x end.
(* a comparison with nan is False, except != *)
Definition mcmp (op : cmpop) (x : option Q) (y : Q) : bool :=
  match x with Some a => qcmp op a y | None => match op with Ne => true | _ => false end end.
Definition b2q (b : bool) : Q := if b then 1 else 0.

Definition truth (v : fv) : out bool :=
  match v with
  | VNone => OK false | VBool b => OK b | VInt z => OK (negb (Z.eqb z 0)) | VFlt q => OK (negb (qeqb q 0))
  | VList l | VTup l => OK (negb (Nat.eqb (length l) 0))
  | VDict d => OK (negb (Nat.eqb (length d) 0))
  | VStr s => OK (negb (String.eqb s ""))
  | VArrB [b] => OK b
  | VArrB _ => EXN ValueError                     (* truth value of an empty / longer array is ambiguous *)
  | _ => UNM
  end.
(* a finite scalar, as an arithmetic operation sees it *)
Definition as_q (v : fv) : option Q :=
  match v with VInt z => Some (inject_Z z) | VFlt q => Some q | _ => None end.
Definition q_op (op : binop) (x y : Q) : option Q :=
  match op with
  | Add => Some (x + y) | Sub => Some (x - y) | Mul => Some (x * y)
  | Div => if qeqb y 0 then None else Some (x / y)
  end.
Definition z_op (op : binop) (x y : Z) : out fv :=
  match op with
  | Add => OK (VInt (x + y)) | Sub => OK (VInt (x - y)) | Mul => OK (VInt (x * y))
  | Div => if (y =? 0)%Z then UNM else OK (VFlt (inject_Z x / inject_Z y))
  end.
(* array (op) scalar and scalar (op) array, elementwise; a division by the scalar 0 is not modelled *)
Definition arr_r (op : binop) (l : list Q) (s : Q) : out fv :=
  match op with
  | Add => OK (VArrQ (map (fun x => x + s) l)) | Sub => OK (VArrQ (map (fun x => x - s) l))
  | Mul => OK (VArrQ (map (fun x => x * s) l))
  | Div => if qeqb s 0 then UNM else OK (VArrQ (map (fun x => x / s) l))
  end.
Definition arr_l (op : binop) (s : Q) (l : list Q) : out fv :=
  match op with
  | Add => OK (VArrQ (map (fun y => s + y) l)) | Sub => OK (VArrQ (map (fun y => s - y) l))
  | Mul => OK (VArrQ (map (fun y => s * y) l))
  | Div => UNM
  end.
Definition arrm_r (op : binop) (l : list (option Q)) (s : Q) : out fv :=
  match op with
  | Add => OK (VArrM (map (option_map (fun x => x + s)) l)) | Sub => OK (VArrM (map (option_map (fun x => x - s)) l))
  | Mul => OK (VArrM (map (option_map (fun x => x * s)) l))
  | Div => if qeqb s 0 then UNM else OK (VArrM (map (option_map (fun x => x / s)) l))
  end.
Definition arrm_l (op : binop) (s : Q) (l : list (option Q)) : out fv :=
  match op with
  | Add => OK (VArrM (map (option_map (fun y => s + y)) l)) | Sub => OK (VArrM (map (option_map (fun y => s - y)) l))
  | Mul => OK (VArrM (map (option_map (fun y => s * y)) l))
  | Div => UNM
  end.
Definition scal_op (op : binop) (a b : fv) : out fv :=
  match a with
  | VInt x => match b with
              | VInt y => z_op op x y
              | VFlt y => of_opt (option_map VFlt (q_op op (inject_Z x) y))
              | _ => UNM end
  | VFlt x => match as_q b with Some y => of_opt (option_map VFlt (q_op op x y)) | None => UNM end
  | _ => UNM
  end.
Definition bin_op (op : binop) (a b : fv) : out fv :=
  match a with
  | VArrQ l => match b with
               | VArrB m => match op with                      (* float array * bool array *)
                            | Mul => if Nat.eqb (length l) (length m) then OK (VArrQ (vmap2 (fun x c => x * b2q c) l m)) else UNM
                            | _ => UNM end
               | _ => match as_q b with Some s => arr_r op l s | None => UNM end
               end
  | VArrM l => match as_q b with Some s => arrm_r op l s | None => UNM end
  | VList l => match b with
               | VList m => match op with Add => OK (VList (l ++ m)) | _ => UNM end
               | VInt n => match op with Mul => OK (VList (concat (repeat l (Z.to_nat n)))) | _ => UNM end
               | _ => UNM end
  | _ => match b with
         | VArrQ l => match as_q a with Some s => arr_l op s l | None => UNM end
         | VArrM l => match as_q a with Some s => arrm_l op s l | None => UNM end
         | _ => scal_op op a b
         end
  end.
Definition neg_op (a : fv) : out fv :=
  match a with VInt z => OK (VInt (- z)) | VFlt x => OK (VFlt (- x)) | _ => UNM end.

Fixpoint all_ints (l : list fv) : option (list Z) :=
  match l with [] => Some [] | VInt z :: t => option_map (cons z) (all_ints t) | _ => None end.
Fixpoint all_flts (l : list fv) : option (list Q) :=
  match l with [] => Some [] | VFlt q :: t => option_map (cons q) (all_flts t) | _ => None end.

Definition cmp_op (op : cmpop) (a b : fv) : out fv :=
  match a with
  | VInt x => match b with
              | VInt y => OK (VBool (zcmp op x y))
              | VFlt y => OK (VBool (qcmp op (inject_Z x) y))
              | _ => UNM end
  | VFlt x => match as_q b with Some y => OK (VBool (qcmp op x y)) | None => UNM end
  | VArrQ l => match as_q b with Some s => OK (VArrB (map (fun x => qcmp op x s) l)) | None => UNM end
  | VArrM l => match as_q b with Some s => OK (VArrB (map (fun x => mcmp op x s) l)) | None => UNM end
  | VArrZ l => match b with VInt y => OK (VArrB (map (fun x => zcmp op x y) l)) | _ => UNM end
  | VTup l => match b with
              | VTup m => match all_ints l, all_ints m with
                          | Some x, Some y =>
                              let e := if Nat.eqb (length x) (length y) then forallb (fun p => Z.eqb (fst p) (snd p)) (combine x y) else false in
                              match op with Eq => OK (VBool e) | Ne => OK (VBool (negb e)) | _ => UNM end
                          | _, _ => UNM end
              | _ => UNM end
  | VStr s => match b with
              | VStr t => match op with Eq => OK (VBool (String.eqb s t)) | Ne => OK (VBool (negb (String.eqb s t))) | _ => UNM end
              | _ => UNM end
  | _ => UNM
  end.
Definition is_none (v : fv) : bool := match v with VNone => true | _ => false end.

Definition get_item (a i : fv) : out fv :=
  match i with
  | VArrZ idx => match a with VArrQ l => r <~ gather l idx ;; OK (VArrQ r) | _ => UNM end
  | VInt z =>
      match a with
      | VArrQ l => match norm_idx z (length l) with Some n => of_opt (option_map VFlt (nth_error l n)) | None => EXN IndexError end
      | VArrZ l => match norm_idx z (length l) with Some n => of_opt (option_map VInt (nth_error l n)) | None => EXN IndexError end
      | VArrB l => match norm_idx z (length l) with Some n => of_opt (option_map VBool (nth_error l n)) | None => EXN IndexError end
      | VList l | VTup l => match norm_idx z (length l) with Some n => of_opt (nth_error l n) | None => EXN IndexError end
      | _ => UNM
      end
  | _ => UNM
  end.
Definition opt_int (v : option fv) : out (option Z) :=
  match v with None | Some VNone => OK None | Some (VInt z) => OK (Some z) | _ => UNM end.
(* a[lo:hi] (step 1) *)
Definition slice_val (a : fv) (lo hi : option fv) : out fv :=
  lo' <~ opt_int lo ;; hi' <~ opt_int hi ;;
  let sl {A} (l : list A) := py_slice (match lo' with Some x => x | None => 0%Z end)
                                      (match hi' with Some x => x | None => Z.of_nat (length l) end) l in
  match a with
  | VArrQ l => OK (VArrQ (sl l)) | VArrZ l => OK (VArrZ (sl l)) | VArrB l => OK (VArrB (sl l))
  | _ => UNM
  end.
(* a[i] = v on an array that only this name reaches: an int index, or a boolean mask with a scalar value *)
Definition set_item (a i v : fv) : out fv :=
  match a with
  | VArrQ l =>
      match i with
      | VInt z => match as_q v with
                  | Some q => match norm_idx z (length l) with Some n => OK (VArrQ (set_nth l n q)) | None => EXN IndexError end
                  | None => UNM end
      | VArrZ idx => match v with
                     | VArrQ vals => r <~ scatter l idx vals ;; OK (VArrQ r)
                     | VArrM vals => match all_some vals with          (* storing a nan is not modelled *)
                                     | Some qs => r <~ scatter l idx qs ;; OK (VArrQ r)
                                     | None => UNM end
                     | _ => UNM end
      | VArrB m => match as_q v with
                   | Some q => if Nat.eqb (length m) (length l) then OK (VArrQ (vmap2 (fun x (c : bool) => if c then q else x) l m))
                               else match m with [] => OK (VArrQ l) | _ => EXN IndexError end   (* an empty mask selects nothing *)
                   | None => UNM end
      | _ => UNM
      end
  | _ => UNM
  end.
Definition iter_elems (v : fv) : out (list fv) :=
  match v with
  | VList l | VTup l => OK l
  | VArrQ l => OK (map VFlt l)
  | VArrZ l => OK (map VInt l)
  | _ => UNM
  end.
Definition arr_len (v : fv) : option nat :=
  match v with
  | VArrQ l => Some (length l) | VArrM l => Some (length l) | VArrZ l => Some (length l) | VArrB l => Some (length l)
  | _ => None end.
Local Open Scope string_scope.
Definition attr (a : fv) (f : string) : out fv :=
  match arr_len a with
  | Some n => if f =? "size" then OK (VInt (Z.of_nat n))
              else if f =? "shape" then OK (VTup [VInt (Z.of_nat n)]) else UNM
  | None => UNM
  end.
Definition meth (a : fv) (m : string) (args : list fv) : out fv :=
  match args with
  | [] =>
      if m =? "astype_int" then
        match a with VArrQ l => OK (VArrZ (map qtrunc l)) | VArrZ l => OK (VArrZ l) | _ => UNM end
      else if m =? "astype_float" then
        match a with
        | VArrQ l => OK (VArrQ l) | VArrZ l => OK (VArrQ (map inject_Z l)) | VArrB l => OK (VArrQ (map b2q l))
        | _ => UNM end
      else if m =? "mean" then
        match a with VArrQ [] => OK VNan | VArrQ l => OK (VFlt (qsum l / qlen l)) | _ => UNM end
      else if m =? "max" then
        match a with VArrQ l => match qmax_list l with Some x => OK (VFlt x) | None => EXN ValueError end | _ => UNM end
      else UNM
  | _ => UNM
  end.

(* the exact doubles 1e-05 and 1e-08 (NumPy's defaults of rtol, atol) *)
Definition RTOL_DEFAULT : Q := 5902958103587057 # 590295810358705651712.
Definition ATOL_DEFAULT : Q := 3022314549036573 # 302231454903657293676544.
(* np.allclose(a, b, rtol, atol) on finite arrays of equal length: |a - b| <= atol + rtol * |b| elementwise *)
Definition allclose_gen (rtol atol : Q) (a b : list Q) : bool :=
  forallb (fun xy => qleb (Qabs (fst xy - snd xy)) (atol + rtol * Qabs (snd xy))) (combine a b).

Definition sigv := list (string * option fv).
(* names and defaults of the NumPy / builtin functions that are interpreted *)
Definition np_sigs : list (string * sigv) :=
  [ ("len", [("obj", None)]); ("enumerate", [("iterable", None)]); ("zip", [("a", None); ("b", None)]);
    ("np.array", [("object", None)]);
    ("np.array_float", [("object", None)]);             (* np.array(object, dtype=float) *)
    ("np.zeros", [("shape", None)]);
    ("np.arange", [("start", None); ("stop", None)]);
    ("np.mod", [("x1", None); ("x2", None)]);
    ("np.log2", [("x", None)]);
    ("np.abs", [("x", None)]);
    ("np.allclose", [("a", None); ("b", None); ("rtol", Some (VFlt RTOL_DEFAULT)); ("atol", Some (VFlt ATOL_DEFAULT));
                     ("equal_nan", Some (VBool false))]);
    ("np.insert", [("arr", None); ("obj", None); ("values", None)]);
    ("np.append", [("arr", None); ("values", None)]);
    ("np.diff", [("a", None)]); ("np.round", [("a", None); ("decimals", Some (VInt 0))]);
    ("np.flatnonzero", [("a", None)]); ("np.floor", [("x", None)]); ("int", [("x", None)]);
    ("np.linspace", [("start", None); ("stop", None); ("num", Some (VInt 50))]);
    ("np.all", [("a", None)]); ("np.logical_or", [("x1", None); ("x2", None)]); ("np.equal", [("x1", None); ("x2", None)]) ].

Section Prims.
Variable flog2 : Q -> Q.                                 (* np.log2 on positive floats *)
Definition lg (x : Q) : option Q := if qltb x 0 then None else Some (flog2 x).
(* a float array as np.append / np.insert see their operands *)
Definition flat_q (v : fv) : option (list Q) :=
  match v with
  | VInt z => Some [inject_Z z] | VFlt q => Some [q] | VArrQ l => Some l
  | _ => None end.
Definition npf (f : string) (args : list fv) : out fv :=
  if f =? "len" then
    match args with
    | [VList l] | [VTup l] => OK (VInt (Z.of_nat (length l)))
    | [VMatching m] => OK (VInt (Z.of_nat (length m)))
    | [VDict d] => OK (VInt (Z.of_nat (length d)))
    | [a] => match arr_len a with Some n => OK (VInt (Z.of_nat n)) | None => UNM end
    | _ => UNM end
  else if f =? "enumerate" then
    match args with [a] => l <~ iter_elems a ;; OK (VList (enum_from 0 l)) | _ => UNM end
  else if f =? "zip" then
    match args with [a; b] => l <~ iter_elems a ;; m <~ iter_elems b ;; OK (VList (zip2 l m)) | _ => UNM end
  else if f =? "np.array" then
    match args with
    | [VList []] => OK (VArrQ [])                      (* an empty list gives an empty float64 array *)
    | [VList l] => match all_ints l with
                   | Some zs => OK (VArrZ zs)
                   | None => match all_flts l with Some qs => OK (VArrQ qs) | None => UNM end
                   end
    | [VArrQ l] => OK (VArrQ l)                         (* np.array(<array>): a copy *)
    | _ => UNM end
  else if f =? "np.diff" then
    match args with [VArrQ l] => OK (VArrQ (diffs l)) | _ => UNM end
  else if f =? "np.round" then
    match args with
    | [VArrQ l; VInt 10%Z] => OK (VArrQ (map round10 l))
    | [VFlt q; VInt 10%Z] => OK (VFlt (round10 q))
    | _ => UNM end
  else if f =? "np.flatnonzero" then
    match args with [VArrQ l] => OK (VArrZ (nz_from 0 l)) | _ => UNM end
  else if f =? "np.floor" then
    match args with [VFlt q] => OK (VFlt (inject_Z (Qfloor q))) | _ => UNM end
  else if f =? "int" then                                   (* int(<finite float>): truncation *)
    match args with [VFlt q] => OK (VInt (qtrunc q)) | [VInt z] => OK (VInt z) | _ => UNM end
  else if f =? "np.linspace" then
    match args with
    | [a; b; VInt num] =>
        match as_q a, as_q b with
        | Some x, Some y => if (num <? 0)%Z then EXN ValueError else OK (VArrQ (linspace x y (Z.to_nat num)))
        | _, _ => UNM end
    | _ => UNM end
  else if f =? "np.all" then
    match args with [VArrB l] => OK (VBool (forallb (fun b => b) l)) | _ => UNM end
  else if f =? "np.logical_or" then
    match args with
    | [VArrB a; VArrB b] => if Nat.eqb (length a) (length b) then OK (VArrB (vmap2 orb a b)) else UNM
    | _ => UNM end
  else if f =? "np.equal" then
    match args with
    | [VArrQ l; s] => match as_q s with Some q => OK (VArrB (map (fun x => qeqb x q) l)) | None => UNM end
    | _ => UNM end
  else if f =? "np.array_float" then
    match args with
    | [VArrQ l] => OK (VArrQ l)                         (* a copy *)
    | [VArrZ l] => OK (VArrQ (map inject_Z l))
    | [VArrB l] => OK (VArrQ (map b2q l))
    | _ => UNM end
  else if f =? "np.zeros" then
    match args with
    | [VInt n] | [VTup [VInt n]] => if (0 <=? n)%Z then OK (VArrQ (repeat 0 (Z.to_nat n))) else EXN ValueError
    | _ => UNM end
  else if f =? "np.arange" then
    match args with [VInt a; VInt b] => OK (VArrZ (zrange a b)) | _ => UNM end
  else if f =? "np.mod" then
    match args with
    | [a; m] => match as_q m with
                | Some mq => if qltb 0 mq then
                               match a with
                               | VArrQ l => OK (VArrQ (map (fun x => qmod x mq) l))
                               | VArrM l => OK (VArrM (map (option_map (fun x => qmod x mq)) l))
                               | _ => UNM end
                             else UNM
                | None => UNM end
    | _ => UNM end
  else if f =? "np.log2" then
    match args with
    | [VArrQ l] => if existsb (fun x => qeqb x 0) l then UNM else OK (VArrM (map lg l))
    | _ => UNM end
  else if f =? "np.abs" then
    match args with [VArrQ l] => OK (VArrQ (map Qabs l)) | _ => UNM end
  else if f =? "np.allclose" then
    match args with
    | [VArrQ a; VArrQ b; VFlt rtol; VFlt atol; VBool false] =>
        if Nat.eqb (length a) (length b) then OK (VBool (allclose_gen rtol atol a b)) else UNM
    | [VArrQ a; VFlt m; VFlt rtol; VFlt atol; VBool false] =>          (* an array against a scalar *)
        OK (VBool (allclose_gen rtol atol a (repeat m (length a))))
    | [VArrQ a; VNan; VFlt _; VFlt _; VBool false] =>                  (* nan is close to nothing *)
        OK (VBool match a with [] => true | _ => false end)
    | _ => UNM end
  else if f =? "np.insert" then                          (* np.insert(arr, 0, value): a new array *)
    match args with
    | [VArrQ l; VInt 0%Z; v] => match as_q v with Some q => OK (VArrQ (q :: l)) | None => UNM end
    | _ => UNM end
  else if f =? "np.append" then
    match args with
    | [VArrQ l; v] => match flat_q v with Some m => OK (VArrQ (l ++ m)) | None => UNM end
    | _ => UNM end
  else UNM.

(* scipy.interpolate.interp1d(x, y, kind='linear', axis=-1, copy=True, bounds_error=None, fill_value=nan,
   assume_sorted=False)(x_new): the bound arguments, then x_new *)
Definition interp1d_sig : sigv :=
  [("x", None); ("y", None); ("kind", Some (VStr "linear")); ("axis", Some (VInt (-1))); ("copy", Some (VBool true));
   ("bounds_error", Some VNone); ("fill_value", Some (VStr "nan")); ("assume_sorted", Some (VBool false))].
Definition interp1d_prim (args : list fv) (xnew : fv) : out fv :=
  match args with
  | [VArrQ x; y; VStr kind; VInt (-1)%Z; VBool true; VBool false; fill; VBool true] =>
      if kind =? "nearest" then
        match (match y with VArrQ l => Some l | VArrZ l => Some (map inject_Z l) | _ => None end), as_q fill, xnew with
        | Some yq, Some fq, VArrQ t =>
            if negb (Nat.eqb (length x) (length yq)) then EXN ValueError         (* x and y differ in length *)
            else match x with
                 | [] => EXN ValueError                                           (* no sample point *)
                 | _ => if nondecreasing x then OK (VArrQ (map (nearest_sample x yq fq) t)) else UNM
                 end
        | _, _, _ => UNM
        end
      else UNM
  | [VArrQ x; VArrQ y; VStr kind; VInt (-1)%Z; VBool true; VNone; VStr fill; VBool false] =>
      if (fill =? "nan") && ((kind =? "linear") || (kind =? "zero")) then
        match xnew with
        | VArrQ t =>
            if negb (Nat.eqb (length x) (length y)) then EXN ValueError
            else match qmin_list x, qmax_list x with
                 | Some lo, Some hi =>
                     let pts := sort_pts (combine x y) in
                     if kind =? "zero" then
                       if has_dup pts then EXN ValueError
                       else if existsb (fun v => qltb v lo || qltb hi v) t then EXN ValueError
                       else OK (VArrQ (map (interp_zero pts) t))
                     else
                       if existsb (fun v => qltb v lo || qltb hi v) t then EXN ValueError
                       else if has_dup pts then OK VOpaque
                       else OK (VArrQ (map (interp_lin pts) t))
                 | _, _ => EXN ValueError                                          (* no sample point *)
                 end
        | _ => UNM
        end
      else UNM
  | _ => UNM
  end.
End Prims.
Local Close Scope string_scope.

(* ------------------------------------------------------------------ syntax *)
Inductive pat := PVar (x : string) | PTup (l : list pat).
Inductive exp :=
| ELoc (x : string)
| ENone | EBool (b : bool) | EInt (z : Z) | EFloat (q : Q) | EStr (s : string)
| EFun (f : string)
| ETuple (l : list exp) | EList (l : list exp)
| ECmp (op : cmpop) (a b : exp)
| EIsNone (a : exp) | EIsNotNone (a : exp)
| ENot (a : exp) | EAnd (a b : exp) | EOr (a b : exp)
| EBin (op : binop) (a b : exp) | ENeg (a : exp)
| EIndex (a i : exp)
| ESlice (a : exp) (lo hi : option exp)
| EAttr (a : exp) (f : string)
| EMeth (a : exp) (m : string) (args : list exp)
| ENp (f : string) (pos : list exp) (kws : list (string * exp))
| EComp (e : exp) (p : pat) (it : exp)                                    (* [e for p in it] *)
| EInterp1d (pos : list exp) (kws : list (string * exp)) (xnew : exp)     (* scipy.interpolate.interp1d(...)(xnew) *)
| ECall (f : string) (pos : list exp) (kws : list (string * exp)) (star : option exp)
| EFilterKw (f : string) (pos : list exp) (kws : list (string * exp)) (star : option exp).

Inductive stmt :=
| SAssign (p : pat) (e : exp)
| SSetItem (x : string) (i e : exp)                 (* x[i] = e,   x a local that holds an unshared array *)
| SAugMul (x : string) (e : exp)                    (* x *= e on an unshared float array *)
| SExpr (e : exp)
| SWarn
| SIf (c : exp) (a b : list stmt)
| SFor (p : pat) (it : exp) (body : list stmt)
| SReturn (e : exp)
| SPass.

Record fdef := { f_params : list (string * option exp); f_kwarg : option string; f_locals : list string;
                 f_body : list stmt }.

(* ------------------------------------------------------------------ binding *)
Definition env := list (string * fv).
Fixpoint lookup (x : string) (en : env) : option fv :=
  match en with [] => None | (y, v) :: t => if String.eqb x y then Some v else lookup x t end.
Fixpoint update (x : string) (v : fv) (en : env) : option env :=
  match en with
  | [] => None
  | (y, w) :: t => if String.eqb x y then Some ((y, v) :: t) else option_map (cons (y, w)) (update x v t)
  end.
Fixpoint mem_name (p : string) (l : list string) : bool :=
  match l with [] => false | k :: t => String.eqb p k || mem_name p t end.
Fixpoint nodup_names (l : list string) : bool :=
  match l with [] => true | k :: t => negb (mem_name k t) && nodup_names t end.
Fixpoint bind_params (ps : sigv) (pos : list fv) (kws : list (string * fv)) : option (list fv) :=
  match ps with
  | [] => match pos with [] => Some [] | _ => None end
  | (p, d) :: ps' =>
      match pos with
      | a :: pos' => match lookup p kws with
                     | Some _ => None
                     | None => option_map (cons a) (bind_params ps' pos' kws) end
      | [] => match lookup p kws, d with
              | Some a, _ => option_map (cons a) (bind_params ps' [] kws)
              | None, Some dv => option_map (cons dv) (bind_params ps' [] kws)
              | None, None => None
              end
      end
  end.
Definition bind_args (ps : sigv) (pos : list fv) (kws : list (string * fv)) : option (list fv) :=
  if forallb (fun kw => mem_name (fst kw) (map fst ps)) kws && nodup_names (map fst kws)
  then bind_params ps pos kws else None.
(* the destructuring of one value by an assignment / loop / comprehension target *)
Fixpoint bind_pat (p : pat) (v : fv) {struct p} : option (list (string * fv)) :=
  match p with
  | PVar x => Some [(x, v)]
  | PTup ps =>
      match v with
      | VTup vs | VList vs =>
          (fix go (ps : list pat) (vs : list fv) : option (list (string * fv)) :=
             match ps, vs with
             | [], [] => Some []
             | p :: ps', v :: vs' => match bind_pat p v, go ps' vs' with Some a, Some b => Some (a ++ b) | _, _ => None end
             | _, _ => None
             end) ps vs
      | _ => None
      end
  end.
Fixpoint update_all (bs : list (string * fv)) (en : env) : option env :=
  match bs with [] => Some en | (x, v) :: t => match update x v en with Some en' => update_all t en' | None => None end end.
Definition const_val (e : exp) : option fv :=
  match e with
  | ENone => Some VNone | EBool b => Some (VBool b) | EInt z => Some (VInt z)
  | EFloat q => Some (VFlt q) | EStr s => Some (VStr s)
  | _ => None
  end.
Fixpoint sig_of (ps : list (string * option exp)) : option sigv :=
  match ps with
  | [] => Some []
  | (p, None) :: t => option_map (cons (p, None)) (sig_of t)
  | (p, Some d) :: t => match const_val d, sig_of t with
                        | Some v, Some r => Some ((p, Some v) :: r)
                        | _, _ => None end
  end.
Fixpoint sigs_of (l : list (string * list (string * option exp))) : list (string * option sigv) :=
  match l with [] => [] | (n, ps) :: t => (n, sig_of ps) :: sigs_of t end.
Definition fun_params (funs : list (string * fdef)) : list (string * list (string * option exp)) :=
  map (fun nf => (fst nf, f_params (snd nf))) funs.
(* explicit keywords followed by the entries of **star; a repeated keyword is a TypeError in Python: not modelled *)
Definition merge_kws (kws : list (string * fv)) (star : option fv) : option (list (string * fv)) :=
  match star with
  | None => Some kws
  | Some (VDict d) => Some (kws ++ d)
  | Some _ => None
  end.

(* ------------------------------------------------------------------ evaluation *)
Section Eval.
Variable sigs : list (string * option sigv).
Variable ext : string -> list fv -> out fv.
Variable flog2 : Q -> Q.

Fixpoint assoc_sig (f : string) (l : list (string * option sigv)) : option sigv :=
  match l with [] => None | (g, s) :: t => if String.eqb f g then s else assoc_sig f t end.
Definition lookup_sig (f : string) : option sigv := assoc_sig f sigs.
Fixpoint assoc_np (f : string) (l : list (string * sigv)) : option sigv :=
  match l with [] => None | (g, s) :: t => if String.eqb f g then Some s else assoc_np f t end.

Definition call_np (f : string) (ps : list fv) (ks : list (string * fv)) : out fv :=
  match assoc_np f np_sigs with
  | Some sg => match bind_args sg ps ks with Some vs => npf flog2 f vs | None => UNM end
  | None => UNM
  end.
Definition call_ext (f : string) (ps : list fv) (ks : list (string * fv)) : out fv :=
  match lookup_sig f with
  | Some sg => match bind_args sg ps ks with Some vs => ext f vs | None => UNM end
  | None => UNM
  end.
(* util.filter_kwargs(f, *ps, **ks): the keywords that are parameter names of f are kept *)
Definition call_filtered (f : string) (ps : list fv) (ks : list (string * fv)) : out fv :=
  match lookup_sig f with
  | Some sg =>
      if nodup_names (map fst ks) then
        match bind_args sg ps (filter (fun kv => mem_name (fst kv) (map fst sg)) ks) with
        | Some vs => ext f vs | None => UNM end
      else UNM
  | None => UNM
  end.

Fixpoint eval (en : env) (e : exp) {struct e} : out fv :=
  match e with
  | ELoc x => match lookup x en with Some VUnbound => EXN OtherExn | Some v => OK v | None => UNM end
  | ENone => OK VNone | EBool b => OK (VBool b) | EInt z => OK (VInt z)
  | EFloat q => OK (VFlt q) | EStr s => OK (VStr s)
  | EFun f => OK (VFun f)
  | ETuple l => vs <~ mapM (eval en) l ;; OK (VTup vs)
  | EList l => vs <~ mapM (eval en) l ;; OK (VList vs)
  | ECmp op a b => x <~ eval en a ;; y <~ eval en b ;; cmp_op op x y
  | EIsNone a => x <~ eval en a ;; OK (VBool (is_none x))
  | EIsNotNone a => x <~ eval en a ;; OK (VBool (negb (is_none x)))
  | ENot a => x <~ eval en a ;; t <~ truth x ;; OK (VBool (negb t))
  | EAnd a b => x <~ eval en a ;; t <~ truth x ;; if t then eval en b else OK x
  | EOr a b => x <~ eval en a ;; t <~ truth x ;; if t then OK x else eval en b
  | EBin op a b => x <~ eval en a ;; y <~ eval en b ;; bin_op op x y
  | ENeg a => x <~ eval en a ;; neg_op x
  | EIndex a i => x <~ eval en a ;; y <~ eval en i ;; get_item x y
  | ESlice a lo hi =>
      x <~ eval en a ;;
      l <~ match lo with Some e' => v <~ eval en e' ;; OK (Some v) | None => OK None end ;;
      h <~ match hi with Some e' => v <~ eval en e' ;; OK (Some v) | None => OK None end ;;
      slice_val x l h
  | EAttr a f => x <~ eval en a ;; attr x f
  | EMeth a m args => x <~ eval en a ;; vs <~ mapM (eval en) args ;; meth x m vs
  | ENp f pos kws =>
      ps <~ mapM (eval en) pos ;;
      ks <~ mapM (fun ka => v <~ eval en (snd ka) ;; OK (fst ka, v)) kws ;;
      call_np f ps ks
  | EComp e' p it =>
      v <~ eval en it ;; els <~ iter_elems v ;;
      rs <~ mapM (fun el => match bind_pat p el with Some bs => eval (bs ++ en) e' | None => UNM end) els ;;
      OK (VList rs)
  | EInterp1d pos kws xnew =>
      ps <~ mapM (eval en) pos ;;
      ks <~ mapM (fun ka => v <~ eval en (snd ka) ;; OK (fst ka, v)) kws ;;
      xn <~ eval en xnew ;;
      match bind_args interp1d_sig ps ks with Some vs => interp1d_prim vs xn | None => UNM end
  | ECall f pos kws star =>
      ps <~ mapM (eval en) pos ;;
      ks <~ mapM (fun ka => v <~ eval en (snd ka) ;; OK (fst ka, v)) kws ;;
      st <~ match star with Some s => v <~ eval en s ;; OK (Some v) | None => OK None end ;;
      match merge_kws ks st with Some ks' => call_ext f ps ks' | None => UNM end
  | EFilterKw f pos kws star =>
      ps <~ mapM (eval en) pos ;;
      ks <~ mapM (fun ka => v <~ eval en (snd ka) ;; OK (fst ka, v)) kws ;;
      st <~ match star with Some s => v <~ eval en s ;; OK (Some v) | None => OK None end ;;
      match merge_kws ks st with Some ks' => call_filtered f ps ks' | None => UNM end
  end.

Inductive sres := SNorm (en : env) | SRet (v : fv) | SExn (e : exn) | SUnm.
Definition lift_e {A} (r : out A) (k : A -> sres) : sres :=
  match r with OK a => k a | EXN e => SExn e | UNM => SUnm end.
Definition set1 (x : string) (v : fv) (en : env) : sres :=
  match update x v en with Some en' => SNorm en' | None => SUnm end.
Definition set_pat (p : pat) (v : fv) (en : env) : sres :=
  match bind_pat p v with
  | Some bs => match update_all bs en with Some en' => SNorm en' | None => SUnm end
  | None => SUnm
  end.
Fixpoint for_loop (step : fv -> env -> sres) (els : list fv) (en : env) : sres :=
  match els with
  | [] => SNorm en
  | v :: t => match step v en with SNorm en' => for_loop step t en' | r => r end
  end.
Definition run_block (f : stmt -> env -> sres) : list stmt -> env -> sres :=
  fix go (l : list stmt) (en : env) : sres :=
    match l with [] => SNorm en | s :: r => match f s en with SNorm en' => go r en' | o => o end end.
Definition for_step (blk : list stmt -> env -> sres) (p : pat) (body : list stmt) (el : fv) (en : env) : sres :=
  match set_pat p el en with SNorm en' => blk body en' | o => o end.

Fixpoint exec (s : stmt) (en : env) {struct s} : sres :=
  match s with
  | SAssign p e => lift_e (eval en e) (fun v => set_pat p v en)
  | SSetItem x i e =>
      lift_e (eval en e) (fun v => lift_e (eval en (ELoc x)) (fun a => lift_e (eval en i) (fun j =>
        lift_e (set_item a j v) (fun a' => set1 x a' en))))
  | SAugMul x e =>
      lift_e (eval en (ELoc x)) (fun a => lift_e (eval en e) (fun b =>
        match a with VArrQ _ => lift_e (bin_op Mul a b) (fun v => set1 x v en) | _ => SUnm end))
  | SExpr e => lift_e (eval en e) (fun _ => SNorm en)
  | SWarn => SNorm en
  | SIf c a b => lift_e (eval en c) (fun v => lift_e (truth v) (fun t => run_block exec (if t then a else b) en))
  | SFor p it body =>
      lift_e (eval en it) (fun v => lift_e (iter_elems v) (fun els => for_loop (for_step (run_block exec) p body) els en))
  | SReturn e => lift_e (eval en e) SRet
  | SPass => SNorm en
  end.
Definition exec_block : list stmt -> env -> sres := run_block exec.

Definition param_names (f : fdef) : list string :=
  map fst (f_params f) ++ match f_kwarg f with Some k => [k] | None => [] end.
Definition init_env (f : fdef) (args : list fv) : env :=
  combine (param_names f) args ++ map (fun x => (x, VUnbound)) (f_locals f).
(* [args]: one value per parameter, then the **kwargs dictionary if the function has one *)
Definition run_fun (f : fdef) (args : list fv) : out fv :=
  if Nat.eqb (length args) (length (param_names f)) then
    match exec_block (f_body f) (init_env f args) with
    | SNorm _ => OK VNone | SRet v => OK v | SExn e => EXN e | SUnm => UNM end
  else UNM.
End Eval.
