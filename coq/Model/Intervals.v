(* Interval pre-processing of mir_eval/util.py over exact rationals, statement by statement:
   adjust_intervals, adjust_events, merge_labeled_intervals, interpolate_intervals, intervals_to_samples,
   intervals_to_boundaries, boundaries_to_intervals, intervals_to_durations, validate_intervals,
   sort_labeled_intervals, index_labels.
   An (n,2) float array is a `list (Q*Q)`; a label list is a `list L`; `labels=None` is `None : option (list L)`.
   Every place where the Python raises is an explicit `Raise`. Definitions only. *)
From Coq Require Import List Bool Arith ZArith QArith Qminmax Qabs Qround.
From ME Require Import Model.Prelude.
Import ListNotations.
Open Scope Q_scope.

Definition iv := (Q * Q)%type.
(* np.ravel / flattening of an (n,2) array, row-major *)
Definition flat (l : list iv) : list Q := flat_map (fun i => [fst i; snd i]) l.

Fixpoint mapM {A B} (f : A -> res B) (l : list A) : res (list B) :=
  match l with
  | [] => Ok []
  | x :: t => match f x with Raise e => Raise e | Ok y => match mapM f t with Raise e => Raise e | Ok r => Ok (y :: r) end end
  end.

(* ------------------------------------------------------------------------------------------ *)
(* adjust_intervals   (`labels = list(labels)` at the top only un-aliases the caller's list:     *)
(* no effect on the returned values)                                                           *)
(* ------------------------------------------------------------------------------------------ *)
Section Adjust.
Context {L : Type}.
Variables start_label end_label : L.

(* the `if t_min is not None:` block *)
Definition step_min (tmin : Q) (ivs : list iv) (labs : option (list L)) : res (list iv * option (list L)) :=
  (* first_idx = np.argwhere(intervals[:, 1] > t_min); crop when non-empty *)
  let '(ivs, labs) := match find_idx (fun i => qltb tmin (snd i)) ivs with
                      | Some k => (skipn k ivs, option_map (skipn k) labs)
                      | None => (ivs, labs) end in
  (* intervals = np.maximum(t_min, intervals) *)
  let ivs := map (fun i => (Qmax tmin (fst i), Qmax tmin (snd i))) ivs in
  (* intervals.min(): ValueError on a zero-size array *)
  match qmin_list (flat ivs) with
  | None => Raise ValueError
  | Some mn => if qltb tmin mn then Ok ((tmin, mn) :: ivs, option_map (cons start_label) labs) else Ok (ivs, labs)
  end.

(* the `if t_max is not None:` block *)
Definition step_max (tmax : Q) (ivs : list iv) (labs : option (list L)) : res (list iv * option (list L)) :=
  (* last_idx = np.argwhere(intervals[:, 0] >= t_max); crop when non-empty *)
  let '(ivs, labs) := match find_idx (fun i => Qle_bool tmax (fst i)) ivs with
                      | Some k => (firstn k ivs, option_map (firstn k) labs)
                      | None => (ivs, labs) end in
  (* intervals = np.minimum(t_max, intervals) *)
  let ivs := map (fun i => (Qmin tmax (fst i), Qmin tmax (snd i))) ivs in
  (* intervals.max(): ValueError on a zero-size array *)
  match qmax_list (flat ivs) with
  | None => Raise ValueError
  | Some mx => if qltb mx tmax then Ok (ivs ++ [(mx, tmax)], option_map (fun l => l ++ [end_label]) labs) else Ok (ivs, labs)
  end.

Definition adjust_intervals (ivs : list iv) (labs : option (list L)) (tmin tmax : option Q)
  : res (list iv * option (list L)) :=
  match ivs, tmin, tmax with
  | [], Some a, Some b => Ok ([(a, b)], Some [start_label])
  | [], _, _ => Raise ValueError
  | _, _, _ =>
    r <- match tmin with Some a => step_min a ivs labs | None => Ok (ivs, labs) end ;;
    match tmax with Some b => step_max b (fst r) (snd r) | None => Ok r end
  end.

(* ------------------------------------------------------------------------------------------ *)
(* adjust_events (start_label / end_label stand for "%sT_MIN" % prefix and "%sT_MAX" % prefix)  *)
(* ------------------------------------------------------------------------------------------ *)
Definition ev_step_min (tmin : Q) (ev : list Q) (labs : option (list L)) : res (list Q * option (list L)) :=
  let '(ev, labs) := match find_idx (fun e => Qle_bool tmin e) ev with
                     | Some k => (skipn k ev, option_map (skipn k) labs)
                     | None => (ev, labs) end in
  match ev with
  | [] => Raise IndexError                                   (* events[0] on an empty array *)
  | e0 :: _ => if qltb tmin e0 then Ok (tmin :: ev, option_map (cons start_label) labs) else Ok (ev, labs)
  end.

Definition ev_step_max (tmax : Q) (ev : list Q) (labs : option (list L)) : res (list Q * option (list L)) :=
  let '(ev, labs) := match find_idx (fun e => qltb tmax e) ev with
                     | Some k => (firstn k ev, option_map (firstn k) labs)
                     | None => (ev, labs) end in
  match ev with
  | [] => Raise IndexError                                   (* events[-1] on an empty array *)
  | e0 :: _ => if qltb (last ev e0) tmax then Ok (ev ++ [tmax], option_map (fun l => l ++ [end_label]) labs) else Ok (ev, labs)
  end.

Definition adjust_events (ev : list Q) (labs : option (list L)) (tmin tmax : option Q)
  : res (list Q * option (list L)) :=
  r <- match tmin with Some a => ev_step_min a ev labs | None => Ok (ev, labs) end ;;
  match tmax with Some b => ev_step_max b (fst r) (snd r) | None => Ok r end.
End Adjust.

(* ------------------------------------------------------------------------------------------ *)
(* np.unique on floats: sorted, duplicates (numerically equal values) removed                   *)
(* ------------------------------------------------------------------------------------------ *)
Fixpoint ins_uniq (x : Q) (l : list Q) : list Q :=
  match l with
  | [] => [x]
  | y :: t => if qltb x y then x :: l else if Qeq_bool x y then l else y :: ins_uniq x t
  end.
Definition sort_uniq (l : list Q) : list Q := fold_right ins_uniq [] l.

(* zip(b[:-1], b[1:]) *)
Definition adjacent_pairs (b : list Q) : list iv := combine (removelast b) (tl b).

(* ------------------------------------------------------------------------------------------ *)
(* merge_labeled_intervals                                                                     *)
(* ------------------------------------------------------------------------------------------ *)
(* index of the LAST element satisfying p  (x_idx[-1] of a boolean-mask selection) *)
Fixpoint last_idx {A} (p : A -> bool) (l : list A) : option nat :=
  match l with
  | [] => None
  | x :: t => match last_idx p t with Some k => Some (S k) | None => if p x then Some 0%nat else None end
  end.

(* x_labels[ x_label_range[t0 >= x_intervals[:,0]] [-1] ] *)
Definition merge_pick {L} (ivs : list iv) (labs : list L) (t0 : Q) : res L :=
  if negb (Nat.eqb (length labs) (length ivs)) then Raise IndexError      (* boolean index did not match *)
  else match last_idx (fun v => Qle_bool (fst v) t0) ivs with
       | None => Raise IndexError                                         (* x_idx[-1] on an empty selection *)
       | Some k => match nth_error labs k with Some l => Ok l | None => Raise IndexError end
       end.

Definition merge_labeled_intervals {L} (xi : list iv) (xl : list L) (yi : list iv) (yl : list L)
  : res (list iv * list L * list L) :=
  match xi, yi with
  | [], _ => Raise IndexError                                             (* x_intervals[0, 0] *)
  | _, [] => Raise IndexError                                             (* y_intervals[0, 0] *)
  | x0 :: _, y0 :: _ =>
    if negb (Qeq_bool (fst x0) (fst y0)) || negb (Qeq_bool (snd (last xi x0)) (snd (last yi y0)))
    then Raise ValueError
    else
      let tb := sort_uniq (flat (xi ++ yi)) in
      let out := adjacent_pairs tb in
      labs <- mapM (fun o => a <- merge_pick xi xl (fst o) ;; b <- merge_pick yi yl (fst o) ;; Ok (a, b)) out ;;
      Ok (out, map fst labs, map snd labs)
  end.

(* ------------------------------------------------------------------------------------------ *)
(* interpolate_intervals / intervals_to_samples                                                *)
(* ------------------------------------------------------------------------------------------ *)
(* np.any(time_points[1:] < time_points[:-1]) *)
Fixpoint decreases (l : list Q) : bool :=
  match l with
  | a :: (b :: _) as t => qltb b a || decreases t
  | _ => false
  end.
(* np.searchsorted on a sorted array: length of the maximal prefix satisfying p
   (p = (< v) for side='left', p = (<= v) for side='right') *)
Fixpoint prefix_len (p : Q -> bool) (ts : list Q) : nat :=
  match ts with [] => 0%nat | t :: r => if p t then S (prefix_len p r) else 0%nat end.
Definition ss_left (ts : list Q) (v : Q) : nat := prefix_len (fun t => qltb t v) ts.
Definition ss_right (ts : list Q) (v : Q) : nat := prefix_len (fun t => Qle_bool t v) ts.
(* aligned[a:b] = [lab] * (b - a)   (Python slice assignment; for a > b nothing changes) *)
Definition set_slice {L} (a b : nat) (lab : L) (l : list L) : list L :=
  firstn a l ++ repeat lab (b - a) ++ skipn (Nat.max a b) l.

Definition interpolate_intervals {L} (ivs : list iv) (labs : list L) (ts : list Q) (fill : L) : res (list L) :=
  if decreases ts then Raise ValueError
  else Ok (fold_left (fun acc vl => set_slice (ss_left ts (fst (fst vl))) (ss_right ts (snd (fst vl))) (snd vl) acc)
                     (combine ivs labs) (repeat fill (length ts))).

(* int(np.floor(intervals.max() / sample_size)):  ValueError for an empty array (max) and for 0/0 (int(nan)),
   OverflowError (OtherExn) for x/0 (int(inf)) *)
Definition num_samples (ivs : list iv) (size : Q) : res Z :=
  match qmax_list (flat ivs) with
  | None => Raise ValueError
  | Some mx => if qeqb size 0 then (if qeqb mx 0 then Raise ValueError else Raise OtherExn)
               else Ok (Qfloor (mx / size))
  end.
(* np.arange(n) * sample_size + offset, computed exactly (the implementation computes it in float32: exact only
   on a dyadic lattice; otherwise the grid is taken from the implementation as an input, see below) *)
Definition sample_grid (n : Z) (offset size : Q) : list Q :=
  map (fun k => inject_Z (Z.of_nat k) * size + offset) (seq 0 (Z.to_nat n)).
(* the part after the grid has been built *)
Definition intervals_to_samples_on {L} (grid : list Q) (ivs : list iv) (labs : list L) (fill : L) : res (list Q * list L) :=
  l <- interpolate_intervals ivs labs grid fill ;; Ok (grid, l).
Definition intervals_to_samples {L} (ivs : list iv) (labs : list L) (offset size : Q) (fill : L) : res (list Q * list L) :=
  n <- num_samples ivs size ;;
  intervals_to_samples_on (sample_grid n offset size) ivs labs fill.

(* ------------------------------------------------------------------------------------------ *)
(* boundaries                                                                                  *)
(* ------------------------------------------------------------------------------------------ *)
(* np.round(x, q) = rint(x * 10^q) / 10^q with rint = round half to even *)
Definition rint (y : Q) : Z :=
  let f := Qfloor y in
  let d := y - inject_Z f in
  if qltb d (1#2) then f else if qltb (1#2) d then (f + 1)%Z else if Z.even f then f else (f + 1)%Z.
Definition pow10 (q : nat) : Q := inject_Z (Z.pow 10 (Z.of_nat q)).
Definition round_dec (q : nat) (x : Q) : Q := inject_Z (rint (x * pow10 q)) / pow10 q.

Definition intervals_to_boundaries (q : nat) (ivs : list iv) : list Q :=
  sort_uniq (map (round_dec q) (flat ivs)).

(* np.allclose(a, b): |a - b| <= atol + rtol * |b|, atol = 1e-8, rtol = 1e-5 *)
Definition isclose (a b : Q) : bool := Qle_bool (Qabs (a - b)) ((1 # 100000000) + (1 # 100000) * Qabs b).
Fixpoint all2 {A} (p : A -> A -> bool) (x y : list A) : bool :=
  match x, y with a :: x', b :: y' => p a b && all2 p x' y' | _, _ => true end.
Definition boundaries_to_intervals (b : list Q) : res (list iv) :=
  let u := sort_uniq b in
  (* shapes (n,) and (m,): equal, or broadcast when m = 1, else NumPy's broadcasting ValueError *)
  let close := if Nat.eqb (length u) (length b) then Ok (all2 isclose b u)
               else match u with
                    | [u0] => Ok (forallb (fun a => isclose a u0) b)
                    | _ => Raise ValueError
                    end in
  c <- close ;;
  if c then Ok (adjacent_pairs b) else Raise ValueError.

(* ------------------------------------------------------------------------------------------ *)
(* validate_intervals / intervals_to_durations                                                 *)
(* ------------------------------------------------------------------------------------------ *)
Definition validate_intervals (ivs : list iv) : res unit :=
  if existsb (fun v => qltb (fst v) 0 || qltb (snd v) 0) ivs then Raise ValueError
  else if existsb (fun v => Qle_bool (snd v) (fst v)) ivs then Raise ValueError
  else Ok tt.
Definition intervals_to_durations (ivs : list iv) : res (list Q) :=
  _ <- validate_intervals ivs ;; Ok (map (fun v => Qabs (snd v - fst v)) ivs).

(* ------------------------------------------------------------------------------------------ *)
(* sort_labeled_intervals: np.argsort(intervals[:, 0]).  Ties: the model keeps index order (stable);      *)
(* NumPy's default sort kind is NOT stable, so correspondence is claimed for distinct start times only.   *)
(* ------------------------------------------------------------------------------------------ *)
Fixpoint ins_by_start (x : iv * nat) (l : list (iv * nat)) : list (iv * nat) :=
  match l with [] => [x] | y :: t => if qltb (fst (fst x)) (fst (fst y)) then x :: l else y :: ins_by_start x t end.
Definition sort_indexed_ivs (ivs : list iv) : list (iv * nat) :=
  fold_left (fun acc x => ins_by_start x acc) (combine ivs (seq 0 (length ivs))) [].
Definition sort_labeled_intervals {L} (ivs : list iv) (labs : option (list L)) : res (list iv * option (list L)) :=
  let s := sort_indexed_ivs ivs in
  match labs with
  | None => Ok (map fst s, None)
  | Some l => ls <- mapM (fun x => match nth_error l (snd x) with Some a => Ok a | None => Raise IndexError end) s ;;
              Ok (map fst s, Some ls)
  end.

(* ------------------------------------------------------------------------------------------ *)
(* index_labels (labels are ASCII strings; str.lower on codes 65..90)                          *)
(* ------------------------------------------------------------------------------------------ *)
Definition lower_ascii (s : str) : str := map (fun c => if (65 <=? c)%nat && (c <=? 90)%nat then (c + 32)%nat else c) s.
Fixpoint str_ltb (a b : str) : bool :=
  match a, b with
  | _, [] => false
  | [], _ :: _ => true
  | x :: a', y :: b' => (x <? y)%nat || ((x =? y)%nat && str_ltb a' b')
  end.
Fixpoint ins_str (x : str) (l : list str) : list str :=
  match l with
  | [] => [x]
  | y :: t => if str_ltb x y then x :: l else if seqb x y then l else y :: ins_str x t
  end.
(* sorted(set(labels)) *)
Definition sorted_set (l : list str) : list str := fold_right ins_str [] l.
(* (indices, index_to_label as the list of (index, label) in insertion order); label_to_index[s] cannot fail *)
Definition index_labels (case_sensitive : bool) (labels : list str) : list nat * list (nat * str) :=
  let labels := if case_sensitive then labels else map lower_ascii labels in
  let u := sorted_set labels in
  (map (fun s => match find_idx (seqb s) u with Some k => k | None => 0%nat end) labels,
   combine (seq 0 (length u)) u).
