(* A small deep-embedded Python / NumPy sub-language for the note matchers of mir_eval/transcription.py
   (match_note_onsets, match_note_offsets, match_notes) and average_overlap_ratio: values, the NumPy meaning of
   exactly the operations used, and an environment-based evaluator with `if`, `for`, the in-place construction of
   the graph dict and opaque callees.  Definitions only.

   translator/notefuncs.py maps the syntax of each function body to an [fdef] (Gen/NoteGen.v); what the syntax means
   on each type of value is decided HERE; Proofs/NoteTie.v proves each generated program equal to the hand-written
   model function of Model/Transcription.v for all inputs.

   Reading of Python / NumPy (the trusted part)
   * A float64 is a rational (finite values only; nan / inf / overflow are outside the language).  Every float
     operation that NumPy rounds is [rnd] of the exact result, [rnd] being a parameter of the evaluator: the matcher
     ties instantiate it by Model.Transcription.fl64 (binary64 round-to-nearest-even, the model's own primitive), so
     that  a - b  is  fl64 (a - b),  a * b  is  fl64 (a * b);  np.abs and np.maximum are exact;
     np.around(x, 4) is Model.Transcription.np_around4 (imported, not re-modelled; other decimals are [UNM]).
     The score ties (average_overlap_ratio) instantiate [rnd] by the identity (exact reading, DESIGN.md 2.1).
   * Arrays: an (n,2) interval array is a list of pairs [NIvs]; a 1-d float array a list [NVec]; an (n,1) column
     [NCol] (only produced by .reshape(-1, 1)); a 2-d float / bool array carries its number of columns
     [NMat c rows] / [NBMat c rows] (every row has length c; the count is kept for the empty case);
     index arrays are lists of naturals [NIdx].  A pitch array [NPit] is a list of (Hz, np.log2 Hz) pairs:
     np.log2 returns the second components (log2 is not rational; this is how Model/Transcription.v treats it).
   * Broadcasting: matrix (n,m) against a scalar, and against an (n,1) column (row i against entry i); two bool
     matrices must have the same shape.  Every other shape combination is [UNM].
   * np.where(bool matrix) = the tuple (row indices, column indices) of the true entries in row-major order;
     zip applied to the unpacked tuple pairs them up.
   * Dicts are Model.Dict association lists in insertion order (CPython dicts are insertion-ordered); keys are the
     NumPy integers np.where produced.  g[k] = [] and g[k].append(v) act in place: the translator only emits them
     for a local that is bound once to {} and reaches nothing else before its last write.
   * np.less / np.less_equal are first-class values [NFun] (cmp_func = np.less; cmp_func(a, b)).
   * sorted(d.items()) on a dict of naturals = Model.Events.sort_pairs (lexicographic, stable).
   * [UNM] ("unmodelled") is the result of every operation outside the cases written below; [FUEL] is the model
     matcher's fuel exhaustion (proved impossible in Proofs/MatchingTotal).  A tie theorem can only hold if the
     program never reaches [UNM]. *)
From Coq Require Import String.
From Coq Require Import List Bool Arith ZArith QArith Qabs Qminmax Qround.
From ME Require Import Model.Prelude Model.Dict Model.Matching Model.Events Model.Transcription.
Import ListNotations.
Open Scope Q_scope.

Inductive out (A : Type) := OK (a : A) | EXN (e : exn) | FUEL | UNM.
Arguments OK {A}. Arguments EXN {A}. Arguments FUEL {A}. Arguments UNM {A}.
Definition nbind {A B} (r : out A) (f : A -> out B) : out B :=
  match r with OK a => f a | EXN e => EXN e | FUEL => FUEL | UNM => UNM end.
Notation "x <~ r ;; k" := (nbind r (fun x => k)) (at level 61, r at next level, right associativity).

Inductive nv :=
| NNone | NBool (b : bool) | NInt (z : Z) | NFlt (q : Q) | NX (x : xval)
| NIx (n : nat)                                  (* a NumPy integer: an element of an index array *)
| NFun (f : string)                              (* a NumPy ufunc as a value *)
| NIvs (l : list ivl) | NRow (r : ivl)           (* (n,2) array; one row of it *)
| NVec (l : list Q) | NPit (l : list pitch) | NCol (l : list Q)
| NMat (c : nat) (rows : list (list Q)) | NBMat (c : nat) (rows : list (list bool))
| NIdx (l : list nat)
| NTup (l : list nv) | NList (l : list nv)
| NDict (g : dict (list nat)) | NMatching (m : dict nat)
| NItems (l : list (nat * nat)) | NPairs (l : list (nat * nat))
| NUnbound.

(* ------------------------------------------------------------------ arrays *)
Definition outer {A B C} (f : A -> B -> C) (xs : list A) (ys : list B) : list (list C) := map (fun x => map (f x) ys) xs.
Definition mmap {A B} (f : A -> B) (m : list (list A)) : list (list B) := map (map f) m.
Fixpoint vmap2 {A B C} (f : A -> B -> C) (a : list A) (b : list B) : list C :=
  match a, b with x :: a', y :: b' => f x y :: vmap2 f a' b' | _, _ => [] end.
Definition mmap2 {A B C} (f : A -> B -> C) (a : list (list A)) (b : list (list B)) : list (list C) := vmap2 (vmap2 f) a b.
(* row i of the matrix against entry i of the column *)
Definition rowcol {A B C} (f : A -> B -> C) (m : list (list A)) (col : list B) : list (list C) :=
  vmap2 (fun row t => map (fun d => f d t) row) m col.
(* np.where on a bool matrix, row-major *)
Fixpoint where_row (i j : nat) (row : list bool) : list (nat * nat) :=
  match row with [] => [] | b :: t => (if b then [(i, j)] else []) ++ where_row i (S j) t end.
Fixpoint where_from (i : nat) (m : list (list bool)) : list (nat * nat) :=
  match m with [] => [] | r :: t => where_row i 0 r ++ where_from (S i) t end.
Definition pair_tup (p : nat * nat) : nv := NTup [NIx (fst p); NIx (snd p)].

Inductive binop := Add | Sub | Mul | Div.
Inductive cmpop := Eq | Ne | Lt | Le | Gt | Ge.
Definition qcmp (op : cmpop) (x y : Q) : bool :=
  match op with Eq => qeqb x y | Ne => negb (qeqb x y) | Lt => qltb x y | Le => qleb x y | Gt => qltb y x | Ge => qleb y x end.
Definition zcmp (op : cmpop) (x y : Z) : bool :=
  match op with Eq => Z.eqb x y | Ne => negb (Z.eqb x y) | Lt => Z.ltb x y | Le => Z.leb x y | Gt => Z.ltb y x | Ge => Z.leb y x end.

Fixpoint xvals_of (l : list nv) : option (list xval) :=
  match l with
  | [] => Some []
  | NX x :: t => option_map (cons x) (xvals_of t)
  | NFlt q :: t => option_map (cons (Fin q)) (xvals_of t)
  | _ => None
  end.

Section Ops.
Variable rnd : Q -> Q.

Definition qop (op : binop) (a b : Q) : option Q :=
  match op with Add => Some (rnd (a + b)) | Sub => Some (rnd (a - b)) | Mul => Some (rnd (a * b)) | Div => None end.
(* a scalar as a float operand of an array operation *)
Definition fin_of (v : nv) : option Q := match v with NInt z => Some (inject_Z z) | NFlt q => Some q | _ => None end.
Definition same_shape {A B} (c1 c2 : nat) (a : list (list A)) (b : list (list B)) : bool :=
  Nat.eqb c1 c2 && Nat.eqb (length a) (length b).

Definition bin_op (op : binop) (a b : nv) : out nv :=
  match a, b with
  | NBMat c1 m1, NBMat c2 m2 =>
      match op with Mul => if same_shape c1 c2 m1 m2 then OK (NBMat c1 (mmap2 andb m1 m2)) else UNM | _ => UNM end
  | NBMat c m, NBool t => match op with Mul => OK (NBMat c (mmap (fun x => andb x t) m)) | _ => UNM end
  | NBool t, NBMat c m => match op with Mul => OK (NBMat c (mmap (fun x => andb t x) m)) | _ => UNM end
  | NBool s, NBool t => match op with Mul => OK (NInt (Z.b2z (andb s t))) | _ => UNM end
  | NMat c m, _ =>
      match fin_of b with
      | Some s => match qop op 0 0 with Some _ => OK (NMat c (mmap (fun x => match qop op x s with Some r => r | None => 0 end) m)) | None => UNM end
      | None => UNM end
  | _, NMat c m =>
      match fin_of a with
      | Some s => match qop op 0 0 with Some _ => OK (NMat c (mmap (fun x => match qop op s x with Some r => r | None => 0 end) m)) | None => UNM end
      | None => UNM end
  | NVec l, NVec k =>
      match qop op 0 0 with
      | Some _ => if Nat.eqb (length l) (length k)
                  then OK (NVec (vmap2 (fun x y => match qop op x y with Some r => r | None => 0 end) l k)) else UNM
      | None => UNM end
  | NVec l, _ =>
      match fin_of b with
      | Some s => match qop op 0 0 with Some _ => OK (NVec (map (fun x => match qop op x s with Some r => r | None => 0 end) l)) | None => UNM end
      | None => UNM end
  | _, NVec l =>
      match fin_of a with
      | Some s => match qop op 0 0 with Some _ => OK (NVec (map (fun x => match qop op s x with Some r => r | None => 0 end) l)) | None => UNM end
      | None => UNM end
  | NFlt x, NFlt y =>
      match op with
      | Div => OK (NX (xdiv x y))                            (* NumPy scalars: x / 0 is inf / nan *)
      | _ => match qop op x y with Some r => OK (NFlt r) | None => UNM end
      end
  | _, _ => UNM
  end.

Definition truth (v : nv) : out bool :=
  match v with NNone => OK false | NBool b => OK b | NInt z => OK (negb (Z.eqb z 0)) | _ => UNM end.

Definition cmp_op (op : cmpop) (a b : nv) : out nv :=
  match a, b with
  | NInt x, NInt y => OK (NBool (zcmp op x y))
  | NFlt x, NFlt y => OK (NBool (qcmp op x y))
  | _, _ => UNM
  end.

(* np.less(a, b) / np.less_equal(a, b) *)
Definition ufunc_cmp (strict : bool) (a b : nv) : out nv :=
  match a, b with
  | NMat c m, NFlt t => OK (NBMat c (mmap (fun d => cmpb strict d t) m))
  | NMat c m, NCol col => if Nat.eqb (length m) (length col) then OK (NBMat c (rowcol (cmpb strict) m col)) else UNM
  | _, _ => UNM
  end.

Local Open Scope string_scope.
Definition npf (f : string) (args : list nv) (kws : list (string * nv)) : out nv :=
  if f =? "np.less" then match args, kws with [a; b], [] => ufunc_cmp true a b | _, _ => UNM end
  else if f =? "np.less_equal" then match args, kws with [a; b], [] => ufunc_cmp false a b | _, _ => UNM end
  else if f =? "np.subtract.outer" then
    match args, kws with
    | [NVec a; NVec b], [] => OK (NMat (length b) (outer (fun x y => rnd (x - y)) a b))
    | _, _ => UNM end
  else if f =? "np.abs" then
    match args, kws with
    | [NMat c m], [] => OK (NMat c (mmap Qabs m))
    | [NVec l], [] => OK (NVec (map Qabs l))
    | [NFlt q], [] => OK (NFlt (Qabs q))
    | _, _ => UNM end
  else if f =? "np.around" then
    match args, kws with
    | [NMat c m], [("decimals", NInt 4%Z)] | [NMat c m; NInt 4%Z], [] => OK (NMat c (mmap np_around4 m))
    | [NVec l], [("decimals", NInt 4%Z)] | [NVec l; NInt 4%Z], [] => OK (NVec (map np_around4 l))
    | _, _ => UNM end
  else if f =? "np.maximum" then
    match args, kws with
    | [NVec l; NFlt t], [] => OK (NVec (map (fun x => Qmax x t) l))
    | [NFlt t; NVec l], [] => OK (NVec (map (fun x => Qmax t x) l))
    | _, _ => UNM end
  else if f =? "np.where" then
    match args, kws with
    | [NBMat c m], [] => let w := where_from 0 m in OK (NTup [NIdx (map fst w); NIdx (map snd w)])
    | _, _ => UNM end
  else if f =? "np.log2" then match args, kws with [NPit l], [] => OK (NVec (map snd l)) | _, _ => UNM end
  else if f =? "np.logical_and" then match args, kws with [a; b], [] => bin_op Mul a b | _, _ => UNM end
  else if f =? "np.mean" then
    match args, kws with
    | [NList (v :: l)], [] => match xvals_of (v :: l) with Some xs => OK (NX (xmean xs)) | None => UNM end
    | _, _ => UNM end
  else UNM.

Definition builtin (f : string) (args : list nv) : out nv :=
  if f =? "sorted" then match args with [NItems l] => OK (NPairs (sort_pairs l)) | _ => UNM end
  else if f =? "zip*" then                                 (* zip( *t ) for a tuple of two index arrays *)
    match args with
    | [NTup [NIdx a; NIdx b]] => OK (NList (map pair_tup (combine a b)))
    | _ => UNM end
  else if f =? "len" then
    match args with [NList l] => OK (NInt (Z.of_nat (length l))) | [NPairs l] => OK (NInt (Z.of_nat (length l))) | _ => UNM end
  else if f =? "min" then match args with [NFlt a; NFlt b] => OK (NFlt (Qmin a b)) | _ => UNM end
  else if f =? "max" then match args with [NFlt a; NFlt b] => OK (NFlt (Qmax a b)) | _ => UNM end
  else UNM.

Definition meth (a : nv) (m : string) (args : list nv) : out nv :=
  match a, args with
  | NVec l, [NInt (-1)%Z; NInt 1%Z] => if m =? "reshape" then OK (NCol l) else UNM
  | NMatching d, [] => if m =? "items" then OK (NItems d) else UNM
  | _, _ => UNM
  end.
Local Close Scope string_scope.

(* a[:, k] *)
Definition column (a : nv) (k : Z) : out nv :=
  match a with
  | NIvs l => if (k =? 0)%Z then OK (NVec (map fst l)) else if (k =? 1)%Z then OK (NVec (map snd l)) else UNM
  | _ => UNM
  end.
Definition get_item (a i : nv) : out nv :=
  match a, i with
  | NIvs l, NIx n => match nth_error l n with Some r => OK (NRow r) | None => EXN IndexError end
  | NRow r, NInt z => if (z =? 0)%Z then OK (NFlt (fst r)) else if (z =? 1)%Z then OK (NFlt (snd r)) else UNM
  | NTup l, NInt z => if (z <? 0)%Z then UNM else match nth_error l (Z.to_nat z) with Some v => OK v | None => EXN IndexError end
  | _, _ => UNM
  end.
Definition contains (k d : nv) : out bool :=
  match k, d with NIx n, NDict g => OK (dmem g n) | _, _ => UNM end.
Definition iter_elems (v : nv) : out (list nv) :=
  match v with NList l => OK l | NPairs l => OK (map pair_tup l) | _ => UNM end.
End Ops.

(* ------------------------------------------------------------------ syntax *)
Inductive exp :=
| ELoc (x : string) | EGlob (x : string)
| ENone | EBool (b : bool) | EInt (z : Z) | EFloat (q : Q)
| EFun (f : string)
| EEmptyList | EEmptyDict
| ETuple (l : list exp)
| EBin (op : binop) (a b : exp)
| ECmp (op : cmpop) (a b : exp)
| EIsNone (neg : bool) (a : exp)                  (* a is None / a is not None *)
| EIn (neg : bool) (k d : exp)                    (* k in d / k not in d *)
| EColumn (a : exp) (k : Z)                       (* a[:, k] *)
| EIndex (a i : exp)
| EMeth (a : exp) (m : string) (args : list exp)
| ENp (f : string) (args : list exp) (kws : list (string * exp))
| ECallLoc (x : string) (args : list exp)         (* call of a local that holds a ufunc *)
| EBuiltin (f : string) (args : list exp)
| ECall (f : string) (pos : list exp) (kws : list (string * exp)).

Inductive stmt :=
| SAssign (x : string) (e : exp)
| SDictSetEmpty (g : string) (k : exp)            (* g[k] = [] *)
| SDictAppend (g : string) (k v : exp)            (* g[k].append(v) *)
| SAppend (x : string) (e : exp)                  (* x.append(e) *)
| SIf (c : exp) (a b : list stmt)
| SFor (xs : list string) (it : exp) (body : list stmt)
| SReturn (e : exp).

Record fdef := { f_params : list (string * option exp); f_locals : list string; f_body : list stmt }.

(* ------------------------------------------------------------------ binding of call arguments *)
Definition env := list (string * nv).
Fixpoint lookup {V} (x : string) (en : list (string * V)) : option V :=
  match en with [] => None | (y, v) :: t => if String.eqb x y then Some v else lookup x t end.
Fixpoint update (x : string) (v : nv) (en : env) : option env :=
  match en with
  | [] => None
  | (y, w) :: t => if String.eqb x y then Some ((y, v) :: t) else option_map (cons (y, w)) (update x v t)
  end.
Fixpoint mem_name (p : string) (l : list string) : bool :=
  match l with [] => false | k :: t => String.eqb p k || mem_name p t end.
Fixpoint nodup_names (l : list string) : bool :=
  match l with [] => true | k :: t => negb (mem_name k t) && nodup_names t end.
Definition sigv := list (string * option nv).
Fixpoint bind_params (ps : sigv) (pos : list nv) (kws : list (string * nv)) : option (list nv) :=
  match ps with
  | [] => match pos with [] => Some [] | _ => None end
  | (p, d) :: ps' =>
      match pos with
      | a :: pos' => match lookup p kws with
                     | Some _ => None
                     | None => option_map (cons a) (bind_params ps' pos' kws) end
      | [] => match lookup p kws, d with
              | Some a, _ => option_map (cons a) (bind_params ps' [] kws)
              | None, Some dv => option_map (cons dv) (bind_params ps' [] kws)
              | None, None => None
              end
      end
  end.
Definition bind_args (ps : sigv) (pos : list nv) (kws : list (string * nv)) : option (list nv) :=
  if forallb (fun kw => mem_name (fst kw) (map fst ps)) kws && nodup_names (map fst kws)
  then bind_params ps pos kws else None.
Definition const_val (e : exp) : option nv :=
  match e with
  | ENone => Some NNone | EBool b => Some (NBool b) | EInt z => Some (NInt z) | EFloat q => Some (NFlt q)
  | _ => None
  end.
Fixpoint sig_of (ps : list (string * option exp)) : option sigv :=
  match ps with
  | [] => Some []
  | (p, None) :: t => option_map (cons (p, None)) (sig_of t)
  | (p, Some d) :: t => match const_val d, sig_of t with
                        | Some v, Some r => Some ((p, Some v) :: r)
                        | _, _ => None end
  end.
Fixpoint sigs_of (l : list (string * list (string * option exp))) : list (string * option sigv) :=
  match l with [] => [] | (n, ps) :: t => (n, sig_of ps) :: sigs_of t end.

(* ------------------------------------------------------------------ evaluation *)
Section Eval.
Variable rnd : Q -> Q.
Variable globs : list (string * nv).                    (* module constants, read from the source *)
Variable sigs : list (string * option sigv).
Variable ext : string -> list nv -> out nv.

Fixpoint assoc_sig (f : string) (l : list (string * option sigv)) : option sigv :=
  match l with [] => None | (g, s) :: t => if String.eqb f g then s else assoc_sig f t end.
Definition lookup_sig (f : string) : option sigv := assoc_sig f sigs.
Definition call_fun (f : nv) (vs : list nv) : out nv :=
  match f with NFun g => npf rnd g vs [] | _ => UNM end.

Definition read (x : string) (en : env) : out nv :=
  match lookup x en with Some NUnbound => EXN OtherExn | Some v => OK v | None => UNM end.
Fixpoint eval (en : env) (e : exp) {struct e} : out nv :=
  match e with
  | ELoc x => read x en
  | EGlob x => match lookup x globs with Some v => OK v | None => UNM end
  | ENone => OK NNone | EBool b => OK (NBool b) | EInt z => OK (NInt z) | EFloat q => OK (NFlt q)
  | EFun f => OK (NFun f)
  | EEmptyList => OK (NList []) | EEmptyDict => OK (NDict [])
  | ETuple l => vs <~ (fix evs (l : list exp) : out (list nv) :=
                         match l with [] => OK [] | a :: t => v <~ eval en a ;; r <~ evs t ;; OK (v :: r) end) l ;;
                OK (NTup vs)
  | EBin op a b => x <~ eval en a ;; y <~ eval en b ;; bin_op rnd op x y
  | ECmp op a b => x <~ eval en a ;; y <~ eval en b ;; cmp_op op x y
  | EIsNone neg a => x <~ eval en a ;; OK (NBool (xorb neg (match x with NNone => true | _ => false end)))
  | EIn neg k d => x <~ eval en k ;; y <~ eval en d ;; t <~ contains x y ;; OK (NBool (xorb neg t))
  | EColumn a k => x <~ eval en a ;; column x k
  | EIndex a i => x <~ eval en a ;; y <~ eval en i ;; get_item x y
  | EMeth a m args =>
      x <~ eval en a ;;
      vs <~ (fix evs (l : list exp) : out (list nv) :=
               match l with [] => OK [] | a :: t => v <~ eval en a ;; r <~ evs t ;; OK (v :: r) end) args ;;
      meth x m vs
  | ENp f args kws =>
      vs <~ (fix evs (l : list exp) : out (list nv) :=
               match l with [] => OK [] | a :: t => v <~ eval en a ;; r <~ evs t ;; OK (v :: r) end) args ;;
      ks <~ (fix evk (l : list (string * exp)) : out (list (string * nv)) :=
               match l with [] => OK [] | (k, a) :: t => v <~ eval en a ;; r <~ evk t ;; OK ((k, v) :: r) end) kws ;;
      npf rnd f vs ks
  | ECallLoc x args =>
      g <~ read x en ;;
      vs <~ (fix evs (l : list exp) : out (list nv) :=
               match l with [] => OK [] | a :: t => v <~ eval en a ;; r <~ evs t ;; OK (v :: r) end) args ;;
      call_fun g vs
  | EBuiltin f args =>
      vs <~ (fix evs (l : list exp) : out (list nv) :=
               match l with [] => OK [] | a :: t => v <~ eval en a ;; r <~ evs t ;; OK (v :: r) end) args ;;
      builtin f vs
  | ECall f pos kws =>
      ps <~ (fix evs (l : list exp) : out (list nv) :=
               match l with [] => OK [] | a :: t => v <~ eval en a ;; r <~ evs t ;; OK (v :: r) end) pos ;;
      ks <~ (fix evk (l : list (string * exp)) : out (list (string * nv)) :=
               match l with [] => OK [] | (k, a) :: t => v <~ eval en a ;; r <~ evk t ;; OK ((k, v) :: r) end) kws ;;
      match lookup_sig f with
      | Some sg => match bind_args sg ps ks with Some vs => ext f vs | None => UNM end
      | None => UNM
      end
  end.

Inductive sres := SNorm (en : env) | SRet (v : nv) | SExn (e : exn) | SFuel | SUnm.
Definition lift_e {A} (r : out A) (k : A -> sres) : sres :=
  match r with OK a => k a | EXN e => SExn e | FUEL => SFuel | UNM => SUnm end.
Definition set1 (x : string) (v : nv) (en : env) : sres :=
  match update x v en with Some en' => SNorm en' | None => SUnm end.
Fixpoint set_many (xs : list string) (vs : list nv) (en : env) : sres :=
  match xs, vs with
  | [], [] => SNorm en
  | x :: xs', v :: vs' => match update x v en with Some en' => set_many xs' vs' en' | None => SUnm end
  | _, _ => SUnm
  end.
(* for x in ... / for x, y in ...: the element is bound / unpacked *)
Definition bind_target (xs : list string) (el : nv) (en : env) : sres :=
  match xs with
  | [x] => set1 x el en
  | _ => match el with NTup vs => set_many xs vs en | _ => SUnm end
  end.
Fixpoint for_loop (step : nv -> env -> sres) (els : list nv) (en : env) : sres :=
  match els with
  | [] => SNorm en
  | v :: t => match step v en with SNorm en' => for_loop step t en' | r => r end
  end.
Definition run_block (f : stmt -> env -> sres) : list stmt -> env -> sres :=
  fix go (l : list stmt) (en : env) : sres :=
    match l with [] => SNorm en | s :: r => match f s en with SNorm en' => go r en' | o => o end end.
Definition for_step (blk : list stmt -> env -> sres) (xs : list string) (body : list stmt) (el : nv) (en : env) : sres :=
  match bind_target xs el en with SNorm en' => blk body en' | o => o end.

Fixpoint exec (s : stmt) (en : env) {struct s} : sres :=
  match s with
  | SAssign x e => lift_e (eval en e) (fun v => set1 x v en)
  | SDictSetEmpty g k =>
      lift_e (read g en) (fun d => lift_e (eval en k) (fun kv =>
        match d, kv with NDict gr, NIx n => set1 g (NDict (dset gr n [])) en | _, _ => SUnm end))
  | SDictAppend g k v =>
      lift_e (read g en) (fun d => lift_e (eval en k) (fun kv => lift_e (eval en v) (fun vv =>
        match d, kv, vv with
        | NDict gr, NIx n, NIx r =>
            match dget gr n with Some l => set1 g (NDict (dset gr n (l ++ [r]))) en | None => SExn KeyError end
        | _, _, _ => SUnm end)))
  | SAppend x e =>
      lift_e (read x en) (fun a => lift_e (eval en e) (fun v =>
        match a with NList l => set1 x (NList (l ++ [v])) en | _ => SUnm end))
  | SIf c a b => lift_e (eval en c) (fun v => lift_e (truth v) (fun t => run_block exec (if t then a else b) en))
  | SFor xs it body =>
      lift_e (eval en it) (fun v => lift_e (iter_elems v) (fun els => for_loop (for_step (run_block exec) xs body) els en))
  | SReturn e => lift_e (eval en e) SRet
  end.
Definition exec_block : list stmt -> env -> sres := run_block exec.

Definition init_env (f : fdef) (args : list nv) : env :=
  combine (map fst (f_params f)) args ++ map (fun x => (x, NUnbound)) (f_locals f).
Definition run_fun (f : fdef) (args : list nv) : out nv :=
  if Nat.eqb (length args) (length (f_params f)) then
    match exec_block (f_body f) (init_env f args) with
    | SNorm _ => OK NNone | SRet v => OK v | SExn e => EXN e | SFuel => FUEL | SUnm => UNM end
  else UNM.
End Eval.
