(* A small deep-embedded Python sub-language for the string-processing functions of mir_eval/chord.py (the chord
   label parser / encoder): values, operators with CPython semantics for exactly the operations used, and an
   environment-based evaluator. Definitions only.

   translator/chordparse.py maps the syntax of each function body to an [fdef] (Gen/ChordParseGen.v); what the
   syntax means on each type of value is decided HERE (dynamic typing is resolved by the evaluator, not by the
   translator); Proofs/ChordParseTie.v proves each generated program equal to the hand-written model function of
   Model/ChordParse.v for all inputs, with the callees instantiated by the model's own functions.

   Reading of Python
   * Values: None, bool, int (unbounded, Z), str (list of code points), list, tuple, set of str (a duplicate-free
     list whose order is a representation only: iteration goes through the order oracle [sord], about which the
     theorems assume nothing but that it permutes), dict with str keys (association list, first match), 1-d integer
     / boolean NumPy arrays, an opaque truthy object (re.Match), and the marker of a local that is not yet bound.
   * [UNM] ("unmodelled") is the result of every operation on operands outside the cases written below; a tie
     theorem can only hold if the program never reaches such a case.
   * Locals: Python decides statically which names are local (assigned anywhere in the body); the environment
     has one slot per parameter and local from the start, reading an unbound slot raises (UnboundLocalError =
     [OtherExn]).
   * Mutation: x[i] = v, x.update(s), and x += a on a mutable value are in-place in Python. The translator only
     emits them for names all of whose bindings create a fresh object (it fails otherwise; for `+=` it passes the
     result of that analysis as a flag and the evaluator refuses a mutable left operand without it), so that no
     other name can observe the write and rebinding the local is an exact reading.
   * Calls of other functions of the module are opaque ([ECall]): positional and keyword arguments are evaluated
     left to right and then bound to the callee's parameters as Python does (signature and literal defaults read
     from the source in the same run); the callee receives one value per parameter.
   * The arguments of a raised exception are evaluated only when they are %-formatting (which can itself raise);
     str.format messages are checked by the translator to be total and dropped. *)
From Coq Require Import String.
From Coq Require Import List Bool Arith ZArith.
From ME Require Import Model.Prelude.
Import ListNotations.

Inductive out (A : Type) := OK (a : A) | EXN (e : exn) | UNM.
Arguments OK {A}. Arguments EXN {A}. Arguments UNM {A}.
Definition obind {A B} (r : out A) (f : A -> out B) : out B :=
  match r with OK a => f a | EXN e => EXN e | UNM => UNM end.
Notation "x <~ r ;; k" := (obind r (fun x => k)) (at level 61, r at next level, right associativity).
Definition of_opt {A} (o : option A) : out A := match o with Some a => OK a | None => UNM end.
Fixpoint mapM {A B} (f : A -> out B) (l : list A) : out (list B) :=
  match l with [] => OK [] | a :: t => b <~ f a ;; bs <~ mapM f t ;; OK (b :: bs) end.

Inductive pv :=
| VNone | VBool (b : bool) | VInt (z : Z) | VStr (s : str)
| VList (l : list pv) | VTup (l : list pv)
| VSet (l : list str)
| VDict (d : list (str * pv))
| VArr (l : list Z) | VBArr (l : list bool)
| VMat (c : nat) (rows : list (list Z))      (* 2-d integer ndarray of shape (length rows, c), by rows *)
| VMatch
| VUnbound.

(* ------------------------------------------------------------------ strings *)
Definition chr_in (c : nat) (cs : str) : bool := existsb (Nat.eqb c) cs.
Fixpoint lstrip_p (p : nat -> bool) (s : str) : str :=
  match s with x :: t => if p x then lstrip_p p t else s | [] => [] end.
Definition strip_p (p : nat -> bool) (s : str) : str := rev (lstrip_p p (rev (lstrip_p p s))).
(* str.strip() without argument removes the characters c with c.isspace(): Py_UNICODE_ISSPACE *)
Definition is_space (c : nat) : bool :=
  let n := N.of_nat c in
  ((9 <=? n) && (n <=? 13) || (28 <=? n) && (n <=? 32) || (n =? 133) || (n =? 160) || (n =? 5760)
   || (8192 <=? n) && (n <=? 8202) || (n =? 8232) || (n =? 8233) || (n =? 8239) || (n =? 8287) || (n =? 12288))%N.
Fixpoint prefixb (p s : str) : bool :=
  match p, s with [], _ => true | x :: p', y :: s' => Nat.eqb y x && prefixb p' s' | _ :: _, [] => false end.
(* sub in s *)
Fixpoint containsb (sub s : str) : bool :=
  prefixb sub s || match s with [] => false | _ :: t => containsb sub t end.
(* s.count(sub), sub non-empty: non-overlapping occurrences, scanning from the left; [skip] characters of a match
   that has just been counted are passed over *)
Fixpoint count_sub (sub : str) (skip : nat) (s : str) : nat :=
  match s with
  | [] => 0
  | _ :: t => match skip with
              | S k => count_sub sub k t
              | O => if prefixb sub s then S (count_sub sub (List.length sub - 1) t) else count_sub sub 0 t
              end
  end.
(* s.split(sep), sep non-empty: [cur] is the current piece, reversed *)
Fixpoint split_sub (sep : str) (skip : nat) (cur : str) (s : str) : list str :=
  match s with
  | [] => [rev cur]
  | x :: t => match skip with
              | S k => split_sub sep k cur t
              | O => if prefixb sep s then rev cur :: split_sub sep (List.length sep - 1) [] t
                     else split_sub sep 0 (x :: cur) t
              end
  end.
Definition is_ascii (s : str) : bool := forallb (fun c => c <? 128) s.
Definition lower_ascii (s : str) : str := map (fun c => if (65 <=? c) && (c <=? 90) then c + 32 else c) s.
Fixpoint str_join (sep : str) (l : list str) : str :=
  match l with [] => [] | [x] => x | x :: t => x ++ sep ++ str_join sep t end.
(* fmt % a  for a format with exactly one conversion, "%s", and a str argument *)
Fixpoint fmt_s (fmt a : str) : option str :=
  match fmt with
  | [] => None
  | x :: t =>
      if Nat.eqb x 37 then                                             (* % *)
        match t with
        | y :: t' => if Nat.eqb y 115 && negb (chr_in 37 t') then Some (a ++ t') else None      (* s *)
        | [] => None
        end
      else option_map (cons x) (fmt_s t a)
  end.

(* ------------------------------------------------------------------ collections *)
Fixpoint sassoc {A} (k : str) (l : list (str * A)) : option A :=
  match l with [] => None | (k', a) :: t => if seqb k k' then Some a else sassoc k t end.
Fixpoint sassoc_set {A} (k : str) (a : A) (l : list (str * A)) : list (str * A) :=
  match l with [] => [(k, a)] | (k', a') :: t => if seqb k k' then (k', a) :: t else (k', a') :: sassoc_set k a t end.
Definition smem (x : str) (l : list str) : bool := existsb (seqb x) l.
(* the representation of set(l): keeps the last occurrence of every element *)
Fixpoint set_of (l : list str) : list str :=
  match l with [] => [] | x :: t => if smem x t then set_of t else x :: set_of t end.
Definition set_union (a b : list str) : list str := set_of (a ++ b).
Fixpoint all_strs (l : list pv) : option (list str) :=
  match l with [] => Some [] | VStr s :: t => option_map (cons s) (all_strs t) | _ => None end.
Definition as_int (v : pv) : option Z :=
  match v with VInt z => Some z | VBool b => Some (if b then 1 else 0)%Z | _ => None end.
Fixpoint all_ints (l : list pv) : option (list Z) :=
  match l with
  | [] => Some []
  | v :: t => match as_int v, all_ints t with Some z, Some zs => Some (z :: zs) | _, _ => None end
  end.
(* Python index -> position: negative indices count from the end; None = IndexError *)
Definition norm_idx (i : Z) (n : nat) : option nat :=
  if ((0 <=? i) && (i <? Z.of_nat n))%Z then Some (Z.to_nat i)
  else if ((i <? 0) && (- Z.of_nat n <=? i))%Z then Some (Z.to_nat (Z.of_nat n + i)) else None.
Fixpoint set_nth {A} (l : list A) (i : nat) (v : A) : list A :=
  match l, i with [], _ => [] | _ :: t, O => v :: t | x :: t, S j => x :: set_nth t j v end.
Fixpoint zip_add (a b : list Z) : list Z :=
  match a, b with x :: a', y :: b' => (x + y)%Z :: zip_add a' b' | _, _ => [] end.
(* np.nonzero of a 1-d array: the positions of the non-zero entries, from position i on *)
Fixpoint nz_from (i : Z) (l : list Z) : list Z :=
  match l with [] => [] | x :: t => if Z.eqb x 0 then nz_from (i + 1)%Z t else i :: nz_from (i + 1)%Z t end.
(* a[idx] = x for an index array: one store per index, in order; None = IndexError *)
Fixpoint scatter (a : list Z) (idx : list Z) (x : Z) : option (list Z) :=
  match idx with
  | [] => Some a
  | i :: t => match norm_idx i (List.length a) with Some n => scatter (set_nth a n x) t x | None => None end
  end.
Fixpoint enum_from (n : Z) (l : list pv) : list pv :=
  match l with [] => [] | v :: t => VTup [VInt n; v] :: enum_from (n + 1)%Z t end.

(* ------------------------------------------------------------------ operators *)
Inductive binop := Add | Sub | Mul | Mod.
Inductive cmpop := Eq | Ne | Lt | Le | Gt | Ge.

Definition is_none (v : pv) : bool := match v with VNone => true | _ => false end.
Definition mutable (v : pv) : bool :=
  match v with VList _ | VSet _ | VDict _ | VArr _ | VBArr _ | VMat _ _ => true | _ => false end.

Definition truth (v : pv) : out bool :=
  match v with
  | VNone => OK false | VBool b => OK b | VInt z => OK (negb (Z.eqb z 0))
  | VStr s => OK (negb (Nat.eqb (List.length s) 0))
  | VList l | VTup l => OK (negb (Nat.eqb (List.length l) 0))
  | VSet l => OK (negb (Nat.eqb (List.length l) 0))
  | VDict d => OK (negb (Nat.eqb (List.length d) 0))
  | VArr [z] => OK (negb (Z.eqb z 0))
  | VBArr [b] => OK b
  | VArr (_ :: _ :: _) | VBArr (_ :: _ :: _) => EXN ValueError      (* truth value of an array is ambiguous *)
  | VArr [] | VBArr [] => UNM                                        (* deprecated, version dependent *)
  | VMatch => OK true
  | VMat _ _ | VUnbound => UNM
  end.

Definition arith (op : binop) (x y : Z) : out pv :=
  match op with
  | Add => OK (VInt (x + y)) | Sub => OK (VInt (x - y)) | Mul => OK (VInt (x * y))
  | Mod => if Z.eqb y 0 then EXN ZeroDivisionError else OK (VInt (x mod y))      (* floor modulo: sign of the divisor *)
  end%Z.
Definition rep_list (l : list pv) (n : Z) : list pv := concat (repeat l (Z.to_nat n)).      (* n <= 0: [] *)
Definition bin_op (op : binop) (a b : pv) : out pv :=
  match op, a, b with
  | Mod, VStr f, VStr x => of_opt (option_map VStr (fmt_s f x))
  | Mod, VStr _, _ => UNM
  | Add, VStr x, VStr y => OK (VStr (x ++ y))
  | Add, VList x, VList y => OK (VList (x ++ y))
  | Add, VArr x, VArr y => if Nat.eqb (List.length x) (List.length y) then OK (VArr (zip_add x y)) else UNM
  | Add, VArr x, VInt z => OK (VArr (map (fun v => v + z)%Z x))           (* broadcasting a Python int *)
  | Mod, VArr x, VInt z => if Z.eqb z 0 then UNM else OK (VArr (map (fun v => v mod z)%Z x))
  | Mul, VList x, VInt n => OK (VList (rep_list x n))
  | Mul, VInt n, VList x => OK (VList (rep_list x n))
  | _, _, _ =>
      match as_int a, as_int b with
      | Some x, Some y => arith op x y
      | _, _ => match a, b with
                | VNone, (VNone | VBool _ | VInt _ | VStr _) => EXN TypeError        (* None + 1, None % 12 ... *)
                | (VBool _ | VInt _), VNone => EXN TypeError
                | VStr _, VNone => match op with Mod => UNM | _ => EXN TypeError end
                | _, _ => UNM
                end
      end
  end.

Definition scalar (v : pv) : bool := match v with VNone | VBool _ | VInt _ | VStr _ => true | _ => false end.
Definition py_eq (a b : pv) : option bool :=
  match as_int a, as_int b with
  | Some x, Some y => Some (Z.eqb x y)
  | _, _ =>
      match a, b with
      | VStr s, VStr t => Some (seqb s t)
      | VNone, VNone => Some true
      | _, _ => if scalar a && scalar b then Some false else None      (* None == 1, "a" == 1, ...: False *)
      end
  end.
Definition zcmp (op : cmpop) (x y : Z) : bool :=
  match op with Eq => Z.eqb x y | Ne => negb (Z.eqb x y) | Lt => Z.ltb x y | Le => Z.leb x y
  | Gt => Z.ltb y x | Ge => Z.leb y x end.
Definition cmp_op (op : cmpop) (a b : pv) : out pv :=
  match a, b with
  | VArr l, (VInt _ | VBool _) => match as_int b with Some y => OK (VBArr (map (fun x => zcmp op x y) l)) | None => UNM end
  | _, _ =>
      match op with
      | Eq => of_opt (option_map VBool (py_eq a b))
      | Ne => of_opt (option_map (fun t => VBool (negb t)) (py_eq a b))
      | _ => match as_int a, as_int b with
             | Some x, Some y => OK (VBool (zcmp op x y))
             | _, _ => if is_none a && (is_none b || match as_int b with Some _ => true | None => false end)
                          || is_none b && match as_int a with Some _ => true | None => false end
                       then EXN TypeError else UNM
             end
      end
  end.
(* a in b *)
Definition contains (a b : pv) : out bool :=
  match a, b with
  | VStr x, VStr s => OK (containsb x s)
  | VStr x, VDict d => OK (match sassoc x d with Some _ => true | None => false end)
  | VStr x, VSet l => OK (smem x l)
  | VStr x, VList l => match all_strs l with Some ss => OK (smem x ss) | None => UNM end
  | _, _ => UNM
  end.
Definition get_item (a i : pv) : out pv :=
  match a, i with
  | VDict d, VStr k => match sassoc k d with Some v => OK v | None => EXN KeyError end
  | VList l, VInt z | VTup l, VInt z =>
      match norm_idx z (List.length l) with Some n => of_opt (nth_error l n) | None => EXN IndexError end
  | VArr l, VInt z =>
      match norm_idx z (List.length l) with Some n => of_opt (option_map VInt (nth_error l n)) | None => EXN IndexError end
  | VBArr l, VInt z =>
      match norm_idx z (List.length l) with Some n => of_opt (option_map VBool (nth_error l n)) | None => EXN IndexError end
  | VStr s, VInt z =>
      match norm_idx z (List.length s) with Some n => of_opt (option_map (fun c => VStr [c]) (nth_error s n)) | None => EXN IndexError end
  | _, _ => UNM
  end.
(* a[i] = v on a mutable a (the caller guarantees that a is not shared) *)
Definition set_item (a i v : pv) : out pv :=
  match a, i with
  | VList l, VInt z => match norm_idx z (List.length l) with Some n => OK (VList (set_nth l n v)) | None => EXN IndexError end
  | VArr l, VInt z =>
      match as_int v with
      | Some x => match norm_idx z (List.length l) with Some n => OK (VArr (set_nth l n x)) | None => EXN IndexError end
      | None => UNM end
  | VDict d, VStr k => OK (VDict (sassoc_set k v d))
  | VArr l, VTup [VArr idx] =>                      (* a[(index array,)] = scalar *)
      match as_int v with
      | Some x => match scatter l idx x with Some l' => OK (VArr l') | None => EXN IndexError end
      | None => UNM end
  | VMat c rows, VInt z =>                          (* row assignment, without broadcasting *)
      match v with
      | VArr l => if Nat.eqb (List.length l) c
                  then match norm_idx z (List.length rows) with Some n => OK (VMat c (set_nth rows n l)) | None => EXN IndexError end
                  else UNM
      | _ => UNM end
  | _, _ => UNM
  end.
(* the elements a for loop / an unpacking / a constructor sees *)
Definition iter_elems (sord : list str -> list str) (v : pv) : out (list pv) :=
  match v with
  | VStr s => OK (map (fun c => VStr [c]) s)
  | VList l | VTup l => OK l
  | VSet l => OK (map VStr (sord l))
  | VArr l => OK (map VInt l)
  | VBArr l => OK (map VBool l)
  | VMat _ rows => OK (map VArr rows)               (* the rows (views of a base array that only they can reach) *)
  | VDict d => OK (map (fun kv => VStr (fst kv)) d)
  | _ => UNM
  end.

(* method calls a.m(args); m as written in the source *)
Local Open Scope string_scope.
Definition meth (a : pv) (m : string) (args : list pv) : out pv :=
  match a with
  | VStr s =>
      if m =? "startswith" then match args with [VStr p] => OK (VBool (prefixb p s)) | _ => UNM end
      else if m =? "count" then
        match args with [VStr (c :: sub)] => OK (VInt (Z.of_nat (count_sub (c :: sub) 0 s))) | _ => UNM end
      else if m =? "strip" then
        match args with [] => OK (VStr (strip_p is_space s)) | [VStr cs] => OK (VStr (strip_p (fun c => chr_in c cs) s)) | _ => UNM end
      else if m =? "split" then
        match args with
        | [VStr (c :: sep)] => OK (VList (map VStr (split_sub (c :: sep) 0 [] s)))
        | [VStr []] => EXN ValueError
        | _ => UNM end
      else if m =? "lower" then
        match args with [] => if is_ascii s then OK (VStr (lower_ascii s)) else UNM | _ => UNM end
      else if m =? "join" then
        match args with
        | [VList l] => match all_strs l with Some ss => OK (VStr (str_join s ss)) | None => UNM end
        | _ => UNM end
      else UNM
  | VDict d =>
      if m =? "get" then
        match args with
        | [VStr k] => OK (match sassoc k d with Some v => v | None => VNone end)
        | [VStr k; dflt] => OK (match sassoc k d with Some v => v | None => dflt end)
        | _ => UNM end
      else UNM
  | VArr l => if m =? "astype_int64" then match args with [] => OK (VArr l) | _ => UNM end else UNM
  | VBArr l => if m =? "astype_int64" then match args with [] => OK (VArr (map (fun b : bool => if b then 1 else 0)%Z l)) | _ => UNM end else UNM
  | _ => UNM
  end.
(* builtins and NumPy constructors *)
Definition builtin (sord : list str -> list str) (f : string) (args : list pv) : out pv :=
  if f =? "str" then match args with [VStr s] => OK (VStr s) | _ => UNM end
  else if f =? "set" then
    match args with
    | [] => OK (VSet [])
    | [VList l] => match all_strs l with Some ss => OK (VSet (set_of ss)) | None => UNM end
    | [VSet l] => OK (VSet l)
    | _ => UNM end
  else if f =? "dict" then match args with [] => OK (VDict []) | _ => UNM end
  else if f =? "enumerate" then match args with [v] => els <~ iter_elems sord v ;; OK (VList (enum_from 0 els)) | _ => UNM end
  else if f =? "len" then
    match args with
    | [VStr s] => OK (VInt (Z.of_nat (List.length s)))
    | [VList l] | [VTup l] => OK (VInt (Z.of_nat (List.length l)))
    | [VSet l] => OK (VInt (Z.of_nat (List.length l)))
    | [VArr l] => OK (VInt (Z.of_nat (List.length l)))
    | _ => UNM end
  else if f =? "np.array" then
    match args with
    | [VList l] => match all_ints l with Some zs => OK (VArr zs) | None => UNM end
    | [VArr l] => OK (VArr l)
    | _ => UNM end
  else if f =? "np.asarray" then match args with [VArr l] => OK (VArr l) | [VMat c m] => OK (VMat c m) | _ => UNM end
  else if f =? "ndim" then match args with [VArr _] | [VBArr _] => OK (VInt 1) | [VMat _ _] => OK (VInt 2) | _ => UNM end
  else if f =? "np.nonzero" then match args with [VArr l] => OK (VTup [VArr (nz_from 0 l)]) | _ => UNM end
  else if f =? "np.zeros_like" then match args with [VArr l] => OK (VArr (repeat 0%Z (List.length l))) | _ => UNM end
  else if f =? "list" then match args with [VTup l] | [VList l] => OK (VList l) | _ => UNM end
  else if f =? "tuple" then match args with [VTup l] | [VList l] => OK (VTup l) | _ => UNM end
  else if f =? "np.zeros_int64" then                (* np.zeros(shape, dtype=np.int64) *)
    match args with
    | [VInt n] | [VList [VInt n]] => if (0 <=? n)%Z then OK (VArr (repeat 0%Z (Z.to_nat n))) else EXN ValueError
    | [VList [VInt r; VInt c]] =>
        if ((0 <=? r) && (0 <=? c))%Z then OK (VMat (Z.to_nat c) (repeat (repeat 0%Z (Z.to_nat c)) (Z.to_nat r))) else EXN ValueError
    | _ => UNM end
  else UNM.
Local Close Scope string_scope.

(* ------------------------------------------------------------------ syntax *)
Inductive exp :=
| ELoc (x : string) | EGlob (x : string)
| ENone | EBool (b : bool) | EInt (z : Z) | EStr (s : str)
| ETuple (l : list exp) | EList (l : list exp)
| ECmp (op : cmpop) (a b : exp)
| EIn (a b : exp) | ENotIn (a b : exp)
| EIsNone (a : exp) | EIsNotNone (a : exp)
| ENot (a : exp) | EAnd (a b : exp) | EOr (a b : exp) | EIfExp (c a b : exp)       (* a if c else b *)
| EBin (op : binop) (a b : exp)
| EIndex (a i : exp)
| EMeth (a : exp) (m : string) (args : list exp)
| EBuiltin (f : string) (args : list exp)
| ECall (f : string) (pos : list exp) (kws : list (string * exp))
| EComp (x : string) (body it : exp).                                               (* [body for x in it] *)

Inductive stmt :=
| SAssign (x : string) (e : exp)
| SUnpack (xs : list string) (e : exp)              (* x1, ..., xk = e   (k >= 2) *)
| SAug (fresh : bool) (x : string) (op : binop) (e : exp)     (* x op= e *)
| SSetItem (x : string) (i e : exp)                 (* x[i] = e,   x a local that holds a fresh object *)
| SUpdate (x : string) (e : exp)                    (* x.update(e), x a local that holds a fresh set *)
| SUnpackItems (ts : list (string * exp)) (e : exp) (* x1[i1], ..., xk[ik] = e, every xj a local that holds a fresh object *)
| SExpr (e : exp)
| SAssert (e : exp)                                 (* assert e, <literal message> *)
| SIf (c : exp) (a b : list stmt)
| SFor (xs : list string) (it : exp) (body : list stmt)      (* for x in it / for x1, ..., xk in it *)
| SReturn (e : exp)
| SRaise (e : exn)
| SPass.

Record fdef := { f_params : list (string * option exp);   (* in order, with their default expressions *)
                 f_locals : list string;                  (* the other local names *)
                 f_body : list stmt }.

(* ------------------------------------------------------------------ binding of call arguments *)
Definition env := list (string * pv).
Fixpoint lookup (x : string) (en : env) : option pv :=
  match en with [] => None | (y, v) :: t => if String.eqb x y then Some v else lookup x t end.
Fixpoint update (x : string) (v : pv) (en : env) : option env :=
  match en with
  | [] => None
  | (y, w) :: t => if String.eqb x y then Some ((y, v) :: t) else option_map (cons (y, w)) (update x v t)
  end.
Fixpoint mem_name (p : string) (l : list string) : bool :=
  match l with [] => false | k :: t => String.eqb p k || mem_name p t end.
Fixpoint nodup_names (l : list string) : bool :=
  match l with [] => true | k :: t => negb (mem_name k t) && nodup_names t end.
Definition sigv := list (string * option pv).        (* parameters in order, with the values of their defaults *)
Fixpoint bind_params (ps : sigv) (pos : list pv) (kws : list (string * pv)) : option (list pv) :=
  match ps with
  | [] => match pos with [] => Some [] | _ => None end                          (* too many positional arguments *)
  | (p, d) :: ps' =>
      match pos with
      | a :: pos' => match lookup p kws with
                     | Some _ => None                                           (* multiple values for p *)
                     | None => option_map (cons a) (bind_params ps' pos' kws) end
      | [] => match lookup p kws, d with
              | Some a, _ => option_map (cons a) (bind_params ps' [] kws)
              | None, Some dv => option_map (cons dv) (bind_params ps' [] kws)
              | None, None => None                                              (* missing required argument *)
              end
      end
  end.
Definition bind_args (ps : sigv) (pos : list pv) (kws : list (string * pv)) : option (list pv) :=
  if forallb (fun kw => mem_name (fst kw) (map fst ps)) kws && nodup_names (map fst kws)   (* unexpected / repeated keyword *)
  then bind_params ps pos kws else None.

(* default expressions: literals and module constants *)
Definition const_val (genv : env) (e : exp) : option pv :=
  match e with
  | ENone => Some VNone | EBool b => Some (VBool b) | EInt z => Some (VInt z) | EStr s => Some (VStr s)
  | EGlob x => lookup x genv
  | _ => None
  end.
Fixpoint sig_of (genv : env) (ps : list (string * option exp)) : option sigv :=
  match ps with
  | [] => Some []
  | (p, None) :: t => option_map (cons (p, None)) (sig_of genv t)
  | (p, Some d) :: t => match const_val genv d, sig_of genv t with
                        | Some v, Some r => Some ((p, Some v) :: r)
                        | _, _ => None end
  end.
Fixpoint sigs_of (genv : env) (l : list (string * list (string * option exp))) : list (string * option sigv) :=
  match l with [] => [] | (n, ps) :: t => (n, sig_of genv ps) :: sigs_of genv t end.
Definition fun_params (funs : list (string * fdef)) : list (string * list (string * option exp)) :=
  map (fun nf => (fst nf, f_params (snd nf))) funs.

(* ------------------------------------------------------------------ evaluation *)
Section Eval.
Variable genv : env.                                   (* module constants *)
Variable sigs : list (string * option sigv).           (* signatures of the functions that may be called *)
Variable ext : string -> list pv -> out pv.            (* their meaning: one value per parameter *)
Variable sord : list str -> list str.                  (* iteration order of a set *)

Fixpoint assoc_sig (f : string) (l : list (string * option sigv)) : option sigv :=
  match l with [] => None | (g, s) :: t => if String.eqb f g then s else assoc_sig f t end.
Definition lookup_sig (f : string) : option sigv := assoc_sig f sigs.

Fixpoint eval (en : env) (e : exp) {struct e} : out pv :=
  match e with
  | ELoc x => match lookup x en with Some VUnbound => EXN OtherExn | Some v => OK v | None => UNM end
  | EGlob x => of_opt (lookup x genv)
  | ENone => OK VNone | EBool b => OK (VBool b) | EInt z => OK (VInt z) | EStr s => OK (VStr s)
  | ETuple l => vs <~ (fix evs (l : list exp) : out (list pv) :=
                         match l with [] => OK [] | a :: t => v <~ eval en a ;; r <~ evs t ;; OK (v :: r) end) l ;;
                OK (VTup vs)
  | EList l => vs <~ (fix evs (l : list exp) : out (list pv) :=
                        match l with [] => OK [] | a :: t => v <~ eval en a ;; r <~ evs t ;; OK (v :: r) end) l ;;
               OK (VList vs)
  | ECmp op a b => x <~ eval en a ;; y <~ eval en b ;; cmp_op op x y
  | EIn a b => x <~ eval en a ;; y <~ eval en b ;; t <~ contains x y ;; OK (VBool t)
  | ENotIn a b => x <~ eval en a ;; y <~ eval en b ;; t <~ contains x y ;; OK (VBool (negb t))
  | EIsNone a => x <~ eval en a ;; OK (VBool (is_none x))
  | EIsNotNone a => x <~ eval en a ;; OK (VBool (negb (is_none x)))
  | ENot a => x <~ eval en a ;; t <~ truth x ;; OK (VBool (negb t))
  | EAnd a b => x <~ eval en a ;; t <~ truth x ;; if t then eval en b else OK x
  | EOr a b => x <~ eval en a ;; t <~ truth x ;; if t then OK x else eval en b
  | EIfExp c a b => x <~ eval en c ;; t <~ truth x ;; if t then eval en a else eval en b
  | EBin op a b => x <~ eval en a ;; y <~ eval en b ;; bin_op op x y
  | EIndex a i => x <~ eval en a ;; y <~ eval en i ;; get_item x y
  | EMeth a m args =>
      x <~ eval en a ;;
      vs <~ (fix evs (l : list exp) : out (list pv) :=
               match l with [] => OK [] | a :: t => v <~ eval en a ;; r <~ evs t ;; OK (v :: r) end) args ;;
      meth x m vs
  | EBuiltin f args =>
      vs <~ (fix evs (l : list exp) : out (list pv) :=
               match l with [] => OK [] | a :: t => v <~ eval en a ;; r <~ evs t ;; OK (v :: r) end) args ;;
      builtin sord f vs
  | ECall f pos kws =>
      ps <~ (fix evs (l : list exp) : out (list pv) :=
               match l with [] => OK [] | a :: t => v <~ eval en a ;; r <~ evs t ;; OK (v :: r) end) pos ;;
      ks <~ (fix evk (l : list (string * exp)) : out (list (string * pv)) :=
               match l with [] => OK [] | (k, a) :: t => v <~ eval en a ;; r <~ evk t ;; OK ((k, v) :: r) end) kws ;;
      match lookup_sig f with
      | Some sg => match bind_args sg ps ks with Some vs => ext f vs | None => UNM end
      | None => UNM
      end
  | EComp x body it =>
      v <~ eval en it ;; els <~ iter_elems sord v ;;
      vs <~ mapM (fun el => eval ((x, el) :: en) body) els ;; OK (VList vs)
  end.

(* ---- statements ---- *)
Inductive sres := SNorm (en : env) | SRet (v : pv) | SExn (e : exn) | SUnm.
Definition lift_e {A} (r : out A) (k : A -> sres) : sres :=
  match r with OK a => k a | EXN e => SExn e | UNM => SUnm end.
Definition set1 (x : string) (v : pv) (en : env) : sres :=
  match update x v en with Some en' => SNorm en' | None => SUnm end.
Fixpoint set_all (xs : list string) (vs : list pv) (en : env) : sres :=
  match xs, vs with
  | [], [] => SNorm en
  | x :: xt, v :: vt => match update x v en with Some en' => set_all xt vt en' | None => SUnm end
  | _, _ => SExn ValueError                                      (* too many / not enough values to unpack *)
  end.
Definition unpack (xs : list string) (v : pv) (en : env) : sres :=
  lift_e (iter_elems sord v) (fun els => set_all xs els en).
Definition bind_target (xs : list string) (v : pv) (en : env) : sres :=
  match xs with [x] => set1 x v en | _ => unpack xs v en end.
Fixpoint for_loop (step : pv -> env -> sres) (els : list pv) (en : env) : sres :=
  match els with
  | [] => SNorm en
  | v :: t => match step v en with SNorm en' => for_loop step t en' | r => r end
  end.
Definition set_update (a b : pv) : out pv :=
  match a, b with
  | VSet x, VSet y => OK (VSet (set_union x y))
  | VSet x, VList l => match all_strs l with Some y => OK (VSet (set_union x y)) | None => UNM end
  | _, _ => UNM
  end.

(* a block: statements in order, until one does not complete normally *)
Definition run_block (f : stmt -> env -> sres) : list stmt -> env -> sres :=
  fix go (l : list stmt) (en : env) : sres :=
    match l with [] => SNorm en | s :: r => match f s en with SNorm en' => go r en' | o => o end end.
(* one iteration of a for loop: bind the target(s), run the body *)
Definition for_step (blk : list stmt -> env -> sres) (xs : list string) (body : list stmt) (el : pv) (en : env) : sres :=
  match bind_target xs el en with SNorm en' => blk body en' | o => o end.

Fixpoint exec (s : stmt) (en : env) {struct s} : sres :=
  match s with
  | SAssign x e => lift_e (eval en e) (fun v => set1 x v en)
  | SUnpack xs e => lift_e (eval en e) (fun v => unpack xs v en)
  | SAug fresh x op e =>
      lift_e (eval en (ELoc x)) (fun a => lift_e (eval en e) (fun b =>
        if mutable a && negb fresh then SUnm else lift_e (bin_op op a b) (fun v => set1 x v en)))
  | SSetItem x i e =>
      lift_e (eval en e) (fun v => lift_e (eval en (ELoc x)) (fun a => lift_e (eval en i) (fun j =>
        lift_e (set_item a j v) (fun a' => set1 x a' en))))
  | SUpdate x e =>
      lift_e (eval en (ELoc x)) (fun a => lift_e (eval en e) (fun b => lift_e (set_update a b) (fun a' => set1 x a' en)))
  | SUnpackItems ts e =>
      lift_e (eval en e) (fun v => lift_e (iter_elems sord v) (fun els =>
        if Nat.eqb (List.length els) (List.length ts) then
          (fix go (ts : list (string * exp)) (els : list pv) (en : env) : sres :=
             match ts, els with
             | (x, i) :: ts', el :: els' =>
                 lift_e (eval en (ELoc x)) (fun a => lift_e (eval en i) (fun j =>
                   lift_e (set_item a j el) (fun a' => match update x a' en with Some en' => go ts' els' en' | None => SUnm end)))
             | _, _ => SNorm en
             end) ts els en
        else SExn ValueError))
  | SExpr e => lift_e (eval en e) (fun _ => SNorm en)
  | SAssert e => lift_e (eval en e) (fun v => lift_e (truth v) (fun t => if t then SNorm en else SExn OtherExn))   (* AssertionError *)
  | SIf c a b =>
      lift_e (eval en c) (fun v => lift_e (truth v) (fun t => run_block exec (if t then a else b) en))
  | SFor xs it body =>
      lift_e (eval en it) (fun v => lift_e (iter_elems sord v) (fun els =>
        for_loop (for_step (run_block exec) xs body) els en))
  | SReturn e => lift_e (eval en e) SRet
  | SRaise x => SExn x
  | SPass => SNorm en
  end.
Definition exec_block : list stmt -> env -> sres := run_block exec.

Definition init_env (f : fdef) (args : list pv) : env :=
  combine (map fst (f_params f)) args ++ map (fun x => (x, VUnbound)) (f_locals f).
(* a call with one value per parameter *)
Definition run_fun (f : fdef) (args : list pv) : out pv :=
  if Nat.eqb (List.length args) (List.length (f_params f)) then
    match exec_block (f_body f) (init_env f args) with
    | SNorm _ => OK VNone | SRet v => OK v | SExn e => EXN e | SUnm => UNM end
  else UNM.
End Eval.
