(* Helpers shared by the generated correspondence files (build/corr/*.v). *)
From Coq Require Import List Arith ZArith QArith Qabs Bool.
Import ListNotations.

Fixpoint bad_from {A} (f : A -> bool) (i : nat) (l : list A) : list nat :=
  match l with
  | [] => []
  | x :: t => if f x then bad_from f (S i) t else i :: bad_from f (S i) t
  end.
Definition bad_indices {A} (f : A -> bool) (l : list A) : list nat := bad_from f 0 l.

Fixpoint list_eqb {A} (eqb : A -> A -> bool) (x y : list A) : bool :=
  match x, y with
  | [], [] => true
  | a :: x', b :: y' => eqb a b && list_eqb eqb x' y'
  | _, _ => false
  end.
Definition opt_eqb {A} (eqb : A -> A -> bool) (x y : option A) : bool :=
  match x, y with Some a, Some b => eqb a b | None, None => true | _, _ => false end.
Definition pair_eqb {A B} (ea : A -> A -> bool) (eb : B -> B -> bool) (x y : A * B) : bool :=
  ea (fst x) (fst y) && eb (snd x) (snd y).
Definition Qeqb (a b : Q) : bool := Qeq_bool a b.
(* |a - b| <= tol *)
Definition Qclose (tol a b : Q) : bool := Qle_bool (Qabs (a - b)) tol.
