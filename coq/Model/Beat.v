(* mir_eval/beat.py over exact rationals: trim_beats, validate (+ the warnings), _get_reference_beat_variations,
   goto, p_score, continuity exactly; cemgil as an exact skeleton (per-beat distance to the nearest estimate, the
   normaliser, the maximum over the metrical variations) with the Gaussian `exp(-d^2/(2 sigma^2))` left as a
   function parameter `g` of the distance `d`; information_gain as an exact skeleton (the normalised beat errors,
   their wrapping into (-1/2, 1/2] and the two histograms; the entropy/log2 step is not modelled).
   beat.f_measure is in Model/EventMetrics.v.  Definitions only.

   Conventions.
   * A 1-d float array is a `list Q`; Python exceptions are `Raise`; warnings.warn calls are returned as a list of
     tags (in emission order) by the `*_warns` functions.
   * np.interp at the half-integer index i + 1/2 computes `slope * (x - xp[i]) + fp[i]` with
     slope = (fp[i+1] - fp[i]) / 1, i.e. `(b - a) * (1/2) + a` (`interp_half`).
   * Python slices `a[i:j]` with possibly negative bounds are `py_slice`; the negative index `x[-1]` reached by
     continuity on a one-element variation is made explicit (the interval is `x[0] - x[0]`).
   * goto: `np.std(track, ddof=1) < sigma` is modelled without a square root as `0 < sigma /\ variance < sigma^2`;
     `nan < x` is False (empty track: mean is nan; one-element track: the ddof=1 variance is 0/0 = nan).
   * continuity (second branch) divides NumPy float scalars by a zero reference interval: the results are inf / nan
     and both comparisons are False; the model returns `false` there.
   * p_score: `np.correlate(ref_train, est_train, 'full')[k]` is the number of pairs (i, j) of occupied 10 ms bins
     (i of the reference, j of the estimate) with i - j = k - (L - 1), L the train length; the model counts the pairs
     whose lag lies in the window selected by the code's Python slice (so a window wider than the train wraps around
     exactly as the slice does).  `int(np.round(thr * median))` is round-half-even; the median of no intervals is nan
     and `int(nan)` raises ValueError. *)
From Coq Require Import List Bool Arith ZArith QArith Qabs Qminmax Qround.
From ME Require Import Model.Prelude.
Import ListNotations.
Open Scope Q_scope.

(* ---------------------------------------------------------------- helpers *)
Definition qnat (n : nat) : Q := inject_Z (Z.of_nat n).
Definition is_nil {A} (l : list A) : bool := match l with [] => true | _ => false end.
(* l[a:b] for Python ints a, b *)
Definition py_norm (n x : Z) : Z := if (x <? 0)%Z then Z.max (x + n) 0 else Z.min x n.
Definition py_slice {A} (a b : Z) (l : list A) : list A :=
  let n := Z.of_nat (length l) in
  let a' := py_norm n a in let b' := py_norm n b in
  firstn (Z.to_nat (b' - a')) (skipn (Z.to_nat a') l).
Fixpoint qins (x : Q) (l : list Q) : list Q :=
  match l with [] => [x] | y :: t => if qltb x y then x :: l else y :: qins x t end.
Definition qsort (l : list Q) : list Q := fold_left (fun acc x => qins x acc) l [].
(* np.median of a non-empty array *)
Definition median_ne (l : list Q) : Q :=
  let s := qsort l in let n := length s in
  if Nat.even n then (nth (n / 2 - 1) s 0 + nth (n / 2) s 0) / 2 else nth (n / 2) s 0.
(* np.round to an integer: round half to even *)
Definition round_half_even (y : Q) : Z :=
  let f := Qfloor y in let d := y - inject_Z f in
  if qltb d (1#2) then f else if qltb (1#2) d then (f + 1)%Z else if Z.even f then f else (f + 1)%Z.

(* ---------------------------------------------------------------- trim_beats, validate *)
Definition trim_beats (beats : list Q) (min_beat_time : Q) : list Q := filter (fun x => qleb min_beat_time x) beats.

Definition MAX_TIME : Q := 30000.
(* (np.diff(events) < 0).any() is false *)
Definition nondecreasing (l : list Q) : bool := forallb (fun ab => negb (qltb (snd ab) (fst ab))) (combine l (tl l)).
Definition validate_events (l : list Q) : res unit :=
  if existsb (fun x => qltb MAX_TIME x) l then Raise ValueError
  else if negb (nondecreasing l) then Raise ValueError else Ok tt.
Definition validate (ref est : list Q) : res unit := _ <- validate_events ref ;; validate_events est.

Inductive bwarn := W_ref_empty | W_est_empty | W_ref_one | W_est_one | W_bins_even.
Definition bwarn_eqb (a b : bwarn) : bool :=
  match a, b with
  | W_ref_empty, W_ref_empty | W_est_empty, W_est_empty | W_ref_one, W_ref_one | W_est_one, W_est_one
  | W_bins_even, W_bins_even => true
  | _, _ => false end.
Definition validate_warns (ref est : list Q) : list bwarn :=
  (if is_nil ref then [W_ref_empty] else []) ++ (if is_nil est then [W_est_empty] else []).
Definition len1 {A} (l : list A) : bool := match l with [_] => true | _ => false end.
(* warnings of p_score / continuity (the "only one beat" warnings are reached only when validate did not raise);
   cemgil and goto emit validate_warns only *)
Definition interval_warns (ref est : list Q) : list bwarn :=
  validate_warns ref est ++
  match validate ref est with
  | Ok _ => (if len1 ref then [W_ref_one] else []) ++ (if len1 est then [W_est_one] else [])
  | Raise _ => [] end.

(* ---------------------------------------------------------------- _get_reference_beat_variations *)
Definition interp_half (a b : Q) : Q := (b - a) * (1#2) + a.
(* np.interp(np.arange(0, n - 0.5, 0.5), np.arange(n), beats) *)
Fixpoint double_beats (l : list Q) : list Q :=
  match l with
  | [] => []
  | a :: t => match t with [] => [a] | b :: _ => a :: interp_half a b :: double_beats t end
  end.
Fixpoint evens {A} (l : list A) : list A :=            (* l[::2] *)
  match l with [] => [] | a :: t => a :: match t with [] => [] | _ :: t' => evens t' end end.
Definition odds {A} (l : list A) : list A := evens (tl l).   (* l[1::2] *)
(* (original, off-beat, double tempo, half tempo odd, half tempo even) *)
Definition variations (ref : list Q) : list (list Q) :=
  let d := double_beats ref in [ref; odds d; d; evens ref; odds ref].
(* (no exception on an empty array: np.interp of no points on no sample points is the empty array) *)

(* ---------------------------------------------------------------- cemgil *)
(* np.min(np.abs(beat - estimated_beats)) for the non-empty estimate e0 :: et *)
Definition min_abs_diff (x e0 : Q) (et : list Q) : Q := fold_left Qmin (map (fun e => Qabs (x - e)) et) (Qabs (x - e0)).
Definition dists (var est : list Q) : list Q :=
  match est with [] => [] | e0 :: et => map (fun b => min_abs_diff b e0 et) var end.
(* skeleton: None = the early return (0.0, 0.0); otherwise the distances, one list per metrical variation *)
Definition cemgil_dists (ref est : list Q) : res (option (list (list Q))) :=
  _ <- validate ref est ;;
  if is_nil est || is_nil ref then Ok None
  else Ok (Some (map (fun v => dists v est) (variations ref))).

Section Cemgil.
  (* g d stands for exp(-d^2 / (2 sigma^2)) *)
  Variable g : Q -> Q.
  Definition cemgil_acc (var est : list Q) : Q :=
    qsum (map g (dists var est)) / ((1#2) * (qnat (length est) + qnat (length var))).
  (* (accuracies[0], np.max(accuracies)) *)
  Definition cemgil (ref est : list Q) : res (Q * Q) :=
    _ <- validate ref est ;;
    if is_nil est || is_nil ref then Ok (0, 0)
    else match map (fun v => cemgil_acc v est) (variations ref) with
         | a0 :: t => Ok (a0, fold_left Qmax t a0)
         | [] => Raise IndexError
         end.
End Cemgil.

(* ---------------------------------------------------------------- goto *)
(* beat_error[n] for the interior reference beat cur with neighbours prev, next *)
Definition goto_beat_error (prev cur next : Q) (est : list Q) : Q :=
  let pi := (1#2) * (cur - prev) in let ni := (1#2) * (next - cur) in
  match filter (fun e => qleb (cur - pi) e && qltb e (cur + ni)) est with
  | [e] => let off := e - cur in if qltb off 0 then off / pi else off / ni
  | _ => 1
  end.
Fixpoint goto_interior (l : list Q) (est : list Q) : list Q :=
  match l with
  | a :: t => match t with
              | b :: c :: _ => goto_beat_error a b c est :: goto_interior t est
              | _ => []
              end
  | [] => []
  end.
(* the array beat_error after the loop (np.ones with the interior entries overwritten) *)
Definition goto_beat_errors (ref est : list Q) : list Q :=
  match ref with
  | [] => []
  | [_] => [1]
  | _ => 1 :: goto_interior ref est ++ [1]
  end.
Fixpoint flatnonzero_from (i : nat) (l : list bool) : list nat :=
  match l with [] => [] | b :: t => if b then i :: flatnonzero_from (S i) t else flatnonzero_from (S i) t end.
Definition flatnonzero (l : list bool) : list nat := flatnonzero_from 0 l.
Definition nat_diffs (l : list nat) : list nat := map (fun ab => (snd ab - fst ab)%nat) (combine l (tl l)).
Definition nat_max (l : list nat) : nat := fold_right Nat.max 0%nat l.
(* None = no track (goto_criteria stays 0) *)
Definition goto_track (nref : nat) (be : list Q) (inc : list nat) : res (option (list Q)) :=
  if (length inc <? 3)%nat then
    match inc with
    | [] => Raise IndexError                                        (* incorrect_beats[0] on an empty array *)
    | i0 :: _ => Ok (Some (py_slice (Z.of_nat i0 + 1) (Z.of_nat (last inc 0%nat) - 1) be))
    end
  else
    let d := nat_diffs inc in
    let track_len := nat_max d in
    match find_idx (Nat.eqb track_len) d with
    | None => Raise IndexError
    | Some ts =>
        if qltb ((1#4) * (qnat nref - 2)) (qnat track_len - 1)
        then Ok (Some (py_slice (Z.of_nat (nth ts inc 0%nat)) (Z.of_nat (nth (S ts) inc 0%nat) + 1) be))
        else Ok None
    end.
(* np.mean(np.abs(track)) < mu and np.std(track, ddof=1) < sigma *)
Definition goto_stats_ok (track : list Q) (mu sigma : Q) : bool :=
  match track with
  | [] => false
  | [_] => false
  | _ =>
      let n := qnat (length track) in
      let m := qsum track / n in
      let v := qsum (map (fun x => (x - m) * (x - m)) track) / (n - 1) in
      qltb (qsum (map Qabs track) / n) mu && qltb 0 sigma && qltb v (sigma * sigma)
  end.
Definition goto (ref est : list Q) (thr mu sigma : Q) : res Q :=
  _ <- validate ref est ;;
  if is_nil est || is_nil ref then Ok 0
  else
    let be := goto_beat_errors ref est in
    let inc := flatnonzero (map (fun e => qltb thr (Qabs e)) be) in
    tr <- goto_track (length ref) be inc ;;
    match tr with
    | Some track => Ok (if goto_stats_ok track mu sigma then 1 else 0)
    | None => Ok 0
    end.

(* ---------------------------------------------------------------- p_score *)
Fixpoint zins (x : Z) (l : list Z) : list Z :=
  match l with [] => [x] | y :: t => if (x <? y)%Z then x :: l else if (x =? y)%Z then l else y :: zins x t end.
(* np.flatnonzero(train): the occupied bins, increasing, without repetition *)
Definition occupied (b : list Z) : list Z := fold_left (fun acc x => zins x acc) b [].
(* np.ceil(beats * sampling_rate).astype(int) after re-basing at `offset` *)
Definition beat_bins (offset : Q) (l : list Q) : list Z := map (fun t => Qceiling ((t - offset) * 100)) l.
Definition z_diffs (l : list Z) : list Z := map (fun ab => (snd ab - fst ab)%Z) (combine l (tl l)).
Definition count_pairs (lo hi : Z) (rb eb : list Z) : nat :=
  length (filter (fun ij => (lo <=? fst ij - snd ij)%Z && (fst ij - snd ij <=? hi)%Z) (list_prod rb eb)).
(* sum of np.correlate(ref_train, est_train, 'full')[mid - win : mid + win + 1], trains of length mid + 1 *)
Definition corr_window_sum (mid win : Z) (rb eb : list Z) : nat :=
  let n := (2 * mid + 1)%Z in
  let s := py_norm n (mid - win) in let e := py_norm n (mid + win + 1) in
  count_pairs (s - mid) (e - 1 - mid) rb eb.
Definition pscore_win (thr : Q) (rb : list Z) : option Z :=
  match z_diffs rb with
  | [] => None
  | d => Some (round_half_even (thr * median_ne (map inject_Z d)))
  end.
Definition p_score (ref est : list Q) (thr : Q) : res Q :=
  _ <- validate ref est ;;
  match ref, est with
  | r0 :: _ :: _, e0 :: _ :: _ =>
      let offset := Qmin (fold_left Qmin est e0) (fold_left Qmin ref r0) in
      let end_point := Qceiling (Qmax (fold_left Qmax est e0 - offset) (fold_left Qmax ref r0 - offset)) in
      let rb := occupied (beat_bins offset ref) in
      let eb := occupied (beat_bins offset est) in
      match pscore_win thr rb with
      | None => Raise ValueError                                  (* int(nan) *)
      | Some win =>
          Ok (qnat (corr_window_sum (end_point * 100) win rb eb) / qnat (Nat.max (length est) (length ref)))
      end
  | _, _ => Ok 0
  end.

(* ---------------------------------------------------------------- continuity *)
(* the nearest annotation: index, distance, the annotation before it, itself, the one after it *)
Record cand := mk_cand { c_idx : nat; c_diff : Q; c_prev : option Q; c_val : Q; c_next : option Q }.
Fixpoint scan (x : Q) (i : nat) (prev : Q) (l : list Q) (best : cand) : cand :=
  match l with
  | [] => best
  | v :: t => let d := Qabs (x - v) in
      scan x (S i) v t (if qltb d (c_diff best) then mk_cand i d (Some prev) v (hd_error t) else best)
  end.
(* np.argmin(np.abs(x - var)) (first minimum) on the non-empty variation v0 :: vt *)
Definition nearest (x v0 : Q) (vt : list Q) : cand :=
  scan x 1 v0 vt (mk_cand 0 (Qabs (x - v0)) None v0 (hd_error vt)).
Definition ratio_ok (d ei ri pth qth : Q) : bool := qltb (Qabs (d / ri)) pth && qltb (Qabs (1 - ei / ri)) qth.
(* is estimated beat ecur (eprev = None iff m = 0, enext = None iff it is the last one) a success w.r.t. c? *)
Definition cont_success (eprev : option Q) (ecur : Q) (enext : option Q) (c : cand) (pth qth : Q) : bool :=
  match eprev, c_idx c with
  | Some ep, S _ =>
      (* neither the first beat nor the first annotation: look backward *)
      match c_prev c with
      | Some vp => let ri := c_val c - vp in
                   if qeqb ri 0 then false else ratio_ok (c_diff c) (ecur - ep) ri pth qth
      | None => false
      end
  | _, _ =>
      let ri := match c_next c with
                | Some vn => vn - c_val c
                | None => c_val c - match c_prev c with Some vp => vp | None => c_val c end
                end in
      let ei := match enext with
                | Some en => en - ecur
                | None => ecur - match eprev with Some ep => ep | None => ecur end
                end in
      if qeqb ri 0
      then (* phase = 1 or inf, period = 0 or inf *)
           qeqb (c_diff c) 0 && qltb 1 pth && qeqb ei 0 && qltb 0 qth
      else ratio_ok (c_diff c) ei ri pth qth
  end.
Fixpoint cont_loop (v0 : Q) (vt : list Q) (pth qth : Q) (eprev : option Q) (est : list Q) (used : list nat)
  : list bool :=
  match est with
  | [] => []
  | e :: t =>
      let c := nearest e v0 vt in
      let ok := negb (existsb (Nat.eqb (c_idx c)) used) && cont_success eprev e (hd_error t) c pth qth in
      ok :: cont_loop v0 vt pth qth (Some e) t (if ok then c_idx c :: used else used)
  end.
(* np.diff of the indices of the zeros of l, given `cur` ones since the last zero *)
Fixpoint gaps (cur : nat) (l : list bool) : list nat :=
  match l with [] => [] | true :: t => gaps (S cur) t | false :: t => S cur :: gaps 0 t end.
Definition count_true (l : list bool) : nat := length (filter (fun b => b) l).
(* (continuous_accuracy, total_accuracy) for one variation *)
Definition continuity_var (var est : list Q) (pth qth : Q) : res (Q * Q) :=
  match var with
  | [] => Raise ValueError                                         (* np.argmin of an empty array *)
  | v0 :: vt =>
      let n_ann := Nat.max (length var) (length est) in
      let succ := cont_loop v0 vt pth qth None est [] ++ repeat false (n_ann - length est) in
      (* np.append(np.append(0, beat_successes), 0): the leading zero is the first failure *)
      let longest := (nat_max (gaps 0 (succ ++ [false])) - 1)%nat in
      Ok (qnat longest / qnat n_ann, qnat (count_true succ) / qnat n_ann)
  end.
Fixpoint map_res {A B} (f : A -> res B) (l : list A) : res (list B) :=
  match l with [] => Ok [] | x :: t => y <- f x ;; ys <- map_res f t ;; Ok (y :: ys) end.
(* (CMLc, CMLt, AMLc, AMLt) *)
Definition continuity (ref est : list Q) (pth qth : Q) : res (Q * Q * Q * Q) :=
  _ <- validate ref est ;;
  if (length est <=? 1)%nat || (length ref <=? 1)%nat then Ok (0, 0, 0, 0)
  else
    rs <- map_res (fun v => continuity_var v est pth qth) (variations ref) ;;
    match rs with
    | (c0, t0) :: rest => Ok (c0, t0, fold_left Qmax (map fst rest) c0, fold_left Qmax (map snd rest) t0)
    | [] => Raise IndexError
    end.

(* ---------------------------------------------------------------- information_gain (exact skeleton) *)
(* beat_error[n] of _get_entropy for the estimated beat x against the reference r0 :: rt (at least two beats);
   None = a non-finite value (division by a zero interval; np.histogram ignores nan).
   The interval is half the inter-annotation interval next to the closest annotation: the first one when the first
   annotation is closest, the last one when the last annotation is closest, otherwise the one on the side of the
   beat (previous interval when the error is negative, next interval otherwise). *)
Definition ig_error (x r0 : Q) (rt : list Q) : option Q :=
  let c := nearest x r0 rt in
  let err := x - c_val c in
  let interval :=
    if (c_idx c =? 0)%nat
    then (1#2) * (match c_next c with Some nx => nx | None => c_val c end - c_val c)
    else if (c_idx c =? length rt)%nat || qltb err 0
    then (1#2) * (c_val c - match c_prev c with Some p => p | None => c_val c end)
    else (1#2) * (match c_next c with Some nx => nx | None => c_val c end - c_val c) in
  if qeqb interval 0 then None else Some ((1#2) * err / interval).
(* np.mod(e + 0.5, -1) + 0.5, in (-1/2, 1/2] *)
Definition ig_wrap (e : Q) : Q := e + 1 + inject_Z (Qfloor (- e - (1#2))).
(* index of the np.histogram bin of x for the edges np.linspace(-0.5, 0.5, bins + 1) (last bin closed) *)
Definition ig_bin (bins : nat) (x : Q) : nat := Nat.min (Z.to_nat (Qfloor ((x + (1#2)) * qnat bins))) (bins - 1).
Definition ig_counts (bins : nat) (errs : list (option Q)) : list nat :=
  let idx := flat_map (fun o => match o with Some e => [ig_bin bins (ig_wrap e)] | None => [] end) errs in
  map (fun k => length (filter (Nat.eqb k) idx)) (seq 0 bins).
(* raw_bin_values of _get_entropy(ref, est, bins) *)
Definition entropy_counts (ref est : list Q) (bins : nat) : res (list nat) :=
  match ref with
  | r0 :: r1 :: rt => Ok (ig_counts bins (map (fun x => ig_error x r0 (r1 :: rt)) est))
  | _ => Raise IndexError
  end.
(* None = the early return 0.0; otherwise the forward and the backward histogram (bins >= 1) *)
Definition information_gain_counts (ref est : list Q) (bins : nat) : res (option (list nat * list nat)) :=
  _ <- validate ref est ;;
  if (length est <=? 1)%nat || (length ref <=? 1)%nat then Ok None
  else f <- entropy_counts ref est bins ;; b <- entropy_counts est ref bins ;; Ok (Some (f, b)).
Definition information_gain_warns (ref est : list Q) (bins : nat) : list bwarn :=
  validate_warns ref est ++
  match validate ref est with
  | Ok _ => (if Nat.even bins then [W_bins_even] else []) ++ (if len1 ref then [W_ref_one] else []) ++ (if len1 est then [W_est_one] else [])
  | Raise _ => [] end.
