(* Frame-clustering (labelling) metrics of mir_eval/segment.py on the two frame label index sequences
   y_ref, y_est : list nat  (= util.index_labels(util.intervals_to_samples(...)[-1])[0]), and util.index_labels
   itself.  Exact rationals; NumPy's non-raising float division is explicit (xval); Python-level divisions that
   could raise are explicit `Raise ZeroDivisionError`; NumPy broadcasting of agreement matrices of different
   sizes ((n,n) with (1,1)) and its ValueError are explicit.  Definitions only.

   Scope notes (what is NOT modelled):
   * str.lower() is modelled on code points < 256 (ASCII A-Z and Latin-1 À-Þ except ×, checked exhaustively
     against Python by the unit index_labels); code points >= 256 are left unchanged by the model.
   * labels are `str` objects (str(s) = s).
   * float overflow / rounding (counts are small integers: every intermediate below is exact in binary64
     except the final quotients, which the units compare at 1e-9). *)
From Coq Require Import List Bool Arith ZArith QArith Qabs.
From ME Require Import Model.Prelude.
Import ListNotations.
Local Open Scope nat_scope.

(* ------------------------------------------------------------------------------------------------ *)
(* util.index_labels                                                                                 *)
(* ------------------------------------------------------------------------------------------------ *)
Definition lower_char (c : nat) : nat :=
  if ((65 <=? c) && (c <=? 90)) || ((192 <=? c) && (c <=? 222) && negb (c =? 215)) then c + 32 else c.
Definition lower (s : str) : str := map lower_char s.

(* Python's < on str: lexicographic on code points, a proper prefix is smaller *)
Fixpoint str_ltb (a b : str) : bool :=
  match a, b with
  | [], [] => false
  | [], _ :: _ => true
  | _ :: _, [] => false
  | x :: a', y :: b' => (x <? y) || ((x =? y) && str_ltb a' b')
  end.
(* sorted(set(labels)) *)
Fixpoint ins_str (s : str) (l : list str) : list str :=
  match l with
  | [] => [s]
  | t :: r => if str_ltb s t then s :: l else if seqb s t then l else t :: ins_str s r
  end.
Definition sorted_set (l : list str) : list str := fold_right ins_str [] l.

Fixpoint mapM {A B} (f : A -> res B) (l : list A) : res (list B) :=
  match l with
  | [] => Ok []
  | x :: t => y <- f x ;; ys <- mapM f t ;; Ok (y :: ys)
  end.
(* label_to_index[s]: a dict lookup (KeyError when absent; index_labels_total shows it never is) *)
Definition label_index (U : list str) (s : str) : res nat :=
  match find_idx (seqb s) U with Some i => Ok i | None => Raise KeyError end.
(* returns (indices, index_to_label) ; index_to_label as the list  index |-> label *)
Definition index_labels_cs (case_sensitive : bool) (labels : list str) : res (list nat * list str) :=
  let ls := if case_sensitive then labels else map lower labels in
  let U := sorted_set ls in
  idx <- mapM (label_index U) ls ;; Ok (idx, U).
Definition index_labels (labels : list str) : res (list nat * list str) := index_labels_cs false labels.

(* ------------------------------------------------------------------------------------------------ *)
(* _contingency_matrix                                                                               *)
(* ------------------------------------------------------------------------------------------------ *)
(* np.unique: sorted distinct values *)
Fixpoint ins_nat (x : nat) (l : list nat) : list nat :=
  match l with
  | [] => [x]
  | y :: r => if x <? y then x :: l else if x =? y then l else y :: ins_nat x r
  end.
Definition uniq (l : list nat) : list nat := fold_right ins_nat [] l.
(* return_inverse: position of x in the unique array (total in NumPy; `length U` = "nowhere" if absent) *)
Definition class_idx (U : list nat) (x : nat) : nat :=
  match find_idx (Nat.eqb x) U with Some i => i | None => length U end.
Definition count_pair (i j : nat) (z : list (nat * nat)) : nat :=
  length (filter (fun p => (fst p =? i) && (snd p =? j)) z).
(* coo_matrix((ones, (ref_class_idx, est_class_idx)), shape=(R, C)).toarray(): duplicates are summed *)
Definition contingency_tab (yr ye : list nat) : list (list nat) :=
  let U := uniq yr in let V := uniq ye in
  let z := combine (map (class_idx U) yr) (map (class_idx V) ye) in
  map (fun i => map (fun j => count_pair i j z) (seq 0 (length V))) (seq 0 (length U)).
(* coo_matrix raises ValueError when the index arrays have different lengths *)
Definition contingency (yr ye : list nat) : res (list (list nat)) :=
  if length yr =? length ye then Ok (contingency_tab yr ye) else Raise ValueError.

Definition nsum (l : list nat) : nat := fold_right Nat.add 0 l.
Definition row_sums (m : list (list nat)) : list nat := map nsum m.                       (* sum(axis=1) *)
Definition col_sums (C : nat) (m : list (list nat)) : list nat :=                         (* sum(axis=0) *)
  map (fun j => nsum (map (fun r => nth j r 0) m)) (seq 0 C).
Definition transpose (C : nat) (m : list (list nat)) : list (list nat) :=
  map (fun j => map (fun r => nth j r 0) m) (seq 0 C).

(* ------------------------------------------------------------------------------------------------ *)
(* IEEE arithmetic on the value domain (no signed zeros arise: every zero divisor below is +0.0)      *)
(* ------------------------------------------------------------------------------------------------ *)
Definition xmul (a b : xval) : xval :=
  match a, b with
  | NaN, _ | _, NaN => NaN
  | Fin x, Fin y => Fin (x * y)%Q
  | Fin x, PInf | PInf, Fin x => if qeqb x 0%Q then NaN else if qltb 0%Q x then PInf else NInf
  | Fin x, NInf | NInf, Fin x => if qeqb x 0%Q then NaN else if qltb 0%Q x then NInf else PInf
  | PInf, PInf | NInf, NInf => PInf
  | PInf, NInf | NInf, PInf => NInf
  end.
Definition xadd (a b : xval) : xval :=
  match a, b with
  | NaN, _ | _, NaN => NaN
  | Fin x, Fin y => Fin (x + y)%Q
  | PInf, NInf | NInf, PInf => NaN
  | PInf, _ | _, PInf => PInf
  | NInf, _ | _, NInf => NInf
  end.
Definition xdivx (a b : xval) : xval :=
  match a, b with
  | NaN, _ | _, NaN => NaN
  | Fin x, Fin y => xdiv x y
  | Fin _, PInf | Fin _, NInf => Fin 0%Q
  | PInf, Fin y => if qltb y 0%Q then NInf else PInf
  | NInf, Fin y => if qltb y 0%Q then PInf else NInf
  | _, _ => NaN
  end.
(* util.f_measure on np.float64 arguments (the division is NumPy's: nan/inf instead of an exception) *)
Definition xis_zero (a : xval) : bool := match a with Fin x => qeqb x 0%Q | _ => false end.
Definition xf_measure (p r : xval) (beta : Q) : xval :=
  if xis_zero p && xis_zero r then Fin 0%Q
  else xdivx (xmul (xmul (Fin (1 + beta * beta)%Q) p) r) (xadd (xmul (Fin (beta * beta)%Q) p) r).

(* ------------------------------------------------------------------------------------------------ *)
(* pairwise / rand_index: agreement matrices                                                          *)
(* ------------------------------------------------------------------------------------------------ *)
Definition bmat := list (list bool).
Definition agree (y : list nat) : bmat := map (fun a => map (fun b => a =? b) y) y.    (* np.equal.outer(y, y) *)
Definition bnot (m : bmat) : bmat := map (map negb) m.                                     (* ~m *)
Definition bcount (l : list bool) : nat := length (filter (fun b => b) l).
Definition msum (m : bmat) : nat := nsum (map bcount m).                                   (* m.sum() *)
Fixpoint zip_with {A B C} (f : A -> B -> C) (a : list A) (b : list B) : list C :=
  match a, b with x :: a', y :: b' => f x y :: zip_with f a' b' | _, _ => [] end.
(* np.logical_and of an (n,n) and an (m,m) matrix: elementwise when n = m; a (1,1) operand is broadcast;
   otherwise "operands could not be broadcast together" (ValueError) *)
Definition logical_and (A B : bmat) : res bmat :=
  if length A =? length B then Ok (zip_with (zip_with andb) A B)
  else match B with
       | [[b]] => Ok (map (map (fun a => a && b)) A)
       | _ => match A with
              | [[a]] => Ok (map (map (fun b => a && b)) B)
              | _ => Raise ValueError
              end
       end.
Definition nQ (n : nat) : Q := inject_Z (Z.of_nat n).
(* (m.sum() - len(y)) / 2.0 *)
Definition half_excess (s n : nat) : Q := (inject_Z (Z.of_nat s - Z.of_nat n) / 2)%Q.

Definition pairwise_idx (yr ye : list nat) (beta : Q) : res (xval * xval * xval) :=
  let agree_ref := agree yr in
  let n_agree_ref := half_excess (msum agree_ref) (length yr) in
  let agree_est := agree ye in
  let n_agree_est := half_excess (msum agree_est) (length ye) in
  matches <- logical_and agree_ref agree_est ;;
  let n_matches := half_excess (msum matches) (length yr) in
  let precision := xdiv n_matches n_agree_est in
  let recall := xdiv n_matches n_agree_ref in
  Ok (precision, recall, xf_measure precision recall beta).

Definition rand_idx (yr ye : list nat) : res xval :=
  let agree_ref := agree yr in
  let agree_est := agree ye in
  matches_pos <- logical_and agree_ref agree_est ;;
  matches_neg <- logical_and (bnot agree_ref) (bnot agree_est) ;;
  let n := Z.of_nat (length yr) in
  let n_pairs := (inject_Z (n * (n - 1)) / 2)%Q in
  let n_matches_pos := half_excess (msum matches_pos) (length yr) in
  let n_matches_neg := (nQ (msum matches_neg) / 2)%Q in
  Ok (xdiv (n_matches_pos + n_matches_neg)%Q n_pairs).

(* ------------------------------------------------------------------------------------------------ *)
(* _adjusted_rand_index                                                                               *)
(* ------------------------------------------------------------------------------------------------ *)
Definition comb2 (n : nat) : nat := n * (n - 1) / 2.               (* scipy.special.comb(n, 2, exact=1) *)
Definition ari_special (n R C : nat) : bool :=
  ((R =? C) && (C =? 1)) || ((R =? C) && (C =? 0)) || ((R =? C) && (C =? n)).
Definition ari_idx (yr ye : list nat) : res Q :=
  let n := length yr in
  let R := length (uniq yr) in
  let C := length (uniq ye) in
  if ari_special n R C then Ok 1%Q
  else
    m <- contingency yr ye ;;
    let sum_comb_c := nsum (map comb2 (row_sums m)) in
    let sum_comb_k := nsum (map comb2 (col_sums C m)) in
    let sum_comb := nsum (map comb2 (concat m)) in
    (* int / float(comb(n, 2)) : Python division *)
    if comb2 n =? 0 then Raise ZeroDivisionError
    else
      let prod_comb := (nQ (sum_comb_c * sum_comb_k) / nQ (comb2 n))%Q in
      let mean_comb := (nQ (sum_comb_k + sum_comb_c) / 2)%Q in
      (* float / float : Python division *)
      if qeqb (mean_comb - prod_comb)%Q 0%Q then Raise ZeroDivisionError
      else Ok ((nQ sum_comb - prod_comb) / (mean_comb - prod_comb))%Q.

(* ------------------------------------------------------------------------------------------------ *)
(* validate_structure on (n,2) interval arrays (rows as pairs) and the label counts                    *)
(* ------------------------------------------------------------------------------------------------ *)
Definition np_atol : Q := (3022314549036573 # 302231454903657293676544)%Q.     (* the binary64 1e-08 *)
Definition np_rtol : Q := (5902958103587057 # 590295810358705651712)%Q.        (* the binary64 1e-05 *)
(* np.allclose(a, b) on finite scalars: |a - b| <= atol + rtol * |b| *)
Definition allclose (a b : Q) : bool := qleb (Qabs (a - b)) (np_atol + np_rtol * Qabs b)%Q.
Definition flat (iv : list (Q * Q)) : list Q := flat_map (fun p => [fst p; snd p]) iv.
Definition validate_intervals (iv : list (Q * Q)) : res unit :=
  if existsb (fun x => qltb x 0%Q) (flat iv) then Raise ValueError
  else if existsb (fun p => qleb (snd p) (fst p)) iv then Raise ValueError
  else Ok tt.
Definition validate_one (iv : list (Q * Q)) (nlabels : nat) : res unit :=
  _ <- validate_intervals iv ;;
  if negb (length iv =? nlabels) then Raise ValueError
  else match qmin_list (flat iv) with
       | Some m => if allclose m 0%Q then Ok tt else Raise ValueError
       | None => Ok tt
       end.
Definition validate_structure (ri : list (Q * Q)) (nrl : nat) (ei : list (Q * Q)) (nel : nat) : res unit :=
  _ <- validate_one ri nrl ;;
  _ <- validate_one ei nel ;;
  match qmax_list (flat ri), qmax_list (flat ei) with
  | Some a, Some b => if allclose a b then Ok tt else Raise ValueError
  | _, _ => Ok tt
  end.
Definition is_empty {A} (l : list A) : bool := match l with [] => true | _ => false end.

(* ------------------------------------------------------------------------------------------------ *)
(* public wrappers after validate_structure: `empty` = reference_intervals.size == 0 or
   estimated_intervals.size == 0; otherwise the frame index sequences of the two annotations           *)
(* ------------------------------------------------------------------------------------------------ *)
Definition pairwise_pub (empty : bool) (yr ye : list nat) (beta : Q) : res (xval * xval * xval) :=
  if empty then Ok (Fin 0%Q, Fin 0%Q, Fin 0%Q) else pairwise_idx yr ye beta.
Definition rand_index_pub (empty : bool) (yr ye : list nat) : res xval :=
  if empty then Ok (Fin 0%Q) else rand_idx yr ye.
Definition ari_pub (empty : bool) (yr ye : list nat) : res Q :=
  if empty then Ok 0%Q else ari_idx yr ye.
(* the public functions, given the annotations' intervals, label counts and the frame index sequences that
   util.index_labels(util.intervals_to_samples(...)[-1])[0] yields for them *)
Definition pairwise_full ri nrl ei nel (yr ye : list nat) (beta : Q) : res (xval * xval * xval) :=
  _ <- validate_structure ri nrl ei nel ;; pairwise_pub (is_empty ri || is_empty ei) yr ye beta.
Definition rand_index_full ri nrl ei nel (yr ye : list nat) : res xval :=
  _ <- validate_structure ri nrl ei nel ;; rand_index_pub (is_empty ri || is_empty ei) yr ye.
Definition ari_full ri nrl ei nel (yr ye : list nat) : res Q :=
  _ <- validate_structure ri nrl ei nel ;; ari_pub (is_empty ri || is_empty ei) yr ye.

(* ------------------------------------------------------------------------------------------------ *)
(* Skeleton of the entropic scores (MI, AMI, NMI, NCE over/under/F, V): everything the code computes    *)
(* before a logarithm is taken                                                                        *)
(* ------------------------------------------------------------------------------------------------ *)
Record skeleton := { sk_tab : list (list nat);      (* contingency *)
                     sk_a : list nat;               (* pi = contingency.sum(axis=1) *)
                     sk_b : list nat;               (* pj = contingency.sum(axis=0) *)
                     sk_N : nat }.                  (* contingency.sum() = len(y_ref) *)
Definition mi_skeleton (yr ye : list nat) : res skeleton :=
  m <- contingency yr ye ;;
  Ok {| sk_tab := m; sk_a := row_sums m; sk_b := col_sums (length (uniq ye)) m; sk_N := nsum (concat m) |}.
(* _entropy(labels): 1.0 for an empty labelling, else -sum (c/N)(ln c - ln N) over the class counts c > 0 *)
Definition class_counts (y : list nat) : list nat :=
  map (fun u => length (filter (Nat.eqb u) y)) (uniq y).                (* np.bincount(label_idx), all > 0 *)
Definition entropy_is_one_by_convention (y : list nat) : bool := length y =? 0.
(* special limit cases of _adjusted_mutual_info_score and _normalized_mutual_info_score: return 1.0 *)
Definition mi_special (yr ye : list nat) : bool :=
  let R := length (uniq yr) in let C := length (uniq ye) in
  ((R =? C) && (C =? 1)) || ((R =? C) && (C =? 0)).
(* expected mutual information: for each cell the code sums nij over range(start[i,j], end[i,j]) with
   start = max(a_i - N + b_j, 1), end = min(a_i, b_j) + 1 *)
Definition emi_range (N a b : nat) : Z * Z :=
  (Z.max (Z.of_nat a - Z.of_nat N + Z.of_nat b) 1, Z.min (Z.of_nat a) (Z.of_nat b) + 1)%Z.
Definition emi_ranges (yr ye : list nat) : res (list (list (Z * Z))) :=
  s <- mi_skeleton yr ye ;;
  Ok (map (fun a => map (fun b => emi_range (length yr) a b) (sk_b s)) (sk_a s)).
(* the nij values of one cell, in the order of the loop *)
Definition emi_nijs (rg : Z * Z) : list Z :=
  map (fun k => (fst rg + Z.of_nat k)%Z) (seq 0 (Z.to_nat (snd rg - fst rg))).
(* nce: normalisers for marginal=False are log2 of the table shape; the score is forced to 0 when z <= 0 *)
Definition nce_shape (yr ye : list nat) : nat * nat := (length (uniq yr), length (uniq ye)).
