(* A small deep-embedded Python sub-language WITH A HEAP, for the event matcher of mir_eval/util.py
   (_outer_distance_mod_n, _fast_hit_windows, match_events, _bipartite_match and its nested closure `recurse`).
   Definitions only.  translator/matchfuncs.py maps the syntax of each function body to an [fdef]
   (Gen/MatchGen.v); what the syntax means is decided HERE; Proofs/MatchTie*.v prove the generated programs
   equal to the hand-written model (Model/Events.v, Model/Matching.v).

   Reading of Python
   * Lists and dicts are OBJECTS in a heap ([OList], [ODict]); a value of list / dict type is a reference
     [VRef a].  Aliasing, mutation through any alias (x.append, d[k] = v, del d[k], d.setdefault(k, []).append(u)),
     identity (`is`) and closures that mutate objects of the enclosing function are therefore read exactly as
     CPython does.  Allocation is at the end of the heap; nothing is ever freed.
   * A dict is an insertion-ordered association list (Model/Dict.v): overwriting keeps the position, `del`
     removes, a new key goes to the end.  Keys are non-negative integers (Python int and np.int64 hash and
     compare alike); any other key is outside the model ([UNM]).
   * A `for` loop over a list / dict object iterates over the elements / keys present when the loop starts, and
     before every iteration (and before leaving) checks that the elements / keys of that object are still the
     same; if not the result is [UNM] (CPython would continue with the modified list, or raise RuntimeError for
     a dict whose size changed).  So whenever this evaluator gives a result, CPython's live iteration gives the same.
   * Immutable sequences (tuples, the results of zip / enumerate / d.items() which the translator only accepts
     where they are consumed at once) are [VTup]; [VFDict] is a dict the program may only read (a frozen input:
     every mutation and every identity test on it is [UNM]).
   * Numbers: a float is an exact rational (DESIGN 2.1).  Python int and np.int64 are both [VInt] (no division
     in this fragment).  Float arrays are [VVec] / [VMat c rows], index arrays [VIVec], boolean matrices [VBMat].
   * np.argsort is read as a STABLE sort (NumPy's default quicksort is only stable for short arrays; with
     distinct values there is no difference); np.searchsorted as "number of leading elements < x (<= x)", its
     meaning on a sorted array.
   * Nested def: [SDef] binds the local to a closure; a call runs the nested body with its own locals in front
     of the frame of the enclosing function AS IT IS AT CALL TIME (Python's cells); the nested function can read
     those names and mutate the objects they hold, it cannot rebind them (no nonlocal in the fragment).
   * `while` and calls of closures consume fuel; [FUEL] = out of fuel. *)
From Coq Require Import String.
From Coq Require Import List Bool Arith ZArith QArith Qabs Qminmax.
From ME Require Import Model.Prelude Model.Dict Model.Events.
Import ListNotations.

Inductive out (A : Type) := OK (a : A) | EXN (e : exn) | UNM | FUEL.
Arguments OK {A}. Arguments EXN {A}. Arguments UNM {A}. Arguments FUEL {A}.
Definition obind {A B} (r : out A) (f : A -> out B) : out B :=
  match r with OK a => f a | EXN e => EXN e | UNM => UNM | FUEL => FUEL end.
Notation "x <~ r ;; k" := (obind r (fun x => k)) (at level 61, r at next level, right associativity).
Definition of_opt {A} (o : option A) : out A := match o with Some a => OK a | None => UNM end.

Inductive val :=
| VNone | VBool (b : bool) | VInt (z : Z) | VFloat (q : Q) | VStr (s : string)
| VTup (l : list val)
| VFDict (d : dict val)
| VRef (a : nat)
| VVec (l : list Q) | VIVec (l : list Z) | VMat (c : nat) (m : list (list Q)) | VBMat (c : nat) (m : list (list bool))
| VFun (f : string) | VClos (f : string)
| VSqrt (z : Z)                  (* np.sqrt of the integer z >= 0, kept exact: only int() is defined on it *)
| VUnbound.
Definition VNat (n : nat) : val := VInt (Z.of_nat n).

Inductive obj := OList (l : list val) | ODict (d : dict val).
Definition heap := list obj.
Definition hget (h : heap) (a : nat) : option obj := nth_error h a.
Definition halloc (h : heap) (o : obj) : heap * nat := (h ++ [o], List.length h).
Fixpoint set_nth {A} (l : list A) (i : nat) (v : A) : list A :=
  match l, i with [], _ => [] | _ :: t, O => v :: t | x :: t, S j => x :: set_nth t j v end.
Definition hset (h : heap) (a : nat) (o : obj) : heap := set_nth h a o.

(* ------------------------------------------------------------------ scalars *)
Definition zq (z : Z) : Q := inject_Z z.
Definition b2z (b : bool) : Z := if b then 1%Z else 0%Z.
Definition as_num (v : val) : option Q :=
  match v with VBool b => Some (zq (b2z b)) | VInt z => Some (zq z) | VFloat q => Some q | _ => None end.
Definition as_key (v : val) : option nat :=
  match v with VInt z => if (0 <=? z)%Z then Some (Z.to_nat z) else None | _ => None end.
Definition as_nat := as_key.

(* identical immutable values (used only to check that an iterated object has not changed) *)
Fixpoint veqb (a b : val) {struct a} : bool :=
  match a with
  | VNone => match b with VNone => true | _ => false end
  | VBool x => match b with VBool y => Bool.eqb x y | _ => false end
  | VInt x => match b with VInt y => Z.eqb x y | _ => false end
  | VRef x => match b with VRef y => Nat.eqb x y | _ => false end
  | VTup l =>
      match b with
      | VTup l' => (fix go (l l' : list val) {struct l} : bool :=
                      match l with
                      | [] => match l' with [] => true | _ :: _ => false end
                      | x :: t => match l' with [] => false | y :: t' => veqb x y && go t t' end
                      end) l l'
      | _ => false end
  | _ => false
  end.
Fixpoint list_veqb (l l' : list val) : bool :=
  match l with
  | [] => match l' with [] => true | _ :: _ => false end
  | x :: t => match l' with [] => false | y :: t' => veqb x y && list_veqb t t' end
  end.
Definition obj_elems (o : obj) : list val :=
  match o with OList l => l | ODict d => map (fun kv => VNat (fst kv)) d end.

Definition obj_truth (o : obj) : bool := match o with OList [] | ODict [] => false | _ => true end.
Definition truth (h : heap) (v : val) : out bool :=
  match v with
  | VNone => OK false | VBool b => OK b | VInt z => OK (negb (Z.eqb z 0)) | VFloat q => OK (negb (qeqb q 0))
  | VTup l => OK (match l with [] => false | _ => true end)
  | VFDict d => OK (match d with [] => false | _ => true end)
  | VRef a => match hget h a with Some o => OK (obj_truth o) | None => UNM end
  | VFun _ | VClos _ => OK true
  | _ => UNM
  end.

(* a is b *)
Definition is_op (a b : val) : out bool :=
  match a with
  | VNone => match b with VNone => OK true | VFDict _ | VUnbound => UNM | _ => OK false end
  | VRef x => match b with VRef y => OK (Nat.eqb x y) | VFDict _ | VUnbound | VTup _ => UNM | _ => OK false end
  | VInt _ | VBool _ | VFloat _ => match b with VNone | VRef _ => OK false | _ => UNM end
  | VFun _ | VClos _ => match b with VNone | VRef _ => OK false | _ => UNM end
  | VVec _ | VIVec _ | VMat _ _ | VBMat _ _ => match b with VNone => OK false | _ => UNM end
  | _ => UNM
  end.

Inductive binop := Add | Sub | Mul.
Inductive cmpop := CEq | CNe | CLt | CLe | CGt | CGe | CIs | CIsNot | CIn | CNotIn.

Definition qcmp (op : cmpop) (x y : Q) : option bool :=
  match op with CEq => Some (qeqb x y) | CNe => Some (negb (qeqb x y)) | CLt => Some (qltb x y) | CLe => Some (qleb x y)
  | CGt => Some (qltb y x) | CGe => Some (qleb y x) | _ => None end.
Definition contains (h : heap) (k c : val) : out bool :=
  match c with
  | VFDict d => match as_key k with Some n => OK (dmem d n) | None => UNM end
  | VRef a => match hget h a with
              | Some (ODict d) => match as_key k with Some n => OK (dmem d n) | None => UNM end
              | _ => UNM end
  | _ => UNM
  end.
Definition cmp_op (h : heap) (op : cmpop) (a b : val) : out val :=
  match op with
  | CIs => t <~ is_op a b ;; OK (VBool t)
  | CIsNot => t <~ is_op a b ;; OK (VBool (negb t))
  | CIn => t <~ contains h a b ;; OK (VBool t)
  | CNotIn => t <~ contains h a b ;; OK (VBool (negb t))
  | _ =>
      match a with
      | VMat c m =>                                                  (* matrix <op> scalar: element-wise *)
          match as_num b with
          | Some y => match qcmp op 0 0 with
                      | Some _ => OK (VBMat c (map (map (fun x => match qcmp op x y with Some t => t | None => false end)) m))
                      | None => UNM end
          | None => UNM end
      | _ => match as_num a, as_num b with
             | Some x, Some y => of_opt (option_map VBool (qcmp op x y))
             | _, _ => UNM end
      end
  end.

Definition zarith (op : binop) (x y : Z) : Z :=
  match op with Add => (x + y)%Z | Sub => (x - y)%Z | Mul => (x * y)%Z end.
Definition qarith (op : binop) (x y : Q) : Q :=
  match op with Add => x + y | Sub => x - y | Mul => x * y end.
Definition bin_op (h : heap) (op : binop) (a b : val) : out (heap * val) :=
  match a with
  | VVec l => match as_num b with Some y => OK (h, VVec (map (fun x => qarith op x y) l)) | None => UNM end
  | VRef r =>                                                      (* list * int: a new list *)
      match op, hget h r, b with
      | Mul, Some (OList l), VInt n =>
          let (h', a') := halloc h (OList (concat (repeat l (Z.to_nat n)))) in OK (h', VRef a')
      | _, _, _ => UNM end
  | VInt x => match b with
              | VInt y => OK (h, VInt (zarith op x y))
              | VMat c m => OK (h, VMat c (map (map (fun e => qarith op (zq x) e)) m))
              | VFloat y => OK (h, VFloat (qarith op (zq x) y))
              | _ => UNM end
  | VFloat x => match b with
                | VInt y => OK (h, VFloat (qarith op x (zq y)))
                | VFloat y => OK (h, VFloat (qarith op x y))
                | VMat c m => OK (h, VMat c (map (map (fun e => qarith op x e)) m))
                | _ => UNM end
  | _ => UNM
  end.

(* a[i] *)
Definition nth_z {A} (l : list A) (z : Z) : option A :=
  if (0 <=? z)%Z then nth_error l (Z.to_nat z)
  else if (- Z.of_nat (List.length l) <=? z)%Z then nth_error l (Z.to_nat (Z.of_nat (List.length l) + z)) else None.
Fixpoint omap {A B} (f : A -> option B) (l : list A) : option (list B) :=
  match l with
  | [] => Some []
  | a :: t => match f a, omap f t with Some b, Some bs => Some (b :: bs) | _, _ => None end
  end.
Definition get_item (h : heap) (a i : val) : out val :=
  match a with
  | VFDict d => match as_key i with
                | Some n => match dget d n with Some v => OK v | None => EXN KeyError end
                | None => UNM end
  | VRef r =>
      match hget h r with
      | Some (ODict d) => match as_key i with
                          | Some n => match dget d n with Some v => OK v | None => EXN KeyError end
                          | None => UNM end
      | Some (OList l) => match i with
                          | VInt z => match nth_z l z with Some v => OK v | None => EXN IndexError end
                          | _ => UNM end
      | None => UNM end
  | VTup l => match i with
              | VInt z => match nth_z l z with Some v => OK v | None => EXN IndexError end
              | _ => UNM end
  | VVec l => match i with
              | VIVec idx => match omap (nth_z l) idx with Some r => OK (VVec r) | None => EXN IndexError end
              | _ => UNM end
  | _ => UNM
  end.
(* a[lo:hi], 0 <= lo, 0 <= hi *)
Definition slice {A} (l : list A) (lo hi : nat) : list A := firstn (hi - lo) (skipn lo l).
Definition get_slice (a lo hi : val) : out val :=
  match a, as_nat lo, as_nat hi with
  | VIVec l, Some x, Some y => OK (VIVec (slice l x y))
  | VVec l, Some x, Some y => OK (VVec (slice l x y))
  | _, _, _ => UNM
  end.

(* the elements a for loop / a constructor sees; for a heap object also its address *)
Definition iter_elems (h : heap) (v : val) : out (option nat * list val) :=
  match v with
  | VTup l => OK (None, l)
  | VFDict d => OK (None, map (fun kv => VNat (fst kv)) d)
  | VVec l => OK (None, map VFloat l)
  | VIVec l => OK (None, map VInt l)
  | VRef a => match hget h a with Some o => OK (Some a, obj_elems o) | None => UNM end
  | _ => UNM
  end.
Definition unchanged (h : heap) (src : option nat) (els : list val) : bool :=
  match src with
  | None => true
  | Some a => match hget h a with Some o => list_veqb (obj_elems o) els | None => false end
  end.

(* ------------------------------------------------------------------ builtins and NumPy *)
Fixpoint enum_from (n : Z) (l : list val) : list val :=
  match l with [] => [] | v :: t => VTup [VInt n; v] :: enum_from (n + 1)%Z t end.
Fixpoint zip2 (a b : list val) : list val :=
  match a, b with x :: a', y :: b' => VTup [x; y] :: zip2 a' b' | _, _ => [] end.
Fixpoint zipq (f : Q -> Q -> Q) (a b : list Q) : list Q :=
  match a, b with x :: a', y :: b' => f x y :: zipq f a' b' | _, _ => [] end.
Fixpoint zip_rows (f : Q -> Q -> Q) (a b : list (list Q)) : list (list Q) :=
  match a, b with x :: a', y :: b' => zipq f x y :: zip_rows f a' b' | _, _ => [] end.
(* np.where on a boolean matrix: row-major positions of the True cells *)
Definition where_rows (m : list (list bool)) : list (nat * nat) :=
  flat_map (fun ir : nat * list bool => flat_map (fun jb : nat * bool => if snd jb then [(fst ir, fst jb)] else [])
                               (combine (seq 0 (List.length (snd ir))) (snd ir)))
           (combine (seq 0 (List.length m)) m).
(* pairs of a list of 2-tuples with integer keys *)
Definition as_pair (v : val) : option (nat * val) :=
  match v with VTup [k; x] => match as_key k with Some n => Some (n, x) | None => None end | _ => None end.
(* sorted() of 2-tuples of non-negative integers: lexicographic (Events.sort_pairs is an insertion sort) *)
Definition as_nat_pair (v : val) : option (nat * nat) :=
  match v with
  | VTup [a; b] => match as_key a, as_key b with Some x, Some y => Some (x, y) | _, _ => None end
  | _ => None end.
Definition pair_val (p : nat * nat) : val := VTup [VNat (fst p); VNat (snd p)].
Definition lookup_kw (k : string) (kws : list (string * val)) : option val :=
  match find (fun kv => String.eqb k (fst kv)) kws with Some kv => Some (snd kv) | None => None end.

Local Open Scope string_scope.
Definition prim (f : string) (h : heap) (args : list val) (kws : list (string * val)) : out (heap * val) :=
  if f =? "np.mod" then
    match args, kws with
    | [VVec l; m], [] => match as_num m with
                         | Some y => if qeqb y 0 then UNM else OK (h, VVec (map (fun x => qmod x y) l))
                         | None => UNM end
    | _, _ => UNM end
  else if f =? "np.abs" then
    match args, kws with
    | [VMat c m], [] => OK (h, VMat c (map (map Qabs) m))
    | [VVec l], [] => OK (h, VVec (map Qabs l))
    | _, _ => UNM end
  else if f =? "np.subtract.outer" then
    match args, kws with
    | [VVec a; VVec b], [] => OK (h, VMat (List.length b) (map (fun x => map (fun y => x - y) b) a))
    | _, _ => UNM end
  else if f =? "np.minimum" then
    match args, kws with
    | [VMat c m; VMat c' m'], [] =>
        if Nat.eqb c c' && Nat.eqb (List.length m) (List.length m') then OK (h, VMat c (zip_rows Qmin m m')) else UNM
    | _, _ => UNM end
  else if f =? "np.where" then
    match args, kws with
    | [VBMat c m], [] =>
        let w := where_rows m in
        OK (h, VTup [VIVec (map (fun p => Z.of_nat (fst p)) w); VIVec (map (fun p => Z.of_nat (snd p)) w)])
    | _, _ => UNM end
  else if f =? "np.asarray" then
    match args, kws with [VVec l], [] => OK (h, VVec l) | _, _ => UNM end
  else if f =? "np.argsort" then
    match args, kws with [VVec l], [] => OK (h, VIVec (map Z.of_nat (argsort l))) | _, _ => UNM end
  else if f =? "np.searchsorted" then
    match args with
    | [VVec s; VVec x] =>
        match kws with
        | [] => OK (h, VIVec (map (fun e => Z.of_nat (searchsorted_left s e)) x))
        | [(kw, VStr side)] =>
            if kw =? "side" then
              if side =? "left" then OK (h, VIVec (map (fun e => Z.of_nat (searchsorted_left s e)) x))
              else if side =? "right" then OK (h, VIVec (map (fun e => Z.of_nat (searchsorted_right s e)) x))
              else EXN ValueError
            else UNM
        | _ => UNM end
    | _ => UNM end
  else if f =? "enumerate" then
    match args, kws with [v], [] => els <~ iter_elems h v ;; OK (h, VTup (enum_from 0 (snd els))) | _, _ => UNM end
  else if f =? "zip" then
    match args, kws with
    | [a; b], [] => x <~ iter_elems h a ;; y <~ iter_elems h b ;; OK (h, VTup (zip2 (snd x) (snd y)))
    | _, _ => UNM end
  else if f =? "len" then
    match args, kws with
    | [VTup l], [] => OK (h, VInt (Z.of_nat (List.length l)))
    | [VFDict d], [] => OK (h, VInt (Z.of_nat (List.length d)))
    | [VVec l], [] => OK (h, VInt (Z.of_nat (List.length l)))
    | [VIVec l], [] => OK (h, VInt (Z.of_nat (List.length l)))
    | [VRef a], [] => match hget h a with Some o => OK (h, VInt (Z.of_nat (List.length (obj_elems o)))) | None => UNM end
    | _, _ => UNM end
  else if f =? "np.sqrt" then
    match args, kws with [VInt z], [] => if (0 <=? z)%Z then OK (h, VSqrt z) else UNM | _, _ => UNM end
  else if f =? "int" then                              (* int() truncates; floor(sqrt z) = Z.sqrt z for an integer z >= 0 *)
    match args, kws with [VInt z], [] => OK (h, VInt z) | [VSqrt z], [] => OK (h, VInt (Z.sqrt z)) | _, _ => UNM end
  else if f =? "range" then                            (* an immutable sequence of ints *)
    match args, kws with
    | [VInt b], [] => OK (h, VTup (map (fun i => VInt (Z.of_nat i)) (seq 0 (Z.to_nat b))))
    | [VInt a; VInt b], [] => OK (h, VTup (map (fun i => VInt (a + Z.of_nat i)%Z) (seq 0 (Z.to_nat (b - a)))))
    | _, _ => UNM end
  else if f =? "dict" then
    match args, kws with
    | [v], [] =>
        els <~ iter_elems h v ;;
        match omap as_pair (snd els) with
        | Some ps => let (h', a) := halloc h (ODict (fold_left (fun d p => dset d (fst p) (snd p)) ps [])) in OK (h', VRef a)
        | None => UNM end
    | _, _ => UNM end
  else if f =? "list" then
    match args, kws with
    | [v], [] => els <~ iter_elems h v ;; let (h', a) := halloc h (OList (snd els)) in OK (h', VRef a)
    | _, _ => UNM end
  else if f =? "sorted" then
    match args, kws with
    | [v], [] =>
        els <~ iter_elems h v ;;
        match omap as_nat_pair (snd els) with
        | Some ps => let (h', a) := halloc h (OList (map pair_val (sort_pairs ps))) in OK (h', VRef a)
        | None => UNM end
    | _, _ => UNM end
  else UNM.

(* x.m(args) *)
Definition meth (m : string) (h : heap) (x : val) (args : list val) : out (heap * val) :=
  match x with
  | VRef a =>
      match hget h a with
      | Some (OList l) =>
          if m =? "append" then
            match args with [v] => OK (hset h a (OList (l ++ [v])), VNone) | _ => UNM end
          else if m =? "extend" then
            match args with
            | [v] => els <~ iter_elems h v ;; OK (hset h a (OList (l ++ snd els)), VNone)
            | _ => UNM end
          else UNM
      | Some (ODict d) =>
          if m =? "setdefault" then
            match args with
            | [k; dflt] => match as_key k with
                           | Some n => match dget d n with
                                       | Some v => OK (h, v)
                                       | None => OK (hset h a (ODict (dset d n dflt)), dflt) end
                           | None => UNM end
            | _ => UNM end
          else if m =? "items" then
            match args with [] => OK (h, VTup (map (fun kv => VTup [VNat (fst kv); snd kv]) d)) | _ => UNM end
          else UNM
      | None => UNM end
  | _ => UNM
  end.
Local Close Scope string_scope.

(* a[i] = v ; del a[i] *)
Definition set_item (h : heap) (a i v : val) : out heap :=
  match a with
  | VRef r => match hget h r with
              | Some (ODict d) => match as_key i with Some n => OK (hset h r (ODict (dset d n v))) | None => UNM end
              | _ => UNM end
  | _ => UNM
  end.
Definition del_item (h : heap) (a i : val) : out heap :=
  match a with
  | VRef r => match hget h r with
              | Some (ODict d) => match as_key i with
                                  | Some n => if dmem d n then OK (hset h r (ODict (ddel d n))) else EXN KeyError
                                  | None => UNM end
              | _ => UNM end
  | _ => UNM
  end.

(* ------------------------------------------------------------------ syntax *)
Inductive exp :=
| ELoc (x : string)
| ENone | EBool (b : bool) | EInt (z : Z) | EFloat (q : Q) | EStr (s : string)
| ETuple (l : list exp) | EList (l : list exp) | EDictNew
| ECmp (op : cmpop) (a b : exp)
| ENot (a : exp) | EAnd (a b : exp) | EOr (a b : exp)
| EBin (op : binop) (a b : exp)
| EIndex (a i : exp) | ESlice (a lo hi : exp)
| EPrim (f : string) (pos : list exp) (kws : list (string * exp))
| EPrimStar (f : string) (a : exp)                          (* f( *a ) *)
| EMeth (a : exp) (m : string) (args : list exp)
| ECall (f : string) (pos : list exp)                       (* a function of the module: opaque *)
| ECallV (x : string) (pos : list exp)                      (* the function / closure a local holds *)
| EComp (body : exp) (x : string) (it : exp).               (* [body for x in it] *)

Inductive target := TName (x : string) | TTup (l : list target).
Inductive stmt :=
| SAssign (t : target) (e : exp)
| SSetItem (a i e : exp)
| SDelItem (a i : exp)
| SExpr (e : exp)
| SIf (c : exp) (a b : list stmt)
| SFor (t : target) (it : exp) (body : list stmt)
| SWhile (c : exp) (body : list stmt)
| SDef (x : string) (f : string)
| SReturn (e : exp)
| SBreak
| SPass.

Record fdef := { f_params : list (string * option exp); f_locals : list string; f_body : list stmt }.

(* ------------------------------------------------------------------ environments *)
Definition frame := list (string * val).
Fixpoint lookup (x : string) (fr : frame) : option val :=
  match fr with [] => None | (y, v) :: t => if String.eqb x y then Some v else lookup x t end.
Fixpoint update (x : string) (v : val) (fr : frame) : option frame :=
  match fr with
  | [] => None
  | (y, w) :: t => if String.eqb x y then Some ((y, v) :: t) else option_map (cons (y, w)) (update x v t)
  end.
Record env := mkEnv { e_loc : frame; e_out : option frame }.
Definition read_frame (x : string) (fr : frame) : out val :=
  match lookup x fr with Some VUnbound => EXN OtherExn | Some v => OK v | None => UNM end.
Definition read_var (x : string) (en : env) : out val :=
  match lookup x (e_loc en) with
  | Some VUnbound => EXN OtherExn
  | Some v => OK v
  | None => match e_out en with Some o => read_frame x o | None => UNM end
  end.
Definition set_var (x : string) (v : val) (en : env) : option env :=
  match update x v (e_loc en) with Some l => Some (mkEnv l (e_out en)) | None => None end.
(* the frame of the enclosing top-level function, for a closure called from [en] *)
Definition outer_frame (en : env) : frame := match e_out en with Some o => o | None => e_loc en end.

Fixpoint bind_t (t : target) (v : val) (en : env) {struct t} : out env :=
  match t with
  | TName x => of_opt (set_var x v en)
  | TTup ts =>
      match v with
      | VTup vs =>
          (fix go (ts : list target) (vs : list val) (en : env) {struct ts} : out env :=
             match ts with
             | [] => match vs with [] => OK en | _ :: _ => EXN ValueError end
             | t :: ts' => match vs with [] => EXN ValueError | v :: vt => en' <~ bind_t t v en ;; go ts' vt en' end
             end) ts vs en
      | _ => UNM end
  end.

(* ------------------------------------------------------------------ evaluation *)
Inductive sres := SNorm (h : heap) (en : env) | SRet (h : heap) (v : val) | SExn (e : exn) | SBrk (h : heap) (en : env)
                | SUnm | SFuel.
Definition lift_e {A} (r : out A) (k : A -> sres) : sres :=
  match r with OK a => k a | EXN e => SExn e | UNM => SUnm | FUEL => SFuel end.

Fixpoint for_loop (step : val -> heap -> env -> sres) (src : option nat) (all els : list val) (h : heap) (en : env) : sres :=
  if unchanged h src all then
    match els with
    | [] => SNorm h en
    | v :: t => match step v h en with
                | SNorm h' en' => for_loop step src all t h' en'
                | SBrk h' en' => SNorm h' en'
                | r => r end
    end
  else SUnm.
(* the element loop of a list comprehension (same iteration rule as for_loop) *)
Fixpoint comp_loop (step : heap -> val -> out (heap * val)) (src : option nat) (all els : list val) (h : heap) : out (heap * list val) :=
  match els with
  | [] => OK (h, [])
  | el :: t =>
      if unchanged h src all then
        b <~ step h el ;; rs <~ comp_loop step src all t (fst b) ;; OK (fst rs, snd b :: snd rs)
      else UNM
  end.
Definition run_block (f : stmt -> heap -> env -> sres) : list stmt -> heap -> env -> sres :=
  fix go (l : list stmt) (h : heap) (en : env) : sres :=
    match l with [] => SNorm h en | s :: r => match f s h en with SNorm h' en' => go r h' en' | o => o end end.
Fixpoint while_loop (n : nat) (cond : heap -> env -> out (heap * bool)) (body : heap -> env -> sres) (h : heap) (en : env) : sres :=
  match n with
  | O => SFuel
  | S n' => lift_e (cond h en) (fun ht =>
              if snd ht then
                match body (fst ht) en with
                | SNorm h' en' => while_loop n' cond body h' en'
                | SBrk h' en' => SNorm h' en'
                | r => r end
              else SNorm (fst ht) en)
  end.

Section Eval.
Variable ext : string -> heap -> list val -> out (heap * val).             (* functions of the module, function parameters *)
Variable clos : string -> heap -> frame -> list val -> out (heap * val).   (* nested functions, given the enclosing frame *)
Variable wfuel : nat.

Fixpoint eval (h : heap) (en : env) (e : exp) {struct e} : out (heap * val) :=
  let evs := fix evs (h : heap) (l : list exp) {struct l} : out (heap * list val) :=
               match l with
               | [] => OK (h, [])
               | a :: t => r <~ eval h en a ;; rs <~ evs (fst r) t ;; OK (fst rs, snd r :: snd rs)
               end in
  match e with
  | ELoc x => v <~ read_var x en ;; OK (h, v)
  | ENone => OK (h, VNone) | EBool b => OK (h, VBool b) | EInt z => OK (h, VInt z) | EFloat q => OK (h, VFloat q)
  | EStr s => OK (h, VStr s)
  | ETuple l => r <~ evs h l ;; OK (fst r, VTup (snd r))
  | EList l => r <~ evs h l ;; let (h', a) := halloc (fst r) (OList (snd r)) in OK (h', VRef a)
  | EDictNew => let (h', a) := halloc h (ODict []) in OK (h', VRef a)
  | ECmp op a b => x <~ eval h en a ;; y <~ eval (fst x) en b ;; v <~ cmp_op (fst y) op (snd x) (snd y) ;; OK (fst y, v)
  | ENot a => x <~ eval h en a ;; t <~ truth (fst x) (snd x) ;; OK (fst x, VBool (negb t))
  | EAnd a b => x <~ eval h en a ;; t <~ truth (fst x) (snd x) ;; if t then eval (fst x) en b else OK x
  | EOr a b => x <~ eval h en a ;; t <~ truth (fst x) (snd x) ;; if t then OK x else eval (fst x) en b
  | EBin op a b => x <~ eval h en a ;; y <~ eval (fst x) en b ;; bin_op (fst y) op (snd x) (snd y)
  | EIndex a i => x <~ eval h en a ;; y <~ eval (fst x) en i ;; v <~ get_item (fst y) (snd x) (snd y) ;; OK (fst y, v)
  | ESlice a lo hi =>
      x <~ eval h en a ;; y <~ eval (fst x) en lo ;; z <~ eval (fst y) en hi ;;
      v <~ get_slice (snd x) (snd y) (snd z) ;; OK (fst z, v)
  | EPrim f pos kws =>
      ps <~ evs h pos ;;
      ks <~ (fix evk (h : heap) (l : list (string * exp)) {struct l} : out (heap * list (string * val)) :=
               match l with
               | [] => OK (h, [])
               | (k, a) :: t => r <~ eval h en a ;; rs <~ evk (fst r) t ;; OK (fst rs, (k, snd r) :: snd rs)
               end) (fst ps) kws ;;
      prim f (fst ks) (snd ps) (snd ks)
  | EPrimStar f a => x <~ eval h en a ;; els <~ iter_elems (fst x) (snd x) ;; prim f (fst x) (snd els) []
  | EMeth a m args => x <~ eval h en a ;; ps <~ evs (fst x) args ;; meth m (fst ps) (snd x) (snd ps)
  | ECall f pos => ps <~ evs h pos ;; ext f (fst ps) (snd ps)
  | ECallV x pos =>
      fv <~ read_var x en ;; ps <~ evs h pos ;;
      match fv with
      | VFun f => ext f (fst ps) (snd ps)
      | VClos f => clos f (fst ps) (outer_frame en) (snd ps)
      | _ => UNM end
  | EComp body x it =>
      v <~ eval h en it ;; els <~ iter_elems (fst v) (snd v) ;;
      r <~ comp_loop (fun h el => eval h (mkEnv ((x, el) :: e_loc en) (e_out en)) body) (fst els) (snd els) (snd els) (fst v) ;;
      let (h', a) := halloc (fst r) (OList (snd r)) in OK (h', VRef a)
  end.

Definition eval_truth (c : exp) (h : heap) (en : env) : out (heap * bool) :=
  x <~ eval h en c ;; t <~ truth (fst x) (snd x) ;; OK (fst x, t).

Fixpoint exec (s : stmt) (h : heap) (en : env) {struct s} : sres :=
  match s with
  | SAssign t e => lift_e (eval h en e) (fun r => lift_e (bind_t t (snd r) en) (fun en' => SNorm (fst r) en'))
  | SSetItem a i e =>
      lift_e (eval h en e) (fun v => lift_e (eval (fst v) en a) (fun x => lift_e (eval (fst x) en i) (fun j =>
        lift_e (set_item (fst j) (snd x) (snd j) (snd v)) (fun h' => SNorm h' en))))
  | SDelItem a i =>
      lift_e (eval h en a) (fun x => lift_e (eval (fst x) en i) (fun j =>
        lift_e (del_item (fst j) (snd x) (snd j)) (fun h' => SNorm h' en)))
  | SExpr e => lift_e (eval h en e) (fun r => SNorm (fst r) en)
  | SIf c a b => lift_e (eval_truth c h en) (fun r => run_block exec (if snd r then a else b) (fst r) en)
  | SFor t it body =>
      lift_e (eval h en it) (fun v => lift_e (iter_elems (fst v) (snd v)) (fun els =>
        for_loop (fun el h en => lift_e (bind_t t el en) (fun en' => run_block exec body h en'))
                 (fst els) (snd els) (snd els) (fst v) en))
  | SWhile c body => while_loop wfuel (eval_truth c) (run_block exec body) h en
  | SDef x f => match set_var x (VClos f) en with Some en' => SNorm h en' | None => SUnm end
  | SReturn e => lift_e (eval h en e) (fun r => SRet (fst r) (snd r))
  | SBreak => SBrk h en
  | SPass => SNorm h en
  end.
Definition exec_block : list stmt -> heap -> env -> sres := run_block exec.
End Eval.

Definition init_frame (f : fdef) (args : list val) : frame :=
  combine (map fst (f_params f)) args ++ map (fun x => (x, VUnbound)) (f_locals f).
Definition finish (r : sres) : out (heap * val) :=
  match r with
  | SNorm h _ => OK (h, VNone) | SRet h v => OK (h, v) | SExn e => EXN e | SFuel => FUEL | SBrk _ _ | SUnm => UNM end.
Fixpoint lookup_fun (f : string) (funs : list (string * fdef)) : option fdef :=
  match funs with [] => None | (g, d) :: t => if String.eqb f g then Some d else lookup_fun f t end.

(* a call with one value per parameter; [outer] = the enclosing frame for a nested function *)
Fixpoint run (funs : list (string * fdef)) (ext : string -> heap -> list val -> out (heap * val))
             (fuel : nat) (f : string) (h : heap) (outer : option frame) (args : list val) : out (heap * val) :=
  match fuel with
  | O => FUEL
  | S n =>
      match lookup_fun f funs with
      | None => UNM
      | Some fd =>
          if Nat.eqb (List.length args) (List.length (f_params fd)) then
            finish (exec_block ext (fun g h o a => run funs ext n g h (Some o) a) n (f_body fd) h
                               (mkEnv (init_frame fd args) outer))
          else UNM
      end
  end.
