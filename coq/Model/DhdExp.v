(* A small deep-embedded Python / NumPy sub-language for mir_eval.chord.directional_hamming_distance: the VALUES and the
   operators of Model/IvExp.v (imported, unchanged) extended by the handful of NumPy operations this function needs,
   with its own syntax and environment-based evaluator (loops with explicit state, augmented assignment on scalars,
   opaque callees bound through signatures read from the source). Definitions only.

   translator/corefuncs_dhd.py maps the syntax of the function body to a [dfdef] (Gen/CoreDhdGen.v); what the syntax
   means on each type of value is decided HERE; Proofs/CoreDhdTie.v proves the generated program equal to the
   hand-written model function Model/ChordPipeline.directional_hamming_distance for all inputs.

   Reading of Python / NumPy (the trusted part), in addition to the header of Model/IvExp.v
   * a & b on two boolean arrays of the same length is the entrywise conjunction (other shapes: [UNM]); on two bools the
     conjunction.
   * a[m] for a float array a and a boolean array m of the same length keeps the entries where m is True, in order;
     different lengths raise IndexError.
   * a[lo:hi, j] on an (n,2) array is the column j of the rows lo:hi (basic slicing: a[lo:hi][:, j]).
   * a.flatten() of an (n,2) array is the row-major list of its entries (Intervals.flat); of a 1-d array a copy.
     m.any() on a boolean array is "some entry is True" (False on the empty array).
   * np.hstack(list) concatenates, in order, 1-d float arrays and finite scalars (a scalar counts as one entry:
     np.atleast_1d); np.diff(a) of a 1-d float array is the array of a[i+1] - a[i] (empty for fewer than two entries).
   * x op= e is defined on a name x holding a SCALAR (an immutable object: x = x op e); on anything else it is [UNM]
     (for an array NumPy would write in place).
   * A call of a callee `util.f` is opaque ([DCall]): the arguments are evaluated left to right and bound to the
     callee's parameters as Python does, with the signature read from the source in the same run.
   * Locals: one slot per parameter and local from the start; reading an unbound slot raises (OtherExn). *)
From Coq Require Import String.
From Coq Require Import List Bool Arith ZArith QArith Qabs Qminmax.
From ME Require Import Model.Prelude.
From ME Require Model.Intervals.
From ME Require Import Model.IvExp.
Import ListNotations.
Open Scope Q_scope.

(* ------------------------------------------------------------------ the additional operators *)
(* a & b *)
Definition bit_and (a b : val) : out val :=
  match a, b with
  | VBool x, VBool y => OK (VBool (x && y))
  | VArrB x, VArrB y => if Nat.eqb (length x) (length y) then OK (VArrB (vmap2 andb x y)) else UNM
  | _, _ => UNM
  end.
(* a[i], extended by the boolean mask on a float array *)
Definition get_item_d (a i : val) : out val :=
  match a, i with
  | VArrQ l, VArrB m => if Nat.eqb (length m) (length l) then OK (VArrQ (vselect m l)) else EXN IndexError
  | _, _ => get_item a i
  end.
(* a[lo:hi, j] *)
Definition slice_col (a : val) (lo hi : option val) (j : val) : out val :=
  match j with
  | VInt _ z => s <~ slice_val a lo hi ;; get_col s z
  | _ => UNM
  end.
(* np.diff on a 1-d array *)
Fixpoint diff_from (a : Q) (l : list Q) : list Q :=
  match l with [] => [] | b :: t => (b - a) :: diff_from b t end.
Definition np_diff (l : list Q) : list Q := match l with [] => [] | a :: t => diff_from a t end.
(* the entries np.hstack sees *)
Definition hstack_entries (v : val) : option (list Q) :=
  match v with
  | VArrQ l => Some l
  | VFlt _ (Fin q) => Some [q]
  | _ => None
  end.

Local Open Scope string_scope.
Definition meth_d (a : val) (m : string) (args : list val) : out val :=
  match args with
  | [] =>
      if m =? "flatten" then
        match a with
        | VMat l => OK (VArrQ (Intervals.flat l))
        | VArrQ l => OK (VArrQ l)
        | _ => UNM end
      else if m =? "any" then
        match a with VArrB l => OK (VBool (existsb (fun b => b) l)) | _ => UNM end
      else meth a m args
  | _ => UNM
  end.
Definition npf_d (f : string) (args : list val) : out val :=
  if f =? "np.hstack" then
    match args with
    | [VList _ parts] => match concat_opt hstack_entries parts with Some r => OK (VArrQ r) | None => UNM end
    | _ => UNM end
  else if f =? "np.diff" then
    match args with [VArrQ l] => OK (VArrQ (np_diff l)) | _ => UNM end
  else npf f args.
Local Close Scope string_scope.

(* ------------------------------------------------------------------ syntax *)
Inductive dexp :=
| DLoc (x : string)
| DNone | DBool (b : bool) | DInt (z : Z) | DFloat (q : Q)
| DList (l : list dexp) | DTuple (l : list dexp)
| DCmp (op : cmpop) (a b : dexp)
| DNot (a : dexp) | DAnd (a b : dexp) | DOr (a b : dexp)
| DBin (op : binop) (a b : dexp)
| DBitAnd (a b : dexp)
| DIndex (a i : dexp)
| DIndex2 (a i j : dexp)
| DSlice (a : dexp) (lo hi : option dexp)
| DSliceCol (a : dexp) (lo hi : option dexp) (j : dexp)
| DMeth (a : dexp) (m : string) (args : list dexp)
| DNp (f : string) (args : list dexp)
| DCall (f : string) (pos : list dexp) (kws : list (string * dexp)).

Inductive dstmt :=
| DAssign (t : target) (e : dexp)
| DAug (x : string) (op : binop) (e : dexp)            (* x op= e on a scalar *)
| DExpr (e : dexp)
| DIf (c : dexp) (a b : list dstmt)
| DFor (t : target) (it : dexp) (body : list dstmt)
| DReturn (e : dexp)
| DRaise (e : exn)
| DPass.

Record dfdef := { d_params : list string; d_locals : list string; d_body : list dstmt }.

(* ------------------------------------------------------------------ evaluation *)
Section Eval.
Variable sigs : list (string * option sigv).
Variable ext : string -> list val -> out val.

Definition is_scalar (v : val) : bool := match v with VInt _ _ | VFlt _ _ => true | _ => false end.

Fixpoint deval (en : env) (e : dexp) {struct e} : out val :=
  match e with
  | DLoc x => match lookup x en with Some VUnbound => EXN OtherExn | Some v => OK v | None => UNM end
  | DNone => OK VNone | DBool b => OK (VBool b) | DInt z => OK (VInt true z)
  | DFloat q => OK (VFlt true (Fin q))
  | DList l => vs <~ (fix evs (l : list dexp) : out (list val) :=
                        match l with [] => OK [] | a :: t => v <~ deval en a ;; r <~ evs t ;; OK (v :: r) end) l ;;
               OK (VList true vs)
  | DTuple l => vs <~ (fix evs (l : list dexp) : out (list val) :=
                         match l with [] => OK [] | a :: t => v <~ deval en a ;; r <~ evs t ;; OK (v :: r) end) l ;;
                OK (VTup vs)
  | DCmp op a b => x <~ deval en a ;; y <~ deval en b ;; cmp_op op x y
  | DNot a => x <~ deval en a ;; t <~ truth x ;; OK (VBool (negb t))
  | DAnd a b => x <~ deval en a ;; t <~ truth x ;; if t then deval en b else OK x
  | DOr a b => x <~ deval en a ;; t <~ truth x ;; if t then OK x else deval en b
  | DBin op a b => x <~ deval en a ;; y <~ deval en b ;; bin_op op x y
  | DBitAnd a b => x <~ deval en a ;; y <~ deval en b ;; bit_and x y
  | DIndex a i => x <~ deval en a ;; y <~ deval en i ;; get_item_d x y
  | DIndex2 a i j => x <~ deval en a ;; y <~ deval en i ;; z <~ deval en j ;; get_item2 x y z
  | DSlice a lo hi =>
      x <~ deval en a ;;
      l <~ match lo with Some e' => v <~ deval en e' ;; OK (Some v) | None => OK None end ;;
      h <~ match hi with Some e' => v <~ deval en e' ;; OK (Some v) | None => OK None end ;;
      slice_val x l h
  | DSliceCol a lo hi j =>
      x <~ deval en a ;;
      l <~ match lo with Some e' => v <~ deval en e' ;; OK (Some v) | None => OK None end ;;
      h <~ match hi with Some e' => v <~ deval en e' ;; OK (Some v) | None => OK None end ;;
      c <~ deval en j ;;
      slice_col x l h c
  | DMeth a m args =>
      x <~ deval en a ;;
      vs <~ (fix evs (l : list dexp) : out (list val) :=
               match l with [] => OK [] | a :: t => v <~ deval en a ;; r <~ evs t ;; OK (v :: r) end) args ;;
      meth_d x m vs
  | DNp f args =>
      vs <~ (fix evs (l : list dexp) : out (list val) :=
               match l with [] => OK [] | a :: t => v <~ deval en a ;; r <~ evs t ;; OK (v :: r) end) args ;;
      npf_d f vs
  | DCall f pos kws =>
      ps <~ (fix evs (l : list dexp) : out (list val) :=
               match l with [] => OK [] | a :: t => v <~ deval en a ;; r <~ evs t ;; OK (v :: r) end) pos ;;
      ks <~ (fix evk (l : list (string * dexp)) : out (list (string * val)) :=
               match l with [] => OK [] | (k, a) :: t => v <~ deval en a ;; r <~ evk t ;; OK ((k, v) :: r) end) kws ;;
      match assoc_sig f sigs with
      | Some sg => match bind_args sg ps ks with Some vs => ext f vs | None => UNM end
      | None => UNM
      end
  end.

Definition drun_block (f : dstmt -> env -> sres) : list dstmt -> env -> sres :=
  fix go (l : list dstmt) (en : env) : sres :=
    match l with [] => SNorm en | s :: r => match f s en with SNorm en' => go r en' | o => o end end.
Definition dfor_step (blk : list dstmt -> env -> sres) (t : target) (body : list dstmt) (el : val) (en : env) : sres :=
  match assign t el en with SNorm en' => blk body en' | o => o end.

Fixpoint dexec (s : dstmt) (en : env) {struct s} : sres :=
  match s with
  | DAssign t e => lift_e (deval en e) (fun v => assign t v en)
  | DAug x op e =>
      lift_e (deval en (DLoc x)) (fun a => lift_e (deval en e) (fun v =>
        if is_scalar a then lift_e (bin_op op a v) (fun r => set1 x r en) else SUnm))
  | DExpr e => lift_e (deval en e) (fun _ => SNorm en)
  | DIf c a b => lift_e (deval en c) (fun v => lift_e (truth v) (fun t => drun_block dexec (if t then a else b) en))
  | DFor t it body =>
      lift_e (deval en it) (fun v => lift_e (iter_elems v) (fun els => for_loop (dfor_step (drun_block dexec) t body) els en))
  | DReturn e => lift_e (deval en e) SRet
  | DRaise e => SExn e
  | DPass => SNorm en
  end.
Definition dexec_block : list dstmt -> env -> sres := drun_block dexec.

Definition dinit_env (f : dfdef) (args : list val) : env :=
  combine (d_params f) args ++ map (fun x => (x, VUnbound)) (d_locals f).
Definition drun_fun (f : dfdef) (args : list val) : out val :=
  if Nat.eqb (length args) (length (d_params f)) then
    match dexec_block (d_body f) (dinit_env f args) with
    | SNorm _ => OK VNone | SRet v => OK v | SExn e => EXN e | SUnm => UNM end
  else UNM.
End Eval.

(* ------------------------------------------------------------------ the callee of chord.directional_hamming_distance *)
Local Open Scope string_scope.
(* util.validate_intervals(intervals) on an (n,2) float array: the model's validate_intervals; returns None *)
Definition dhd_ext (f : string) (args : list val) : out val :=
  if f =? "util.validate_intervals" then
    match args with
    | [VMat l] => match Intervals.validate_intervals l with Ok _ => OK VNone | Raise e => EXN e end
    | _ => UNM end
  else UNM.
(* the parameter names the instantiation above assumes (checked against the signature read from the source) *)
Definition dhd_sigs_expected : list (string * option sigv) := [("util.validate_intervals", Some [("intervals", None)])].
Local Close Scope string_scope.
