(* A small deep-embedded Python / NumPy sub-language for the beat metrics of mir_eval/beat.py (trim_beats,
   _get_reference_beat_variations, continuity, goto, cemgil): values, operators with the CPython / NumPy meaning of
   exactly the operations used, and an environment-based evaluator with `for` loops, in-place stores into fresh
   locals and opaque callees. Definitions only.

   translator/beatfuncs.py maps the syntax of each function body to an [fdef] (Gen/BeatGen.v); what the syntax
   means on each type of value is decided HERE (dynamic typing is resolved by the evaluator); Proofs/BeatTie.v
   proves each generated program equal to the hand-written model function of Model/Beat.v for all inputs.

   Reading of Python / NumPy (the trusted part)
   * Numbers are exact: a float is an [xval] (a rational, +-inf or nan; DESIGN.md 2.1), an int is an unbounded Z.
     Every scalar carries a flag py = "is a Python object" (literals, len / shape / size, range) as opposed to a
     NumPy scalar (array elements, reductions): Python number / Python zero raises ZeroDivisionError, a division
     with a NumPy operand follows IEEE (Prelude.xdiv: inf / nan). A float64 array is a list of rationals (arrays only
     ever hold finite values here: storing a non-finite value is [UNM]); int64 and bool arrays are lists.
   * [VSqrt v] is the float sqrt(v); it is produced by np.std only and can only be compared with `<` against a
     finite float: sqrt(v) < s  <->  0 < s and v < s*s  (v >= 0; nan and inf compare False).
   * Comparisons follow IEEE (nan compares False, != True). `and` / `or` are lazy and return an operand.
   * [UNM] ("unmodelled") is the result of every operation on operands outside the cases written below; a tie
     theorem can only hold if the program never reaches such a case.
   * Locals: one slot per parameter and local from the start (Python decides statically which names are local);
     reading an unbound slot raises (UnboundLocalError = [OtherExn]).
   * Mutation: x[i] = v and x.append(v) are in-place in Python. The translator only emits them for names whose
     object no other name, container or callee can reach (it fails otherwise), so that rebinding the local is an
     exact reading. Slices and mask indexing produce new values (a NumPy slice is a view; the translator checks that
     no write to the base can follow).
   * warnings.warn(<literal>) is a no-op ([SWarn]); the warnings are modelled (and sampled) separately
     (Beat.interval_warns).
   * Calls of other functions of the module are opaque ([ECall]): arguments are evaluated left to right and bound to
     the callee's parameters as Python does (signatures read from the source in the same run).
   * np.exp is an arbitrary function [fexp] of a finite float (the theorems hold for every such function). *)
From Coq Require Import String.
From Coq Require Import List Bool Arith ZArith QArith Qabs Qminmax Qround.
From ME Require Import Model.Prelude.
From ME Require Model.VecExp.
Import ListNotations.
Open Scope Q_scope.

Inductive out (A : Type) := OK (a : A) | EXN (e : exn) | UNM.
Arguments OK {A}. Arguments EXN {A}. Arguments UNM {A}.
Definition obind {A B} (r : out A) (f : A -> out B) : out B :=
  match r with OK a => f a | EXN e => EXN e | UNM => UNM end.
Notation "x <~ r ;; k" := (obind r (fun x => k)) (at level 61, r at next level, right associativity).
Definition of_opt {A} (o : option A) : out A := match o with Some a => OK a | None => UNM end.

Inductive bv :=
| VNone
| VBool (py : bool) (b : bool)
| VInt (py : bool) (z : Z)
| VFlt (py : bool) (x : xval)
| VSqrt (x : xval)
| VArrQ (l : list Q) | VArrZ (l : list Z) | VArrB (l : list bool)
| VList (l : list bv) | VTup (l : list bv)
| VUnbound.

(* ------------------------------------------------------------------ float64 with the non-finite values explicit *)
Notation xadd := VecExp.xadd.
Notation xsub := VecExp.xsub.
Notation xmul := VecExp.xmul.
Notation xneg := VecExp.xneg.
Notation xdivx := VecExp.xdivx.
Definition xabs (a : xval) : xval := match a with Fin x => Fin (Qabs x) | PInf | NInf => PInf | NaN => NaN end.
Definition b2q (b : bool) : Q := if b then 1 else 0.

Inductive binop := Add | Sub | Mul | Div | FloorDiv | Pow.
Inductive cmpop := Eq | Ne | Lt | Le | Gt | Ge.
Definition qcmp (op : cmpop) (x y : Q) : bool :=
  match op with Eq => qeqb x y | Ne => negb (qeqb x y) | Lt => qltb x y | Le => qleb x y | Gt => qltb y x | Ge => qleb y x end.
Definition zcmp (op : cmpop) (x y : Z) : bool :=
  match op with Eq => Z.eqb x y | Ne => negb (Z.eqb x y) | Lt => Z.ltb x y | Le => Z.leb x y | Gt => Z.ltb y x | Ge => Z.leb y x end.
Definition xrank (a : xval) : Z := match a with NInf => 0 | PInf => 2 | _ => 1 end%Z.
Definition xcmp (op : cmpop) (a b : xval) : bool :=
  match a, b with
  | Fin x, Fin y => qcmp op x y
  | NaN, _ | _, NaN => match op with Ne => true | _ => false end
  | _, _ => zcmp op (xrank a) (xrank b)
  end.

(* ------------------------------------------------------------------ lists *)
(* Python index -> position in a sequence of length n: negative indices count from the end; None = IndexError *)
Definition norm_idx (i : Z) (n : nat) : option nat :=
  match i with
  | Z0 => if (0 <? n)%nat then Some 0%nat else None
  | Zpos p => if (Pos.to_nat p <? n)%nat then Some (Pos.to_nat p) else None
  | Zneg p => if (Pos.to_nat p <=? n)%nat then Some (n - Pos.to_nat p)%nat else None
  end.
Fixpoint set_nth {A} (l : list A) (i : nat) (v : A) : list A :=
  match l, i with [], _ => [] | _ :: t, O => v :: t | x :: t, S j => x :: set_nth t j v end.
Fixpoint vselect {A} (m : list bool) (l : list A) : list A :=
  match m, l with b :: m', x :: l' => if b then x :: vselect m' l' else vselect m' l' | _, _ => [] end.
Fixpoint vmap2 {A B C} (f : A -> B -> C) (a : list A) (b : list B) : list C :=
  match a, b with x :: a', y :: b' => f x y :: vmap2 f a' b' | _, _ => [] end.
(* l[a:b] for Python ints a, b (negative bounds count from the end, bounds are clipped) *)
Definition py_norm (n x : Z) : Z := if (x <? 0)%Z then Z.max (x + n) 0 else Z.min x n.
Definition py_slice {A} (a b : Z) (l : list A) : list A :=
  let n := Z.of_nat (length l) in
  let a' := py_norm n a in let b' := py_norm n b in
  firstn (Z.to_nat (b' - a')) (skipn (Z.to_nat a') l).
(* l[::k], k >= 1: the first element and then every k-th; [skip] elements are still to be passed over *)
Fixpoint every_from {A} (k skip : nat) (l : list A) : list A :=
  match l with
  | [] => []
  | x :: t => match skip with O => x :: every_from k (k - 1) t | S s => every_from k s t end
  end.
(* l[lo:hi:step] for step >= 1 *)
Definition slice_list {A} (lo hi : option Z) (step : Z) (l : list A) : list A :=
  let n := Z.of_nat (length l) in
  every_from (Z.to_nat step) 0
    (py_slice (match lo with Some a => a | None => 0%Z end) (match hi with Some b => b | None => n end) l).
(* the positions of the true entries, from position i on (np.nonzero / np.flatnonzero) *)
Fixpoint nz_from (i : Z) (l : list bool) : list Z :=
  match l with [] => [] | b :: t => if b then i :: nz_from (i + 1)%Z t else nz_from (i + 1)%Z t end.
Definition zdiffs (l : list Z) : list Z := map (fun ab => (snd ab - fst ab)%Z) (combine l (tl l)).
Definition zmax_list (l : list Z) : option Z := match l with [] => None | x :: t => Some (fold_left Z.max t x) end.
Definition vcount (l : list bool) : Z := Z.of_nat (length (filter (fun b => b) l)).
(* np.argmin: the first position of the minimum *)
Fixpoint argmin_from (i best_i : nat) (best : Q) (l : list Q) : nat :=
  match l with
  | [] => best_i
  | x :: t => if qltb x best then argmin_from (S i) i x t else argmin_from (S i) best_i best t
  end.
Definition argmin (l : list Q) : option nat := match l with [] => None | x :: t => Some (argmin_from 1 0 x t) end.
Definition zrange (a b : Z) : list Z := map (fun i => (a + Z.of_nat i)%Z) (seq 0 (Z.to_nat (b - a))).
(* np.arange(start, stop, step) on floats: ceil((stop - start) / step) values start + i * step *)
Definition arange_q (start stop step : Q) : list Q :=
  map (fun i => start + inject_Z (Z.of_nat i) * step) (seq 0 (Z.to_nat (Qceiling ((stop - start) / step)))).
(* np.interp(x, xp, fp) for increasing xp: fp[0] left of xp[0], fp[-1] from xp[-1] on, fp[j] at xp[j], otherwise
   slope * (x - xp[j]) + fp[j] with slope = (fp[j+1] - fp[j]) / (xp[j+1] - xp[j]) for xp[j] <= x < xp[j+1] *)
Fixpoint interp_seg (x x0 f0 : Q) (xs fs : list Q) : Q :=
  match xs, fs with
  | x1 :: xs', f1 :: fs' =>
      if qltb x x1 then (if qeqb x x0 then f0 else (f1 - f0) / (x1 - x0) * (x - x0) + f0)
      else interp_seg x x1 f1 xs' fs'
  | _, _ => f0
  end.
Definition interp1 (xp fp : list Q) (x : Q) : Q :=
  match xp, fp with
  | x0 :: xs, f0 :: fs => if qltb x x0 then f0 else interp_seg x x0 f0 xs fs
  | _, _ => 0
  end.
(* the (biased by ddof) variance np.std takes the root of: nan on an empty array, a division by max(n - ddof, 0) *)
Definition variance (l : list Q) (ddof : Z) : xval :=
  match l with
  | [] => NaN
  | _ => let n := inject_Z (Z.of_nat (length l)) in
         let m := qsum l / n in
         xdiv (qsum (map (fun x => (x - m) * (x - m)) l)) (inject_Z (Z.max (Z.of_nat (length l) - ddof) 0))
  end.

(* ------------------------------------------------------------------ operators *)
Definition truth (v : bv) : out bool :=
  match v with
  | VNone => OK false | VBool _ b => OK b | VInt _ z => OK (negb (Z.eqb z 0))
  | VFlt _ (Fin q) => OK (negb (qeqb q 0)) | VFlt _ _ => OK true
  | VList l | VTup l => OK (negb (Nat.eqb (length l) 0))
  | VArrB [b] => OK b
  | VArrB _ => EXN ValueError                     (* truth value of an empty / longer array is ambiguous *)
  | _ => UNM
  end.

Definition arith_zz (op : binop) (py : bool) (x y : Z) : out bv :=
  match op with
  | Add => OK (VInt py (x + y)) | Sub => OK (VInt py (x - y)) | Mul => OK (VInt py (x * y))
  | Div => if (y =? 0)%Z then (if py then EXN ZeroDivisionError else UNM)
           else OK (VFlt py (Fin (inject_Z x / inject_Z y)))
  | FloorDiv => if (y =? 0)%Z then (if py then EXN ZeroDivisionError else UNM) else OK (VInt py (x / y))
  | Pow => if (y =? 2)%Z then OK (VInt py (x * x)) else UNM
  end%Z.
Definition is_zero (x : xval) : bool := match x with Fin q => qeqb q 0 | _ => false end.
Definition arith_xx (op : binop) (py : bool) (x y : xval) : out bv :=
  match op with
  | Add => OK (VFlt py (xadd x y)) | Sub => OK (VFlt py (xsub x y)) | Mul => OK (VFlt py (xmul x y))
  | Div => if py && is_zero y then EXN ZeroDivisionError else OK (VFlt py (xdivx x y))
  | FloorDiv | Pow => UNM
  end.
(* a finite scalar, as an array operation sees it *)
Definition fin_of (v : bv) : option Q :=
  match v with VInt _ z => Some (inject_Z z) | VFlt _ (Fin q) => Some q | _ => None end.
Definition bin_op (op : binop) (a b : bv) : out bv :=
  match a, b with
  | VInt pa x, VInt pb y => arith_zz op (pa && pb) x y
  | VInt pa x, VFlt pb y => arith_xx op (pa && pb) (Fin (inject_Z x)) y
  | VFlt pa x, VInt pb y =>
      match op with
      | Pow => if (y =? 2)%Z then OK (VFlt (pa && pb) (xmul x x)) else UNM
      | _ => arith_xx op (pa && pb) x (Fin (inject_Z y)) end
  | VFlt pa x, VFlt pb y => arith_xx op (pa && pb) x y
  | VFlt pa x, VBool pb c => match op with Mul => OK (VFlt (pa && pb) (xmul x (Fin (b2q c)))) | _ => UNM end
  | VArrQ l, _ =>
      match fin_of b, op with
      | Some s, Add => OK (VArrQ (map (fun x => x + s) l))
      | Some s, Sub => OK (VArrQ (map (fun x => x - s) l))
      | Some s, Mul => OK (VArrQ (map (fun x => x * s) l))
      | _, _ => UNM end
  | _, VArrQ l =>
      match fin_of a, op with
      | Some s, Add => OK (VArrQ (map (fun y => s + y) l))
      | Some s, Sub => OK (VArrQ (map (fun y => s - y) l))
      | Some s, Mul => OK (VArrQ (map (fun y => s * y) l))
      | _, _ => UNM end
  | _, _ => UNM
  end.
Definition neg_op (a : bv) : out bv :=
  match a with VInt p z => OK (VInt p (- z)) | VFlt p x => OK (VFlt p (xneg x)) | _ => UNM end.

(* sqrt(v) < s *)
Definition sqrt_lt (v s : xval) : out bool :=
  match v, s with
  | Fin q, Fin sv => if qltb q 0 then UNM else OK (qltb 0 sv && qltb q (sv * sv))
  | NaN, Fin _ | PInf, Fin _ => OK false
  | _, _ => UNM
  end.
Definition cmp_op (op : cmpop) (a b : bv) : out bv :=
  match a, b with
  | VInt pa x, VInt pb y => OK (VBool (pa && pb) (zcmp op x y))
  | VInt pa x, VFlt pb y => OK (VBool (pa && pb) (xcmp op (Fin (inject_Z x)) y))
  | VFlt pa x, VInt pb y => OK (VBool (pa && pb) (xcmp op x (Fin (inject_Z y))))
  | VFlt pa x, VFlt pb y => OK (VBool (pa && pb) (xcmp op x y))
  | VSqrt v, (VFlt _ s) =>
      match op with Lt => t <~ sqrt_lt v s ;; OK (VBool false t) | _ => UNM end
  | VArrQ l, _ => match fin_of b with Some s => OK (VArrB (map (fun x => qcmp op x s) l)) | None => UNM end
  | VArrZ l, VInt _ y => OK (VArrB (map (fun x => zcmp op x y) l))
  | _, _ => UNM
  end.

Definition get_item (a i : bv) : out bv :=
  match a, i with
  | VArrQ l, VInt _ z =>
      match norm_idx z (length l) with Some n => of_opt (option_map (fun q => VFlt false (Fin q)) (nth_error l n)) | None => EXN IndexError end
  | VArrZ l, VInt _ z =>
      match norm_idx z (length l) with Some n => of_opt (option_map (VInt false) (nth_error l n)) | None => EXN IndexError end
  | VArrB l, VInt _ z =>
      match norm_idx z (length l) with Some n => of_opt (option_map (VBool false) (nth_error l n)) | None => EXN IndexError end
  | VList l, VInt _ z | VTup l, VInt _ z =>
      match norm_idx z (length l) with Some n => of_opt (nth_error l n) | None => EXN IndexError end
  | VArrQ l, VArrB m =>                               (* boolean mask: a copy of the selected entries *)
      if Nat.eqb (length m) (length l) then OK (VArrQ (vselect m l)) else EXN IndexError
  | _, _ => UNM
  end.
Definition opt_int (v : option bv) : out (option Z) :=
  match v with None | Some VNone => OK None | Some (VInt _ z) => OK (Some z) | _ => UNM end.
Definition slice_val (a : bv) (lo hi st : option bv) : out bv :=
  lo' <~ opt_int lo ;; hi' <~ opt_int hi ;; st' <~ opt_int st ;;
  let k := match st' with Some k => k | None => 1%Z end in
  if (k <=? 0)%Z then UNM else
  match a with
  | VArrQ l => OK (VArrQ (slice_list lo' hi' k l))
  | VArrZ l => OK (VArrZ (slice_list lo' hi' k l))
  | VArrB l => OK (VArrB (slice_list lo' hi' k l))
  | _ => UNM
  end.
(* a[i] = v on an array that only this name reaches *)
Definition set_item (a i v : bv) : out bv :=
  match a, i with
  | VArrQ l, VInt _ z =>
      match fin_of v with
      | Some q => match norm_idx z (length l) with Some n => OK (VArrQ (set_nth l n q)) | None => EXN IndexError end
      | None => UNM end
  | _, _ => UNM
  end.
Definition iter_elems (v : bv) : out (list bv) :=
  match v with
  | VList l | VTup l => OK l
  | VArrQ l => OK (map (fun q => VFlt false (Fin q)) l)
  | VArrZ l => OK (map (VInt false) l)
  | _ => UNM
  end.

Fixpoint all_ints (l : list bv) : option (list Z) :=
  match l with
  | [] => Some []
  | VInt _ z :: t => option_map (cons z) (all_ints t)
  | _ => None
  end.
Fixpoint all_fins (l : list bv) : option (list Q) :=
  match l with
  | [] => Some []
  | VFlt _ (Fin q) :: t => option_map (cons q) (all_fins t)
  | _ => None
  end.
(* the entries np.append / np.concatenate sees; the flag says "float typed" *)
Definition flat_q (v : bv) : option (list Q * bool) :=
  match v with
  | VInt _ z => Some ([inject_Z z], false)
  | VFlt _ (Fin q) => Some ([q], true)
  | VArrQ l => Some (l, true)
  | VArrZ l => Some (map inject_Z l, false)
  | _ => None
  end.

Local Open Scope string_scope.
Definition attr (a : bv) (f : string) : out bv :=
  let len := match a with VArrQ l => Some (length l) | VArrZ l => Some (length l) | VArrB l => Some (length l) | _ => None end in
  match len with
  | Some n => if f =? "size" then OK (VInt true (Z.of_nat n))
              else if f =? "shape" then OK (VTup [VInt true (Z.of_nat n)]) else UNM
  | None => UNM
  end.
Definition meth (a : bv) (m : string) (args : list bv) : out bv :=
  match a, args with
  | VArrB l, [] => if m =? "sum" then OK (VInt false (vcount l)) else UNM
  | VArrQ l, [] =>
      if m =? "sum" then OK (VFlt false (Fin (qsum l)))
      else if m =? "min" then match qmin_list l with Some x => OK (VFlt false (Fin x)) | None => EXN ValueError end
      else if m =? "max" then match qmax_list l with Some x => OK (VFlt false (Fin x)) | None => EXN ValueError end
      else UNM
  | _, _ => UNM
  end.

Section Prims.
Variable fexp : Q -> Q.                                 (* np.exp on finite floats *)
Definition npf (f : string) (args : list bv) : out bv :=
  if f =? "np.abs" then
    match args with
    | [VArrQ l] => OK (VArrQ (map Qabs l))
    | [VFlt _ x] => OK (VFlt false (xabs x))
    | [VInt _ z] => OK (VInt false (Z.abs z))
    | _ => UNM end
  else if f =? "np.argmin" then
    match args with
    | [VArrQ l] => match argmin l with Some i => OK (VInt false (Z.of_nat i)) | None => EXN ValueError end
    | _ => UNM end
  else if f =? "np.zeros" then
    match args with
    | [VInt _ n] => if (0 <=? n)%Z then OK (VArrQ (repeat 0 (Z.to_nat n))) else EXN ValueError
    | _ => UNM end
  else if f =? "np.ones" then
    match args with
    | [VInt _ n] => if (0 <=? n)%Z then OK (VArrQ (repeat 1 (Z.to_nat n))) else EXN ValueError
    | _ => UNM end
  else if f =? "np.max" then
    match args with
    | [VList l] =>
        match all_ints l, all_fins l with
        | Some zs, _ => match zmax_list zs with Some z => OK (VInt false z) | None => EXN ValueError end
        | None, Some qs => match qmax_list qs with Some q => OK (VFlt false (Fin q)) | None => EXN ValueError end
        | None, None => UNM end
    | [VArrZ l] => match zmax_list l with Some z => OK (VInt false z) | None => EXN ValueError end
    | [VArrQ l] => match qmax_list l with Some q => OK (VFlt false (Fin q)) | None => EXN ValueError end
    | _ => UNM end
  else if f =? "np.min" then
    match args with
    | [VArrQ l] => match qmin_list l with Some q => OK (VFlt false (Fin q)) | None => EXN ValueError end
    | _ => UNM end
  else if f =? "np.append" then
    match args with
    | [a; b] => match flat_q a, flat_q b with
                | Some (x, fa), Some (y, fb) => if fa || fb then OK (VArrQ (x ++ y)) else UNM
                | _, _ => UNM end
    | _ => UNM end
  else if f =? "np.nonzero" then match args with [VArrB l] => OK (VTup [VArrZ (nz_from 0 l)]) | _ => UNM end
  else if f =? "np.flatnonzero" then match args with [VArrB l] => OK (VArrZ (nz_from 0 l)) | _ => UNM end
  else if f =? "np.diff" then match args with [VArrZ l] => OK (VArrZ (zdiffs l)) | _ => UNM end
  else if f =? "np.sum" then match args with [VArrQ l] => OK (VFlt false (Fin (qsum l))) | _ => UNM end
  else if f =? "np.mean" then
    match args with [VArrQ l] => OK (VFlt false (xdiv (qsum l) (inject_Z (Z.of_nat (length l))))) | _ => UNM end
  else if f =? "np.std_ddof" then                       (* np.std(a, ddof=k) *)
    match args with [VArrQ l; VInt _ d] => OK (VSqrt (variance l d)) | _ => UNM end
  else if f =? "np.logical_and" then
    match args with
    | [VArrB a; VArrB b] => if Nat.eqb (length a) (length b) then OK (VArrB (vmap2 andb a b)) else UNM
    | _ => UNM end
  else if f =? "np.arange" then
    match args with
    | [VInt _ a; VInt _ b] => OK (VArrZ (zrange a b))
    | [a; b; c] =>
        match a, b, c with
        | VInt _ _, VInt _ _, VInt _ _ => UNM
        | _, _, _ => match fin_of a, fin_of b, fin_of c with
                     | Some x, Some y, Some s => if qltb 0 s then OK (VArrQ (arange_q x y s)) else UNM
                     | _, _, _ => UNM end
        end
    | _ => UNM end
  else if f =? "np.interp" then
    match args with
    | [VArrQ x; xp; VArrQ fp] =>
        match (match xp with VArrZ l => Some (map inject_Z l) | VArrQ l => Some l | _ => None end) with
        | Some xq =>
            if negb (Nat.eqb (length xq) (length fp)) then EXN ValueError
            else match xq, x with
                 | [], [] => OK (VArrQ [])
                 | [], _ => EXN ValueError               (* array of sample points is empty *)
                 | _, _ => OK (VArrQ (map (interp1 xq fp) x))
                 end
        | None => UNM end
    | _ => UNM end
  else if f =? "np.exp" then match args with [VFlt _ (Fin q)] => OK (VFlt false (Fin (fexp q))) | _ => UNM end
  else if f =? "range" then
    match args with
    | [VInt _ n] => OK (VList (map (VInt true) (zrange 0 n)))
    | [VInt _ a; VInt _ b] => OK (VList (map (VInt true) (zrange a b)))
    | _ => UNM end
  else UNM.
End Prims.
Local Close Scope string_scope.

(* ------------------------------------------------------------------ syntax *)
Inductive exp :=
| ELoc (x : string)
| ENone | EBool (b : bool) | EInt (z : Z) | EFloat (q : Q) | EInf
| ETuple (l : list exp) | EList (l : list exp)
| ECmp (op : cmpop) (a b : exp)
| ENot (a : exp) | EAnd (a b : exp) | EOr (a b : exp)
| EBin (op : binop) (a b : exp) | ENeg (a : exp)
| EIndex (a i : exp)
| ESlice (a : exp) (lo hi st : option exp)
| EAttr (a : exp) (f : string)
| EMeth (a : exp) (m : string) (args : list exp)
| ENp (f : string) (args : list exp)
| ECall (f : string) (pos : list exp) (kws : list (string * exp)).

Inductive stmt :=
| SAssign (x : string) (e : exp)
| SAug (x : string) (op : binop) (e : exp)          (* x op= e on a number *)
| SSetItem (x : string) (i e : exp)                 (* x[i] = e,   x a local that holds an unshared array *)
| SAppend (x : string) (e : exp)                    (* x.append(e), x a local that holds an unshared list *)
| SExpr (e : exp)
| SWarn
| SIf (c : exp) (a b : list stmt)
| SFor (x : string) (it : exp) (body : list stmt)
| SReturn (e : exp)
| SPass.

Record fdef := { f_params : list (string * option exp); f_locals : list string; f_body : list stmt }.

(* ------------------------------------------------------------------ binding of call arguments *)
Definition env := list (string * bv).
Fixpoint lookup (x : string) (en : env) : option bv :=
  match en with [] => None | (y, v) :: t => if String.eqb x y then Some v else lookup x t end.
Fixpoint update (x : string) (v : bv) (en : env) : option env :=
  match en with
  | [] => None
  | (y, w) :: t => if String.eqb x y then Some ((y, v) :: t) else option_map (cons (y, w)) (update x v t)
  end.
Fixpoint mem_name (p : string) (l : list string) : bool :=
  match l with [] => false | k :: t => String.eqb p k || mem_name p t end.
Fixpoint nodup_names (l : list string) : bool :=
  match l with [] => true | k :: t => negb (mem_name k t) && nodup_names t end.
Definition sigv := list (string * option bv).
Fixpoint bind_params (ps : sigv) (pos : list bv) (kws : list (string * bv)) : option (list bv) :=
  match ps with
  | [] => match pos with [] => Some [] | _ => None end
  | (p, d) :: ps' =>
      match pos with
      | a :: pos' => match lookup p kws with
                     | Some _ => None
                     | None => option_map (cons a) (bind_params ps' pos' kws) end
      | [] => match lookup p kws, d with
              | Some a, _ => option_map (cons a) (bind_params ps' [] kws)
              | None, Some dv => option_map (cons dv) (bind_params ps' [] kws)
              | None, None => None
              end
      end
  end.
Definition bind_args (ps : sigv) (pos : list bv) (kws : list (string * bv)) : option (list bv) :=
  if forallb (fun kw => mem_name (fst kw) (map fst ps)) kws && nodup_names (map fst kws)
  then bind_params ps pos kws else None.
Definition const_val (e : exp) : option bv :=
  match e with
  | ENone => Some VNone | EBool b => Some (VBool true b) | EInt z => Some (VInt true z)
  | EFloat q => Some (VFlt true (Fin q))
  | _ => None
  end.
Fixpoint sig_of (ps : list (string * option exp)) : option sigv :=
  match ps with
  | [] => Some []
  | (p, None) :: t => option_map (cons (p, None)) (sig_of t)
  | (p, Some d) :: t => match const_val d, sig_of t with
                        | Some v, Some r => Some ((p, Some v) :: r)
                        | _, _ => None end
  end.
Fixpoint sigs_of (l : list (string * list (string * option exp))) : list (string * option sigv) :=
  match l with [] => [] | (n, ps) :: t => (n, sig_of ps) :: sigs_of t end.
Definition fun_params (funs : list (string * fdef)) : list (string * list (string * option exp)) :=
  map (fun nf => (fst nf, f_params (snd nf))) funs.

(* ------------------------------------------------------------------ evaluation *)
Section Eval.
Variable sigs : list (string * option sigv).
Variable ext : string -> list bv -> out bv.
Variable fexp : Q -> Q.

Fixpoint assoc_sig (f : string) (l : list (string * option sigv)) : option sigv :=
  match l with [] => None | (g, s) :: t => if String.eqb f g then s else assoc_sig f t end.
Definition lookup_sig (f : string) : option sigv := assoc_sig f sigs.

Fixpoint eval (en : env) (e : exp) {struct e} : out bv :=
  match e with
  | ELoc x => match lookup x en with Some VUnbound => EXN OtherExn | Some v => OK v | None => UNM end
  | ENone => OK VNone | EBool b => OK (VBool true b) | EInt z => OK (VInt true z)
  | EFloat q => OK (VFlt true (Fin q)) | EInf => OK (VFlt true PInf)
  | ETuple l => vs <~ (fix evs (l : list exp) : out (list bv) :=
                         match l with [] => OK [] | a :: t => v <~ eval en a ;; r <~ evs t ;; OK (v :: r) end) l ;;
                OK (VTup vs)
  | EList l => vs <~ (fix evs (l : list exp) : out (list bv) :=
                        match l with [] => OK [] | a :: t => v <~ eval en a ;; r <~ evs t ;; OK (v :: r) end) l ;;
               OK (VList vs)
  | ECmp op a b => x <~ eval en a ;; y <~ eval en b ;; cmp_op op x y
  | ENot a => x <~ eval en a ;; t <~ truth x ;; OK (VBool true (negb t))
  | EAnd a b => x <~ eval en a ;; t <~ truth x ;; if t then eval en b else OK x
  | EOr a b => x <~ eval en a ;; t <~ truth x ;; if t then OK x else eval en b
  | EBin op a b => x <~ eval en a ;; y <~ eval en b ;; bin_op op x y
  | ENeg a => x <~ eval en a ;; neg_op x
  | EIndex a i => x <~ eval en a ;; y <~ eval en i ;; get_item x y
  | ESlice a lo hi st =>
      x <~ eval en a ;;
      l <~ match lo with Some e' => v <~ eval en e' ;; OK (Some v) | None => OK None end ;;
      h <~ match hi with Some e' => v <~ eval en e' ;; OK (Some v) | None => OK None end ;;
      s <~ match st with Some e' => v <~ eval en e' ;; OK (Some v) | None => OK None end ;;
      slice_val x l h s
  | EAttr a f => x <~ eval en a ;; attr x f
  | EMeth a m args =>
      x <~ eval en a ;;
      vs <~ (fix evs (l : list exp) : out (list bv) :=
               match l with [] => OK [] | a :: t => v <~ eval en a ;; r <~ evs t ;; OK (v :: r) end) args ;;
      meth x m vs
  | ENp f args =>
      vs <~ (fix evs (l : list exp) : out (list bv) :=
               match l with [] => OK [] | a :: t => v <~ eval en a ;; r <~ evs t ;; OK (v :: r) end) args ;;
      npf fexp f vs
  | ECall f pos kws =>
      ps <~ (fix evs (l : list exp) : out (list bv) :=
               match l with [] => OK [] | a :: t => v <~ eval en a ;; r <~ evs t ;; OK (v :: r) end) pos ;;
      ks <~ (fix evk (l : list (string * exp)) : out (list (string * bv)) :=
               match l with [] => OK [] | (k, a) :: t => v <~ eval en a ;; r <~ evk t ;; OK ((k, v) :: r) end) kws ;;
      match lookup_sig f with
      | Some sg => match bind_args sg ps ks with Some vs => ext f vs | None => UNM end
      | None => UNM
      end
  end.

Inductive sres := SNorm (en : env) | SRet (v : bv) | SExn (e : exn) | SUnm.
Definition lift_e {A} (r : out A) (k : A -> sres) : sres :=
  match r with OK a => k a | EXN e => SExn e | UNM => SUnm end.
Definition set1 (x : string) (v : bv) (en : env) : sres :=
  match update x v en with Some en' => SNorm en' | None => SUnm end.
Fixpoint for_loop (step : bv -> env -> sres) (els : list bv) (en : env) : sres :=
  match els with
  | [] => SNorm en
  | v :: t => match step v en with SNorm en' => for_loop step t en' | r => r end
  end.
Definition run_block (f : stmt -> env -> sres) : list stmt -> env -> sres :=
  fix go (l : list stmt) (en : env) : sres :=
    match l with [] => SNorm en | s :: r => match f s en with SNorm en' => go r en' | o => o end end.
Definition for_step (blk : list stmt -> env -> sres) (x : string) (body : list stmt) (el : bv) (en : env) : sres :=
  match set1 x el en with SNorm en' => blk body en' | o => o end.
Definition is_scalar (v : bv) : bool :=
  match v with VInt _ _ | VFlt _ _ | VBool _ _ => true | _ => false end.

Fixpoint exec (s : stmt) (en : env) {struct s} : sres :=
  match s with
  | SAssign x e => lift_e (eval en e) (fun v => set1 x v en)
  | SAug x op e =>
      lift_e (eval en (ELoc x)) (fun a => lift_e (eval en e) (fun b =>
        if is_scalar a then lift_e (bin_op op a b) (fun v => set1 x v en) else SUnm))
  | SSetItem x i e =>
      lift_e (eval en e) (fun v => lift_e (eval en (ELoc x)) (fun a => lift_e (eval en i) (fun j =>
        lift_e (set_item a j v) (fun a' => set1 x a' en))))
  | SAppend x e =>
      lift_e (eval en (ELoc x)) (fun a => lift_e (eval en e) (fun v =>
        match a with VList l => set1 x (VList (l ++ [v])) en | _ => SUnm end))
  | SExpr e => lift_e (eval en e) (fun _ => SNorm en)
  | SWarn => SNorm en
  | SIf c a b => lift_e (eval en c) (fun v => lift_e (truth v) (fun t => run_block exec (if t then a else b) en))
  | SFor x it body =>
      lift_e (eval en it) (fun v => lift_e (iter_elems v) (fun els => for_loop (for_step (run_block exec) x body) els en))
  | SReturn e => lift_e (eval en e) SRet
  | SPass => SNorm en
  end.
Definition exec_block : list stmt -> env -> sres := run_block exec.

Definition init_env (f : fdef) (args : list bv) : env :=
  combine (map fst (f_params f)) args ++ map (fun x => (x, VUnbound)) (f_locals f).
Definition run_fun (f : fdef) (args : list bv) : out bv :=
  if Nat.eqb (length args) (length (f_params f)) then
    match exec_block (f_body f) (init_env f args) with
    | SNorm _ => OK VNone | SRet v => OK v | SExn e => EXN e | SUnm => UNM end
  else UNM.
End Eval.
