(* Documented default parameter values (C04, C03, C07): the constants a user relies on when calling a metric without
   keyword arguments. Written by hand from the module documentation; compared in Coq with the translated signatures
   and docstrings (Gen/Defaults.v). Definitions only. *)
From Coq Require Import List String ZArith Bool.
Import ListNotations.
Open Scope string_scope.

Inductive dconst := DNone | DBool (b : bool) | DNum (n : Z) (d : positive) | DStr (s : string) | DExpr (src : string).
Definition dconst_eqb (a b : dconst) : bool :=
  match a, b with
  | DNone, DNone => true | DBool x, DBool y => Bool.eqb x y
  | DNum n d, DNum m e => Z.eqb (n * Zpos e) (m * Zpos d)
  | DStr x, DStr y => String.eqb x y | DExpr x, DExpr y => String.eqb x y | _, _ => false end.
Fixpoint assocs {A} (k : string) (l : list (string * A)) : option A :=
  match l with [] => None | (k', a) :: t => if String.eqb k k' then Some a else assocs k t end.
Definition lookup2 (T : list (string * list (string * dconst))) (f p : string) : option dconst :=
  match assocs f T with Some l => assocs p l | None => None end.

Definition n (a : Z) (b : positive) := DNum a b.
(* function, parameter, documented default *)
Definition documented_defaults : list (string * string * dconst) := [
  ("beat.trim_beats", "min_beat_time", n 5 1);
  ("beat.f_measure", "f_measure_threshold", n 7 100);
  ("beat.cemgil", "cemgil_sigma", n 4 100);
  ("beat.goto", "goto_threshold", n 35 100); ("beat.goto", "goto_mu", n 2 10); ("beat.goto", "goto_sigma", n 2 10);
  ("beat.p_score", "p_score_threshold", n 2 10);
  ("beat.continuity", "continuity_phase_threshold", n 175 1000); ("beat.continuity", "continuity_period_threshold", n 175 1000);
  ("beat.information_gain", "bins", n 41 1);
  ("onset.f_measure", "window", n 5 100);
  ("segment.detection", "window", n 1 2); ("segment.detection", "beta", n 1 1); ("segment.detection", "trim", DBool false);
  ("segment.deviation", "trim", DBool false);
  ("segment.pairwise", "frame_size", n 1 10); ("segment.pairwise", "beta", n 1 1);
  ("segment.rand_index", "frame_size", n 1 10); ("segment.rand_index", "beta", n 1 1);
  ("segment.ari", "frame_size", n 1 10);
  ("segment.mutual_information", "frame_size", n 1 10);
  ("segment.nce", "frame_size", n 1 10); ("segment.nce", "beta", n 1 1); ("segment.nce", "marginal", DBool false);
  ("segment.vmeasure", "frame_size", n 1 10); ("segment.vmeasure", "beta", n 1 1);
  ("hierarchy.tmeasure", "transitive", DBool false); ("hierarchy.tmeasure", "window", n 15 1); ("hierarchy.tmeasure", "frame_size", n 1 10);
  ("hierarchy.tmeasure", "beta", n 1 1);
  ("hierarchy.lmeasure", "frame_size", n 1 10); ("hierarchy.lmeasure", "beta", n 1 1);
  ("transcription.match_notes", "onset_tolerance", n 5 100); ("transcription.match_notes", "pitch_tolerance", n 50 1);
  ("transcription.match_notes", "offset_ratio", n 2 10); ("transcription.match_notes", "offset_min_tolerance", n 5 100);
  ("transcription.match_notes", "strict", DBool false);
  ("transcription.precision_recall_f1_overlap", "onset_tolerance", n 5 100); ("transcription.precision_recall_f1_overlap", "pitch_tolerance", n 50 1);
  ("transcription.precision_recall_f1_overlap", "offset_ratio", n 2 10); ("transcription.precision_recall_f1_overlap", "offset_min_tolerance", n 5 100);
  ("transcription.precision_recall_f1_overlap", "strict", DBool false); ("transcription.precision_recall_f1_overlap", "beta", n 1 1);
  ("transcription.onset_precision_recall_f1", "onset_tolerance", n 5 100); ("transcription.onset_precision_recall_f1", "strict", DBool false);
  ("transcription.offset_precision_recall_f1", "offset_ratio", n 2 10); ("transcription.offset_precision_recall_f1", "offset_min_tolerance", n 5 100);
  ("transcription_velocity.precision_recall_f1_overlap", "velocity_tolerance", n 1 10);
  ("transcription_velocity.precision_recall_f1_overlap", "onset_tolerance", n 5 100);
  ("transcription_velocity.precision_recall_f1_overlap", "offset_ratio", n 2 10);
  ("melody.raw_pitch_accuracy", "cent_tolerance", n 50 1); ("melody.raw_chroma_accuracy", "cent_tolerance", n 50 1);
  ("melody.overall_accuracy", "cent_tolerance", n 50 1);
  ("melody.to_cent_voicing", "base_frequency", n 10 1); ("melody.to_cent_voicing", "hop", DNone); ("melody.to_cent_voicing", "kind", DStr "linear");
  ("multipitch.compute_num_true_positives", "window", n 1 2);
  ("multipitch.compute_num_true_positives", "chroma", DBool false);
  ("tempo.detection", "tol", n 8 100);
  ("alignment.percentage_correct", "window", n 3 10);
  ("pattern.standard_FPR", "tol", n 1 100000);
  ("pattern.occurrence_FPR", "thres", n 75 100);
  ("pattern.first_n_three_layer_P", "n", n 5 1); ("pattern.first_n_target_proportion_R", "n", n 5 1);
  ("chord.encode", "reduce_extended_chords", DBool false); ("chord.encode", "strict_bass_intervals", DBool false);
  ("util.f_measure", "beta", n 1 1);
  ("util.adjust_intervals", "t_min", n 0 1); ("util.adjust_intervals", "t_max", DNone);
  ("util.intervals_to_samples", "offset", n 0 1); ("util.intervals_to_samples", "sample_size", n 1 10);
  ("separation.bss_eval_sources", "compute_permutation", DBool true);
  ("separation.bss_eval_sources_framewise", "compute_permutation", DBool false);
  ("separation.bss_eval_images_framewise", "compute_permutation", DBool false) ].

(* decision procedures (their witness-producing variants are used for diagnosis) *)
Definition key_default_ok (T : list (string * list (string * dconst))) (r : string * string * dconst) : bool :=
  let '(f, p, v) := r in match lookup2 T f p with Some w => dconst_eqb v w | None => false end.
Definition first_wrong_default (T : list (string * list (string * dconst))) : option (string * string) :=
  option_map (fun r => (fst (fst r), snd (fst r))) (find (fun r => negb (key_default_ok T r)) documented_defaults).
Definition doc_row_ok (T : list (string * list (string * dconst))) (row : string * list (string * dconst)) : bool :=
  (* a default stated in the docstring must be the default of the signature (parameters without a signature default are skipped) *)
  forallb (fun pv => match lookup2 T (fst row) (fst pv) with Some w => dconst_eqb (snd pv) w | None => true end) (snd row).
Definition first_inconsistent_docstring (T D : list (string * list (string * dconst))) : option string :=
  option_map fst (find (fun row => negb (doc_row_ok T row)) D).
