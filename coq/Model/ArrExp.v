(* A small deep-embedded statement language for mir_eval's validators, and its evaluator.  Definitions only.

   translator/validfuncs.py maps the *syntax* of a validator body (Python ast) to an [aprog] (Gen/ValidatorsGen.v);
   what every idiom means is decided here; Proofs/ValidatorsTie.v proves the meaning of each translated body equal
   to the hand-written model validator (Model/Validators.v, Model/Melody.v, Model/Alignment.v, Model/Tempo.v, ...).
   It extends the reading of Model/VecExp.v (whose [out], [obind], [vcmp], [qcmp], [zcmp], [redop], broadcasting
   [bc_ok] / [bcv] are reused) from 1-d vectors to arrays WITH A SHAPE: the descriptor [arr] = (ndim, shape,
   row-major data) of Model/Validators.v, so that `x.ndim`, `x.shape[i]`, `x.size`, `len(x)`, `x[:, j]` have content.

   Values.  [DArr a] a float64 ndarray with finite entries (exact rationals, DESIGN.md 2.1); [DBArr sh d] a boolean
   ndarray; [DXArr d] a 1-d float64 array whose entries may be inf / nan (tempo); scalars [DBool] [DInt] [DNum]
   (Python and NumPy scalars are not distinguished: there is no division here); [DStr]; [DList] a Python list or
   tuple; [DNone]; [DOpaque] a value that is only passed around; [DUnbound] marks a local that has no value.

   Outcomes are decision trees [dt]: [Ret v] (a value), [Exn e] (the exception raised), [Unm] (outside the modelled
   fragment: a tie theorem can then not be proved), [Test c t f] = "if c then t else f" on a boolean of the input,
   [Sub o t] = "the outcome o of a callee, then t if it returned".  [run_dt] reads a tree as an outcome [out];
   sequencing [tbind] pushes the continuation into the branches, so that the evaluation of a program on symbolic
   input computes to its decision tree.  Evaluation is strict and left to right, `and` / `or` are lazy, an `if`
   needs a test with a defined truth value (an array with more than one element has none: ValueError).

   Statements run on a store, in continuation-passing style (the continuation is the rest of the block).
   `for x in e: body` iterates over a Python list; the variables assigned in the loop (targets included) are reset
   to [DUnbound] at the start of every iteration and after the loop, and reading [DUnbound] is [Unm]: a run that ends
   in a value or an exception never read a value left over from another iteration, so for it this reading coincides
   with Python's (where the variables simply keep their last value); a loop over a literal list `[a, b]` unrolls by
   computation.  One kind of loop-carried state is accepted: a variable assigned in the body (not a target) that
   holds [DOpaque] when the loop is entered keeps that value instead of being reset, and every iteration must leave it
   [DOpaque] (otherwise [Unm]); since no operation looks inside a [DOpaque] value (they are only combined with each
   other, and tested for the warning of a [CWarnIf]), which opaque value it is cannot influence the outcome
   (hierarchy.validate_hier_intervals accumulates a set of boundaries this way, for its warnings only). *)
From Coq Require Import String.
From Coq Require Import List Bool Arith ZArith QArith Qabs Qminmax.
From ME Require Import Model.Prelude Model.VecExp Model.Validators.
Import ListNotations.
Open Scope Q_scope.

(* functions called by the translated bodies; their meaning is an argument [ext] of the evaluator *)
Inductive callee :=
| F_util_validate_events | F_util_validate_intervals | F_util_validate_frequencies
| F_chord_validate_chord_label
| F_transcription_validate_intervals | F_transcription_validate
| F_tempo_validate_tempi
| F_key_validate_key
| F_pattern_n_onset_midi
| F_util_generate_labels | F_util_intervals_to_boundaries | F_segment_validate_structure.

Inductive aop := OpSub | OpBitOr.

Inductive aexp :=
| AVar (x : string)
| ANone | ABool (b : bool) | AInt (z : Z) | AFloat (q : Q) | AStr (s : str)
| ATuple (l : list aexp)                          (* [e1, ..., ek] or (e1, ..., ek) *)
| ACmp (op : vcmp) (a b : aexp)                   (* one comparison; element-wise when an array is involved *)
| AAnd (a b : aexp) | AOr (a b : aexp) | ANot (a : aexp)          (* Python and / or / not (lazy) *)
| ABin (op : aop) (a b : aexp)                    (* a - b, a | b *)
| ANdim (a : aexp) | ASize (a : aexp)             (* a.ndim, a.size *)
| AShape (a : aexp) (i : nat)                     (* a.shape[i], literal i >= 0 *)
| ALen (a : aexp)                                 (* len(a) *)
| AIndex (a : aexp) (i : nat)                     (* a[i] on a list, literal i >= 0 *)
| ACol (a : aexp) (j : nat)                       (* a[:, j], literal j >= 0 *)
| ATail (a : aexp) | AInit (a : aexp)             (* a[1:], a[:-1] *)
| ALast (a : aexp)                                (* a[-1] *)
| AAbs (a : aexp) | ADiff (a : aexp) | AIsFinite (a : aexp)        (* np.abs, np.diff, np.isfinite *)
| ALogic (is_and : bool) (a b : aexp)             (* np.logical_and / np.logical_or *)
| ARed (op : redop) (a : aexp)                    (* .any() .all() np.any np.all .min() .max() np.min np.max .sum() *)
| AAllclose (a b : aexp)                          (* np.allclose(a, b) with the default tolerances, on scalars *)
| AIsArray (a : aexp)                             (* isinstance(a, np.ndarray) *)
| AEnumerate (a : aexp) (start : Z)               (* enumerate(a, start) of a list, as the list of its (index, item) pairs *)
| ASet (a : aexp)                                 (* set(a) of an opaque value *)
| ACall (f : callee) (args : list aexp).

Inductive astmt :=
| CAssign (xs : list string) (e : aexp)           (* x = e   /  x, y = e *)
| CExpr (e : aexp)                                (* evaluated for its exceptions *)
| CWarnIf (c : aexp)                              (* if c: warnings.warn(...)   -- the test is evaluated, the warning dropped *)
| CIf (c : aexp) (a b : list astmt)
| CFor (xs : list string) (e : aexp) (body : list astmt)
| CRaise (e : exn).
Record aprog := { ap_params : list string; ap_body : list astmt }.

Inductive aval :=
| DNone | DBool (b : bool) | DInt (z : Z) | DNum (q : Q)
| DArr (a : arr) | DBArr (sh : list nat) (d : list bool) | DXArr (d : list xval)
| DStr (s : str) | DList (l : list aval)
| DOpaque | DUnbound.

(* ---- decision trees ---- *)
Inductive dt (A : Type) :=
| Ret (a : A) | Exn (e : exn) | Unm
| Test (c : bool) (t f : dt A)
| Sub (o : out unit) (t : dt A).
Arguments Ret {A}. Arguments Exn {A}. Arguments Unm {A}. Arguments Test {A}. Arguments Sub {A}.
Fixpoint tbind {A B} (t : dt A) (k : A -> dt B) : dt B :=
  match t with
  | Ret a => k a | Exn e => Exn e | Unm => Unm
  | Test c a b => Test c (tbind a k) (tbind b k)
  | Sub o a => Sub o (tbind a k)
  end.
Fixpoint run_dt {A} (t : dt A) : out A :=
  match t with
  | Ret a => OK a | Exn e => EXN e | Unm => UNM
  | Test c a b => if c then run_dt a else run_dt b
  | Sub o a => obind o (fun _ => run_dt a)
  end.

(* ---- store ---- *)
Definition store := list (string * aval).
Fixpoint slookup (x : string) (st : store) : option aval :=
  match st with [] => None | (y, v) :: t => if String.eqb x y then Some v else slookup x t end.
Definition sget (x : string) (st : store) : dt aval :=
  match slookup x st with Some DUnbound | None => Unm | Some v => Ret v end.
Fixpoint poison (xs : list string) (st : store) : store :=
  match xs with [] => st | x :: t => (x, DUnbound) :: poison t st end.
(* the same, except that a variable holding DOpaque keeps it (loop-carried opaque state) *)
Definition is_opaque (v : option aval) : bool := match v with Some DOpaque => true | _ => false end.
Fixpoint poison_keep (xs : list string) (st0 st : store) : store :=
  match xs with
  | [] => st
  | x :: t => (x, if is_opaque (slookup x st0) then DOpaque else DUnbound) :: poison_keep t st0 st
  end.
(* every variable of xs that was opaque in st0 is opaque in st *)
Fixpoint carried_ok (xs : list string) (st0 st : store) : bool :=
  match xs with
  | [] => true
  | x :: t => if is_opaque (slookup x st0) then (if is_opaque (slookup x st) then carried_ok t st0 st else false)
              else carried_ok t st0 st
  end.
(* x1, ..., xk bound to v1, ..., vk (None when the numbers differ) *)
Fixpoint bind_names (xs : list string) (vs : list aval) (st : store) : option store :=
  match xs, vs with
  | [], [] => Some st
  | x :: xs', v :: vs' => bind_names xs' vs' ((x, v) :: st)
  | _, _ => None
  end.
(* x = v  /  x1, ..., xk = v  (v a list of k values) *)
Definition sbind (xs : list string) (v : aval) (st : store) : dt store :=
  match xs with
  | [x] => Ret ((x, v) :: st)
  | _ => match v with
         | DList vs => match bind_names xs vs st with Some st' => Ret st' | None => Unm end
         | _ => Unm end
  end.

(* the names a statement can assign *)
Fixpoint assigned (s : astmt) : list string :=
  let blk := fix blk (l : list astmt) : list string := match l with [] => [] | s :: t => assigned s ++ blk t end in
  match s with
  | CAssign xs _ => xs
  | CIf _ a b => blk a ++ blk b
  | CFor xs _ body => xs ++ blk body
  | CExpr _ | CWarnIf _ | CRaise _ => []
  end.
Fixpoint assigned_block (l : list astmt) : list string :=
  match l with [] => [] | s :: t => assigned s ++ assigned_block t end.

(* ---- values ---- *)
Definition zn (n : nat) : Z := Z.of_nat n.
Definition scal (v : aval) : option Q :=
  match v with DBool b => Some (b2q b) | DInt z => Some (inject_Z z) | DNum q => Some q | _ => None end.
Definition one_d (a : arr) : bool := (ndim a =? 1)%nat.
Definition arr1d (l : list Q) : arr := mkarr 1 [length l] l.

(* truth value of a test; an array has one only if it has exactly one element (more: ValueError) *)
Definition truth (v : aval) : dt bool :=
  match v with
  | DNone => Ret false
  | DBool b => Ret b
  | DInt z => Ret (negb (Z.eqb z 0))
  | DNum q => Ret (negb (qeqb q 0))
  | DStr s => Ret (negb (is_nil s))
  | DList l => Ret (negb (is_nil l))
  | DBArr _ d => Test (length d =? 1)%nat (Ret (hd false d)) (Test (2 <=? length d)%nat (Exn ValueError) Unm)
  | DArr a => Test (length (data a) =? 1)%nat (Ret (negb (qeqb (hd 0 (data a)) 0)))
                   (Test (2 <=? length (data a))%nat (Exn ValueError) Unm)
  | _ => Unm
  end.
(* the test of `if c: warnings.warn(...)`: its truth value must exist, which way it goes is irrelevant *)
Definition truth_defined (v : aval) : dt unit :=
  match v with DOpaque => Ret tt | _ => tbind (truth v) (fun _ => Ret tt) end.

(* comparison with float64 values that may be inf / nan *)
Definition xcmp (op : vcmp) (x : xval) (q : Q) : bool :=
  match x with
  | Fin y => qcmp op y q
  | NaN => match op with VNe => true | _ => false end
  | PInf => match op with VGt | VGe | VNe => true | _ => false end
  | NInf => match op with VLt | VLe | VNe => true | _ => false end
  end.
Definition is_fin (x : xval) : bool := match x with Fin _ => true | _ => false end.

(* two 1-d arrays broadcast as in VecExp (equal lengths, or one side of length 1; otherwise ValueError) *)
Definition a_cmp (op : vcmp) (a b : aval) : dt aval :=
  match a, b with
  | DInt x, DInt y => Ret (DBool (zcmp op x y))
  | DArr x, DArr y =>
      Test (one_d x && one_d y)
           (Test (bc_ok (data x) (data y))
                 (let d := bcv (qcmp op) (data x) (data y) in Ret (DBArr [length d] d))
                 (Exn ValueError))
           Unm
  | DArr x, _ => match scal b with Some q => Ret (DBArr (shape x) (map (fun e => qcmp op e q) (data x))) | None => Unm end
  | _, DArr y => match scal a with Some q => Ret (DBArr (shape y) (map (fun e => qcmp op q e) (data y))) | None => Unm end
  | DXArr x, _ => match scal b with Some q => Ret (DBArr [length x] (map (fun e => xcmp op e q) x)) | None => Unm end
  | _, _ => match scal a, scal b with Some x, Some y => Ret (DBool (qcmp op x y)) | _, _ => Unm end
  end.

Definition a_bin (op : aop) (a b : aval) : dt aval :=
  match op, a, b with
  | _, DOpaque, DOpaque => Ret DOpaque                       (* set difference / union: only passed around *)
  | OpSub, DInt x, DInt y => Ret (DInt (x - y))
  | OpSub, DArr x, DArr y =>
      Test (one_d x && one_d y)
           (Test (bc_ok (data x) (data y)) (Ret (DArr (arr1d (bcv Qminus (data x) (data y))))) (Exn ValueError))
           Unm
  | OpSub, DArr x, _ => match scal b with Some q => Ret (DArr (mkarr (ndim x) (shape x) (map (fun e => e - q) (data x)))) | None => Unm end
  | OpSub, _, _ => match scal a, scal b with Some x, Some y => Ret (DNum (x - y)) | _, _ => Unm end
  | _, _, _ => Unm
  end.

Definition a_ndim (v : aval) : dt aval :=
  match v with
  | DArr a => Ret (DInt (zn (ndim a))) | DBArr sh _ => Ret (DInt (zn (length sh))) | DXArr _ => Ret (DInt 1)
  | _ => Unm end.
Definition a_size (v : aval) : dt aval :=
  match v with
  | DArr a => Ret (DInt (zn (length (data a)))) | DBArr _ d => Ret (DInt (zn (length d))) | DXArr d => Ret (DInt (zn (length d)))
  | _ => Unm end.
(* a.shape[i]: the shape is a tuple of ndim entries (IndexError beyond) *)
Definition a_shape (v : aval) (i : nat) : dt aval :=
  match v with
  | DArr a => Test (i <? length (shape a))%nat (Ret (DInt (zn (nth i (shape a) 0%nat)))) (Exn IndexError)
  | DBArr sh _ => Test (i <? length sh)%nat (Ret (DInt (zn (nth i sh 0%nat)))) (Exn IndexError)
  | DXArr d => match i with O => Ret (DInt (zn (length d))) | _ => Exn IndexError end
  | _ => Unm end.
(* len(a): a 0-d array is unsized (TypeError) *)
Definition a_len (v : aval) : dt aval :=
  match v with
  | DList l => Ret (DInt (zn (length l)))
  | DStr s => Ret (DInt (zn (length s)))
  | DArr a => Test (is_nil (shape a)) (Exn TypeError) (Ret (DInt (zn (nth 0 (shape a) 0%nat))))
  | DBArr sh _ => Test (is_nil sh) (Exn TypeError) (Ret (DInt (zn (nth 0 sh 0%nat))))
  | DXArr d => Ret (DInt (zn (length d)))
  | _ => Unm end.
Fixpoint item_at (i : nat) (l : list aval) : aval :=
  match l, i with [], _ => DNone | x :: _, O => x | _ :: t, S j => item_at j t end.
Definition rest_items (l : list aval) : list aval := match l with [] => [] | _ :: t => t end.
Definition a_index (v : aval) (i : nat) : dt aval :=
  match v with
  | DList l => Test (i <? length l)%nat (Ret (item_at i l)) (Exn IndexError)
  | _ => Unm end.
(* a[:, j] of an (n, c) array: the elements data[r * c + j], r < n; fewer than two dimensions or j >= c: IndexError *)
Definition a_col (v : aval) (j : nat) : dt aval :=
  match v with
  | DArr a =>
      Test (ndim a =? 2)%nat
           (let n := nth 0 (shape a) 0%nat in let c := nth 1 (shape a) 0%nat in
            Test (j <? c)%nat (Ret (DArr (mkarr 1 [n] (map (fun r => nth (r * c + j) (data a) 0) (seq 0 n))))) (Exn IndexError))
           (Test (ndim a <? 2)%nat (Exn IndexError) Unm)
  | _ => Unm end.
Definition a_tail (v : aval) : dt aval :=
  match v with
  | DArr a => Test (one_d a) (Ret (DArr (arr1d (tl (data a))))) Unm
  | DList l => Ret (DList (rest_items l))
  | _ => Unm end.
Definition a_init (v : aval) : dt aval :=
  match v with
  | DArr a => Test (one_d a) (Ret (DArr (arr1d (removelast (data a))))) Unm
  | DList l => Ret (DList (removelast l))
  | _ => Unm end.
(* a[-1] of a 1-d array (IndexError when it is empty, or 0-d) *)
Definition a_last (v : aval) : dt aval :=
  match v with
  | DArr a => Test (one_d a) (Test (is_nil (data a)) (Exn IndexError) (Ret (DNum (last (data a) 0))))
                   (Test (ndim a =? 0)%nat (Exn IndexError) Unm)
  | _ => Unm end.
Definition a_abs (v : aval) : dt aval :=
  match v with
  | DArr a => Ret (DArr (mkarr (ndim a) (shape a) (map Qabs (data a))))
  | DNum q => Ret (DNum (Qabs q))
  | DInt z => Ret (DInt (Z.abs z))
  | _ => Unm end.
(* np.diff of a 1-d array: x[1:] - x[:-1]; a 0-d array is rejected with ValueError *)
Fixpoint diffs (l : list Q) : list Q :=
  match l with a :: ((b :: _) as t) => (b - a) :: diffs t | _ => [] end.
Definition a_diff (v : aval) : dt aval :=
  match v with
  | DArr a => Test (one_d a) (Ret (DArr (arr1d (diffs (data a))))) (Test (ndim a =? 0)%nat (Exn ValueError) Unm)
  | _ => Unm end.
Definition a_isfinite (v : aval) : dt aval :=
  match v with
  | DArr a => Ret (DBArr (shape a) (map (fun _ => true) (data a)))
  | DXArr d => Ret (DBArr [length d] (map is_fin d))
  | DNum _ | DInt _ => Ret (DBool true)
  | _ => Unm end.
Definition shape_eqb (a b : list nat) : bool := if list_eq_dec Nat.eq_dec a b then true else false.
Definition a_logic (is_and : bool) (a b : aval) : dt aval :=
  let f := if is_and then andb else orb in
  match a, b with
  | DBArr s d, DBArr s' d' => Test (shape_eqb s s') (Ret (DBArr s (vmap2 f d d'))) Unm
  | DBool x, DBool y => Ret (DBool (f x y))
  | _, _ => Unm end.
Definition qmin0 (l : list Q) : Q := match qmin_list l with Some m => m | None => 0 end.
Definition qmax0 (l : list Q) : Q := match qmax_list l with Some m => m | None => 0 end.
Definition a_red (op : redop) (v : aval) : dt aval :=
  match op, v with
  | RAny, DBArr _ d => Ret (DBool (existsb (fun b => b) d))
  | RAll, DBArr _ d => Ret (DBool (forallb (fun b => b) d))
  | RAny, DBool b | RAll, DBool b => Ret (DBool b)
  (* min / max of an empty array: ValueError *)
  | RMinV, DArr a => Test (is_nil (data a)) (Exn ValueError) (Ret (DNum (qmin0 (data a))))
  | RMaxV, DArr a => Test (is_nil (data a)) (Exn ValueError) (Ret (DNum (qmax0 (data a))))
  | RSum, DArr a => Ret (DNum (qsum (data a)))
  | _, _ => Unm end.
(* np.allclose(a, b) = |a - b| <= atol + rtol * |b| with the defaults rtol = 1e-05, atol = 1e-08 (as binary64) *)
Definition default_atol : Q := (3022314549036573 # 302231454903657293676544)%Q.
Definition default_rtol : Q := (5902958103587057 # 590295810358705651712)%Q.
Definition a_allclose (a b : aval) : dt aval :=
  match scal a, scal b with
  | Some x, Some y => Ret (DBool (qleb (Qabs (x - y)) (default_atol + default_rtol * Qabs y)))
  | _, _ => Unm end.
Definition a_isarray (v : aval) : dt aval :=
  match v with
  | DArr _ | DBArr _ _ | DXArr _ => Ret (DBool true)
  | DNone | DBool _ | DInt _ | DNum _ | DStr _ | DList _ => Ret (DBool false)
  | _ => Unm end.

Fixpoint enumerate_from (z : Z) (l : list aval) : list aval :=
  match l with [] => [] | x :: t => DList [DInt z; x] :: enumerate_from (z + 1) t end.
Definition a_enumerate (start : Z) (v : aval) : dt aval :=
  match v with DList l => Ret (DList (enumerate_from start l)) | _ => Unm end.
Definition a_set (v : aval) : dt aval := match v with DOpaque => Ret DOpaque | _ => Unm end.

(* ---- evaluation ---- *)
Definition list_eval (f : aexp -> dt aval) : list aexp -> dt (list aval) :=
  fix go (l : list aexp) : dt (list aval) :=
    match l with [] => Ret [] | x :: t => tbind (f x) (fun v => tbind (go t) (fun vs => Ret (v :: vs))) end.
(* the statements of a block, then k *)
Definition block (f : astmt -> store -> (store -> dt unit) -> dt unit) : list astmt -> store -> (store -> dt unit) -> dt unit :=
  fix go (l : list astmt) (st : store) (k : store -> dt unit) : dt unit :=
    match l with [] => k st | s :: t => f s st (fun st' => go t st' k) end.
(* g on every item, in order, stopping at the first that does not return; then k.  g receives what follows it *)
Fixpoint each_then {A} (g : aval -> dt A -> dt A) (items : list aval) (k : dt A) : dt A :=
  match items with [] => k | it :: rest => g it (each_then g rest k) end.

Section Eval.
Variable ext : callee -> list aval -> dt aval.

Fixpoint eval (st : store) (e : aexp) : dt aval :=
  let un (f : aval -> dt aval) (a : aexp) := tbind (eval st a) f in
  let bin (f : aval -> aval -> dt aval) (a b : aexp) := tbind (eval st a) (fun x => tbind (eval st b) (fun y => f x y)) in
  match e with
  | AVar x => sget x st
  | ANone => Ret DNone | ABool b => Ret (DBool b) | AInt z => Ret (DInt z) | AFloat q => Ret (DNum q) | AStr s => Ret (DStr s)
  | ATuple l => tbind (list_eval (eval st) l) (fun vs => Ret (DList vs))
  | ACmp op a b => bin (a_cmp op) a b
  | AAnd a b => tbind (eval st a) (fun x => tbind (truth x) (fun t => Test t (eval st b) (Ret x)))
  | AOr a b => tbind (eval st a) (fun x => tbind (truth x) (fun t => Test t (Ret x) (eval st b)))
  | ANot a => tbind (eval st a) (fun x => tbind (truth x) (fun t => Ret (DBool (negb t))))
  | ABin op a b => bin (a_bin op) a b
  | ANdim a => un a_ndim a
  | ASize a => un a_size a
  | AShape a i => un (fun v => a_shape v i) a
  | ALen a => un a_len a
  | AIndex a i => un (fun v => a_index v i) a
  | ACol a j => un (fun v => a_col v j) a
  | ATail a => un a_tail a
  | AInit a => un a_init a
  | ALast a => un a_last a
  | AAbs a => un a_abs a
  | ADiff a => un a_diff a
  | AIsFinite a => un a_isfinite a
  | ALogic k a b => bin (a_logic k) a b
  | ARed op a => un (a_red op) a
  | AAllclose a b => bin a_allclose a b
  | AIsArray a => un a_isarray a
  | AEnumerate a z => un (a_enumerate z) a
  | ASet a => un a_set a
  | ACall f args => tbind (list_eval (eval st) args) (ext f)
  end.

Fixpoint exec (s : astmt) (st : store) (k : store -> dt unit) : dt unit :=
  match s with
  | CAssign xs e => tbind (eval st e) (fun v => tbind (sbind xs v st) k)
  | CExpr e => tbind (eval st e) (fun _ => k st)
  | CWarnIf c => tbind (eval st c) (fun v => tbind (truth_defined v) (fun _ => k st))
  | CIf c a b => tbind (eval st c) (fun v => tbind (truth v) (fun t => Test t (block exec a st k) (block exec b st k)))
  | CFor xs e body =>
      tbind (eval st e) (fun v =>
        match v with
        | DList items =>
            let ws := assigned_block body in
            let st0 := poison xs (poison_keep ws st st) in
            each_then (fun it rest =>
                         tbind (sbind xs it st0) (fun st1 =>
                           block exec body st1 (fun st2 => if carried_ok ws st st2 then rest else Unm)))
                      items (k st0)
        | _ => Unm end)
  | CRaise e => Exn e
  end.
End Eval.

Definition aprog_tree (p : aprog) (ext : callee -> list aval -> dt aval) (args : list aval) : dt unit :=
  match bind_names (ap_params p) args [] with
  | Some st => block (exec ext) (ap_body p) st (fun _ => Ret tt)
  | None => Unm
  end.
Definition arun (p : aprog) (ext : callee -> list aval -> dt aval) (args : list aval) : out unit :=
  run_dt (aprog_tree p ext args).
Definition no_callee : callee -> list aval -> dt aval := fun _ _ => Unm.
(* a callee that is called for its exceptions and returns None *)
Definition called (o : out unit) : dt aval := Sub o (Ret DNone).
