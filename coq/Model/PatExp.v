(* A small deep-embedded Python / NumPy sub-language for the pattern-discovery metrics of mir_eval/pattern.py:
   values, operators with the CPython / NumPy semantics of exactly the operations that module uses, and an
   environment-based evaluator (same architecture as Model/PyStr.v, which it does not modify). Definitions only.

   translator/patternfuncs.py maps the syntax of each function body to an [fdef] (Gen/PatternGen.v); what the syntax
   means on each type of value is decided HERE; Proofs/PatternTie.v proves each generated program equal to the
   hand-written model function of Model/Pattern.v for all inputs, with the callees instantiated by the model's own
   functions.

   Reading of Python
   * Numbers. A float is an exact rational (the convention of the whole development, DESIGN 2.1). Python scalars
     (bool, int, float) and NumPy scalars (np.int64 [VNpI], np.float64 [VNpF]) are DIFFERENT values: `/` between
     Python scalars raises ZeroDivisionError on a zero divisor, while a NumPy scalar on either side would give
     inf / nan with a warning, which is outside the model ([UNM]).
   * Arrays: 1-d / 2-d / 3-d float64 arrays ([VVec], [VMat c rows], [VCube c d a]; the row length is part of the
     value so that shapes with an empty axis are represented), 1-d / 2-d integer arrays ([VIVec], [VIMat]), the
     open mesh returned by np.ix_ ([VIx]). np.empty gives a value only when the array has no element; a non-empty
     np.empty is uninitialised memory, [UNM].
   * Sets ([VSet]): a list without two equal elements (Python ==: numbers compare by value, tuples component-wise).
     Only len, &, `in` are defined on sets (no iteration), so which representative of a class of equal elements is
     kept cannot be observed.
   * [UNM] ("unmodelled") is the result of every operation on operands outside the cases written below; a tie
     theorem can only hold if the program never reaches such a case.
   * Locals, in-place writes, calls: as in Model/PyStr.v. Python decides statically which names are local; the
     environment has one slot per parameter and local from the start, reading an unbound slot raises
     (UnboundLocalError = [OtherExn]). x[i] = v is emitted by the translator only for names all of whose bindings
     create a fresh object and which reach another name only after the last write (it fails otherwise), so that
     rebinding the local is an exact reading. Calls of other functions are opaque ([ECall]): positional and keyword
     arguments are evaluated left to right and then bound to the callee's parameters as Python does (signature and
     literal defaults read from the source in the same run); the callee receives one value per parameter.
     [ECallV] calls the function a local holds ([VFun], bound from the name of a nested def). *)
From Coq Require Import String.
From Coq Require Import List Bool Arith ZArith QArith Qabs Qminmax.
From ME Require Import Model.Prelude.
Import ListNotations.

Inductive out (A : Type) := OK (a : A) | EXN (e : exn) | UNM.
Arguments OK {A}. Arguments EXN {A}. Arguments UNM {A}.
Definition obind {A B} (r : out A) (f : A -> out B) : out B :=
  match r with OK a => f a | EXN e => EXN e | UNM => UNM end.
Notation "x <~ r ;; k" := (obind r (fun x => k)) (at level 61, r at next level, right associativity).
Definition of_opt {A} (o : option A) : out A := match o with Some a => OK a | None => UNM end.
Fixpoint mapM {A B} (f : A -> out B) (l : list A) : out (list B) :=
  match l with [] => OK [] | a :: t => b <~ f a ;; bs <~ mapM f t ;; OK (b :: bs) end.
Fixpoint omap {A B} (f : A -> option B) (l : list A) : option (list B) :=
  match l with
  | [] => Some []
  | a :: t => match f a, omap f t with Some b, Some bs => Some (b :: bs) | _, _ => None end
  end.

Inductive pv :=
| VNone | VBool (b : bool) | VInt (z : Z) | VFloat (q : Q)       (* Python scalars *)
| VNpI (z : Z) | VNpF (q : Q)                                    (* np.int64, np.float64 *)
| VStr (s : str)
| VList (l : list pv) | VTup (l : list pv)
| VSet (l : list pv)
| VVec (l : list Q)                                              (* float64, shape (length l,) *)
| VMat (c : nat) (rows : list (list Q))                          (* float64, shape (length rows, c) *)
| VCube (c d : nat) (a : list (list (list Q)))                   (* float64, shape (length a, c, d) *)
| VIVec (l : list Z)                                             (* integer, shape (length l,) *)
| VIMat (c : nat) (rows : list (list Z))                         (* integer, shape (length rows, c) *)
| VIx (r c : list Z)                                             (* np.ix_(r, c) *)
| VSliceAll | VSlice (lo hi : option Z)                          (* the slices `:` and `lo:hi` *)
| VFun (f : string)                                              (* a function defined in the module / by a nested def *)
| VTy (t : string)                                               (* the type objects int, float, bool (dtype arguments) *)
| VUnbound.

(* ------------------------------------------------------------------ numbers *)
Definition zq (z : Z) : Q := inject_Z z.
Definition b2z (b : bool) : Z := if b then 1%Z else 0%Z.
Definition as_int (v : pv) : option Z :=                   (* Python integers *)
  match v with VInt z => Some z | VBool b => Some (b2z b) | _ => None end.
Definition as_anyint (v : pv) : option Z :=                (* ... and np.int64 *)
  match v with VInt z | VNpI z => Some z | VBool b => Some (b2z b) | _ => None end.
Definition as_num (v : pv) : option Q :=
  match v with
  | VBool b => Some (zq (b2z b)) | VInt z | VNpI z => Some (zq z) | VFloat q | VNpF q => Some q
  | _ => None end.
Definition is_py_num (v : pv) : bool := match v with VBool _ | VInt _ | VFloat _ => true | _ => false end.
Definition is_float_num (v : pv) : bool := match v with VFloat _ | VNpF _ => true | _ => false end.

(* np.max / np.mean of the elements, as the model writes them (Model/Pattern.v: qmaxl, qmean) *)
Fixpoint maxl_from (x : Q) (t : list Q) : Q := match t with [] => x | y :: t' => Qmax x (maxl_from y t') end.
Definition maxl (l : list Q) : Q := match l with [] => 0 | x :: t => maxl_from x t end.
Definition meanl (l : list Q) : Q := qsum l / zq (Z.of_nat (List.length l)).
Fixpoint zmaxl_from (x : Z) (t : list Z) : Z := match t with [] => x | y :: t' => Z.max x (zmaxl_from y t') end.
Fixpoint diffs (l : list Q) : list Q :=
  match l with a :: ((b :: _) as t) => (b - a) :: diffs t | _ => [] end.
Fixpoint zipq (f : Q -> Q -> Q) (a b : list Q) : list Q :=
  match a, b with x :: a', y :: b' => f x y :: zipq f a' b' | _, _ => [] end.
Fixpoint row_diffs (l : list (list Q)) : list (list Q) :=
  match l with a :: ((b :: _) as t) => zipq Qminus b a :: row_diffs t | _ => [] end.
(* the columns of a matrix with rows of length c *)
Fixpoint cols (c : nat) (rows : list (list Q)) : list (list Q) :=
  match c with O => [] | S c' => map (fun r => hd 0 r) rows :: cols c' (map (@tl Q) rows) end.
Definition is_nil {A} (l : list A) : bool := match l with [] => true | _ => false end.

(* ------------------------------------------------------------------ indices *)
(* Python index -> position: negative indices count from the end; None = IndexError *)
Definition norm_idx (i : Z) (n : nat) : option nat :=
  if ((0 <=? i) && (i <? Z.of_nat n))%Z then Some (Z.to_nat i)
  else if ((i <? 0) && (- Z.of_nat n <=? i))%Z then Some (Z.to_nat (Z.of_nat n + i)) else None.
Fixpoint set_nth {A} (l : list A) (i : nat) (v : A) : list A :=
  match l, i with [], _ => [] | _ :: t, O => v :: t | x :: t, S j => x :: set_nth t j v end.
(* l[:hi] *)
Definition slice_hi {A} (hi : Z) (l : list A) : list A :=
  if (hi <? 0)%Z then firstn (List.length l - Z.to_nat (- hi)) l else firstn (Z.to_nat hi) l.
Fixpoint enum_from (n : Z) (l : list pv) : list pv :=
  match l with [] => [] | v :: t => VTup [VInt n; v] :: enum_from (n + 1)%Z t end.
(* the sub-matrix M[np.ix_(rs, cs)]; None = IndexError *)
Definition pick {A} (l : list A) (i : Z) : option A :=
  match norm_idx i (List.length l) with Some n => nth_error l n | None => None end.
Definition mesh (rows : list (list Q)) (rs cs : list Z) : option (list (list Q)) :=
  omap (fun i => match pick rows i with Some r => omap (pick r) cs | None => None end) rs.

(* ------------------------------------------------------------------ equality, sets *)
Definition scalar (v : pv) : bool :=
  match v with VNone | VBool _ | VInt _ | VFloat _ | VNpI _ | VNpF _ | VStr _ => true | _ => false end.
(* a == b for scalars and tuples of them; None: not modelled. (Written with one-argument matches only: a match on a
   pair of values is compiled into hundreds of branches, which makes symbolic evaluation very slow.) *)
Inductive kind := KNum (q : Q) | KStr (s : str) | KNone | KTupk | KOther.
Definition kind_of (v : pv) : kind :=
  match v with
  | VNone => KNone | VStr s => KStr s | VTup _ => KTupk
  | VBool b => KNum (zq (b2z b)) | VInt z | VNpI z => KNum (zq z) | VFloat q | VNpF q => KNum q
  | _ => KOther end.
Definition eq_kind (a b : kind) : option bool :=
  match a with
  | KOther => None
  | KNum x => match b with KNum y => Some (qeqb x y) | KOther => None | _ => Some false end
  | KStr s => match b with KStr t => Some (seqb s t) | KOther => None | _ => Some false end
  | KNone => match b with KNone => Some true | KOther => None | _ => Some false end
  | KTupk => match b with KOther => None | _ => Some false end
  end.
Fixpoint py_eqb (a b : pv) {struct a} : option bool :=
  match a with
  | VTup l1 =>
      match b with
      | VTup l2 =>
          (fix go (l1 l2 : list pv) {struct l1} : option bool :=
             match l1 with
             | [] => match l2 with [] => Some true | _ :: _ => Some false end
             | x :: t1 =>
                 match l2 with
                 | [] => Some false
                 | y :: t2 => match py_eqb x y, go t1 t2 with Some e, Some r => Some (e && r) | _, _ => None end
                 end
             end) l1 l2
      | _ => eq_kind KTupk (kind_of b)
      end
  | _ => eq_kind (kind_of a) (kind_of b)
  end.
(* hashable: scalars and tuples of hashables *)
Fixpoint hashable (v : pv) : bool :=
  match v with
  | VTup l => (fix all (l : list pv) : bool := match l with [] => true | x :: t => hashable x && all t end) l
  | _ => scalar v
  end.
Fixpoint pmem (x : pv) (l : list pv) : option bool :=
  match l with
  | [] => Some false
  | y :: t => match py_eqb x y, pmem x t with Some e, Some r => Some (e || r) | _, _ => None end
  end.
(* the representation of set(l): one element of every class of equal elements (the last one) *)
Fixpoint set_of (l : list pv) : option (list pv) :=
  match l with
  | [] => Some []
  | x :: t => match pmem x t, set_of t with
              | Some true, Some s => Some s
              | Some false, Some s => Some (x :: s)
              | _, _ => None end
  end.
Fixpoint set_inter (a b : list pv) : option (list pv) :=
  match a with
  | [] => Some []
  | x :: t => match pmem x b, set_inter t b with
              | Some true, Some s => Some (x :: s)
              | Some false, Some s => Some s
              | _, _ => None end
  end.

(* ------------------------------------------------------------------ operators *)
Inductive binop := Add | Sub | Mul | Div | Mod | BitAnd.
Inductive cmpop := Eq | Ne | Lt | Le | Gt | Ge.

Definition truth (v : pv) : out bool :=
  match v with
  | VNone => OK false | VBool b => OK b
  | VInt z | VNpI z => OK (negb (Z.eqb z 0))
  | VFloat q | VNpF q => OK (negb (qeqb q 0))
  | VStr s => OK (negb (Nat.eqb (List.length s) 0))
  | VList l | VTup l | VSet l => OK (negb (Nat.eqb (List.length l) 0))
  | _ => UNM
  end.

Definition zarith (op : binop) (x y : Z) : option Z :=
  match op with Add => Some (x + y)%Z | Sub => Some (x - y)%Z | Mul => Some (x * y)%Z | _ => None end.
Definition qarith (op : binop) (x y : Q) : option Q :=
  match op with Add => Some (x + y) | Sub => Some (x - y) | Mul => Some (x * y) | _ => None end.
Definition same_shape (a b : list (list Q)) : bool :=
  Nat.eqb (List.length a) (List.length b).
Definition num_op (op : binop) (a b : pv) : out pv :=       (* + - * on numbers *)
  match as_int a, as_int b with
  | Some x, Some y => of_opt (option_map VInt (zarith op x y))
  | _, _ =>
      match as_anyint a, as_anyint b with
      | Some x, Some y => of_opt (option_map VNpI (zarith op x y))
      | _, _ =>
          match as_num a, as_num b with
          | Some x, Some y =>
              of_opt (option_map (if is_py_num a && is_py_num b then VFloat else VNpF) (qarith op x y))
          | _, _ => UNM
          end
      end
  end.
Definition div_op (a b : pv) : out pv :=
  match as_num a, as_num b with
  | Some x, Some y =>
      if is_py_num a && is_py_num b then (if qeqb y 0 then EXN ZeroDivisionError else OK (VFloat (x / y)))
      else if qeqb y 0 then UNM                   (* inf / nan and a RuntimeWarning *)
      else OK (VNpF (x / y))
  | _, _ => UNM
  end.
Definition sub_op (a b : pv) : out pv :=
  match a with
  | VVec x => match b with
              | VVec y => if Nat.eqb (List.length x) (List.length y) then OK (VVec (zipq Qminus x y)) else UNM
              | _ => UNM end
  | VMat c x => match b with
                | VMat c' y =>
                    if Nat.eqb c c' && same_shape x y
                    then OK (VMat c (map (fun p => zipq Qminus (fst p) (snd p)) (combine x y))) else UNM
                | _ => UNM end
  | _ => num_op Sub a b
  end.
Definition and_op (a b : pv) : out pv :=
  match a with
  | VSet x => match b with VSet y => of_opt (option_map VSet (set_inter x y)) | _ => UNM end
  | _ => UNM
  end.
Definition bin_op (op : binop) (a b : pv) : out pv :=
  match op with
  | BitAnd => and_op a b
  | Mod => UNM                                       (* in particular %-formatting of a message *)
  | Div => div_op a b
  | Sub => sub_op a b
  | Add | Mul => num_op op a b
  end.

Definition qcmp (op : cmpop) (x y : Q) : bool :=
  match op with Eq => qeqb x y | Ne => negb (qeqb x y) | Lt => qltb x y | Le => qleb x y
  | Gt => qltb y x | Ge => qleb y x end.
Definition cmp_op (op : cmpop) (a b : pv) : out pv :=
  match op with
  | Eq => of_opt (option_map VBool (py_eqb a b))
  | Ne => of_opt (option_map (fun t => VBool (negb t)) (py_eqb a b))
  | _ => match as_num a, as_num b with
         | Some x, Some y => OK (VBool (qcmp op x y))
         | _, _ => UNM
         end
  end.
Definition contains (a b : pv) : out bool :=
  match b with
  | VSet l => if hashable a then of_opt (pmem a l) else UNM
  | VList l | VTup l => of_opt (pmem a l)
  | _ => UNM
  end.

Definition seq_item (l : list pv) (i : pv) : out pv :=       (* list / tuple *)
  match i with
  | VInt z => match norm_idx z (List.length l) with Some n => of_opt (nth_error l n) | None => EXN IndexError end
  | _ => UNM end.
Definition get_item (a i : pv) : out pv :=
  match a with
  | VTup l => seq_item l i
  | VList l =>
      match i with
      | VSlice None (Some hi) => OK (VList (slice_hi hi l))
      | VSlice None None | VSliceAll => OK (VList l)                               (* a copy *)
      | _ => seq_item l i
      end
  | VCube c d m =>
      match i with
      | VTup [VSliceAll; VSliceAll; VInt k] =>                                     (* m[:, :, k]: shape (length m, c) *)
          match norm_idx k d with
          | Some n => OK (VMat c (map (map (fun cell => nth n cell 0)) m))
          | None => EXN IndexError end
      | _ => UNM end
  | VIMat c m =>
      match i with
      | VTup [VSliceAll; VInt k] =>                                                (* m[:, k] *)
          match norm_idx k c with
          | Some n => OK (VIVec (map (fun r => nth n r 0%Z) m))
          | None => EXN IndexError end
      | _ => UNM end
  | VMat c m =>
      match i with
      | VIx rs cs => match mesh m rs cs with Some m' => OK (VMat (List.length cs) m') | None => EXN IndexError end
      | _ => UNM end
  | _ => UNM
  end.
(* a[i] = v on an array / list a (the translator guarantees that a is not shared) *)
Definition set_item (a i v : pv) : out pv :=
  match a with
  | VList l =>
      match i with
      | VInt z => match norm_idx z (List.length l) with Some n => OK (VList (set_nth l n v)) | None => EXN IndexError end
      | _ => UNM end
  | VMat c m =>
      match i with
      | VTup [VInt i; VInt j] =>
          match as_num v with
          | Some x =>
              match norm_idx i (List.length m), norm_idx j c with
              | Some ni, Some nj => OK (VMat c (set_nth m ni (set_nth (nth ni m []) nj x)))
              | _, _ => EXN IndexError end
          | None => UNM end
      | _ => UNM end
  | VCube c d m =>
      match i with
      | VTup [VInt i; VInt j; VInt k] =>
          match as_num v with
          | Some x =>
              match norm_idx i (List.length m), norm_idx j c, norm_idx k d with
              | Some ni, Some nj, Some nk =>
                  let plane := nth ni m [] in
                  OK (VCube c d (set_nth m ni (set_nth plane nj (set_nth (nth nj plane []) nk x))))
              | _, _, _ => EXN IndexError end
          | None => UNM end
      | _ => UNM end
  | _ => UNM
  end.
(* the elements a for loop / an unpacking / a constructor sees *)
Definition iter_elems (v : pv) : out (list pv) :=
  match v with
  | VStr s => OK (map (fun c => VStr [c]) s)
  | VList l | VTup l => OK l
  | VVec l => OK (map VNpF l)
  | VIVec l => OK (map VNpI l)
  | _ => UNM
  end.

(* builtins and NumPy functions f(args, **kws); f as written in the source *)
Fixpoint all_num_rows (l : list pv) : option (list (list Q)) :=
  match l with
  | [] => Some []
  | (VTup r | VList r) :: t =>
      if forallb is_float_num r
      then match omap as_num r, all_num_rows t with Some x, Some xs => Some (x :: xs) | _, _ => None end
      else None
  | _ => None
  end.
Definition lookup_kw (k : string) (kws : list (string * pv)) : option pv :=
  match find (fun kv => String.eqb k (fst kv)) kws with Some kv => Some (snd kv) | None => None end.
(* the optional `axis` argument: second positional or keyword *)
Definition axis_arg (args : list pv) (kws : list (string * pv)) : option (pv * option Z) :=
  match args, kws with
  | [x], [] => Some (x, None)
  | [x; VInt k], [] => Some (x, Some k)
  | [x], [(kw, VInt k)] => if String.eqb kw "axis" then Some (x, Some k) else None
  | _, _ => None
  end.
Definition shape_of (v : pv) : option (list Z) :=
  match v with
  | VInt n => Some [n]
  | VTup l | VList l => omap as_int l
  | _ => None end.
Local Open Scope string_scope.
Definition builtin (f : string) (args : list pv) (kws : list (string * pv)) : out pv :=
  if f =? "len" then
    match args, kws with
    | [VStr s], [] => OK (VInt (Z.of_nat (List.length s)))
    | [VList l], [] | [VTup l], [] | [VSet l], [] => OK (VInt (Z.of_nat (List.length l)))
    | [VVec l], [] => OK (VInt (Z.of_nat (List.length l)))
    | [VIVec l], [] => OK (VInt (Z.of_nat (List.length l)))
    | [VMat _ m], [] => OK (VInt (Z.of_nat (List.length m)))
    | [VIMat _ m], [] => OK (VInt (Z.of_nat (List.length m)))
    | [VCube _ _ m], [] => OK (VInt (Z.of_nat (List.length m)))
    | _, _ => UNM end
  else if f =? "float" then
    match args, kws with [v], [] => of_opt (option_map VFloat (as_num v)) | _, _ => UNM end
  else if f =? "min" then
    match args, kws with
    | [VInt x; VInt y], [] => OK (VInt (Z.min x y))          (* Python ints only: min returns one of its arguments *)
    | _, _ => UNM end
  else if f =? "tuple" then
    match args, kws with [VTup l], [] | [VList l], [] => OK (VTup l) | _, _ => UNM end
  else if f =? "list" then
    match args, kws with [VTup l], [] | [VList l], [] => OK (VList l) | _, _ => UNM end
  else if f =? "set" then
    match args, kws with
    | [], [] => OK (VSet [])
    | [VList l], [] | [VTup l], [] =>
        if forallb hashable l then of_opt (option_map VSet (set_of l)) else UNM
    | [VSet l], [] => OK (VSet l)
    | _, _ => UNM end
  else if f =? "enumerate" then
    match args, kws with [v], [] => els <~ iter_elems v ;; OK (VList (enum_from 0 els)) | _, _ => UNM end
  else if f =? "range" then
    match args, kws with
    | [VInt n], [] => OK (VList (map (fun k => VInt (Z.of_nat k)) (seq 0 (Z.to_nat n))))
    | _, _ => UNM end
  else if f =? "np.zeros" then                      (* float64 unless a dtype is given *)
    match args, kws with
    | [sh], [] =>
        match shape_of sh with
        | Some [r; c] =>
            if ((0 <=? r) && (0 <=? c))%Z then OK (VMat (Z.to_nat c) (repeat (repeat 0 (Z.to_nat c)) (Z.to_nat r)))
            else EXN ValueError
        | Some [r; c; d] =>
            if ((0 <=? r) && (0 <=? c) && (0 <=? d))%Z
            then OK (VCube (Z.to_nat c) (Z.to_nat d) (repeat (repeat (repeat 0 (Z.to_nat d)) (Z.to_nat c)) (Z.to_nat r)))
            else EXN ValueError
        | Some [n] => if (0 <=? n)%Z then OK (VVec (repeat 0 (Z.to_nat n))) else EXN ValueError
        | _ => UNM end
    | _, _ => UNM end
  else if f =? "np.empty" then                      (* a value only if there is no element to leave uninitialised *)
    match args, kws with
    | [sh], [(kw, VTy ty)] =>
        if (kw =? "dtype") && (ty =? "int") then
          match shape_of sh with
          | Some [r; c] => if (r =? 0)%Z && (0 <=? c)%Z then OK (VIMat (Z.to_nat c) []) else UNM
          | _ => UNM end
        else UNM
    | [sh], [] =>
        match shape_of sh with
        | Some [r; c] => if (r =? 0)%Z && (0 <=? c)%Z then OK (VMat (Z.to_nat c) []) else UNM
        | Some [r; c; d] => if (r =? 0)%Z && (0 <=? c)%Z && (0 <=? d)%Z then OK (VCube (Z.to_nat c) (Z.to_nat d) []) else UNM
        | _ => UNM end
    | _, _ => UNM end
  else if f =? "np.asarray" then
    match args, kws with
    | [VList []], [] => OK (VVec [])                                         (* shape (0,) *)
    | [VList l], [] =>
        if forallb is_float_num l then of_opt (option_map VVec (omap as_num l))
        else match all_num_rows l with
             | Some (r :: rs) =>
                 if forallb (fun r' => Nat.eqb (List.length r') (List.length r)) rs
                 then OK (VMat (List.length r) (r :: rs)) else UNM            (* ragged *)
             | _ => UNM end
    | [VVec l], [] => OK (VVec l)
    | [VMat c m], [] => OK (VMat c m)
    | _, _ => UNM end
  else if f =? "np.abs" then
    match args, kws with
    | [VVec l], [] => OK (VVec (map Qabs l))
    | [VMat c m], [] => OK (VMat c (map (map Qabs) m))
    | _, _ => UNM end
  else if f =? "np.diff" then
    match axis_arg args kws with
    | Some (VVec l, Some 0%Z) => OK (VVec (diffs l))
    | Some (VMat c m, Some 0%Z) => OK (VMat c (row_diffs m))
    | _ => UNM end
  else if f =? "np.max" then
    match axis_arg args kws with
    | Some (VList l, None) =>                                                (* a list of Python ints *)
        match omap as_int l with
        | Some (x :: t) => OK (VNpI (zmaxl_from x t))
        | Some [] => EXN ValueError
        | None => UNM end
    | Some (VVec l, None) => if is_nil l then EXN ValueError else OK (VNpF (maxl l))
    | Some (VMat c m, None) => if is_nil (concat m) then EXN ValueError else OK (VNpF (maxl (concat m)))
    | Some (VMat c m, Some 0%Z) =>                                           (* column maxima *)
        if is_nil m then UNM else OK (VVec (map maxl (cols c m)))
    | Some (VMat c m, Some 1%Z) =>                                           (* row maxima *)
        if Nat.eqb c 0 then UNM else OK (VVec (map maxl m))
    | _ => UNM end
  else if f =? "np.mean" then
    match args, kws with
    | [VVec l], [] => if is_nil l then UNM (* nan and a RuntimeWarning *) else OK (VNpF (meanl l))
    | _, _ => UNM end
  else if f =? "np.vstack" then
    match args, kws with
    | [VTup [VIMat c m; VList r]], [] =>
        match omap as_int r with
        | Some zs => if Nat.eqb (List.length zs) c then OK (VIMat c (m ++ [zs])) else EXN ValueError
        | None => UNM end
    | _, _ => UNM end
  else if f =? "np.ix_" then
    match args, kws with [VIVec r; VIVec c], [] => OK (VIx r c) | _, _ => UNM end
  else UNM.
Local Close Scope string_scope.

(* ------------------------------------------------------------------ syntax *)
Inductive exp :=
| ELoc (x : string) | EFun (f : string) | ETy (t : string)
| ENone | EBool (b : bool) | EInt (z : Z) | EFloat (q : Q) | EStr (s : str)
| ETuple (l : list exp) | EList (l : list exp)
| ECmp (op : cmpop) (a b : exp)
| EIn (a b : exp)
| ENot (a : exp) | EAnd (a b : exp) | EOr (a b : exp)
| EBin (op : binop) (a b : exp)
| EIndex (a i : exp)
| ESliceAll | ESlice (lo hi : option exp)
| EBuiltin (f : string) (pos : list exp) (kws : list (string * exp))
| ECall (f : string) (pos : list exp) (kws : list (string * exp))
| ECallV (x : string) (pos : list exp) (kws : list (string * exp))
| EComp (body : exp) (gens : list (string * exp * list exp)).    (* [body for x1 in it1 if c.. for x2 in it2 ...] *)

Inductive stmt :=
| SAssign (x : string) (e : exp)
| SUnpack (xs : list string) (e : exp)              (* x1, ..., xk = e   (k >= 2) *)
| SAug (fresh : bool) (x : string) (op : binop) (e : exp)     (* x op= e *)
| SSetItem (x : string) (i e : exp)                 (* x[i] = e,   x a local that holds a fresh object *)
| SExpr (e : exp)
| SIf (c : exp) (a b : list stmt)
| SFor (xs : list string) (it : exp) (body : list stmt)      (* for x in it / for x1, ..., xk in it *)
| SReturn (e : exp)
| SRaise (e : exn)
| SBreak | SContinue
| SPass.

Record fdef := { f_params : list (string * option exp);   (* in order, with their default expressions *)
                 f_locals : list string;                  (* the other local names *)
                 f_body : list stmt }.

(* ------------------------------------------------------------------ binding of call arguments (as Model/PyStr.v) *)
Definition env := list (string * pv).
Fixpoint lookup (x : string) (en : env) : option pv :=
  match en with [] => None | (y, v) :: t => if String.eqb x y then Some v else lookup x t end.
Fixpoint update (x : string) (v : pv) (en : env) : option env :=
  match en with
  | [] => None
  | (y, w) :: t => if String.eqb x y then Some ((y, v) :: t) else option_map (cons (y, w)) (update x v t)
  end.
Fixpoint mem_name (p : string) (l : list string) : bool :=
  match l with [] => false | k :: t => String.eqb p k || mem_name p t end.
Fixpoint nodup_names (l : list string) : bool :=
  match l with [] => true | k :: t => negb (mem_name k t) && nodup_names t end.
Definition sigv := list (string * option pv).        (* parameters in order, with the values of their defaults *)
Fixpoint bind_params (ps : sigv) (pos : list pv) (kws : list (string * pv)) : option (list pv) :=
  match ps with
  | [] => match pos with [] => Some [] | _ => None end                          (* too many positional arguments *)
  | (p, d) :: ps' =>
      match pos with
      | a :: pos' => match lookup p kws with
                     | Some _ => None                                           (* multiple values for p *)
                     | None => option_map (cons a) (bind_params ps' pos' kws) end
      | [] => match lookup p kws, d with
              | Some a, _ => option_map (cons a) (bind_params ps' [] kws)
              | None, Some dv => option_map (cons dv) (bind_params ps' [] kws)
              | None, None => None                                              (* missing required argument *)
              end
      end
  end.
Definition bind_args (ps : sigv) (pos : list pv) (kws : list (string * pv)) : option (list pv) :=
  if forallb (fun kw => mem_name (fst kw) (map fst ps)) kws && nodup_names (map fst kws)   (* unexpected / repeated keyword *)
  then bind_params ps pos kws else None.

(* default expressions: literals *)
Definition const_val (e : exp) : option pv :=
  match e with
  | ENone => Some VNone | EBool b => Some (VBool b) | EInt z => Some (VInt z) | EFloat q => Some (VFloat q)
  | EStr s => Some (VStr s)
  | _ => None
  end.
Fixpoint sig_of (ps : list (string * option exp)) : option sigv :=
  match ps with
  | [] => Some []
  | (p, None) :: t => option_map (cons (p, None)) (sig_of t)
  | (p, Some d) :: t => match const_val d, sig_of t with
                        | Some v, Some r => Some ((p, Some v) :: r)
                        | _, _ => None end
  end.
Fixpoint sigs_of (l : list (string * list (string * option exp))) : list (string * option sigv) :=
  match l with [] => [] | (n, ps) :: t => (n, sig_of ps) :: sigs_of t end.
Definition fun_params (funs : list (string * fdef)) : list (string * list (string * option exp)) :=
  map (fun nf => (fst nf, f_params (snd nf))) funs.

(* ------------------------------------------------------------------ evaluation *)
Section Eval.
Variable sigs : list (string * option sigv).           (* signatures of the functions that may be called *)
Variable ext : string -> list pv -> out pv.            (* their meaning: one value per parameter *)

Fixpoint assoc_sig (f : string) (l : list (string * option sigv)) : option sigv :=
  match l with [] => None | (g, s) :: t => if String.eqb f g then s else assoc_sig f t end.
Definition lookup_sig (f : string) : option sigv := assoc_sig f sigs.
Definition call (f : string) (ps : list pv) (ks : list (string * pv)) : out pv :=
  match lookup_sig f with
  | Some sg => match bind_args sg ps ks with Some vs => ext f vs | None => UNM end
  | None => UNM
  end.
(* the elements of a comprehension: [gen ws k] runs k in every environment the generators produce, in order *)
Definition concatM (l : list (out (list pv))) : out (list pv) :=
  fold_right (fun r acc => a <~ r ;; b <~ acc ;; OK (a ++ b)) (OK []) l.

Definition read_loc (x : string) (en : env) : out pv :=
  match lookup x en with Some VUnbound => EXN OtherExn | Some v => OK v | None => UNM end.
Fixpoint eval (en : env) (e : exp) {struct e} : out pv :=
  match e with
  | ELoc x => read_loc x en
  | EFun f => OK (VFun f)
  | ETy t => OK (VTy t)
  | ENone => OK VNone | EBool b => OK (VBool b) | EInt z => OK (VInt z) | EFloat q => OK (VFloat q) | EStr s => OK (VStr s)
  | ETuple l => vs <~ (fix evs (l : list exp) : out (list pv) :=
                         match l with [] => OK [] | a :: t => v <~ eval en a ;; r <~ evs t ;; OK (v :: r) end) l ;;
                OK (VTup vs)
  | EList l => vs <~ (fix evs (l : list exp) : out (list pv) :=
                        match l with [] => OK [] | a :: t => v <~ eval en a ;; r <~ evs t ;; OK (v :: r) end) l ;;
               OK (VList vs)
  | ECmp op a b => x <~ eval en a ;; y <~ eval en b ;; cmp_op op x y
  | EIn a b => x <~ eval en a ;; y <~ eval en b ;; t <~ contains x y ;; OK (VBool t)
  | ENot a => x <~ eval en a ;; t <~ truth x ;; OK (VBool (negb t))
  | EAnd a b => x <~ eval en a ;; t <~ truth x ;; if t then eval en b else OK x
  | EOr a b => x <~ eval en a ;; t <~ truth x ;; if t then OK x else eval en b
  | EBin op a b => x <~ eval en a ;; y <~ eval en b ;; bin_op op x y
  | EIndex a i => x <~ eval en a ;; y <~ eval en i ;; get_item x y
  | ESliceAll => OK VSliceAll
  | ESlice lo hi =>
      l <~ match lo with None => OK None | Some a => v <~ eval en a ;; of_opt (option_map Some (as_int v)) end ;;
      h <~ match hi with None => OK None | Some a => v <~ eval en a ;; of_opt (option_map Some (as_int v)) end ;;
      OK (VSlice l h)
  | EBuiltin f pos kws =>
      ps <~ (fix evs (l : list exp) : out (list pv) :=
               match l with [] => OK [] | a :: t => v <~ eval en a ;; r <~ evs t ;; OK (v :: r) end) pos ;;
      ks <~ (fix evk (l : list (string * exp)) : out (list (string * pv)) :=
               match l with [] => OK [] | (k, a) :: t => v <~ eval en a ;; r <~ evk t ;; OK ((k, v) :: r) end) kws ;;
      builtin f ps ks
  | ECall f pos kws =>
      ps <~ (fix evs (l : list exp) : out (list pv) :=
               match l with [] => OK [] | a :: t => v <~ eval en a ;; r <~ evs t ;; OK (v :: r) end) pos ;;
      ks <~ (fix evk (l : list (string * exp)) : out (list (string * pv)) :=
               match l with [] => OK [] | (k, a) :: t => v <~ eval en a ;; r <~ evk t ;; OK ((k, v) :: r) end) kws ;;
      call f ps ks
  | ECallV x pos kws =>
      fv <~ read_loc x en ;;
      ps <~ (fix evs (l : list exp) : out (list pv) :=
               match l with [] => OK [] | a :: t => v <~ eval en a ;; r <~ evs t ;; OK (v :: r) end) pos ;;
      ks <~ (fix evk (l : list (string * exp)) : out (list (string * pv)) :=
               match l with [] => OK [] | (k, a) :: t => v <~ eval en a ;; r <~ evk t ;; OK ((k, v) :: r) end) kws ;;
      match fv with VFun f => call f ps ks | _ => UNM end
  | EComp body gens =>
      vs <~ (fix gen (gs : list (string * exp * list exp)) (en : env) {struct gs} : out (list pv) :=
               match gs with
               | [] => v <~ eval en body ;; OK [v]
               | (x, it, conds) :: gs' =>
                   v <~ eval en it ;; els <~ iter_elems v ;;
                   concatM (map (fun el =>
                     let en' := (x, el) :: en in
                     keep <~ (fix all (cs : list exp) : out bool :=
                                match cs with
                                | [] => OK true
                                | c :: ct => cv <~ eval en' c ;; t <~ truth cv ;; if t then all ct else OK false
                                end) conds ;;
                     if keep then gen gs' en' else OK []) els)
               end) gens en ;;
      OK (VList vs)
  end.

(* ---- statements ---- *)
Inductive sres := SNorm (en : env) | SRet (v : pv) | SExn (e : exn) | SBrk (en : env) | SCnt (en : env) | SUnm.
Definition lift_e {A} (r : out A) (k : A -> sres) : sres :=
  match r with OK a => k a | EXN e => SExn e | UNM => SUnm end.
Definition set1 (x : string) (v : pv) (en : env) : sres :=
  match update x v en with Some en' => SNorm en' | None => SUnm end.
Fixpoint set_all (xs : list string) (vs : list pv) (en : env) : sres :=
  match xs, vs with
  | [], [] => SNorm en
  | x :: xt, v :: vt => match update x v en with Some en' => set_all xt vt en' | None => SUnm end
  | _, _ => SExn ValueError                                      (* too many / not enough values to unpack *)
  end.
Definition unpack (xs : list string) (v : pv) (en : env) : sres :=
  lift_e (iter_elems v) (fun els => set_all xs els en).
Definition bind_target (xs : list string) (v : pv) (en : env) : sres :=
  match xs with [x] => set1 x v en | _ => unpack xs v en end.
(* a for loop: `continue` goes on with the next element, `break` leaves the loop *)
Fixpoint for_loop (step : pv -> env -> sres) (els : list pv) (en : env) : sres :=
  match els with
  | [] => SNorm en
  | v :: t => match step v en with
              | SNorm en' | SCnt en' => for_loop step t en'
              | SBrk en' => SNorm en'
              | r => r end
  end.
(* a block: statements in order, until one does not complete normally *)
Definition run_block (f : stmt -> env -> sres) : list stmt -> env -> sres :=
  fix go (l : list stmt) (en : env) : sres :=
    match l with [] => SNorm en | s :: r => match f s en with SNorm en' => go r en' | o => o end end.
(* one iteration of a for loop: bind the target(s), run the body *)
Definition for_step (blk : list stmt -> env -> sres) (xs : list string) (body : list stmt) (el : pv) (en : env) : sres :=
  match bind_target xs el en with SNorm en' => blk body en' | o => o end.
Definition mutable (v : pv) : bool :=
  match v with VList _ | VSet _ | VVec _ | VMat _ _ | VCube _ _ _ | VIVec _ | VIMat _ _ => true | _ => false end.

Fixpoint exec (s : stmt) (en : env) {struct s} : sres :=
  match s with
  | SAssign x e => lift_e (eval en e) (fun v => set1 x v en)
  | SUnpack xs e => lift_e (eval en e) (fun v => unpack xs v en)
  | SAug fresh x op e =>
      lift_e (eval en (ELoc x)) (fun a => lift_e (eval en e) (fun b =>
        if mutable a && negb fresh then SUnm else lift_e (bin_op op a b) (fun v => set1 x v en)))
  | SSetItem x i e =>
      lift_e (eval en e) (fun v => lift_e (eval en (ELoc x)) (fun a => lift_e (eval en i) (fun j =>
        lift_e (set_item a j v) (fun a' => set1 x a' en))))
  | SExpr e => lift_e (eval en e) (fun _ => SNorm en)
  | SIf c a b =>
      lift_e (eval en c) (fun v => lift_e (truth v) (fun t => run_block exec (if t then a else b) en))
  | SFor xs it body =>
      lift_e (eval en it) (fun v => lift_e (iter_elems v) (fun els =>
        for_loop (for_step (run_block exec) xs body) els en))
  | SReturn e => lift_e (eval en e) SRet
  | SRaise x => SExn x
  | SBreak => SBrk en
  | SContinue => SCnt en
  | SPass => SNorm en
  end.
Definition exec_block : list stmt -> env -> sres := run_block exec.

Definition init_env (f : fdef) (args : list pv) : env :=
  combine (map fst (f_params f)) args ++ map (fun x => (x, VUnbound)) (f_locals f).
(* a call with one value per parameter *)
Definition run_fun (f : fdef) (args : list pv) : out pv :=
  if Nat.eqb (List.length args) (List.length (f_params f)) then
    match exec_block (f_body f) (init_env f args) with
    | SNorm _ => OK VNone | SRet v => OK v | SExn e => EXN e | SBrk _ | SCnt _ | SUnm => UNM end
  else UNM.
End Eval.
