(* Regular expressions over character codes: Brzozowski derivatives with smart constructors and a
   breadth-first bisimulation equivalence check (DESIGN.md section 6, C10). Definitions only. *)
From Coq Require Import List Bool Arith.
Import ListNotations.
Inductive re := Emp | Eps | Chr (c : nat) | Alt (a b : re) | Cat (a b : re) | Star (a : re).
Fixpoint cmp (x y : re) : comparison :=
  match x, y with
  | Emp, Emp => Eq | Emp, _ => Lt | _, Emp => Gt
  | Eps, Eps => Eq | Eps, _ => Lt | _, Eps => Gt
  | Chr a, Chr b => Nat.compare a b | Chr _, _ => Lt | _, Chr _ => Gt
  | Alt a b, Alt c d => match cmp a c with Eq => cmp b d | r => r end | Alt _ _, _ => Lt | _, Alt _ _ => Gt
  | Cat a b, Cat c d => match cmp a c with Eq => cmp b d | r => r end | Cat _ _, _ => Lt | _, Cat _ _ => Gt
  | Star a, Star b => cmp a b
  end.
Definition reqb x y := match cmp x y with Eq => true | _ => false end.
(* flatten alternatives, insert sorted without duplicates, rebuild right-nested *)
Fixpoint alts (r : re) : list re := match r with Alt a b => alts a ++ alts b | Emp => [] | _ => [r] end.
Fixpoint ins (x : re) (l : list re) : list re :=
  match l with [] => [x] | y :: t => match cmp x y with Eq => l | Lt => x :: l | Gt => y :: ins x t end end.
Fixpoint build (l : list re) : re := match l with [] => Emp | [x] => x | x :: t => Alt x (build t) end.
Definition mkAlt (a b : re) : re := build (fold_right ins [] (alts a ++ alts b)).
Definition mkCat (a b : re) : re :=
  match a, b with Emp, _ => Emp | _, Emp => Emp | Eps, _ => b | _, Eps => a | _, _ => Cat a b end.
Definition mkStar (a : re) : re := match a with Emp => Eps | Eps => Eps | Star _ => a | _ => Star a end.
Fixpoint nullable (r : re) : bool :=
  match r with Emp => false | Eps => true | Chr _ => false | Alt a b => nullable a || nullable b
  | Cat a b => nullable a && nullable b | Star _ => true end.
Fixpoint deriv (c : nat) (r : re) : re :=
  match r with
  | Emp | Eps => Emp
  | Chr d => if Nat.eqb c d then Eps else Emp
  | Alt a b => mkAlt (deriv c a) (deriv c b)
  | Cat a b => if nullable a then mkAlt (mkCat (deriv c a) b) (deriv c b) else mkCat (deriv c a) b
  | Star a => mkCat (deriv c a) (mkStar a)
  end.
Fixpoint rmatch (r : re) (s : list nat) : bool := match s with [] => nullable r | c :: t => rmatch (deriv c r) t end.
Fixpoint chars (r : re) : list nat :=
  match r with Chr c => [c] | Alt a b | Cat a b => chars a ++ chars b | Star a => chars a | _ => [] end.
Inductive verdict := Equal (n : nat) | Differ (w : list nat) | OutOfFuel.
Definition pmem (p : re * re) (l : list (re * re)) := existsb (fun q => reqb (fst p) (fst q) && reqb (snd p) (snd q)) l.
Definition memn (x : nat) (l : list nat) := existsb (Nat.eqb x) l.
Definition closed_in (sigma : list nat) (r : re) := forallb (fun x => memn x sigma) (chars r).
(* worklist items carry the reversed path that led to them *)
Fixpoint explore (fuel : nat) (sigma : list nat) (todo : list (list nat * (re * re))) (seen : list (re * re)) : verdict :=
  match fuel with 0 => OutOfFuel | S f =>
    match todo with
    | [] => Equal (List.length seen)
    | (path, (a, b)) :: rest =>
        if pmem (a, b) seen then explore f sigma rest seen
        else if negb (Bool.eqb (nullable a) (nullable b)) then Differ (rev path)
        else if negb (closed_in sigma a && closed_in sigma b) then OutOfFuel
        else explore f sigma (rest ++ map (fun c => (c :: path, (deriv c a, deriv c b))) sigma) ((a, b) :: seen)
    end
  end.
Definition nodupn (l : list nat) := nodup Nat.eq_dec l.
Definition equiv (fuel : nat) (a b : re) : verdict :=
  explore fuel (nodupn (chars a ++ chars b)) [([], (mkAlt a Emp, mkAlt b Emp))] [].
(* helpers to write readable grammars *)
Fixpoint lit (s : list nat) : re := match s with [] => Eps | c :: t => Cat (Chr c) (lit t) end.
Fixpoint altl (l : list re) : re := match l with [] => Emp | [x] => x | x :: r => Alt x (altl r) end.
Definition opt (e : re) : re := Alt Eps e.
Definition oneof (s : list nat) : re := altl (map Chr s).
