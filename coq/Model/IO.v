(* mir_eval/io.py: load_delimited and the loaders built on it, load_patterns, load_ragged_time_series,
   statement by statement over character-code strings. Definitions only.

   What is modelled, and how:
   - a file (path or file object: `_open` yields a text stream in both cases) is its decoded text, a `str`;
     iterating it yields the pieces ending in "\n" plus a last piece without one (`lines`). Universal-newline
     translation of "\r" / "\r\n" by `open(path)` and the encoding are outside the model.
   - `commenter = re.compile("^" + comment)`, `commenter.match(line)`: the comment is a regular expression of
     Model.Regex (`Chr 35` for the documented "#"), `None` disables it; `match` is a prefix match at the start of the
     RAW line (before `strip`), so a "#" after leading blanks is NOT a comment (`prefix_match`).
   - `line.strip()` strips Python's Unicode whitespace (`Key.key_ws`, the code points with `str.isspace()`; the same
     set is what `\s` matches in `re` for `str` patterns -- checked by enumeration of all code points).
   - `splitter.split(s, n_columns - 1)`: delimiters are the documented `\s+`, `,`, `\t` and, generally, `c`, `c+`
     for one character class c = `\s` or a literal character (`delim`); anything else is `DUnsupported` and the model
     fails closed with `RaiseNoRow OtherExn`. `re.split` cuts at the leftmost non-overlapping (greedy) matches;
     `maxsplit = 0` means NO limit (this is what a one-column file gets), a negative one (no converters) no cut.
   - converters are `float` (an abstract `conv : str -> option num` -- CPython's `float()`, not mir_eval code) and
     `str` (identity, cannot fail).
   - every ValueError raised by load_delimited / load_ragged_time_series names the row in its message: `RaiseAt row e`;
     exceptions whose message has no row are `RaiseNoRow e`.
   - the wrappers: `util.validate_events/intervals`, `key.validate_key`, `tempo.validate_tempi` inside
     `try/except ValueError -> warnings.warn`: result = (what is returned or raised, the warning issued if any).
     Float comparisons are on `xval` (finite rational | +-inf | nan) through `val : num -> xval`.  *)
From Coq Require Import List Bool Arith ZArith QArith.
From ME Require Import Model.Prelude Model.Regex Model.ChordParse Model.Key.
Import ListNotations.
Close Scope Q_scope.

Inductive rres (A : Type) := ROk (a : A) | RaiseAt (row : nat) (e : exn) | RaiseNoRow (e : exn).
Arguments ROk {A}. Arguments RaiseAt {A}. Arguments RaiseNoRow {A}.
Definition rres_eqb {A} (eqb : A -> A -> bool) (x y : rres A) : bool :=
  match x, y with
  | ROk a, ROk b => eqb a b
  | RaiseAt r e, RaiseAt r' e' => Nat.eqb r r' && exn_eqb e e'
  | RaiseNoRow e, RaiseNoRow e' => exn_eqb e e'
  | _, _ => false
  end.

(* ---------------------------------------------------------------------------------------------- *)
(* text -> lines, comment test, strip, re.split                                                   *)
(* ---------------------------------------------------------------------------------------------- *)
Definition c_nl := 10.
Definition cons_head (c : nat) (l : list str) : list str := match l with p :: ps => (c :: p) :: ps | [] => [[c]] end.
(* `for line in f` / `f.readlines()`: pieces keep their "\n"; no piece after a final "\n" *)
Fixpoint lines (s : str) : list str :=
  match s with [] => [] | c :: t => if Nat.eqb c c_nl then [c] :: lines t else cons_head c (lines t) end.

(* re.compile("^" + r).match(s) is not None *)
Fixpoint prefix_match (r : re) (s : str) : bool :=
  nullable r || match s with c :: t => prefix_match (deriv c r) t | [] => false end.
Definition is_comment (comment : option re) (line : str) : bool :=
  match comment with None => false | Some r => prefix_match r line end.

Definition ws := key_ws.
Definition pystrip (s : str) : str := strip ws s.          (* str.strip() *)

Inductive cclass := CWs | CLit (c : nat).
Definition in_class (k : cclass) (c : nat) : bool := match k with CWs => ws c | CLit d => Nat.eqb c d end.
Inductive delim := DPlus (k : cclass) | DOne (k : cclass) | DUnsupported.

Definition budget := option nat.                            (* None = unlimited *)
Definition has_budget (b : budget) : bool := match b with Some 0 => false | _ => true end.
Definition dec_budget (b : budget) : budget := match b with Some (S k) => Some k | o => o end.
Definition budget_of (maxsplit : Z) : budget :=
  if (maxsplit =? 0)%Z then None else if (maxsplit <? 0)%Z then Some 0 else Some (Z.to_nat maxsplit).
(* every single delimiter character is a cut *)
Fixpoint split_one (p : nat -> bool) (b : budget) (s : str) : list str :=
  match s with
  | [] => [[]]
  | c :: t => if p c && has_budget b then [] :: split_one p (dec_budget b) t else cons_head c (split_one p b t)
  end.
(* every maximal run of delimiter characters is one cut; `inrun` = the previous character was consumed by a cut *)
Fixpoint split_run (p : nat -> bool) (b : budget) (inrun : bool) (s : str) : list str :=
  match s with
  | [] => [[]]
  | c :: t => if inrun && p c then split_run p b true t
              else if p c && has_budget b then [] :: split_run p (dec_budget b) true t
              else cons_head c (split_run p b false t)
  end.
Definition re_split (d : delim) (maxsplit : Z) (s : str) : option (list str) :=
  match d with
  | DPlus k => Some (split_run (in_class k) (budget_of maxsplit) false s)
  | DOne k => Some (split_one (in_class k) (budget_of maxsplit) s)
  | DUnsupported => None
  end.

Fixpoint zipcons {A} (r : list A) (cols : list (list A)) : list (list A) :=
  match r, cols with x :: r', c :: cs => (x :: c) :: zipcons r' cs | _, _ => [] end.
Definition transpose {A} (n : nat) (rows : list (list A)) : list (list A) := fold_right zipcons (repeat [] n) rows.

Inductive cv := CFloat | CStr.
Inductive value (num : Type) := VNum (x : num) | VStr (s : str).
Arguments VNum {num}. Arguments VStr {num}.
Inductive ldret (num : Type) := Single (col : list (value num)) | Cols (cols : list (list (value num))).
Arguments Single {num}. Arguments Cols {num}.

Inductive warning := WEventHuge | WEventOrder | WIvNeg | WIvDur | WKey | WTempoNonNeg | WTempoZero.

(* comparisons of NumPy floats: anything with nan is False *)
Definition xlt (a b : xval) : bool :=
  match a, b with
  | Fin x, Fin y => qltb x y | NInf, Fin _ | NInf, PInf | Fin _, PInf => true | _, _ => false end.
Definition xeq (a b : xval) : bool :=
  match a, b with Fin x, Fin y => qeqb x y | PInf, PInf | NInf, NInf => true | _, _ => false end.
Definition xle (a b : xval) : bool := xlt a b || xeq a b.
Definition xfinite (a : xval) : bool := match a with Fin _ => true | _ => false end.
Definition xzero : xval := Fin 0%Q.

Fixpoint adjacent {A} (f : A -> A -> bool) (l : list A) : bool :=     (* some consecutive pair satisfies f *)
  match l with a :: (b :: _) as t => f a b || adjacent f t | _ => false end.

(* util.validate_events(events) with max_time = 30000: which ValueError, if any *)
Definition validate_events (ev : list xval) : option warning :=
  if existsb (fun e => xlt (Fin 30000%Q) e) ev then Some WEventHuge
  else if adjacent (fun a b => xlt b a) ev then Some WEventOrder       (* (np.diff(events) < 0).any() *)
  else None.
(* util.validate_intervals on the (n, 2) array np.array([starts, ends]).T *)
Definition validate_intervals (ivs : list (xval * xval)) : option warning :=
  if existsb (fun v => xlt (fst v) xzero || xlt (snd v) xzero) ivs then Some WIvNeg
  else if existsb (fun v => xle (snd v) (fst v)) ivs then Some WIvDur
  else None.
(* tempo.validate_tempi(tempi, reference=True) on a length-2 array *)
Definition validate_tempi (t : list xval) : option warning :=
  if negb (forallb xfinite t) || existsb (fun x => xlt x xzero) t then Some WTempoNonNeg
  else if forallb (fun x => xeq x xzero) t then Some WTempoZero
  else None.

Fixpoint is_prefix (a s : str) : bool :=
  match a, s with [], _ => true | x :: a', y :: s' => Nat.eqb x y && is_prefix a' s' | _ :: _, [] => false end.
Fixpoint contains (needle hay : str) : bool :=                       (* needle in hay *)
  is_prefix needle hay || match hay with [] => false | _ :: t => contains needle t end.
Definition s_pattern : str := [112;97;116;116;101;114;110].
Definition s_occurrence : str := [111;99;99;117;114;114;101;110;99;101].
Definition c_comma := 44.
Definition nonempty {A} (l : list A) : bool := match l with [] => false | _ => true end.
Fixpoint map_opt {A B} (f : A -> option B) (l : list A) : option (list B) :=
  match l with [] => Some [] | x :: t => match f x with Some y => option_map (cons y) (map_opt f t) | None => None end end.

Definition wres (A : Type) := (rres A * option warning)%type.       (* (returned / raised, warning issued before) *)

Section Loaders.
Variable num : Type.
Variable conv : str -> option num.          (* float(s): None = ValueError *)
Variable convv : str -> option num.         (* one element of np.array(tokens, dtype=dtype) in load_ragged_time_series *)
Variable val : num -> xval.                 (* the float as an extended rational, for the validators *)

Definition convert (c : cv) (tok : str) : option (value num) :=
  match c with CFloat => option_map VNum (conv tok) | CStr => Some (VStr tok) end.
(* for value, column, converter in zip(data, columns, converters): the three have the same length here *)
Fixpoint convert_row (convs : list cv) (toks : list str) : option (list (value num)) :=
  match convs, toks with
  | c :: cs, t :: ts => match convert c t with Some v => option_map (cons v) (convert_row cs ts) | None => None end
  | _, _ => Some []
  end.

Fixpoint load_rows (convs : list cv) (d : delim) (comment : option re) (row : nat) (ls : list str)
  : rres (list (list (value num))) :=
  match ls with
  | [] => ROk []
  | line :: rest =>
      if is_comment comment line then load_rows convs d comment (S row) rest else
      match re_split d (Z.of_nat (length convs) - 1) (pystrip line) with
      | None => RaiseNoRow OtherExn
      | Some data =>
          if negb (Nat.eqb (length convs) (length data)) then RaiseAt row ValueError else
          match convert_row convs data with
          | None => RaiseAt row ValueError
          | Some vs => match load_rows convs d comment (S row) rest with ROk vss => ROk (vs :: vss) | e => e end
          end
      end
  end.
(* "Sane output": the single list for one converter, else the tuple of lists *)
Definition pack (n : nat) (cols : list (list (value num))) : ldret num :=
  if Nat.eqb n 1 then match cols with c :: _ => Single c | [] => Cols cols end else Cols cols.
Definition load_delimited (convs : list cv) (d : delim) (comment : option re) (text : str) : rres (ldret num) :=
  match d with
  | DUnsupported => RaiseNoRow OtherExn
  | _ => match load_rows convs d comment 1 (lines text) with
         | ROk rows => ROk (pack (length convs) (transpose (length convs) rows))
         | RaiseAt r e => RaiseAt r e
         | RaiseNoRow e => RaiseNoRow e
         end
  end.

(* a float column holds only VNum, a str column only VStr (IOProps.convert_row_shape): nothing is dropped here *)
Definition nums (l : list (value num)) : list num := flat_map (fun v => match v with VNum x => [x] | VStr _ => [] end) l.
Definition strs (l : list (value num)) : list str := flat_map (fun v => match v with VStr s => [s] | VNum _ => [] end) l.
Definition with_cols {A} (r : rres (ldret num)) (k : list (list (value num)) -> wres A) : wres A :=
  match r with
  | ROk (Single c) => k [c] | ROk (Cols cs) => k cs
  | RaiseAt row e => (RaiseAt row e, None) | RaiseNoRow e => (RaiseNoRow e, None)
  end.
Definition unreachable {A} : wres A := (RaiseNoRow OtherExn, None).

Definition load_events (d : delim) (comment : option re) (text : str) : wres (list num) :=
  with_cols (load_delimited [CFloat] d comment text) (fun cs =>
    match cs with [c] => let ev := nums c in (ROk ev, validate_events (map val ev)) | _ => unreachable end).
Definition load_labeled_events (d : delim) (comment : option re) (text : str) : wres (list num * list str) :=
  with_cols (load_delimited [CFloat; CStr] d comment text) (fun cs =>
    match cs with [c; l] => let ev := nums c in (ROk (ev, strs l), validate_events (map val ev)) | _ => unreachable end).
Definition ivals (a b : list num) : list (xval * xval) := combine (map val a) (map val b).
Definition load_intervals (d : delim) (comment : option re) (text : str) : wres (list (num * num)) :=
  with_cols (load_delimited [CFloat; CFloat] d comment text) (fun cs =>
    match cs with [a; b] => (ROk (combine (nums a) (nums b)), validate_intervals (ivals (nums a) (nums b)))
    | _ => unreachable end).
Definition load_labeled_intervals (d : delim) (comment : option re) (text : str) : wres (list (num * num) * list str) :=
  with_cols (load_delimited [CFloat; CFloat; CStr] d comment text) (fun cs =>
    match cs with [a; b; l] => (ROk (combine (nums a) (nums b), strs l), validate_intervals (ivals (nums a) (nums b)))
    | _ => unreachable end).
Definition load_valued_intervals (d : delim) (comment : option re) (text : str) : wres (list (num * num) * list num) :=
  with_cols (load_delimited [CFloat; CFloat; CFloat] d comment text) (fun cs =>
    match cs with [a; b; v] => (ROk (combine (nums a) (nums b), nums v), validate_intervals (ivals (nums a) (nums b)))
    | _ => unreachable end).
Definition load_time_series (d : delim) (comment : option re) (text : str) : wres (list num * list num) :=
  with_cols (load_delimited [CFloat; CFloat] d comment text) (fun cs =>
    match cs with [a; b] => (ROk (nums a, nums b), None) | _ => unreachable end).
Definition load_key (d : delim) (comment : option re) (text : str) : wres str :=
  with_cols (load_delimited [CStr; CStr] d comment text) (fun cs =>
    match cs with
    | [a; b] =>
        match strs a, strs b with
        | [scale], mode :: _ =>                                        (* len(scale) == 1; scale[0], mode[0] *)
            let ks := scale ++ 32 :: mode in
            match validate_key ks with
            | Ok _ => (ROk ks, None) | Raise ValueError => (ROk ks, Some WKey) | Raise e => (RaiseNoRow e, None) end
        | [_], [] => (RaiseNoRow IndexError, None)                     (* columns always have equal lengths *)
        | _, _ => (RaiseNoRow ValueError, None)                        (* "Key file should contain only one line." *)
        end
    | _ => unreachable end).
Definition load_tempo (d : delim) (comment : option re) (text : str) : wres (list num * num) :=
  with_cols (load_delimited [CFloat; CFloat; CFloat] d comment text) (fun cs =>
    match cs with
    | [c1; c2; c3] =>
        let t1 := nums c1 in let t2 := nums c2 in
        if negb (Nat.eqb (length t1) 1) then (RaiseNoRow ValueError, None) else    (* "... should contain only one line." *)
        match nums c3 with
        | [] => (RaiseNoRow IndexError, None)       (* weight[0]; unreachable: the columns have equal lengths
                                                       (IOProps.load_tempo_never_index_error) *)
        | w :: _ =>
            let tempi := t1 ++ t2 in                                   (* np.concatenate([t1, t2]) *)
            let wn := validate_tempi (map val tempi) in
            if xle xzero (val w) && xle (val w) (Fin 1%Q) then (ROk (tempi, w), wn) else (RaiseNoRow ValueError, wn)
        end
    | _ => unreachable end).

(* load_patterns: pattern_list / pattern / occurrence are the three Python lists; rows are numbered from 1 and the
   pattern / occurrence header lines count *)
Definition close_occ {A} (pattern : list (list A)) (occ : list A) := if nonempty occ then pattern ++ [occ] else pattern.
Definition close_pat {A} (plist : list (list A)) (pattern : list A) := if nonempty pattern then plist ++ [pattern] else plist.
Fixpoint patterns_loop (row : nat) (ls : list str) (plist : list (list (list (num * num)))) (pattern : list (list (num * num)))
         (occ : list (num * num)) : rres (list (list (list (num * num)))) :=
  match ls with
  | [] => ROk (close_pat plist (close_occ pattern occ))
  | line :: rest =>
      if contains s_pattern line then patterns_loop (S row) rest (close_pat plist (close_occ pattern occ)) [] []
      else if contains s_occurrence line then patterns_loop (S row) rest plist (close_occ pattern occ) []
      else match split_on c_comma line with                            (* line.split(",") *)
           | [a; b] =>
               match conv a with                                       (* float(string_values[0]) is evaluated first *)
               | None => RaiseNoRow ValueError                         (* float's own message: no row *)
               | Some x => match conv b with
                           | None => RaiseNoRow ValueError
                           | Some y => patterns_loop (S row) rest plist pattern (occ ++ [(x, y)])
                           end
               end
           | _ => RaiseAt row ValueError                               (* "Expected 2 columns, got {} at {}:{row}:" *)
           end
  end.
(* for row, line in enumerate(input_file.readlines(), 1) *)
Definition load_patterns (text : str) : rres (list (list (list (num * num)))) := patterns_loop 1 (lines text) [] [] [].

(* load_ragged_time_series: rows are numbered from start_row = 1 if header else 0; `header` does nothing else *)
Fixpoint ragged_rows (d : delim) (comment : option re) (row : nat) (ls : list str) : rres (list (num * list num)) :=
  match ls with
  | [] => ROk []
  | line :: rest =>
      if is_comment comment line then ragged_rows d comment (S row) rest else
      match re_split d 0 (pystrip line) with                           (* no maxsplit *)
      | None => RaiseNoRow OtherExn
      | Some [] => RaiseNoRow IndexError                               (* unreachable *)
      | Some (t0 :: more) =>
          match conv t0 with
          | None => RaiseAt row ValueError
          | Some t => match map_opt convv more with
                      | None => RaiseAt row ValueError
                      | Some vs => match ragged_rows d comment (S row) rest with
                                   | ROk r => ROk ((t, vs) :: r) | e => e end
                      end
          end
      end
  end.
Definition load_ragged_time_series (d : delim) (header : bool) (comment : option re) (text : str)
  : rres (list num * list (list num)) :=
  match d with
  | DUnsupported => RaiseNoRow OtherExn
  | _ => match ragged_rows d comment (if header then 1 else 0) (lines text) with
         | ROk r => ROk (map fst r, map snd r)
         | RaiseAt row e => RaiseAt row e
         | RaiseNoRow e => RaiseNoRow e
         end
  end.
End Loaders.
