(* mir_eval/melody.py over exact rationals: validators (with the warnings they emit), the five frame measures on
   (voicing, cent) arrays exactly as the code computes them (masking by `nonzero_freqs`, strict `<` against the
   tolerance, octave folding, zero-denominator conventions), freq_to_voicing, constant_hop_timebase,
   resample_melody_series for kind='linear', to_cent_voicing and evaluate with the Hz->cents conversion abstracted
   (every frequency comes paired with the value hz2cents returns for it). Definitions only.

   Conventions: a NumPy 1-d float/bool array is a `list Q` (True = 1, False = 0); Python exceptions are `Raise`;
   warnings.warn calls are returned as a list of tags (in emission order) next to the result.
   Every Qdiv of the measures sits in the else-branch of the code's own `denominator == 0` test (or divides by the
   frame count after the empty-array test), so no x/0 = 0 of Q is observable; the `_def` theorems of
   Proofs/MelodyProps.v keep these conditionals explicit. *)
From Coq Require Import List Bool Arith ZArith QArith Qabs Qminmax Qround.
From ME Require Import Model.Prelude.
Import ListNotations.
Open Scope Q_scope.

Inductive mwarn :=
| W_ref_voicing_empty | W_est_voicing_empty | W_ref_no_voiced | W_est_no_voiced   (* validate_voicing *)
| W_ref_freq_empty | W_est_freq_empty                                             (* validate *)
| W_nonuniform.                                                                   (* resample_melody_series *)
Definition mwarn_eqb (a b : mwarn) : bool :=
  match a, b with
  | W_ref_voicing_empty, W_ref_voicing_empty | W_est_voicing_empty, W_est_voicing_empty
  | W_ref_no_voiced, W_ref_no_voiced | W_est_no_voiced, W_est_no_voiced
  | W_ref_freq_empty, W_ref_freq_empty | W_est_freq_empty, W_est_freq_empty | W_nonuniform, W_nonuniform => true
  | _, _ => false end.

(* ---------------------------------------------------------------- array helpers *)
Definition is_nil {A} (l : list A) : bool := match l with [] => true | _ => false end.
Fixpoint map2 {A B C} (f : A -> B -> C) (a : list A) (b : list B) : list C :=
  match a, b with x :: a', y :: b' => f x y :: map2 f a' b' | _, _ => [] end.
(* boolean-mask indexing a[m] (lengths agree wherever the code reaches it) *)
Fixpoint select {A} (m : list bool) (l : list A) : list A :=
  match m, l with b :: m', x :: l' => if b then x :: select m' l' else select m' l' | _, _ => [] end.
Definition b2q (b : bool) : Q := if b then 1 else 0.
Definition count_true (m : list bool) : nat := length (filter (fun b => b) m).
Definition qlen {A} (l : list A) : Q := inject_Z (Z.of_nat (length l)).
(* a * b of two non-empty 1-d arrays with NumPy broadcasting *)
Definition np_mul (a b : list Q) : res (list Q) :=
  if (length a =? length b)%nat then Ok (map2 Qmult a b)
  else match a, b with
       | [x], _ => Ok (map (fun y => x * y) b)
       | _, [y] => Ok (map (fun x => x * y) a)
       | _, _ => Raise ValueError
       end.

(* ---------------------------------------------------------------- validators *)
Definition voicing_bad (v : list Q) : bool := existsb (fun x => qltb x 0 || qltb 1 x) v.
Definition validate_voicing_warns (rv ev : list Q) : list mwarn :=
  (if is_nil rv then [W_ref_voicing_empty] else []) ++ (if is_nil ev then [W_est_voicing_empty] else []) ++
  (if qeqb (qsum rv) 0 then [W_ref_no_voiced] else []) ++ (if qeqb (qsum ev) 0 then [W_est_no_voiced] else []).
Definition validate_voicing (rv ev : list Q) : res unit :=
  if negb (length rv =? length ev)%nat then Raise ValueError
  else if voicing_bad rv || voicing_bad ev then Raise ValueError else Ok tt.
Definition validate_warns (rc ec : list Q) : list mwarn :=
  (if is_nil rc then [W_ref_freq_empty] else []) ++ (if is_nil ec then [W_est_freq_empty] else []).
Definition validate (rv rc ev ec : list Q) : res unit :=
  if negb (length rv =? length rc)%nat || negb (length ev =? length ec)%nat || negb (length rc =? length ec)%nat
  then Raise ValueError else Ok tt.
(* warnings of raw_pitch_accuracy / raw_chroma_accuracy / overall_accuracy: validate's are reached only when
   validate_voicing did not raise *)
Definition metric_warns (rv rc ev ec : list Q) : list mwarn :=
  validate_voicing_warns rv ev ++ match validate_voicing rv ev with Ok _ => validate_warns rc ec | Raise _ => [] end.

(* ---------------------------------------------------------------- voicing measures *)
Definition voiced_ind (v : Q) : Q := b2q (qltb 0 v).      (* (ref_voicing > 0).astype(float) *)
Definition unvoiced_ind (v : Q) : Q := b2q (qeqb v 0).   (* (ref_voicing == 0).astype(float) *)
Definition voicing_rate (ind : Q -> Q) (if_none : Q) (rv ev : list Q) : res Q :=
  if is_nil rv || is_nil ev then Ok 0
  else let ri := map ind rv in
       if qeqb (qsum ri) 0 then Ok if_none
       else p <- np_mul ev ri ;; Ok (qsum p / qsum ri).
Definition voicing_recall := voicing_rate voiced_ind 1.
Definition voicing_false_alarm := voicing_rate unvoiced_ind 0.
Definition voicing_measures (rv ev : list Q) : res (Q * Q) :=
  _ <- validate_voicing rv ev ;; r <- voicing_recall rv ev ;; f <- voicing_false_alarm rv ev ;; Ok (r, f).

(* ---------------------------------------------------------------- pitch measures *)
Definition nonzero_freqs (ec rc : list Q) : list bool :=
  map2 (fun e r => negb (qeqb e 0) && negb (qeqb r 0)) ec rc.
Definition freq_diff_cents (rc ec : list Q) : list Q :=
  select (nonzero_freqs ec rc) (map2 (fun r e => Qabs (r - e)) rc ec).
Definition octave_of (d : Q) : Q := 1200 * inject_Z (Qfloor (d / 1200 + (1#2))).
Definition chroma_diff (d : Q) : Q := Qabs (d - octave_of d).

Definition raw_accuracy (fold : Q -> Q) (rv rc ev ec : list Q) (tol : Q) : res Q :=
  _ <- validate_voicing rv ev ;; _ <- validate rv rc ev ec ;;
  if is_nil rv || qeqb (qsum rv) 0 || is_nil rc || is_nil ec then Ok 0
  else let nz := nonzero_freqs ec rc in
       if (count_true nz =? 0)%nat then Ok 0
       else let correct := map (fun d => qltb (fold d) tol) (freq_diff_cents rc ec) in
            Ok (qsum (map2 (fun v c => v * b2q c) (select nz rv) correct) / qsum rv).
Definition raw_pitch_accuracy := raw_accuracy (fun d => d).
Definition raw_chroma_accuracy := raw_accuracy chroma_diff.

Definition overall_accuracy (rv rc ev ec : list Q) (tol : Q) : res Q :=
  _ <- validate_voicing rv ev ;; _ <- validate rv rc ev ec ;;
  if is_nil rv || is_nil ev || is_nil rc || is_nil ec then Ok 0
  else let nz := nonzero_freqs ec rc in
       let correct := map (fun d => qltb d tol) (freq_diff_cents rc ec) in
       let ref_binary := map voiced_ind rv in
       let ratio := if qeqb (qsum rv) 0 then 0 else qsum ref_binary / qsum rv in
       Ok ((ratio * qsum (map2 (fun ve c => ve * b2q c) (map2 Qmult (select nz rv) (select nz ev)) correct)
            + qsum (map2 (fun b e => (1 - b) * (1 - e)) ref_binary ev)) / qlen rv).

(* ---------------------------------------------------------------- freq_to_voicing *)
Definition freq_to_voicing (freqs : list Q) (voicing : option (list Q)) : res (list Q * list Q) :=
  match voicing with
  | Some v => if is_nil freqs then Ok ([], v)       (* NumPy accepts an empty boolean index on any array *)
              else if (length v =? length freqs)%nat
              then Ok (map Qabs freqs, map2 (fun f x => if qeqb f 0 then 0 else x) freqs v)
              else Raise IndexError          (* boolean index did not match *)
  | None => Ok (map Qabs freqs, map (fun f => b2q (qltb 0 f)) freqs)
  end.

(* ---------------------------------------------------------------- constant_hop_timebase *)
Definition round_half_even (y : Q) : Z :=
  let f := Qfloor y in let r := y - inject_Z f in
  if qltb r (1#2) then f else if qltb (1#2) r then (f + 1)%Z else if Z.even f then f else (f + 1)%Z.
Definition round10 (x : Q) : Q := inject_Z (round_half_even (x * 10000000000)) / 10000000000.   (* np.round(x, 10) *)
Definition constant_hop_timebase (hop end_time : Q) : res (list Q) :=
  let e := round10 end_time in
  if qeqb hop 0 then (if qeqb e 0 then Raise ValueError      (* int(nan) *)
                      else Raise OtherExn)                    (* int(inf): OverflowError *)
  else let n := Qfloor (e / hop) in
       if (n + 1 <? 0)%Z then Raise ValueError                (* np.linspace: negative number of samples *)
       else Ok (map (fun i => round10 (inject_Z (Z.of_nat i) * hop)) (seq 0 (Z.to_nat (n + 1)))).

(* ---------------------------------------------------------------- resample_melody_series, kind = 'linear' *)
(* np.allclose(a, b): |a - b| <= atol + rtol * |b| with atol = 1e-8, rtol = 1e-5 - the binary64 values of these literals, as NumPy uses them
   (the decimal fractions were a modelling error found by the translation tie of resample_melody_series: times=[1e-08] vs [0.]) *)
Definition ATOL : Q := 3022314549036573 # 302231454903657293676544.
Definition RTOL : Q := 5902958103587057 # 590295810358705651712.
Definition close1 (a b : Q) : bool := qleb (Qabs (a - b)) (ATOL + RTOL * Qabs b).
Definition allclose (a b : list Q) : bool := forallb (fun p => close1 (fst p) (snd p)) (combine a b).
Fixpoint diffs (l : list Q) : list Q :=
  match l with x :: t => match t with y :: _ => (y - x) :: diffs t | [] => [] end | [] => [] end.
(* np.allclose(np.diff(t), np.diff(t).mean()); vacuously true (mean = nan) when t has fewer than two entries *)
Definition uniform (ts : list Q) : bool :=
  let d := diffs ts in let m := qsum d / qlen d in forallb (fun x => close1 x m) d.
(* not (A or (B and frequencies[0] == frequencies[1])) with Python's short-circuit evaluation *)
Definition nonuniform_warn (times freqs : list Q) : res bool :=
  if uniform times then Ok false
  else if uniform (tl times)
       then match freqs with f0 :: f1 :: _ => Ok (negb (qeqb f0 f1)) | _ => Raise IndexError end
       else Ok true.
(* frequencies_held *)
Fixpoint hold_from (prev : Q) (l : list Q) : list Q :=
  match l with [] => [] | f :: t => let h := if qeqb f 0 then prev else f in h :: hold_from h t end.
Definition hold (l : list Q) : list Q := match l with [] => [] | f :: t => f :: hold_from f t end.

(* scipy.interpolate.interp1d(x, y, kind)(x_new) for kind in {'linear','zero'}, default bounds_error: x is sorted
   (stable argsort) together with y; below/above the range raises ValueError. 'zero' refuses duplicate abscissae
   (ValueError). 'linear' does not, but resample_melody_series always builds the 'zero' interpolant on the same
   abscissae right after the linear one, so duplicates raise ValueError there whatever the linear one returned;
   the helper therefore refuses duplicates for both kinds (that is the only way it is used below). *)
Fixpoint ins_pt (p : Q * Q) (l : list (Q * Q)) : list (Q * Q) :=
  match l with [] => [p] | q :: t => if qltb (fst p) (fst q) then p :: l else q :: ins_pt p t end.
Definition sort_pts (l : list (Q * Q)) : list (Q * Q) := fold_left (fun acc p => ins_pt p acc) l [].
Fixpoint has_dup (l : list (Q * Q)) : bool :=
  match l with p :: t => match t with q :: _ => qeqb (fst p) (fst q) || has_dup t | [] => false end | [] => false end.
Fixpoint interp_lin (pts : list (Q * Q)) (x : Q) : Q :=
  match pts with
  | [] => 0
  | (x0, y0) :: t => match t with
                     | [] => y0
                     | (x1, y1) :: _ => if qltb x x1 then y0 + (y1 - y0) / (x1 - x0) * (x - x0) else interp_lin t x
                     end
  end.
Fixpoint interp_zero (pts : list (Q * Q)) (x : Q) : Q :=
  match pts with
  | [] => 0
  | (x0, y0) :: t => match t with [] => y0 | (x1, _) :: _ => if qltb x x1 then y0 else interp_zero t x end
  end.
Definition interp1d (zero : bool) (xs ys xnew : list Q) : res (list Q) :=
  if negb (length xs =? length ys)%nat || is_nil xs then Raise ValueError
  else let pts := sort_pts (combine xs ys) in
       if has_dup pts then Raise ValueError
       else match qmin_list xs, qmax_list xs with
            | Some lo, Some hi =>
                if existsb (fun x => qltb x lo || qltb hi x) xnew then Raise ValueError
                else Ok (map (if zero then interp_zero pts else interp_lin pts) xnew)
            | _, _ => Raise ValueError
            end.

Definition is_binary (v : list Q) : bool := forallb (fun x => qeqb x 0 || qeqb x 1) v.
Definition resample_melody_series (times freqs voicing times_new : list Q)
  : list mwarn * res (list Q * list Q) :=
  if (length times =? length times_new)%nat && allclose times times_new then ([], Ok (freqs, voicing))
  else match nonuniform_warn times freqs with
       | Raise e => ([], Raise e)
       | Ok w =>
         ((if w then [W_nonuniform] else []),
          let times := map round10 times in
          let times_new := map round10 times_new in
          match qmax_list times_new, qmax_list times with
          | Some mn, Some mt =>
              let ext := qltb mt mn in
              let times := if ext then times ++ [mn] else times in
              let freqs := if ext then freqs ++ [0] else freqs in
              let voicing := if ext then voicing ++ [0] else voicing in
              fr <- interp1d false times (hold freqs) times_new ;;
              mask <- interp1d true times freqs times_new ;;
              let fr := map2 (fun f m => f * b2q (negb (qeqb m 0))) fr mask in
              vr <- interp1d (is_binary voicing) times voicing times_new ;;
              Ok (fr, vr)
          | _, _ => Raise ValueError        (* max of an empty array *)
          end)
       end.

(* ---------------------------------------------------------------- to_cent_voicing, evaluate (kind = 'linear') *)
(* every frequency is paired with hz2cents(|f|) (the unit passes the implementation's own value); inserting the
   sample at time 0 duplicates the pair *)
Definition add_time0 {A B} (time : list Q) (fc : list A) (extra : option (list B))
  : res (list Q * list A * option (list B)) :=
  match time with
  | [] => Raise IndexError
  | t0 :: _ =>
      if qltb 0 t0 then
        match fc with
        | [] => Raise IndexError
        | p :: _ => match extra with
                    | None => Ok (0 :: time, p :: fc, None)
                    | Some [] => Raise IndexError
                    | Some (e :: r) => Ok (0 :: time, p :: fc, Some (e :: e :: r))
                    end
        end
      else Ok (time, fc, extra)
  end.
Definition tmax (l : list Q) : Q := match qmax_list l with Some m => m | None => 0 end.   (* on non-empty lists *)

Definition to_cent_voicing (ref_time : list Q) (ref_fc : list (Q * Q)) (est_time : list Q) (est_fc : list (Q * Q))
           (est_voicing ref_reward : option (list Q)) (hop : option Q)
  : list mwarn * res (list Q * list Q * list Q * list Q) :=
  match add_time0 ref_time ref_fc ref_reward with Raise e => ([], Raise e) | Ok (ref_time, ref_fc, ref_reward) =>
  match add_time0 est_time est_fc est_voicing with Raise e => ([], Raise e) | Ok (est_time, est_fc, est_voicing) =>
  match freq_to_voicing (map fst ref_fc) ref_reward with Raise e => ([], Raise e) | Ok (_, ref_voicing) =>
  match freq_to_voicing (map fst est_fc) est_voicing with Raise e => ([], Raise e) | Ok (_, est_voicing) =>
  let ref_cent := map snd ref_fc in
  let est_cent := map snd est_fc in
  let finish (w : list mwarn) (rc rv ec ev : list Q) :=
    (w, Ok (rv, rc,
            (if (length ec <=? length rc)%nat then ev ++ repeat 0 (length rc - length ec) else firstn (length rv) ev),
            (if (length ec <=? length rc)%nat then ec ++ repeat 0 (length rc - length ec) else firstn (length rc) ec))) in
  match hop with
  | Some h =>
      match constant_hop_timebase h (tmax ref_time) with Raise e => ([], Raise e) | Ok tb_r =>
      match resample_melody_series ref_time ref_cent ref_voicing tb_r with
      | (w1, Raise e) => (w1, Raise e)
      | (w1, Ok (rc, rv)) =>
        match constant_hop_timebase h (tmax est_time) with Raise e => (w1, Raise e) | Ok tb_e =>
        match resample_melody_series est_time est_cent est_voicing tb_e with
        | (w2, Raise e) => (w1 ++ w2, Raise e)
        | (w2, Ok (ec, ev)) => finish (w1 ++ w2) rc rv ec ev
        end end
      end end
  | None =>
      match resample_melody_series est_time est_cent est_voicing ref_time with
      | (w, Raise e) => (w, Raise e)
      | (w, Ok (ec, ev)) => finish w ref_cent ref_voicing ec ev
      end
  end end end end end.

Definition evaluate (ref_time : list Q) (ref_fc : list (Q * Q)) (est_time : list Q) (est_fc : list (Q * Q))
           (est_voicing ref_reward : option (list Q)) (hop : option Q) (tol : Q)
  : res (Q * Q * Q * Q * Q) :=
  a <- snd (to_cent_voicing ref_time ref_fc est_time est_fc est_voicing ref_reward hop) ;;
  let '(rv, rc, ev, ec) := a in
  vr <- voicing_recall rv ev ;; vfa <- voicing_false_alarm rv ev ;;
  rpa <- raw_pitch_accuracy rv rc ev ec tol ;; rca <- raw_chroma_accuracy rv rc ev ec tol ;;
  oa <- overall_accuracy rv rc ev ec tol ;;
  Ok (vr, vfa, rpa, rca, oa).
