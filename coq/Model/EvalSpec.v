(* The documented bundle of every evaluate(): which metric function, on which (pre-processed) inputs, with which
   forced parameter, is stored under which key, in which order (DESIGN.md section 6, C03). Written by hand from
   the module documentation; compared with the symbolic normal form of the translated source. *)
From Coq Require Import List String ZArith.
From ME Require Import Model.EvalLang.
Import ListNotations.
Open Scope string_scope.
Open Scope list_scope.

Definition bundle := list (list (kws * bool) * list (string * sval)).
(* t1, ..., tn = v *)
Definition entries (keys : list string) (v : sval) : list (string * sval) :=
  let n := List.length keys in
  if Nat.eqb n 1 then map (fun k => (k, v)) keys else map (fun p => (snd p, VProj (fst p) n v)) (combine (seq 0 n) keys).
Definition call (f : string) (args : list sval) (forced : list (string * kws)) : sval :=
  VCall f args (map (fun p => (fst p, KwState (snd p))) forced) PDeclared.
(* util.filter_kwargs(f, args...) written without **kwargs: no caller keyword reaches the callee *)
Definition call_nokw (f : string) (args : list sval) : sval := VCall f args [] PNone.
(* a callee that itself takes **kwargs receives every keyword *)
Definition call_all (f : string) (args : list sval) (forced : list (string * kws)) : sval :=
  VCall f args (map (fun p => (fst p, KwState (snd p))) forced) PAll.
Definition direct (f : string) (args : list sval) (kw : list (string * sval)) : sval :=
  VCall f args (map (fun p => (fst p, KwExpr (snd p))) kw) PNone.
Definition num (n : Z) (d : positive) := KConst (CNum n d).
Definition vnum (n : Z) (d : positive) := VConst (CNum n d).
Definition i (x : string) := VInput x.

Definition onset_spec : bundle :=
  [([], entries ["F-measure"; "Precision"; "Recall"] (call "f_measure" [i "reference_onsets"; i "estimated_onsets"] []))].

Definition beat_spec : bundle :=
  let r := call "trim_beats" [i "reference_beats"] [] in          (* both sequences are trimmed first *)
  let e := call "trim_beats" [i "estimated_beats"] [] in
  [([], entries ["F-measure"] (call "f_measure" [r; e] [])
     ++ entries ["Cemgil"; "Cemgil Best Metric Level"] (call "cemgil" [r; e] [])
     ++ entries ["Goto"] (call "goto" [r; e] [])
     ++ entries ["P-score"] (call "p_score" [r; e] [])
     ++ entries ["Correct Metric Level Continuous"; "Correct Metric Level Total"; "Any Metric Level Continuous"; "Any Metric Level Total"]
          (call "continuity" [r; e] [])
     ++ entries ["Information gain"] (call "information_gain" [r; e] []))].

Definition tempo_spec : bundle :=
  [([], entries ["P-score"; "One-correct"; "Both-correct"] (call "detection" [i "reference_tempi"; i "reference_weight"; i "estimated_tempi"] []))].

Definition key_spec : bundle :=
  [([], entries ["Weighted Score"] (call_nokw "weighted_score" [i "reference_key"; i "estimated_key"]))].

Definition multipitch_spec : bundle :=
  [([], entries ["Precision"; "Recall"; "Accuracy"; "Substitution Error"; "Miss Error"; "False Alarm Error"; "Total Error";
                 "Chroma Precision"; "Chroma Recall"; "Chroma Accuracy"; "Chroma Substitution Error"; "Chroma Miss Error";
                 "Chroma False Alarm Error"; "Chroma Total Error"]
          (call_all "metrics" [i "ref_time"; i "ref_freqs"; i "est_time"; i "est_freqs"] []))].

Definition melody_spec : bundle :=
  let cv := call "to_cent_voicing" [i "ref_time"; i "ref_freq"; i "est_time"; i "est_freq"; i "est_voicing"; i "ref_reward"] [] in
  let rv := VProj 0 4 cv in let rc := VProj 1 4 cv in let ev := VProj 2 4 cv in let ec := VProj 3 4 cv in
  [([], entries ["Voicing Recall"] (call "voicing_recall" [rv; ev] [])
     ++ entries ["Voicing False Alarm"] (call "voicing_false_alarm" [rv; ev] [])
     ++ entries ["Raw Pitch Accuracy"] (call "raw_pitch_accuracy" [rv; rc; ev; ec] [])
     ++ entries ["Raw Chroma Accuracy"] (call "raw_chroma_accuracy" [rv; rc; ev; ec] [])
     ++ entries ["Overall Accuracy"] (call "overall_accuracy" [rv; rc; ev; ec] []))].

Definition pattern_spec : bundle :=
  let a := [i "ref_patterns"; i "est_patterns"] in
  [([], entries ["F"; "P"; "R"] (call "standard_FPR" a [])
     ++ entries ["F_est"; "P_est"; "R_est"] (call "establishment_FPR" a [])
     ++ entries ["F_occ.5"; "P_occ.5"; "R_occ.5"] (call "occurrence_FPR" a [("thres", num 1 2)])        (* threshold .5 *)
     ++ entries ["F_occ.75"; "P_occ.75"; "R_occ.75"] (call "occurrence_FPR" a [("thres", num 3 4)])     (* threshold .75 *)
     ++ entries ["F_3"; "P_3"; "R_3"] (call "three_layer_FPR" a [])
     ++ entries ["FFP"] (call "first_n_three_layer_P" a [("n", KDefault "n" (CNum 5 1))])               (* n = 5 unless given *)
     ++ entries ["FFTP_est"] (call "first_n_target_proportion_R" a [("n", KDefault "n" (CNum 5 1))]))].

Definition transcription_spec : bundle :=
  let a4 := [i "ref_intervals"; i "ref_pitches"; i "est_intervals"; i "est_pitches"] in
  let a2 := [i "ref_intervals"; i "est_intervals"] in
  let user := KDefault "offset_ratio" (CNum 1 5) in                                                    (* 0.2 unless given *)
  let no_offset := entries ["Precision_no_offset"; "Recall_no_offset"; "F-measure_no_offset"; "Average_Overlap_Ratio_no_offset"]
                     (call "precision_recall_f1_overlap" a4 [("offset_ratio", KConst CNone)])
                   ++ entries ["Onset_Precision"; "Onset_Recall"; "Onset_F-measure"] (call "onset_precision_recall_f1" a2 []) in
  [ ([(user, true)], no_offset);                                  (* the caller passed offset_ratio=None *)
    ([(user, false)],
       entries ["Precision"; "Recall"; "F-measure"; "Average_Overlap_Ratio"] (call "precision_recall_f1_overlap" a4 [("offset_ratio", user)])
       ++ no_offset
       ++ entries ["Offset_Precision"; "Offset_Recall"; "Offset_F-measure"] (call "offset_precision_recall_f1" a2 [("offset_ratio", user)])) ].

Definition transcription_velocity_spec : bundle :=
  let a6 := [i "ref_intervals"; i "ref_pitches"; i "ref_velocities"; i "est_intervals"; i "est_pitches"; i "est_velocities"] in
  let user := KDefault "offset_ratio" (CNum 1 5) in
  let no_offset := entries ["Precision_no_offset"; "Recall_no_offset"; "F-measure_no_offset"; "Average_Overlap_Ratio_no_offset"]
                     (call "precision_recall_f1_overlap" a6 [("offset_ratio", KConst CNone)]) in
  [ ([(user, true)], no_offset);
    ([(user, false)],
       entries ["Precision"; "Recall"; "F-measure"; "Average_Overlap_Ratio"] (call "precision_recall_f1_overlap" a6 [("offset_ratio", user)])
       ++ no_offset) ].

Definition segment_spec : bundle :=
  (* reference padded to start at 0; estimate padded/cropped to [0, end of the adjusted reference] *)
  let ra := direct "util.adjust_intervals" [i "ref_intervals"] [("labels", i "ref_labels"); ("t_min", vnum 0 1)] in
  let ri := VProj 0 2 ra in let rl := VProj 1 2 ra in
  let ea := direct "util.adjust_intervals" [i "est_intervals"] [("labels", i "est_labels"); ("t_min", vnum 0 1); ("t_max", VMethod "max" ri [])] in
  let ei := VProj 0 2 ea in let el := VProj 1 2 ea in
  let b := [ri; ei] in let l := [ri; rl; ei; el] in
  let w3 := [("window", num 3 1)] in       (* kwargs['window'] stays 3.0 after the second detection call *)
  [([], entries ["Precision@0.5"; "Recall@0.5"; "F-measure@0.5"] (call "detection" b [("window", num 1 2)])
     ++ entries ["Precision@3.0"; "Recall@3.0"; "F-measure@3.0"] (call "detection" b w3)
     ++ entries ["Ref-to-est deviation"; "Est-to-ref deviation"] (call "deviation" b [])
     ++ entries ["Pairwise Precision"; "Pairwise Recall"; "Pairwise F-measure"] (call "pairwise" l [])
     ++ entries ["Rand Index"] (call "rand_index" l [])
     ++ entries ["Adjusted Rand Index"] (call "ari" l [])
     ++ entries ["Mutual Information"; "Adjusted Mutual Information"; "Normalized Mutual Information"] (call "mutual_information" l [])
     ++ entries ["NCE Over"; "NCE Under"; "NCE F-measure"] (call "nce" l [])
     ++ entries ["V Precision"; "V Recall"; "V-measure"] (call "vmeasure" l []))].

Definition hierarchy_spec : bundle :=
  let t_end := VProj 1 2 (direct "_hierarchy_bounds" [i "ref_intervals_hier"] []) in
  let ra := direct "_align_intervals" [i "ref_intervals_hier"; i "ref_labels_hier"] [("t_min", vnum 0 1); ("t_max", VConst CNone)] in
  let ri := VProj 0 2 ra in let rl := VProj 1 2 ra in
  let ea := direct "_align_intervals" [i "est_intervals_hier"; i "est_labels_hier"] [("t_min", vnum 0 1); ("t_max", t_end)] in
  let ei := VProj 0 2 ea in let el := VProj 1 2 ea in
  [([], entries ["T-Precision reduced"; "T-Recall reduced"; "T-Measure reduced"] (call "tmeasure" [ri; ei] [("transitive", KConst (CBool false))])
     ++ entries ["T-Precision full"; "T-Recall full"; "T-Measure full"] (call "tmeasure" [ri; ei] [("transitive", KConst (CBool true))])
     ++ entries ["L-Precision"; "L-Recall"; "L-Measure"] (call "lmeasure" [ri; rl; ei; el] []))].

Definition alignment_spec : bundle :=
  let a := [i "reference_timestamps"; i "estimated_timestamps"] in
  [([], entries ["pc"] (call "percentage_correct" a [])
     ++ entries ["mae"; "aae"] (direct "absolute_error" a [])
     ++ entries ["pcs"] (call "percentage_correct_segments" a [])
     ++ entries ["perceptual"] (direct "karaoke_perceptual_metric" a []))].

Definition chord_spec : bundle :=
  let rmin := VMethod "min" (i "ref_intervals") [] in let rmax := VMethod "max" (i "ref_intervals") [] in
  (* the estimate is cropped/padded to the reference span with no-chord labels *)
  let ea := direct "util.adjust_intervals" [i "est_intervals"; i "est_labels"; rmin; rmax; VGlobal "NO_CHORD"; VGlobal "NO_CHORD"] [] in
  let ei := VProj 0 2 ea in let el := VProj 1 2 ea in
  let mr := direct "merge_chord_intervals" [i "ref_intervals"; i "ref_labels"] [] in
  let me := direct "merge_chord_intervals" [ei; el] [] in
  let mg := direct "util.merge_labeled_intervals" [i "ref_intervals"; i "ref_labels"; ei; el] [] in
  let iv := VProj 0 3 mg in let rl := VProj 1 3 mg in let ml := VProj 2 3 mg in
  let dur := direct "util.intervals_to_durations" [iv] [] in
  let acc name := entries [name] (direct "weighted_accuracy" [direct name [rl; ml] []; dur] []) in
  let under := direct "underseg" [mr; me] [] in let over := direct "overseg" [mr; me] [] in
  [([], acc "thirds" ++ acc "thirds_inv" ++ acc "triads" ++ acc "triads_inv" ++ acc "tetrads" ++ acc "tetrads_inv" ++ acc "root"
     ++ acc "mirex" ++ acc "majmin" ++ acc "majmin_inv" ++ acc "sevenths" ++ acc "sevenths_inv"
     ++ entries ["underseg"] under ++ entries ["overseg"] over
     ++ entries ["seg"] (direct "min" [over; under] []))].

Definition separation_spec : bundle :=
  let a := [i "reference_sources"; i "estimated_sources"] in
  let five (f : string) (pre : string) :=
    let v := call f a [] in
    [(String.append pre "Source to Distortion", VMethod "tolist" (VProj 0 5 v) []); (String.append pre "Image to Spatial", VMethod "tolist" (VProj 1 5 v) []);
     (String.append pre "Source to Interference", VMethod "tolist" (VProj 2 5 v) []); (String.append pre "Source to Artifact", VMethod "tolist" (VProj 3 5 v) []);
     (String.append pre "Source permutation", VMethod "tolist" (VProj 4 5 v) [])] in
  let four (f : string) (pre : string) :=
    let v := call f a [] in
    [(String.append pre "Source to Distortion", VMethod "tolist" (VProj 0 4 v) []); (String.append pre "Source to Interference", VMethod "tolist" (VProj 1 4 v) []);
     (String.append pre "Source to Artifact", VMethod "tolist" (VProj 2 4 v) []); (String.append pre "Source permutation", VMethod "tolist" (VProj 3 4 v) [])] in
  let images := five "bss_eval_images" "Images - " ++ five "bss_eval_images_framewise" "Images Frames - " in
  [ ([], images);                                                   (* multichannel input: image metrics only *)
    ([], images ++ four "bss_eval_sources_framewise" "Sources Frames - " ++ four "bss_eval_sources" "Sources - ") ].
