From Coq Require Import List Arith Bool Lia.
From ME Require Import Model.Dict.
Import ListNotations.
Definition graph := dict (list nat).
Definition matching := dict nat.
Inductive pu := Free | Via (v : nat).
Definition state := (dict (list nat) * dict pu * matching)%type.

Fixpoint greedy_u (vs : list nat) (u : nat) (m : matching) : matching :=
  match vs with [] => m | v :: t => if dmem m v then greedy_u t u m else dset m v u end.
Definition greedy (g : graph) : matching := fold_left (fun m e => greedy_u (snd e) (fst e) m) g [].

Definition add_new (nl : dict (list nat)) (v u : nat) :=
  match dget nl v with Some l => dset nl v (l ++ [u]) | None => dset nl v [u] end.
Definition nbrs (g : graph) (u : nat) := match dget g u with Some l => l | None => [] end.
Definition scan_u (g : graph) (preds nl : dict (list nat)) (u : nat) :=
  fold_left (fun nl v => if dmem preds v then nl else add_new nl v u) (nbrs g u) nl.
Definition lstate := (dict (list nat) * dict pu * list nat * list nat)%type.
Definition absorb (m : matching) (st : lstate) (e : nat * list nat) : lstate :=
  let '(preds, pred, layer, unm) := st in
  let preds := dset preds (fst e) (snd e) in
  match dget m (fst e) with
  | Some u => (preds, dset pred u (Via (fst e)), layer ++ [u], unm)
  | None => (preds, pred, layer, unm ++ [fst e])
  end.
Fixpoint layering (fuel : nat) (g : graph) (m : matching) (preds : dict (list nat)) (pred : dict pu)
         (layer unm : list nat) : option (dict (list nat) * dict pu * list nat) :=
  match fuel with 0 => None | S f =>
    match layer, unm with
    | _ :: _, [] =>
        let nl := fold_left (scan_u g preds) layer [] in
        let '(preds, pred, layer, unm) := fold_left (absorb m) nl (preds, pred, [], unm) in
        layering f g m preds pred layer unm
    | _, _ => Some (preds, pred, unm)
    end
  end.
Fixpoint try_us (rec : nat -> state -> state * bool) (v : nat) (L : list nat) (st : state) : state * bool :=
  match L with
  | [] => (st, false)
  | u :: L' =>
      let '(preds, pred, m) := st in
      match dget pred u with
      | None => try_us rec v L' st
      | Some p =>
          let pred1 := ddel pred u in
          match p with
          | Free => ((preds, pred1, dset m v u), true)
          | Via w =>
              let '(st', ok) := rec w (preds, pred1, m) in
              if ok then let '(preds2, pred2, m2) := st' in ((preds2, pred2, dset m2 v u), true)
              else try_us rec v L' st'
          end
      end
  end.
Fixpoint recurse (fuel : nat) (v : nat) (st : state) : state * bool :=
  match fuel with 0 => (st, false) | S f =>
    let '(preds, pred, m) := st in
    match dget preds v with
    | None => (st, false)
    | Some L => try_us (recurse f) v L (ddel preds v, pred, m)
    end
  end.
Definition init_pred (g : graph) (m : matching) : dict pu :=
  fold_left (fun p e => ddel p (snd e)) m (map (fun e => (fst e, Free)) g).
Fixpoint phases (fuel : nat) (g : graph) (m : matching) : option matching :=
  match fuel with 0 => None | S f =>
    let pred0 := init_pred g m in
    match layering (S (length g)) g m [] pred0 (keys pred0) [] with
    | None => None
    | Some (preds, pred, unm) =>
        match unm with
        | [] => Some m
        | _ => let '(_, _, m') := fold_left (fun st v => fst (recurse (S (length preds)) v st)) unm (preds, pred, m) in
               phases f g m'
        end
    end
  end.
Definition bipartite_match (g : graph) : option matching := phases (S (length g)) g (greedy g).
