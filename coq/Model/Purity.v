(* C15: in-place write sites as reported by translator/writesites.py (Gen/WriteSites.v) and the decidable conditions
   under which they cannot modify an object owned by the caller or keep state between calls. Definitions only.

   Origins of the written object (a conservative may-alias set computed by the translator):
     "Fresh"        allocated inside the function (literal, copy, arithmetic, np.zeros/empty/array, list(...), slicing of fresh ...)
     "Kwargs"       the function's own **kwargs dict (CPython builds a fresh dict for every call)
     "Param:p"      may share storage with the argument passed as p
     "Global:n"     a module-level object
     "Unknown"      a free variable of a nested function, or a name the analysis cannot resolve *)
From Coq Require Import List String Bool.
Import ListNotations.
Open Scope string_scope.

Record site := mk_site { s_module : string; s_function : string; s_kind : string; s_target : string; s_index : nat;
                         s_origins : list string; s_text : string }.

Definition is_prefix (p s : string) : bool := String.prefix p s.
Definition origin_local (o : string) : bool := String.eqb o "Fresh" || String.eqb o "Kwargs".
Definition site_local (s : site) : bool := forallb origin_local (s_origins s).

(* Sites that write through a name that may alias a parameter, each justified individually. The key is
   (module, function, kind, target): adding a NEW write through a parameter anywhere else breaks the theorem. *)
Definition allow := (string * string * string * string)%type.
Definition allow_eqb (a : allow) (s : site) : bool :=
  let '(m, f, k, t) := a in
  String.eqb m (s_module s) && String.eqb f (s_function s) && String.eqb k (s_kind s) && String.eqb t (s_target s).
Definition site_ok (allowed : list allow) (s : site) : bool :=
  site_local s || existsb (fun a => allow_eqb a s) allowed.
Definition offending (allowed : list allow) (l : list site) : list site := filter (fun s => negb (site_ok allowed s)) l.
Definition writes_global (s : site) : bool := existsb (is_prefix "Global:") (s_origins s).

(* np.empty buffers: inside a loop, the two branches of an if/else must store into the same buffers
   (otherwise some cells of a returned buffer stay uninitialised on one path) *)
Fixpoint subsetb (a b : list string) : bool :=
  match a with [] => true | x :: t => existsb (String.eqb x) b && subsetb t b end.
Definition branch_ok (r : string * string * list string * list string * list string) : bool :=
  let '(_, _, _, x, y) := r in subsetb x y && subsetb y x.
