(* The instantiation of the language of Model/PyStr.v for mir_eval/chord.py: the module constants (from the
   translator's tables, Gen/ChordTables.v), the meaning of the callees (the functions of the hand-written model
   Model/ChordParse.v; CHORD_RE.match is the verified matcher on the translated regular expression), the embedding of
   the model's results into Python values, and [run]. Definitions only. *)
From Coq Require Import String.
From Coq Require Import List Bool Arith ZArith.
From ME Require Import Model.Prelude Model.Regex Model.ChordParse Model.PyStr Gen.ChordRe Gen.ChordTables Gen.ChordParseGen.
Import ListNotations.

Definition lift {A} (f : A -> pv) (r : res A) : out pv := match r with Ok a => OK (f a) | Raise e => EXN e end.
Definition v_unit (_ : unit) : pv := VNone.
Definition v_enc (e : enc) : pv := let '(r, bm, b) := e in VTup [VInt r; VArr bm; VInt b].
Definition v_split (p : str * str * list str * str) : pv :=
  let '(rt, q, degs, bass) := p in VList [VStr rt; VStr q; VSet degs; VStr bass].
Definition v_redux (p : str * list str) : pv := VTup [VStr (fst p); VSet (snd p)].
Definition v_strs (l : list str) : pv := VList (map VStr l).
Definition v_ints (l : list Z) : pv := VList (map VInt l).
Definition v_nat (n : nat) : pv := VInt (Z.of_nat n).
Definition dict_of {A} (f : A -> pv) (T : list (str * A)) : pv := VDict (map (fun p => (fst p, f (snd p))) T).

Local Open Scope string_scope.
Definition chord_genv : env :=
  [("BITMAP_LENGTH", VInt (Z.of_nat BITMAP_LENGTH));
   ("NO_CHORD", VStr NO_CHORD); ("X_CHORD", VStr X_CHORD);
   ("NO_CHORD_ENCODED", v_enc Nenc); ("X_CHORD_ENCODED", v_enc Xenc);
   ("PITCH_CLASSES", VDict (map (fun p => ([fst p], v_nat (snd p))) PITCH_CLASSES));
   ("SCALE_DEGREES", dict_of v_nat SCALE_DEGREES);
   ("QUALITIES", dict_of v_ints QUALITIES);
   ("EXTENDED_QUALITY_REDUX", dict_of v_redux EXTENDED_QUALITY_REDUX)].

(* one value per parameter, in the order of the callee's signature *)
Definition chord_ext (f : string) (vs : list pv) : out pv :=
  if f =? "CHORD_RE.match" then
    match vs with [VStr s] => OK (if rmatch chord_re s then VMatch else VNone) | _ => UNM end
  else if f =? "validate_chord_label" then
    match vs with [VStr s] => lift v_unit (validate_label s) | _ => UNM end
  else if f =? "pitch_class_to_semitone" then
    match vs with [VStr s] => lift VInt (pitch_class_to_semitone s) | _ => UNM end
  else if f =? "scale_degree_to_semitone" then
    match vs with [VStr s] => lift VInt (scale_degree_to_semitone s) | _ => UNM end
  else if f =? "scale_degree_to_bitmap" then
    match vs with
    | [VStr s; VBool m; VInt n] => if Z.eqb n (Z.of_nat BITMAP_LENGTH) then lift VArr (scale_degree_to_bitmap s m) else UNM
    | _ => UNM end
  else if f =? "quality_to_bitmap" then
    match vs with [VStr q] => lift VArr (quality_to_bitmap q) | _ => UNM end
  else if f =? "reduce_extended_quality" then
    match vs with [VStr q] => OK (v_redux (reduce_extended_quality q)) | _ => UNM end
  else if f =? "split" then
    match vs with [VStr s; VBool r] => lift v_split (split s r) | _ => UNM end
  else if f =? "encode" then
    match vs with [VStr s; VBool r; VBool st] => lift v_enc (encode s r st) | _ => UNM end
  else UNM.

Definition chord_sigs : list (string * option sigv) := sigs_of chord_genv (fun_params chord_funs ++ chord_prims).
Definition run (sord : list str -> list str) (f : fdef) (args : list pv) : out pv :=
  run_fun chord_genv chord_sigs chord_ext sord f args.
