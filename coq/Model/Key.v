(* key.validate_key / validate / split_key_string / weighted_score / evaluate over key strings
   (character-code lists), statement by statement. KEY_TO_SEMITONE and the mode list of validate_key are
   the translator's output (Gen.KeyTable). Python semantics made explicit:
   - str.split() without argument splits on runs of Unicode whitespace and drops empty pieces (key_ws is the
     set of code points for which CPython's str.split() splits; checked by enumeration of all code points);
   - str.lower(): only A-Z matter here; the only non-ASCII code points whose lower() contains an ASCII letter are
     U+0130 (-> "i" + U+0307) and U+212A (-> "k"), neither of which can produce a table key or "x";
   - tuple unpacking `key, mode = key.split()` raises ValueError unless there are exactly two pieces;
   - KEY_TO_SEMITONE[...] raises KeyError on a missing key;
   - the scores are the float literals 1.0, 0.5, 0.3, 0.2, 0.0, modelled by the rationals 1, 1/2, 3/10, 1/5, 0.
   Definitions only. *)
From Coq Require Import List Bool Arith NArith ZArith QArith.
From ME Require Import Model.Prelude Model.ChordParse Gen.KeyTable.
Import ListNotations.
Close Scope Q_scope.

Definition key_ws (c : nat) : bool :=
  let n := N.of_nat c in
  ((9 <=? n) && (n <=? 13) || (28 <=? n) && (n <=? 32) || (n =? 133) || (n =? 160) || (n =? 5760)
   || (8192 <=? n) && (n <=? 8202) || (n =? 8232) || (n =? 8233) || (n =? 8239) || (n =? 8287) || (n =? 12288))%N.
(* (characters of the piece in progress, completed pieces to its right) *)
Fixpoint split_ws_aux (s : str) : str * list str :=
  match s with
  | [] => ([], [])
  | c :: t => let '(cur, toks) := split_ws_aux t in
              if key_ws c then ([], match cur with [] => toks | _ => cur :: toks end) else (c :: cur, toks) end.
Definition split_ws (s : str) : list str :=                                   (* key.split() *)
  let '(cur, toks) := split_ws_aux s in match cur with [] => toks | _ => cur :: toks end.

Definition s_x : str := [120].
Definition s_major : str := [109; 97; 106; 111; 114].
Definition s_minor : str := [109; 105; 110; 111; 114].
Definition is_x (s : str) : bool := seqb (lower s) s_x.                          (* s.lower() == "x" *)
Definition in_table (k : str) : bool := match lookup k KEY_TO_SEMITONE with Some _ => true | None => false end.

Definition validate_key (key : str) : res unit :=
  let n := length (split_ws key) in
  if negb (Nat.eqb n 2) && negb (negb (Nat.eqb n 0) && is_x key) then Raise ValueError else
  if negb (is_x key) then
    p <- two (split_ws key) ;; let '(k, mode) := p in
    if is_x k then Raise ValueError else
    if negb (in_table (lower k)) then Raise ValueError else
    if negb (existsb (seqb mode) KEY_MODES) then Raise ValueError else Ok tt
  else Ok tt.

Definition validate (r e : str) : res unit := _ <- validate_key r ;; validate_key e.

(* (semitone or None, mode or None) *)
Definition split_key_string (key : str) : res (option Z * option str) :=
  p <- (if negb (is_x key) then ab <- two (split_ws key) ;; Ok (fst ab, Some (snd ab)) else Ok (key, None)) ;;
  let '(k, mode) := p in
  match lookup (lower k) KEY_TO_SEMITONE with Some v => Ok (v, mode) | None => Raise KeyError end.

Definition oz_eqb (a b : option Z) : bool :=
  match a, b with Some x, Some y => Z.eqb x y | None, None => true | _, _ => false end.
Definition om_eqb (a b : option str) : bool :=
  match a, b with Some x, Some y => seqb x y | None, None => true | _, _ => false end.
Definition m_is (m : option str) (s : str) : bool := match m with Some x => seqb x s | None => false end.

Open Scope Z_scope.
(* the cascade after the two early returns, on semitone numbers *)
Definition key_rel (rk : Z) (rm : option str) (ek : Z) (em : option str) : Q :=
  if om_eqb em rm && ((ek - rk) mod 12 =? 7) then (1 # 2)%Q
  else if negb (om_eqb em rm) && m_is rm s_major && ((ek - rk) mod 12 =? 9) then (3 # 10)%Q
  else if negb (om_eqb em rm) && m_is rm s_minor && ((ek - rk) mod 12 =? 3) then (3 # 10)%Q
  else if negb (om_eqb em rm) && (rk =? ek) then (1 # 5)%Q
  else 0%Q.
Definition score_parts (pr pe : option Z * option str) : Q :=
  let '(rk, rm) := pr in let '(ek, em) := pe in
  if oz_eqb rk ek && om_eqb rm em then 1%Q else
  match rk, ek with Some a, Some b => key_rel a rm b em | _, _ => 0%Q end.
Close Scope Z_scope.

Definition weighted_score (r e : str) : res Q :=
  _ <- validate r e ;;
  pr <- split_key_string r ;; pe <- split_key_string e ;;
  Ok (score_parts pr pe).

Definition s_weighted_score : str := [87; 101; 105; 103; 104; 116; 101; 100; 32; 83; 99; 111; 114; 101].   (* "Weighted Score" *)
(* the OrderedDict as an association list; extra **kwargs are dropped by util.filter_kwargs *)
Definition evaluate (r e : str) : res (list (str * Q)) :=
  s <- weighted_score r e ;; Ok [(s_weighted_score, s)].
