(* chord.validate_chord_label / split / join / pitch_class_to_semitone / scale_degree_to_semitone /
   scale_degree_to_bitmap / quality_to_bitmap / reduce_extended_quality / encode, line by line, over
   character-code lists with Python's str.split / strip / count / lower. Tables and the regular
   expression are the translator's output (Gen). Every place where the Python could raise something
   other than InvalidChordException is an explicit Raise. Definitions only. *)
From Coq Require Import List Bool Arith ZArith.
From ME Require Import Model.Prelude Model.Regex Gen.ChordRe Gen.ChordTables.
Import ListNotations.

Definition has (c : nat) (s : str) := existsb (Nat.eqb c) s.
Fixpoint split_on (c : nat) (s : str) : list str :=     (* str.split(c): always >= 1 part *)
  match s with [] => [[]] | x :: t => if Nat.eqb x c then [] :: split_on c t
               else match split_on c t with p :: ps => (x :: p) :: ps | [] => [[x]] end end.
Fixpoint lstrip (p : nat -> bool) (s : str) : str := match s with x :: t => if p x then lstrip p t else s | [] => [] end.
Definition strip (p : nat -> bool) (s : str) : str := rev (lstrip p (rev (lstrip p s))).
Definition is_ws (c : nat) := existsb (Nat.eqb c) [32; 9; 10; 11; 12; 13; 28; 29; 30; 31; 133; 160].
Definition count (c : nat) (s : str) : nat := length (filter (Nat.eqb c) s).
Definition lower (s : str) : str := map (fun c => if (65 <=? c) && (c <=? 90) then c + 32 else c) s.
Definition starts (c : nat) (s : str) := match s with x :: _ => Nat.eqb x c | [] => false end.
Fixpoint dedup (l : list str) : list str :=
  match l with [] => [] | x :: t => if existsb (seqb x) t then dedup t else x :: dedup t end.
Fixpoint lookup {A} (k : str) (l : list (str * A)) : option A :=
  match l with [] => None | (k', a) :: t => if seqb k k' then Some a else lookup k t end.
Fixpoint join_with (sep : nat) (l : list str) : str :=
  match l with [] => [] | [x] => x | x :: t => x ++ sep :: join_with sep t end.

Definition validate_label (s : str) : res unit := if rmatch chord_re s then Ok tt else Raise InvalidChord.
Definition two (l : list str) : res (str * str) := match l with [a; b] => Ok (a, b) | _ => Raise ValueError end.   (* tuple unpacking *)

Definition c_slash := 47. Definition c_lpar := 40. Definition c_rpar := 41. Definition c_colon := 58.
Definition c_star := 42. Definition c_comma := 44. Definition c_sharp := 35. Definition c_flat := 98.
Definition s_maj : str := [109; 97; 106]. Definition s_one : str := [49].

Definition reduce_extended_quality (q : str) : str * list str :=
  match lookup q EXTENDED_QUALITY_REDUX with Some v => v | None => (q, []) end.

(* returns (root, quality, scale degrees as a de-duplicated list standing for the Python set, bass) *)
Definition split (s : str) (reduce : bool) : res (str * str * list str * str) :=
  _ <- validate_label s ;;
  if seqb s NO_CHORD then Ok (s, [], [], []) else
  p <- (if has c_slash s then two (split_on c_slash s) else Ok (s, s_one)) ;; let '(s, bass) := p in
  p <- (if has c_lpar s then ab <- two (split_on c_lpar s) ;; let '(a, sd) := ab in
          Ok (a, has c_star sd, dedup (map (strip is_ws) (split_on c_comma (strip (Nat.eqb c_rpar) sd))))
        else Ok (s, false, [])) ;; let '(s, omission, degs) := p in
  if omission && negb (has c_colon s) then Raise InvalidChord else
  let quality := match degs with [] => s_maj | _ => [] end in
  p <- (if has c_colon s then ab <- two (split_on c_colon s) ;; let '(rt, qn) := ab in
          Ok (rt, match qn with [] => quality | _ => lower qn end)
        else Ok (s, quality)) ;; let '(rt, quality) := p in
  let '(quality, degs) := if reduce then let '(q', add) := reduce_extended_quality quality in (q', dedup (degs ++ add))
                          else (quality, degs) in
  Ok (rt, quality, degs, bass).

Definition join (rt quality : str) (exts : list str) (bass : str) : res str :=
  let l := rt in
  let l := match quality, exts with [], [] => l | _, _ => l ++ c_colon :: quality end in
  let l := match exts with [] => l | _ => l ++ c_lpar :: join_with c_comma exts ++ [c_rpar] end in
  let l := match bass with [] => l | _ => if seqb bass s_one then l else l ++ c_slash :: bass end in
  _ <- validate_label l ;; Ok l.

Open Scope Z_scope.
Definition pitch_class_to_semitone (s : str) : res Z :=
  let step (acc : res (option Z) * nat) (c : nat) :=
    let '(r, idx) := acc in
    (match r with Raise e => Raise e | Ok st =>
       if Nat.eqb c c_sharp && negb (Nat.eqb idx 0%nat) then match st with Some v => Ok (Some (v + 1)) | None => Raise TypeError end
       else if Nat.eqb c c_flat && negb (Nat.eqb idx 0%nat) then match st with Some v => Ok (Some (v - 1)) | None => Raise TypeError end
       else if Nat.eqb idx 0%nat then Ok (match find (fun p => Nat.eqb (fst p) c) PITCH_CLASSES with Some p => Some (Z.of_nat (snd p)) | None => None end)
       else Raise InvalidChord end, Datatypes.S idx) in
  match fst (fold_left step s (Ok (Some 0), 0%nat)) with
  | Raise e => Raise e | Ok (Some v) => Ok (v mod 12) | Ok None => Raise TypeError end.
Definition scale_degree_to_semitone (s : str) : res Z :=
  let '(off, s') := if starts c_sharp s then (Z.of_nat (count c_sharp s), strip (Nat.eqb c_sharp) s)
                    else if starts c_flat s then (- Z.of_nat (count c_flat s), strip (Nat.eqb c_flat) s) else (0, s) in
  match lookup s' SCALE_DEGREES with Some v => Ok (Z.of_nat v + off) | None => Raise InvalidChord end.
Fixpoint setnth (l : list Z) (i : nat) (v : Z) : list Z :=
  match l, i with [], _ => [] | _ :: t, O => v :: t | x :: t, Datatypes.S j => x :: setnth t j v end.
Definition zeros : list Z := repeat 0 BITMAP_LENGTH.
Definition scale_degree_to_bitmap (s : str) (modulo : bool) : res (list Z) :=
  let '(sign, s') := if starts c_star s then (-1, strip (Nat.eqb c_star) s) else (1, s) in
  v <- scale_degree_to_semitone s' ;;
  Ok (if (v <? Z.of_nat BITMAP_LENGTH) || modulo then setnth zeros (Z.to_nat (v mod Z.of_nat BITMAP_LENGTH)) sign else zeros).
Fixpoint vadd (a b : list Z) : list Z := match a, b with x :: a', y :: b' => (x + y) :: vadd a' b' | _, _ => [] end.
Definition quality_to_bitmap (q : str) : res (list Z) :=
  match lookup q QUALITIES with Some v => Ok v | None => Raise InvalidChord end.
Definition enc := (Z * list Z * Z)%type.
Definition Nenc : enc := (-1, zeros, -1).
Definition Xenc : enc := (-1, map (fun _ => -1) zeros, -1).
Definition encode (s : str) (reduce strict : bool) : res enc :=
  if seqb s NO_CHORD then Ok Nenc else if seqb s X_CHORD then Ok Xenc else
  p <- split s reduce ;; let '(rt, quality, degs, bass) := p in
  root <- pitch_class_to_semitone rt ;;
  b <- scale_degree_to_semitone bass ;; let bassn := b mod 12 in
  bm <- quality_to_bitmap quality ;;
  let bm := setnth bm 0%nat 1 in
  bm <- fold_left (fun acc d => a <- acc ;; e <- scale_degree_to_bitmap d reduce ;; Ok (vadd a e)) degs (Ok bm) ;;
  let bm := map (fun x => if 0 <? x then 1 else 0) bm in
  if (nth (Z.to_nat bassn) bm 0 =? 0) && strict then Raise InvalidChord
  else Ok (root, setnth bm (Z.to_nat bassn) 1, bassn).
Close Scope Z_scope.

(* the documented Harte syntax  root[:shorthand][(degrees)][/bass]  plus N and X, from named parts *)
Definition accidentals := Alt (Star (Chr c_flat)) (Star (Chr c_sharp)).
Definition h_root := Cat (oneof [65;66;67;68;69;70;71]) accidentals.
Definition h_degnum := Alt (oneof [49;50;51;52;53;54;55;56;57]) (Cat (Chr 49) (opt (oneof [48;49;50;51]))).
Definition h_degree := Cat accidentals h_degnum.
Definition h_deg_item := Cat (opt (Chr c_star)) h_degree.
Definition h_deglist := Cat (Chr c_lpar) (Cat h_deg_item (Cat (Star (Cat (Chr c_comma) h_deg_item)) (Chr c_rpar))).
Definition shorthands : list str :=
  [ [109;97;106]; [109;105;110]; [100;105;109]; [97;117;103]; [49]; [53]; [115;117;115;50]; [115;117;115;52];
    [109;97;106;54]; [109;105;110;54]; [55]; [109;97;106;55]; [109;105;110;55]; [100;105;109;55]; [104;100;105;109;55];
    [109;105;110;109;97;106;55]; [97;117;103;55]; [57]; [109;97;106;57]; [109;105;110;57]; [49;49]; [109;97;106;49;49];
    [109;105;110;49;49]; [49;51]; [109;97;106;49;51]; [109;105;110;49;51] ].
Definition h_shorthand := altl (map lit shorthands).
Definition h_quality := Alt (Cat (Chr c_colon) (Cat h_shorthand (opt h_deglist))) (Cat (Chr c_colon) h_deglist).
Definition h_bass := Cat (Chr c_slash) h_degree.
Definition harte : re := Alt (oneof [78; 88]) (Cat h_root (Cat (opt h_quality) (opt h_bass))).
Definition harte_nl : re := Cat harte (opt (Chr 10)).     (* what Python's `$` accepts in addition *)
