(* Model of the logic of mir_eval/separation.py (C19). Definitions only.

   What is NOT modelled executably: the FFT-based least-squares projections `_project` / `_project_images`
   (Gram matrix via FFT, np.linalg.solve) and the decibel map 10*log10.  The projections are *arguments*
   (`proj`, `proj_img`) of the decomposition functions; theorems quantify over them universally.  Energy ratios are
   kept as exact ratios (`ratio` = `_safe_db` without the strictly increasing map x |-> 10*log10 x).

   Modelled:
     1. vectors / channel matrices over Q, `decomp` = `_bss_decomp_mtifilt`, `decomp_images` =
        `_bss_decomp_mtifilt_images` (the Gj/G caching arguments only avoid recomputation and are ignored),
        `source_crit` / `image_crit` = `_bss_source_crit` / `_bss_image_crit` at the ratio level;
     2. the permutation search of `bss_eval_sources` / `bss_eval_images` (`perms` = itertools.permutations(range(n)) in
        Python's order, `mean_sir`, `argmax` = np.argmax = first maximum, `best_perm`, `bss_eval_gen` for both values of
        compute_permutation) over tables of *finite* dB values in Q (tables containing inf/nan are out of scope);
     3. `validate` on shape descriptors, `_any_source_silent` on data (2-D and 3-D);
     4. the framewise plan of `bss_eval_sources_framewise` / `bss_eval_images_framewise` (`nwin_of`, `framewise_plan`,
        `framewise_sig`, `framewise`), generic in the signal representation and instantiated for 2-D and 3-D data. *)
From Coq Require Import List Bool Arith ZArith QArith Lia.
From ME Require Import Model.Prelude.
Import ListNotations.
Open Scope Q_scope.

(* ------------------------------------------------------------------------------------------------------------ *)
(* 1. Vectors, decomposition, criteria                                                                           *)
(* ------------------------------------------------------------------------------------------------------------ *)
Definition vec := list Q.
Definition vzeros (n : nat) : vec := repeat 0 n.
Fixpoint vmap2 (f : Q -> Q -> Q) (a b : vec) : vec :=
  match a, b with x :: a', y :: b' => f x y :: vmap2 f a' b' | _, _ => [] end.
Definition vadd : vec -> vec -> vec := vmap2 Qplus.
Definition vsub : vec -> vec -> vec := vmap2 Qminus.
Definition vneg (a : vec) : vec := map Qopp a.
Definition vscale (c : Q) (a : vec) : vec := map (Qmult c) a.
(* a[:len(e)] += e   (only used when len(e) <= len(a)) *)
Fixpoint add_prefix (a e : vec) : vec :=
  match a, e with
  | x :: a', y :: e' => (x + y) :: add_prefix a' e'
  | _, [] => a
  | [], _ :: _ => []
  end.
(* the estimate padded with zeros to length L  (np.hstack((est, zeros(L - len(est))))) *)
Definition pad_to (L : nat) (e : vec) : vec := e ++ vzeros (L - length e).
Definition energy (a : vec) : Q := qsum (map (fun x => x * x) a).      (* np.sum(a**2) *)

(* _safe_db(num, den) without 10*log10:  den == 0 -> inf *)
Definition ratio (num den : Q) : xval := if qeqb den 0 then PInf else Fin (num / den).

Section Decomp.
  (* _project(reference_sources, estimated_source, flen): the real one returns a vector of length nsampl + flen - 1 *)
  Variable proj : list vec -> vec -> nat -> vec.

  (* _bss_decomp_mtifilt(reference_sources, estimated_source, j, flen).
     Raise IndexError: reference_sources[j] out of range; Raise ValueError: np.zeros(flen - 1) with flen = 0, or a
     shape (broadcast) error when a projection does not have nsampl + flen - 1 entries / the estimate is longer than
     that (NumPy would additionally broadcast a length-1 projection; the real `_project` always returns
     nsampl + flen - 1 entries, so that case cannot arise). *)
  Definition decomp (refs : list vec) (est : vec) (j flen : nat) : res (vec * vec * vec * vec) :=
    match nth_error refs j with
    | None => Raise IndexError
    | Some rj =>
      match flen with
      | O => Raise ValueError
      | S fl =>
        let L := (length rj + fl)%nat in
        let s_true := rj ++ vzeros fl in
        let pj := proj [rj] est flen in
        if negb (length pj =? L)%nat then Raise ValueError else
        let e_spat := vsub pj s_true in
        let pall := proj refs est flen in
        if negb (length pall =? L)%nat then Raise ValueError else
        let e_interf := vsub (vsub pall s_true) e_spat in
        let e_artif0 := vsub (vsub (vneg s_true) e_spat) e_interf in
        if (length est <=? L)%nat then Ok (s_true, e_spat, e_interf, add_prefix e_artif0 est)
        else Raise ValueError
      end
    end.
End Decomp.

(* _bss_source_crit at the ratio level: (SDR, SIR, SAR) *)
Definition source_crit (s_true e_spat e_interf e_artif : vec) : xval * xval * xval :=
  let s_filt := vadd s_true e_spat in
  (ratio (energy s_filt) (energy (vadd e_interf e_artif)),
   ratio (energy s_filt) (energy e_interf),
   ratio (energy (vadd s_filt e_interf)) (energy e_artif)).

(* Channel matrices: nchan rows of samples.  An image in the API is sample-major: nsampl rows of nchan values. *)
Definition cmat := list vec.
Definition madd : cmat -> cmat -> cmat := fun a b => map (fun p => vadd (fst p) (snd p)) (combine a b).
Definition msub : cmat -> cmat -> cmat := fun a b => map (fun p => vsub (fst p) (snd p)) (combine a b).
Definition mneg (a : cmat) : cmat := map vneg a.
Definition mscale (c : Q) (a : cmat) : cmat := map (vscale c) a.
Definition madd_prefix (a e : cmat) : cmat := map (fun p => add_prefix (fst p) (snd p)) (combine a e).
Definition menergy (a : cmat) : Q := qsum (map energy a).
(* x.transpose() of a (rows x ncol) array *)
Definition transpose (ncol : nat) (m : list (list Q)) : cmat :=
  map (fun c => map (fun row => nth c row 0) m) (seq 0 ncol).
(* rows of np.reshape(x, (n, k), order='F').transpose()  given the Fortran-order flattening of x *)
Definition chunk (n k : nat) (flat : list Q) : cmat := map (fun c => firstn n (skipn (c * n) flat)) (seq 0 k).
Definition shape_ok (k L : nat) (m : cmat) : bool := (length m =? k)%nat && forallb (fun r => (length r =? L)%nat) m.
Definition mpad_to (L : nat) (m : cmat) : cmat := map (pad_to L) m.

Section DecompImages.
  (* _project_images(reference_sources, estimated_source, flen): nchan rows of nsampl + flen - 1 entries *)
  Variable proj_img : list (list (list Q)) -> list (list Q) -> nat -> cmat.

  (* _bss_decomp_mtifilt_images(reference_sources, estimated_source, j, flen); estimated_source is (nsampl, nchan),
     reference_sources is (nsrc, nsampl, nchan). *)
  Definition decomp_images (refs : list (list (list Q))) (est : list (list Q)) (j flen : nat)
    : res (cmat * cmat * cmat * cmat) :=
    let nsampl := length est in
    let nchan := length (hd [] est) in
    match nth_error refs j with
    | None => Raise IndexError
    | Some rj =>
      let ncr := length (hd [] rj) in
      (* np.reshape(reference_sources[j], (nsampl, nchan), order='F') needs equal sizes *)
      if negb (length rj * ncr =? nsampl * nchan)%nat then Raise ValueError else
      match flen with
      | O => Raise ValueError
      | S fl =>
        let L := (nsampl + fl)%nat in
        let s_true := map (fun r => r ++ vzeros fl) (chunk nsampl nchan (concat (transpose ncr rj))) in
        let pj := proj_img [rj] est flen in
        if negb (shape_ok nchan L pj) then Raise ValueError else
        let e_spat := msub pj s_true in
        let pall := proj_img refs est flen in
        if negb (shape_ok nchan L pall) then Raise ValueError else
        let e_interf := msub (msub pall s_true) e_spat in
        let e_artif0 := msub (msub (mneg s_true) e_spat) e_interf in
        Ok (s_true, e_spat, e_interf, madd_prefix e_artif0 (transpose nchan est))
      end
    end.
End DecompImages.

(* _bss_image_crit at the ratio level: (SDR, ISR, SIR, SAR) *)
Definition image_crit (s_true e_spat e_interf e_artif : cmat) : xval * xval * xval * xval :=
  (ratio (menergy s_true) (menergy (madd (madd e_spat e_interf) e_artif)),
   ratio (menergy s_true) (menergy e_spat),
   ratio (menergy (madd s_true e_spat)) (menergy e_interf),
   ratio (menergy (madd (madd s_true e_spat) e_interf)) (menergy e_artif)).

(* ------------------------------------------------------------------------------------------------------------ *)
(* 2. Permutation search                                                                                         *)
(* ------------------------------------------------------------------------------------------------------------ *)
(* every element of l together with the rest, in order *)
Fixpoint selects (l : list nat) : list (nat * list nat) :=
  match l with
  | [] => []
  | x :: t => (x, t) :: map (fun p => (fst p, x :: snd p)) (selects t)
  end.
(* itertools.permutations(l) (fuel = len(l)): lexicographic in positions *)
Fixpoint perms_fuel (fuel : nat) (l : list nat) : list (list nat) :=
  match fuel with
  | O => [[]]
  | S f => flat_map (fun p => map (cons (fst p)) (perms_fuel f (snd p))) (selects l)
  end.
Definition perms (n : nat) : list (list nat) := perms_fuel n (seq 0 n).

Definition sir_at (sir : list (list Q)) (i j : nat) : Q := nth j (nth i sir []) 0.
(* sir[perm, dum] : entries sir[perm[j], j] *)
Definition select_perm (m : list (list Q)) (n : nat) (p : list nat) : list Q :=
  map (fun j => sir_at m (nth j p 0%nat) j) (seq 0 n).
(* np.mean(sir[perm, dum]) *)
Definition mean_sir (sir : list (list Q)) (n : nat) (p : list nat) : Q :=
  qsum (select_perm sir n p) / inject_Z (Z.of_nat n).

(* np.argmax: index of the first maximum; ValueError on an empty array *)
Fixpoint argmax_from (besti : nat) (best : Q) (i : nat) (l : list Q) : nat :=
  match l with
  | [] => besti
  | x :: t => if qltb best x then argmax_from i x (S i) t else argmax_from besti best (S i) t
  end.
Definition argmax (l : list Q) : res nat :=
  match l with [] => Raise ValueError | x :: t => Ok (argmax_from 0 x 1 t) end.

(* popt = perms[np.argmax(mean_sir)] *)
Definition best_perm (sir : list (list Q)) (n : nat) : res (list nat) :=
  i <- argmax (map (mean_sir sir n) (perms n)) ;;
  match nth_error (perms n) i with Some p => Ok p | None => Raise IndexError end.

Fixpoint mapM {A B} (f : A -> res B) (l : list A) : res (list B) :=
  match l with
  | [] => Ok []
  | x :: t => y <- f x ;; ys <- mapM f t ;; Ok (y :: ys)
  end.

(* The body of bss_eval_sources / bss_eval_images after validation, over an abstract criterion
   crit jest jtrue = the tuple (sdr, sir, sar) / (sdr, isr, sir, sar) in dB for estimate jest against reference jtrue
   (nmet = 3 / 4 metrics, SIR at index sir_ix = 1 / 2).  Result: one vector per metric, and the permutation. *)
Definition bss_eval_gen (nmet sir_ix n : nat) (crit : nat -> nat -> res (list Q)) (compute_permutation : bool)
  : res (list (list Q) * list nat) :=
  let crit' := fun a b => c <- crit a b ;; if (length c =? nmet)%nat then Ok c else Raise ValueError in
  if compute_permutation then
    t <- mapM (fun jest => mapM (fun jtrue => crit' jest jtrue) (seq 0 n)) (seq 0 n) ;;
    let metric := fun m => map (map (fun c => nth m c 0)) t in
    popt <- best_perm (metric sir_ix) n ;;
    Ok (map (fun m => select_perm (metric m) n popt) (seq 0 nmet), popt)
  else
    rows <- mapM (fun j => crit' j j) (seq 0 n) ;;
    Ok (map (fun m => map (fun c => nth m c 0) rows) (seq 0 nmet), seq 0 n).

(* reordering the estimates: estimate number i of the new problem is estimate number (swapi a b i) of the old one *)
Definition swapi (a b i : nat) : nat := if (i =? a)%nat then b else if (i =? b)%nat then a else i.
Definition swap_rows (a b : nat) (sir : list (list Q)) : list (list Q) :=
  map (fun i => nth (swapi a b i) sir []) (seq 0 (length sir)).

(* ------------------------------------------------------------------------------------------------------------ *)
(* 3. validate, _any_source_silent                                                                               *)
(* ------------------------------------------------------------------------------------------------------------ *)
Inductive verr := ShapeMismatch | TooManyDims | BadAxis | SilentRef | SilentEst | TooManySources.
Definition verr_eqb (a b : verr) : bool :=
  match a, b with
  | ShapeMismatch, ShapeMismatch | TooManyDims, TooManyDims | BadAxis, BadAxis | SilentRef, SilentRef
  | SilentEst, SilentEst | TooManySources, TooManySources => true
  | _, _ => false
  end.
Definition size_of (shape : list nat) : nat := fold_right Nat.mul 1%nat shape.
Definition shape_eqb (a b : list nat) : bool :=
  (length a =? length b)%nat && forallb (fun p => (fst p =? snd p)%nat) (combine a b).

(* validate(reference_sources, estimated_sources) on the shapes and on the outcome of _any_source_silent (which is
   only evaluated for non-empty arrays; np.all(..., axis=1) raises AxisError below 2 dimensions).
   inl e = the check that raises, inr (w_ref, w_est) = the "is empty" warnings that were issued. *)
Definition validate_detail (max_sources : nat) (rshape eshape : list nat) (rsilent esilent : bool)
  : verr + (bool * bool) :=
  if negb (shape_eqb rshape eshape) then inl ShapeMismatch else
  if (3 <? length rshape)%nat || (3 <? length eshape)%nat then inl TooManyDims else
  let rempty := (size_of rshape =? 0)%nat in
  let eempty := (size_of eshape =? 0)%nat in
  if negb rempty && (length rshape <? 2)%nat then inl BadAxis else
  if negb rempty && rsilent then inl SilentRef else
  if negb eempty && (length eshape <? 2)%nat then inl BadAxis else
  if negb eempty && esilent then inl SilentEst else
  match rshape, eshape with
  | [], _ | _, [] => inl BadAxis              (* shape[0] of a 0-d array: unreachable, size of a 0-d array is 1 *)
  | r0 :: _, e0 :: _ =>
    if (max_sources <? e0)%nat || (max_sources <? r0)%nat then inl TooManySources else inr (rempty, eempty)
  end.
Definition validate (max_sources : nat) (rshape eshape : list nat) (rsilent esilent : bool) : res (bool * bool) :=
  match validate_detail max_sources rshape eshape rsilent esilent with
  | inl BadAxis => Raise OtherExn                (* numpy.exceptions.AxisError *)
  | inl _ => Raise ValueError
  | inr w => Ok w
  end.

(* _any_source_silent on (nsrc, nsampl) data: some row is all zeros (an empty row counts as all zeros) *)
Definition silent2 (x : list vec) : bool := existsb (forallb (fun q => qeqb q 0)) x.
(* on (nsrc, nsampl, nchan) data: some source whose channel SUM is zero at every sample *)
Definition silent3 (x : list (list vec)) : bool := existsb (forallb (fun frame => qeqb (qsum frame) 0)) x.
Definition shape2 (x : list vec) : list nat := [length x; length (hd [] x)].
Definition shape3 (x : list (list vec)) : list nat := [length x; length (hd [] x); length (hd [] (hd [] x))].
(* x[:, a:b] resp. x[:, a:b, :]  for 0 <= a <= b *)
Definition slice_samples {A} (a b : nat) (x : list (list A)) : list (list A) :=
  map (fun row => firstn (b - a) (skipn a row)) x.
(* input promotion: x[np.newaxis, :] of a 1-D array, np.atleast_3d of a 2-D / 1-D array *)
Definition promote_1to2 (x : vec) : list vec := [x].
Definition promote_2to3 (x : list vec) : list (list vec) := map (map (fun q => [q])) x.
Definition promote_1to3 (x : vec) : list (list vec) := [map (fun q => [q]) x].

(* ------------------------------------------------------------------------------------------------------------ *)
(* 4. Framewise evaluation                                                                                       *)
(* ------------------------------------------------------------------------------------------------------------ *)
(* what the non-framewise function returns: one vector of length nsrc per output
   ([sdr; sir; sar; perm] resp. [sdr; isr; sir; sar; perm], perm stored as floats) *)
Definition result := list (list xval).
(* one output of the framewise function: nsrc rows x nwin columns (an empty 1-D array is []) *)
Definition table := list (list xval).

(* int(np.floor((nsampl - window + hop) / hop)); window, hop non-negative ints *)
Definition nwin_of (nsampl window hop : nat) : res Z :=
  if (hop =? 0)%nat then Raise ZeroDivisionError
  else Ok ((Z.of_nat nsampl - Z.of_nat window + Z.of_nat hop) / Z.of_nat hop)%Z.

Definition nan_result (arity nsrc : nat) : result := repeat (repeat NaN nsrc) arity.
Definition shape_result (arity nsrc : nat) (r : result) : bool :=
  (length r =? arity)%nat && forallb (fun v => (length v =? nsrc)%nat) r.

(* one iteration of the loop over windows; sil k = a silent reference or estimate in window k;
   unpacking a result of the wrong arity / storing a column of the wrong length is a ValueError *)
Definition window_result (arity nsrc : nat) (sil : nat -> bool) (fk : nat -> res result) (k : nat) : res result :=
  if sil k then Ok (nan_result arity nsrc)
  else r <- fk k ;; if shape_result arity nsrc r then Ok r else Raise ValueError.

Definition column_tables (arity nsrc : nat) (cols : list result) : list table :=
  map (fun m => map (fun s => map (fun r => nth s (nth m r []) NaN) cols) (seq 0 nsrc)) (seq 0 arity).
(* [np.expand_dims(score, -1) for score in result] *)
Definition expand_last (r : result) : list table := map (map (fun x => [x])) r.

Definition framewise_plan (arity nsrc nsampl window hop : nat) (sil : nat -> bool)
           (fk : nat -> res result) (fglob : res result) : res (list table) :=
  nw <- nwin_of nsampl window hop ;;
  if (nw <? 2)%Z then r <- fglob ;; Ok (expand_last r)
  else cols <- mapM (window_result arity nsrc sil fk) (seq 0 (Z.to_nat nw)) ;; Ok (column_tables arity nsrc cols).

Section FramewiseSig.
  Variable S : Type.                                   (* signal arrays after input promotion *)
  Variable shape : S -> list nat.
  Variable silent : S -> bool.                         (* _any_source_silent *)
  Variable slice : nat -> nat -> S -> S.               (* x[:, a:b(, :)] *)
  Variable arity : nat.                                (* 4 for sources, 5 for images *)
  Variable max_sources : nat.

  Definition win_sil (ref est : S) (window hop k : nat) : bool :=
    silent (slice (k * hop) (k * hop + window) ref) || silent (slice (k * hop) (k * hop + window) est).

  (* fk k = the non-framewise function on window k, fglob = on the whole signals *)
  Definition framewise_sig (ref est : S) (window hop : nat) (fk : nat -> res result) (fglob : res result)
    : res (list table) :=
    _ <- validate max_sources (shape ref) (shape est) (silent ref) (silent est) ;;
    if (size_of (shape ref) =? 0)%nat || (size_of (shape est) =? 0)%nat then Ok (repeat [] arity)
    else framewise_plan arity (nth 0 (shape ref) 0%nat) (nth 1 (shape ref) 0%nat) window hop
                        (win_sil ref est window hop) fk fglob.

  Definition framewise (f : S -> S -> bool -> res result) (ref est : S) (window hop : nat) (cp : bool)
    : res (list table) :=
    framewise_sig ref est window hop
      (fun k => f (slice (k * hop) (k * hop + window) ref) (slice (k * hop) (k * hop + window) est) cp)
      (f ref est cp).
End FramewiseSig.

(* bss_eval_sources_framewise on (nsrc, nsampl) data, bss_eval_images_framewise on (nsrc, nsampl, nchan) data *)
Definition framewise_sources_sig := framewise_sig (list vec) shape2 silent2 (@slice_samples Q) 4.
Definition framewise_images_sig := framewise_sig (list (list vec)) shape3 silent3 (@slice_samples vec) 5.
Definition framewise_sources := framewise (list vec) shape2 silent2 (@slice_samples Q) 4.
Definition framewise_images := framewise (list (list vec)) shape3 silent3 (@slice_samples vec) 5.
