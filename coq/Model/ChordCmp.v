(* The 12 chord comparison rules on encodings, as chord.py computes them with NumPy, and the
   invariant established by encode (DESIGN.md section 6, C11). Definitions only. *)
From Coq Require Import ZArith List Bool.
From ME Require Import Model.Prelude Model.ChordParse Gen.ChordTables.
Import ListNotations.
Open Scope Z_scope.
Record cenc := { root : Z; bm : list Z; bass : Z }.
Definition of_enc (e : enc) : cenc := let '(r, b, s) := e in {| root := r; bm := b; bass := s |}.
Definition nthz (l : list Z) (i : nat) := nth i l 0.
Fixpoint leqb (a b : list Z) : bool := match a, b with [] , [] => true | x :: a', y :: b' => (x =? y) && leqb a' b' | _, _ => false end.
Definition isX (r : cenc) := existsb (fun x => x <? 0) (bm r).
Definition b2z (b : bool) : Z := if b then 1 else 0.
Definition mask (ign : bool) (b : bool) : Z := if ign then -1 else b2z b.
Definition eq_root r e := root r =? root e.
Definition eq_bass r e := bass r =? bass e.
Definition eq_third r e := nthz (bm r) 3 =? nthz (bm e) 3.
Definition eq_pre8 r e := leqb (firstn 8 (bm r)) (firstn 8 (bm e)).
Definition eq_all r e := leqb (bm r) (bm e).
Definition thirds r e := mask (isX r) (eq_root r e && eq_third r e).
Definition thirds_inv r e := mask (isX r) (eq_root r e && eq_third r e && eq_bass r e).
Definition triads r e := mask (isX r) (eq_root r e && eq_pre8 r e).
Definition triads_inv r e := mask (isX r) (eq_root r e && eq_pre8 r e && eq_bass r e).
Definition tetrads r e := mask (isX r) (eq_root r e && eq_all r e).
Definition tetrads_inv r e := mask (isX r) (eq_root r e && eq_all r e && eq_bass r e).
Definition root_cmp r e := mask (isX r) (eq_root r e).
(* mirex *)
Definition idx12 := [0;1;2;3;4;5;6;7;8;9;10;11]%nat.
Definition rotn (b : list Z) (k : nat) : list Z :=
  map (fun j => b2z (negb (nthz b ((j + 12 - k) mod 12) =? 0))) idx12.
Definition rot (b : list Z) (rt : Z) : list Z := rotn b (Z.to_nat (rt mod 12)).
Fixpoint dot (a b : list Z) : Z := match a, b with x :: a', y :: b' => x * y + dot a' b' | _, _ => 0 end.
Definition count_pos (b : list Z) : Z := fold_right (fun x acc => b2z (0 <? x) + acc) 0 b.
Definition mirex r e :=
  let sc := if (root r =? -1) && (root e =? -1) then true else 3 <=? dot (rot (bm r) (root r)) (rot (bm e) (root e)) in
  let n := count_pos (bm r) in
  mask ((0 <? n) && (n <? 3) || isX r) sc.
(* majmin / sevenths *)
(* QUALITIES["maj"] etc. are read from the translated table, as the code does *)
Definition qual (name : list nat) : list Z := match lookup name QUALITIES with Some v => v | None => [] end.
Definition q_maj := qual [109;97;106]%nat. Definition q_min := qual [109;105;110]%nat.
Definition q_maj7 := qual [109;97;106;55]%nat. Definition q_7 := qual [55]%nat.
Definition q_min7 := qual [109;105;110;55]%nat. Definition q_none := qual []%nat.
Definition maj8 := firstn 8 q_maj. Definition min8 := firstn 8 q_min.
Definition mm_in r := leqb (firstn 8 (bm r)) maj8 || leqb (firstn 8 (bm r)) min8 || ((root r <? 0) && forallb (fun x => x =? 0) (bm r)).
Definition sv_in r := existsb (leqb (bm r)) [q_maj; q_min; q_maj7; q_7; q_min7; q_none].
Definition bad_inv r := (0 <=? bass r) && (nthz (bm r) (Z.to_nat (bass r)) =? 0).
Definition majmin r e := mask (negb (mm_in r)) (eq_root r e && eq_pre8 r e).
Definition majmin_inv r e := mask (negb (mm_in r) || bad_inv r) (eq_root r e && eq_bass r e && eq_pre8 r e).
Definition sevenths r e := mask (negb (sv_in r)) (eq_root r e && eq_all r e).
Definition sevenths_inv r e := mask (negb (sv_in r) || bad_inv r) (eq_root r e && eq_bass r e && eq_all r e).

(* the invariant established by encode *)
Definition bits (l : list Z) := length l = 12%nat /\ Forall (fun x => x = 0 \/ x = 1) l.
Definition enc_ok (r : cenc) :=
  (root r = -1 /\ bass r = -1 /\ (bm r = [0;0;0;0;0;0;0;0;0;0;0;0] \/ bm r = [-1;-1;-1;-1;-1;-1;-1;-1;-1;-1;-1;-1])) \/
  (0 <= root r < 12 /\ 0 <= bass r < 12 /\ bits (bm r) /\ nthz (bm r) (Z.to_nat (bass r)) = 1).

Definition rules : list (cenc -> cenc -> Z) := [thirds; thirds_inv; triads; triads_inv; tetrads; tetrads_inv; root_cmp; mirex; majmin; majmin_inv; sevenths; sevenths_inv].

(* the comparison functions on labels: validate, encode_many(labels, False), compare *)
Definition cmp_labels (c : cenc -> cenc -> Z) (r e : str) : res Z :=
  _ <- validate_label r ;; _ <- validate_label e ;;
  er <- encode r false false ;; ee <- encode e false false ;; Ok (c (of_enc er) (of_enc ee)).
Definition cmp_all (r e : str) : list (res Z) := map (fun c => cmp_labels c r e) rules.
