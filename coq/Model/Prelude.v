(* Conventions of the model (DESIGN.md section 2): results/exceptions, strings as code lists,
   exact rationals. Definitions only. *)
From Coq Require Import List Bool Arith ZArith QArith Qminmax Qabs.
Import ListNotations.

Inductive exn := ValueError | InvalidChord | IndexError | ZeroDivisionError | TypeError | KeyError | OtherExn.
Inductive res (A : Type) := Ok (a : A) | Raise (e : exn).
Arguments Ok {A}. Arguments Raise {A}.
Definition bind {A B} (r : res A) (f : A -> res B) : res B := match r with Ok a => f a | Raise e => Raise e end.
Notation "x <- r ;; k" := (bind r (fun x => k)) (at level 61, r at next level, right associativity).
Definition exn_eqb (a b : exn) : bool :=
  match a, b with
  | ValueError, ValueError | InvalidChord, InvalidChord | IndexError, IndexError
  | ZeroDivisionError, ZeroDivisionError | TypeError, TypeError | KeyError, KeyError | OtherExn, OtherExn => true
  | _, _ => false end.
Definition res_eqb {A} (eqb : A -> A -> bool) (x y : res A) : bool :=
  match x, y with Ok a, Ok b => eqb a b | Raise e, Raise f => exn_eqb e f | _, _ => false end.

(* Python str = list of character codes *)
Definition str := list nat.
Fixpoint seqb (a b : str) : bool :=
  match a, b with [], [] => true | x :: a', y :: b' => Nat.eqb x y && seqb a' b' | _, _ => false end.

(* exact rationals *)
Definition qltb (a b : Q) : bool := negb (Qle_bool b a).
Definition qleb (a b : Q) : bool := Qle_bool a b.
Definition qeqb (a b : Q) : bool := Qeq_bool a b.
Definition qsum (l : list Q) : Q := fold_right Qplus 0%Q l.
Definition qmin_list (l : list Q) : option Q := match l with [] => None | x :: t => Some (fold_left Qmin t x) end.
Definition qmax_list (l : list Q) : option Q := match l with [] => None | x :: t => Some (fold_left Qmax t x) end.
Fixpoint find_idx {A} (p : A -> bool) (l : list A) : option nat :=
  match l with [] => None | x :: t => if p x then Some 0%nat else option_map S (find_idx p t) end.

(* numpy float division never raises: value domain with the non-finite results made explicit *)
Inductive xval := Fin (q : Q) | PInf | NInf | NaN.
Definition xdiv (a b : Q) : xval :=
  if qeqb b 0 then (if qeqb a 0 then NaN else if qltb 0 a then PInf else NInf) else Fin (a / b).
Definition xval_eqb (tol : Q) (a b : xval) : bool :=
  match a, b with Fin x, Fin y => Qle_bool (Qabs (x - y)) tol | PInf, PInf | NInf, NInf | NaN, NaN => true | _, _ => false end.
