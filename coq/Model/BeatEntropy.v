(* The real-valued last step of beat.information_gain: the entropy of a beat-error histogram (last four lines of
   _get_entropy) and the final selection / normalisation of information_gain.  The integer histograms themselves are
   Model.Beat.information_gain_counts.  Definitions only (the stdlib Reals are allowed for this file). *)
From Coq Require Import List Arith Reals QArith.
From ME Require Import Model.Prelude Model.Beat.
Import ListNotations.
Local Open Scope R_scope.

Definition log2R (x : R) : R := ln x / ln 2.                                       (* np.log2 *)
Fixpoint lsumR (l : list R) : R := match l with [] => 0 | x :: t => x + lsumR t end.   (* np.sum of a float array *)
Definition hist_total (counts : list nat) : nat := fold_right Nat.add 0%nat counts.    (* np.sum(raw_bin_values) *)

(* raw_bin_values = raw_bin_values / (1.0 * np.sum(raw_bin_values));  raw_bin_values[raw_bin_values == 0] = 1 *)
Definition bin_prob (N c : nat) : R := let p := INR c / INR N in if Req_EM_T p 0 then 1 else p.
(* -np.sum(raw_bin_values * np.log2(raw_bin_values));  meaningful for hist_total counts > 0 (0/0 = nan otherwise,
   see entropy_val) *)
Definition hist_entropy (counts : list nat) : R :=
  let N := hist_total counts in
  - lsumR (map (fun c => bin_prob N c * log2R (bin_prob N c)) counts).

(* norm = np.log2(bins); (norm - H) / norm for the larger H of the two *)
Definition info_gain_R (K : nat) (hf hb : R) : R := (log2R (INR K) - Rmax hf hb) / log2R (INR K).
(* literally: if forward_entropy > backward_entropy: ... forward ... else: ... backward ... *)
Definition info_gain_select (K : nat) (hf hb : R) : R :=
  if Rlt_dec hb hf then (log2R (INR K) - hf) / log2R (INR K) else (log2R (INR K) - hb) / log2R (INR K).

(* the K-L divergence (in bits) of the normalised histogram from the uniform distribution over its bins *)
Definition kl_uniform (counts : list nat) : R :=
  let N := hist_total counts in let K := length counts in
  lsumR (map (fun c => if (c =? 0)%nat then 0 else INR c / INR N * log2R (INR c / INR N * INR K)) counts).

(* ---- the float result with its nan cases explicit ---- *)
Inductive igval := IGfin (r : R) | IGnan.
(* an all-zero histogram (every error non-finite, or bins = 0) gives 0/0 = nan in every bin *)
Definition entropy_val (counts : list nat) : igval :=
  if (hist_total counts =? 0)%nat then IGnan else IGfin (hist_entropy counts).
(* `forward > backward` is False as soon as one of them is nan, so the backward entropy is used then: a nan backward
   entropy gives nan, a nan forward entropy is silently ignored.  bins = 1: norm = 0 and the (only possible) entropy of
   a one-bin histogram is 0, so the score is 0/0 = nan (np.float64 division: a RuntimeWarning, not an exception). *)
Definition info_gain_val (bins : nat) (f b : list nat) : igval :=
  match entropy_val b with
  | IGnan => IGnan
  | IGfin hb =>
    if (bins <=? 1)%nat then IGnan
    else match entropy_val f with
         | IGnan => IGfin ((log2R (INR bins) - hb) / log2R (INR bins))
         | IGfin hf => IGfin (info_gain_select bins hf hb)
         end
  end.
(* information_gain(reference_beats, estimated_beats, bins)  (bins >= 1 as for information_gain_counts) *)
Definition information_gain_R (ref est : list Q) (bins : nat) : res igval :=
  r <- information_gain_counts ref est bins ;;
  match r with
  | None => Ok (IGfin 0)
  | Some (f, b) => Ok (info_gain_val bins f b)
  end.
