(* mir_eval/pattern.py over exact rationals: validate, _n_onset_midi, _occurrence_intersection,
   _compute_score_matrix, standard_FPR, establishment_FPR, occurrence_FPR, three_layer_FPR,
   first_n_three_layer_P, first_n_target_proportion_R.  Definitions only.

   An occurrence is a Python list of (onset, midi) tuples -> list (Q * Q); a pattern is a list of occurrences; the
   annotation is a list of patterns.  Python `set` of tuples of floats compares numerically, so set membership is equality
   of the canonical (Qred) representatives.

   Exceptions after validate():
   * _compute_score_matrix divides a Python int by float(max(len P, len Q)): ZeroDivisionError when BOTH occurrences
     are empty (establishment_FPR / occurrence_FPR evaluate every (ref occurrence, est occurrence) pair);
   * three_layer_FPR divides by float(len(ref_occ)) and float(len(est_occ)): ZeroDivisionError when EITHER is empty;
   * standard_FPR takes np.max of an empty array when both prototypes are empty: ValueError (evaluated in loop order,
     with the `break` after the first match).
   All divisions that remain in the pure parts are guarded by these tests. *)
From Coq Require Import List Bool Arith ZArith QArith Qabs Qminmax Qreduction.
From ME Require Import Model.Prelude Model.Events.
Import ListNotations.

Definition note := (Q * Q)%type.
Definition occ := list note.
Definition pattern := list occ.

Definition is_nil {A} (l : list A) : bool := match l with [] => true | _ => false end.
Definition qnat (n : nat) : Q := inject_Z (Z.of_nat n).

(* np.mean / np.max of a non-empty array (all uses below are on non-empty arrays: validate gives every pattern at least
   one occurrence and the empty-annotation early return gives each side at least one pattern) *)
Definition qmean (l : list Q) : Q := qsum l / qnat (length l).
Fixpoint qmaxl_from (x : Q) (t : list Q) : Q := match t with [] => x | y :: t' => Qmax x (qmaxl_from y t') end.
Definition qmaxl (l : list Q) : Q := match l with [] => 0 | x :: t => qmaxl_from x t end.

(* ---- _n_onset_midi, validate ---- *)
Definition n_onset_midi (ps : list pattern) : nat := length (concat (concat ps)).
Definition validate (ref est : list pattern) : res unit :=
  if existsb is_nil (ref ++ est) then Raise ValueError else Ok tt.
Definition no_notes (ref est : list pattern) : bool := (n_onset_midi ref =? 0)%nat || (n_onset_midi est =? 0)%nat.

(* raw input: an (onset, midi) entry is a sequence of any length; validate rejects length <> 2 *)
Definition rnote := list Q.
Definition validate_raw (ref est : list (list (list rnote))) : res unit :=
  if forallb (fun p => negb (is_nil p) && forallb (forallb (fun om => (length om =? 2)%nat)) p) (ref ++ est)
  then Ok tt else Raise ValueError.
Definition to_note (om : rnote) : note := match om with [a; b] => (a, b) | _ => (0, 0) end.
Definition of_raw (ps : list (list (list rnote))) : list pattern := map (map (map to_note)) ps.
Definition with_raw {A} (f : list pattern -> list pattern -> res A) (ref est : list (list (list rnote))) : res A :=
  _ <- validate_raw ref est ;; f (of_raw ref) (of_raw est).

(* ---- _occurrence_intersection: len(set(P) & set(Q)) ---- *)
Definition Q_eq_dec (a b : Q) : {a = b} + {a <> b}.
Proof. decide equality; [apply Pos.eq_dec|apply Z.eq_dec]. Defined.
Definition note_eq_dec (a b : note) : {a = b} + {a <> b}.
Proof. decide equality; apply Q_eq_dec. Defined.
Definition canon (n : note) : note := (Qred (fst n), Qred (snd n)).
Definition memb (x : note) (l : list note) : bool := if in_dec note_eq_dec x l then true else false.
Definition occ_set (o : occ) : list note := nodup note_eq_dec (map canon o).
Definition inter_set (P Qo : occ) : list note := filter (fun x => memb x (map canon Qo)) (occ_set P).
Definition inter_count (P Qo : occ) : nat := length (inter_set P Qo).

(* ---- _compute_score_matrix (cardinality score) ---- *)
Definition card_score (P Qo : occ) : Q := qnat (inter_count P Qo) / qnat (Nat.max (length P) (length Qo)).
Definition score_matrix (p q : pattern) : list (list Q) := map (fun oP => map (card_score oP) q) p.
(* the float division raises when both occurrences are empty *)
Definition sm_raises (ref est : list pattern) : bool := existsb is_nil (concat ref) && existsb is_nil (concat est).

(* maxima of a matrix given by a score function: np.max(M, axis=1) / np.max(M, axis=0) *)
Definition row_maxes {A B} (sc : A -> B -> Q) (rs : list A) (es : list B) : list Q :=
  map (fun r => qmaxl (map (sc r) es)) rs.
Definition col_maxes {A B} (sc : A -> B -> Q) (rs : list A) (es : list B) : list Q :=
  map (fun e => qmaxl (map (fun r => sc r e) rs)) es.

Definition fpr := (Q * Q * Q)%type.     (* (F, P, R) *)
Definition zero_fpr : fpr := (0, 0, 0).
Definition mk_fpr (p r : Q) : fpr := (f_measure p r 1, p, r).

(* ---- standard_FPR ---- *)
Definition nsub (a b : note) : note := (fst a - fst b, snd a - snd b).
Fixpoint row_diffs (l : list note) : list Q :=      (* np.diff(., axis=0) of an n x 2 array, flattened *)
  match l with
  | a :: ((b :: _) as t) => (fst b - fst a) :: (snd b - snd a) :: row_diffs t
  | _ => []
  end.
Definition proto_match (tol : Q) (P Qo : occ) : res bool :=
  if negb (length P =? length Qo)%nat then Ok false
  else if (length P =? 1)%nat then Ok true
  else match row_diffs (map (fun pq => nsub (fst pq) (snd pq)) (combine P Qo)) with
       | [] => Raise ValueError                                    (* np.max of a zero-size array *)
       | d => Ok (qltb (qmaxl (map Qabs d)) tol)
       end.
Definition proto (p : pattern) : res occ := match p with o :: _ => Ok o | [] => Raise IndexError end.
Fixpoint scan_est (tol : Q) (P : occ) (ests : list pattern) : res bool :=
  match ests with
  | [] => Ok false
  | e :: t => Qo <- proto e ;; b <- proto_match tol P Qo ;; if b then Ok true else scan_est tol P t
  end.
Fixpoint count_matches (tol : Q) (refs ests : list pattern) : res nat :=
  match refs with
  | [] => Ok 0%nat
  | r :: t => P <- proto r ;; b <- scan_est tol P ests ;; k <- count_matches tol t ests ;;
              Ok (if b then S k else k)
  end.
Definition standard_FPR (ref est : list pattern) (tol : Q) : res fpr :=
  _ <- validate ref est ;;
  if no_notes ref est then Ok zero_fpr else
  k <- count_matches tol ref est ;;
  Ok (mk_fpr (qnat k / qnat (length est)) (qnat k / qnat (length ref))).

(* ---- establishment_FPR ---- *)
Definition est_score (p q : pattern) : Q := qmaxl (concat (score_matrix p q)).      (* S[iP, iQ] = np.max(s) *)
Definition establishment_FPR (ref est : list pattern) : res fpr :=
  _ <- validate ref est ;;
  if no_notes ref est then Ok zero_fpr else
  if sm_raises ref est then Raise ZeroDivisionError else
  Ok (mk_fpr (qmean (col_maxes est_score ref est)) (qmean (row_maxes est_score ref est))).

(* ---- occurrence_FPR ---- *)
Definition occ_rel (thres : Q) (p q : pattern) : bool := qleb thres (est_score p q).     (* np.max(s) >= thres *)
Definition occ_P (thres : Q) (p q : pattern) : Q :=                                     (* O_PR[iP, iQ, 0] *)
  if occ_rel thres p q then qmean (col_maxes card_score p q) else 0.
Definition occ_R (thres : Q) (p q : pattern) : Q :=                                     (* O_PR[iP, iQ, 1] *)
  if occ_rel thres p q then qmean (row_maxes card_score p q) else 0.
(* rel_idx in row-major order; np.ix_(rel_idx[:,0], rel_idx[:,1]) repeats rows / columns as often as they occur *)
Definition rel_pairs (thres : Q) (ref est : list pattern) : list (pattern * pattern) :=
  filter (fun pq => occ_rel thres (fst pq) (snd pq)) (list_prod ref est).
Definition occurrence_FPR (ref est : list pattern) (thres : Q) : res fpr :=
  _ <- validate ref est ;;
  if no_notes ref est then Ok zero_fpr else
  if sm_raises ref est then Raise ZeroDivisionError else
  let rel := rel_pairs thres ref est in
  if is_nil rel then Ok (mk_fpr 0 0) else
  Ok (mk_fpr (qmean (map (fun b => qmaxl (map (fun a => occ_P thres (fst a) (snd b)) rel)) rel))
             (qmean (map (fun a => qmaxl (map (fun b => occ_R thres (fst a) (snd b)) rel)) rel))).

(* ---- three_layer_FPR ---- *)
Definition layer1_F (o1 o2 : occ) : Q :=
  let s := qnat (inter_count o1 o2) in f_measure (s / qnat (length o1)) (s / qnat (length o2)) 1.
Definition layer2_P (p q : pattern) : Q := qmean (col_maxes layer1_F p q).
Definition layer2_R (p q : pattern) : Q := qmean (row_maxes layer1_F p q).
Definition layer2_F (p q : pattern) : Q := f_measure (layer2_P p q) (layer2_R p q) 1.
Definition tl_raises (ref est : list pattern) : bool := existsb is_nil (concat ref) || existsb is_nil (concat est).
Definition three_layer_FPR (ref est : list pattern) : res fpr :=
  _ <- validate ref est ;;
  if no_notes ref est then Ok zero_fpr else
  if tl_raises ref est then Raise ZeroDivisionError else
  Ok (mk_fpr (qmean (col_maxes layer2_F ref est)) (qmean (row_maxes layer2_F ref est))).

(* ---- first-n metrics: estimated_patterns[: min(len(estimated_patterns), n)] with Python slice semantics ---- *)
Definition first_n {A} (n : Z) (l : list A) : list A :=
  if (n <? 0)%Z then firstn (length l - Z.to_nat (- n)) l else firstn (Z.to_nat n) l.
Definition first_n_three_layer_P (ref est : list pattern) (n : Z) : res Q :=
  _ <- validate ref est ;;
  if no_notes ref est then Ok 0 else
  t <- three_layer_FPR ref (first_n n est) ;; Ok (snd (fst t)).
Definition first_n_target_proportion_R (ref est : list pattern) (n : Z) : res Q :=
  _ <- validate ref est ;;
  if no_notes ref est then Ok 0 else
  t <- establishment_FPR ref (first_n n est) ;; Ok (snd t).
