(* The generated programs of Gen/MatchGen.v placed in the evaluator of Model/HeapPy.v: embedding of the model's
   values, reading of the model's values back from a heap, and the meaning given to the OPAQUE callees
   (the module functions a program calls, the `distance` function parameter) - the model's own functions.
   Definitions only. *)
From Coq Require Import String.
From Coq Require Import List Bool Arith ZArith QArith.
From ME Require Import Model.Prelude Model.Dict Model.Matching Model.Events Model.HeapPy Gen.MatchGen.
Import ListNotations.

(* ---- embedding *)
Definition nats_val (l : list nat) : list val := map VNat l.
(* a graph the program may only read *)
Definition graph_val (g : graph) : val := VFDict (map (fun e => (fst e, VTup (nats_val (snd e)))) g).
Definition matching_obj (m : matching) : obj := ODict (map (fun e => (fst e, VNat (snd e))) m).
Definition pairs_obj (l : list (nat * nat)) : obj := OList (map pair_val l).

(* ---- reading a graph {est_i: [ref_i, ...]} out of the heap *)
Definition read_nats (l : list val) : option (list nat) := omap as_key l.
Definition read_list (h : heap) (v : val) : option (list nat) :=
  match v with
  | VRef a => match hget h a with Some (OList l) => read_nats l | _ => None end
  | _ => None end.
Definition read_graph (h : heap) (v : val) : option graph :=
  match v with
  | VRef a => match hget h a with
              | Some (ODict d) => omap (fun kv => match read_list h (snd kv) with Some l => Some (fst kv, l) | None => None end) d
              | _ => None end
  | _ => None end.

(* ---- the callees *)
Definition outer_mat (dist : Q -> Q -> Q) (ref est : list Q) : val :=
  VMat (List.length est) (map (fun r => map (dist r) est) ref).
Local Open Scope string_scope.
Definition match_ext (dist : Q -> Q -> Q) (f : string) (h : heap) (args : list val) : out (heap * val) :=
  if f =? "_fast_hit_windows" then
    match args with
    | [VVec ref; VVec est; w] =>
        match as_num w with
        | Some wq =>
            let hits := fast_hit_windows ref est wq in
            let (h1, a1) := halloc h (OList (nats_val (map fst hits))) in
            let (h2, a2) := halloc h1 (OList (nats_val (map snd hits))) in
            OK (h2, VTup [VRef a1; VRef a2])
        | None => UNM end
    | _ => UNM end
  else if f =? "_bipartite_match" then
    match args with
    | [g] => match read_graph h g with
             | Some gr => match bipartite_match gr with
                          | Some m => let (h', a) := halloc h (matching_obj m) in OK (h', VRef a)
                          | None => FUEL end
             | None => UNM end
    | _ => UNM end
  else if f =? "distance" then
    match args with
    | [VVec ref; VVec est] => OK (h, outer_mat dist ref est)
    | _ => UNM end
  else UNM.
Local Close Scope string_scope.

Definition no_dist (a b : Q) : Q := 0.
Definition run_match (dist : Q -> Q -> Q) (fuel : nat) (f : string) (h : heap) (args : list val) : out (heap * val) :=
  run match_funs (match_ext dist) fuel f h None args.

(* the observable part of a result: the value, with the list / dict objects it refers to read out of the heap *)
Definition result_obj (r : out (heap * val)) : out obj :=
  match r with
  | OK (h, VRef a) => of_opt (hget h a)
  | OK _ => UNM
  | EXN e => EXN e | UNM => UNM | FUEL => FUEL end.
