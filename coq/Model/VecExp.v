(* A small deep-embedded language for the vector metric functions whose bodies are element-wise NumPy
   expressions on 1-d arrays plus reductions (melody measures, multipitch scores, chord.weighted_accuracy,
   tempo.detection), and its evaluator. Definitions only.

   translator/vecfuncs.py maps the *syntax* of a function body (Python ast) to a [vprog] (Gen/VecFuncs.v);
   what every idiom means is decided here; Proofs/VecFuncsTie.v proves the meaning of each translated body
   equal to the hand-written model function.

   Values. A 1-d array is a list: [VB] bool, [VZ] int64, [VQ] float64 with finite entries (exact rationals,
   DESIGN.md 2.1), [VX] float64 with possibly non-finite entries (only produced by a division by zero).
   A scalar is [SB] (bool), [SI py z] (int), [SF py x] (float, x : xval); py = true for a Python int/float
   (literals, len(), .size, float()), false for a NumPy scalar (reductions): Python float / Python float raises
   ZeroDivisionError on a zero divisor, anything involving NumPy gives inf/nan (Prelude.xdiv).
   Element-wise operations broadcast as NumPy does on 1-d arrays (equal lengths, or one side of length 1,
   otherwise ValueError); a boolean-mask index needs a mask of the array's length (IndexError otherwise).
   [UNM] marks what is outside the modelled fragment (a tie theorem can then not be proved). *)
From Coq Require Import String.
From Coq Require Import List Bool Arith ZArith QArith Qabs Qminmax Qround.
From ME Require Import Model.Prelude.
Import ListNotations.
Open Scope Q_scope.

Inductive out (A : Type) := OK (a : A) | EXN (e : exn) | UNM.
Arguments OK {A}. Arguments EXN {A}. Arguments UNM {A}.
Definition obind {A B} (r : out A) (f : A -> out B) : out B :=
  match r with OK a => f a | EXN e => EXN e | UNM => UNM end.

Inductive binop := BAdd | BSub | BMul | BDiv | BMin | BMax.
Inductive vcmp := VEq | VNe | VLt | VLe | VGt | VGe.
Inductive unop := UAbs | UFloor.
Inductive redop := RSum      (* np.sum(x), x.sum(), builtin sum(x) *)
                 | RCount    (* np.count_nonzero(x) *)
                 | RAny | RAll | RMinV | RMaxV        (* x.any(), x.all(), np.min(x), np.max(x) *)
                 | RSize     (* x.size, len(x), x.shape[0] *)
                 | RMedian | RMean.                   (* np.median(x), np.mean(x) *)
Inductive dty := TBool | TInt | TFloat.
Inductive extfn := X_melody_validate_voicing | X_melody_validate | X_tempo_validate | X_alignment_validate.

Inductive vexp :=
| EVar (x : string) | EArg (i : nat)              (* local variable; i-th parameter *)
| EInt (z : Z) | EFloat (q : Q) | EBool (b : bool)
| EBin (op : binop) (a b : vexp)                  (* a + b, a - b, a * b, a / b, np.minimum / np.min([a, b], axis=0), max *)
| ECmp (op : vcmp) (a b : vexp)
| ELogic (is_and : bool) (a b : vexp)             (* np.logical_and(a, b) / np.logical_or(a, b) *)
| EPyAnd (a b : vexp) | EPyOr (a b : vexp) | EPyNot (a : vexp)     (* Python and / or / not on scalars (lazy) *)
| EUn (op : unop) (a : vexp)                      (* np.abs, np.floor *)
| ERed (op : redop) (a : vexp)
| EAstype (t : dty) (a : vexp)                    (* a.astype(t), np.asarray(a, dtype=t) *)
| EPyFloat (a : vexp) | EPyBool (a : vexp)        (* float(a), bool(a) *)
| EList (l : list vexp)                           (* a Python list [e1, ..., ek] of scalars (np functions see a 1-d array) *)
| EItem (a : vexp) (i : nat)                      (* a[i] with a literal i >= 0 *)
| ENone                                           (* None *)
| EIsNone (a : vexp)                              (* a is None *)
| ESlice (lo hi : option Z) (a : vexp)            (* a[lo:hi] on a 1-d array (Python slice semantics, no step) *)
| EItemZ (a : vexp) (i : Z)                       (* a[i] with a literal i < 0 *)
| EConcat (l : list vexp)                         (* np.concatenate([a1, ..., ak]) of 1-d float arrays / lists of numbers *)
| EMask (a m : vexp)                              (* a[m], m a boolean array *)
| EWhere (m v old : vexp).                        (* the array old after  old[m] = v *)

Inductive stmt :=
| SLet (x : string) (e : vexp)
| SMaskSet (x : string) (m v : vexp)              (* x[m] = v *)
| SIf (c : vexp) (a b : list stmt)
| SReturn (es : list vexp)                        (* return e   /  return e1, ..., ek *)
| SRaise (e : exn)
| SAssume (c : vexp)                              (* a fact the translator relied on (loop unrolling); false => UNM *)
| SCall (f : extfn) (args : list vexp).           (* a validator, called for its exceptions *)
Record vprog := { vp_params : list string; vp_body : list stmt }.

(* ---- the body as a decision tree over closed expressions (the language is pure: x = e is substitution;
        [TSeq e] keeps the exceptions of an assigned expression at its place in the order of evaluation) ---- *)
Inductive rtree :=
| TRet (es : list vexp) | TRaise (e : exn) | TNone
| TIf (c : vexp) (a b : rtree) | TSeq (e : vexp) (t : rtree) | TAssume (c : vexp) (t : rtree)
| TCall (f : extfn) (args : list vexp) (t : rtree).

Definition env := list (string * vexp).
Fixpoint elookup (x : string) (en : env) : option vexp :=
  match en with [] => None | (y, a) :: t => if String.eqb x y then Some a else elookup x t end.
Fixpoint subst (en : env) (a : vexp) : vexp :=
  match a with
  | EVar x => match elookup x en with Some b => b | None => EVar x end
  | EBin op a b => EBin op (subst en a) (subst en b)
  | ECmp op a b => ECmp op (subst en a) (subst en b)
  | ELogic k a b => ELogic k (subst en a) (subst en b)
  | EPyAnd a b => EPyAnd (subst en a) (subst en b)
  | EPyOr a b => EPyOr (subst en a) (subst en b)
  | EPyNot a => EPyNot (subst en a)
  | EUn op a => EUn op (subst en a)
  | ERed op a => ERed op (subst en a)
  | EAstype t a => EAstype t (subst en a)
  | EPyFloat a => EPyFloat (subst en a)
  | EPyBool a => EPyBool (subst en a)
  | EList l => EList (map (subst en) l)
  | EItem a i => EItem (subst en a) i
  | EIsNone a => EIsNone (subst en a)
  | ESlice lo hi a => ESlice lo hi (subst en a)
  | EItemZ a i => EItemZ (subst en a) i
  | EConcat l => EConcat (map (subst en) l)
  | EMask a m => EMask (subst en a) (subst en m)
  | EWhere m v old => EWhere (subst en m) (subst en v) (subst en old)
  | EArg _ | EInt _ | EFloat _ | EBool _ | ENone => a
  end.
Fixpoint flat_stmt (s : stmt) (k : env -> rtree) (en : env) : rtree :=
  match s with
  | SLet x e => let e' := subst en e in TSeq e' (k ((x, e') :: en))
  | SMaskSet x m v => let e' := EWhere (subst en m) (subst en v) (subst en (EVar x)) in TSeq e' (k ((x, e') :: en))
  | SIf c a b =>
      let fb := fix fb (l : list stmt) (k : env -> rtree) : env -> rtree :=
                  match l with [] => k | s :: t => flat_stmt s (fb t k) end in
      TIf (subst en c) (fb a k en) (fb b k en)
  | SReturn es => TRet (map (subst en) es)
  | SRaise e => TRaise e
  | SAssume c => TAssume (subst en c) (k en)
  | SCall f args => TCall f (map (subst en) args) (k en)
  end.
Fixpoint flat_block (l : list stmt) (k : env -> rtree) : env -> rtree :=
  match l with [] => k | s :: t => flat_stmt s (flat_block t k) end.
Fixpoint arg_env (ps : list string) (i : nat) : env :=
  match ps with [] => [] | p :: t => (p, EArg i) :: arg_env t (S i) end.
Definition vp_tree (p : vprog) : rtree := flat_block (vp_body p) (fun _ => TNone) (arg_env (vp_params p) 0).

(* ---- values ---- *)
Inductive sval := SB (b : bool) | SI (py : bool) (z : Z) | SF (py : bool) (x : xval).
Inductive val := VS (s : sval) | VB (l : list bool) | VZ (l : list Z) | VQ (l : list Q) | VX (l : list xval) | VNone.

Definition b2q (b : bool) : Q := if b then 1 else 0.
Definition b2z (b : bool) : Z := if b then 1%Z else 0%Z.
Fixpoint vmap2 {A B C} (f : A -> B -> C) (a : list A) (b : list B) : list C :=
  match a, b with x :: a', y :: b' => f x y :: vmap2 f a' b' | _, _ => [] end.
Fixpoint vselect {A} (m : list bool) (l : list A) : list A :=
  match m, l with b :: m', x :: l' => if b then x :: vselect m' l' else vselect m' l' | _, _ => [] end.
Definition vzsum (l : list Z) : Z := fold_right Z.add 0%Z l.
Definition vcount (l : list bool) : Z := Z.of_nat (length (filter (fun b => b) l)).
(* Evaluation never gets stuck on a test it cannot decide: an operation returns its value (computed as if no
   exception occurred) together with the list of conditions that must hold, each with the exception NumPy /
   Python raises when it does not, in the order of evaluation; [None] = outside the modelled fragment (UNM). *)
Definition cond := (bool * exn)%type.
Definition evr := option (val * list cond).

(* NumPy broadcasting of two 1-d arrays: equal lengths, or one side of length 1; otherwise ValueError *)
Definition bc_ok {A B} (a : list A) (b : list B) : bool :=
  (length a =? length b)%nat || (length a =? 1)%nat || (length b =? 1)%nat.
Definition bcv {A B C} (f : A -> B -> C) (a : list A) (b : list B) : list C :=
  if (length a =? length b)%nat then vmap2 f a b
  else match a, b with
       | [x], _ => map (fun y => f x y) b
       | _, [y] => map (fun x => f x y) a
       | _, _ => []
       end.

(* float64 arithmetic with the non-finite values explicit *)
Definition xadd (a b : xval) : xval :=
  match a, b with
  | Fin x, Fin y => Fin (x + y)
  | NaN, _ | _, NaN => NaN
  | PInf, NInf | NInf, PInf => NaN
  | PInf, _ | _, PInf => PInf
  | NInf, _ | _, NInf => NInf
  end.
Definition xneg (a : xval) : xval := match a with Fin x => Fin (- x) | PInf => NInf | NInf => PInf | NaN => NaN end.
Definition xsub (a b : xval) : xval := match a, b with Fin x, Fin y => Fin (x - y) | _, _ => xadd a (xneg b) end.
Definition xscale (inf : xval) (y : Q) : xval :=       (* inf * y for inf = PInf / NInf *)
  if qeqb y 0 then NaN else if qltb 0 y then inf else xneg inf.
Definition xmul (a b : xval) : xval :=
  match a, b with
  | Fin x, Fin y => Fin (x * y)
  | NaN, _ | _, NaN => NaN
  | Fin x, i => xscale i x
  | i, Fin y => xscale i y
  | PInf, PInf | NInf, NInf => PInf
  | _, _ => NInf
  end.
Definition xdivx (a b : xval) : xval :=
  match a, b with
  | Fin x, Fin y => xdiv x y
  | NaN, _ | _, NaN => NaN
  | Fin _, _ => Fin 0
  | i, Fin y => if qltb y 0 then xneg i else i
  | _, _ => NaN
  end.
Definition xsum (l : list xval) : xval := fold_right xadd (Fin 0) l.

Definition qcmp (op : vcmp) (x y : Q) : bool :=
  match op with VEq => qeqb x y | VNe => negb (qeqb x y) | VLt => qltb x y | VLe => qleb x y
              | VGt => qltb y x | VGe => qleb y x end.
Definition zcmp (op : vcmp) (x y : Z) : bool :=
  match op with VEq => Z.eqb x y | VNe => negb (Z.eqb x y) | VLt => Z.ltb x y | VLe => Z.leb x y
              | VGt => Z.ltb y x | VGe => Z.leb y x end.
Definition qbin (op : binop) (x y : Q) : Q :=
  match op with BAdd => x + y | BSub => x - y | BMul => x * y | BDiv => x / y | BMin => Qmin x y | BMax => Qmax x y end.
Definition zbin (op : binop) (x y : Z) : Z :=
  match op with BAdd => x + y | BSub => x - y | BMul => x * y | BDiv => 0 | BMin => Z.min x y | BMax => Z.max x y end%Z.
Definition xbin (op : binop) (x y : xval) : option xval :=
  match op with
  | BAdd => Some (xadd x y) | BSub => Some (xsub x y) | BMul => Some (xmul x y) | BDiv => Some (xdivx x y)
  | BMin | BMax => match x, y with Fin a, Fin b => Some (Fin (qbin op a b)) | _, _ => None end
  end.

(* scalars *)
Definition s_py (s : sval) : bool := match s with SB _ => true | SI py _ => py | SF py _ => py end.
Definition s_x (s : sval) : xval :=
  match s with SB b => Fin (b2q b) | SI _ z => Fin (inject_Z z) | SF _ x => x end.
Definition s_fin (s : sval) : option Q := match s_x s with Fin q => Some q | _ => None end.
Definition s_truth (s : sval) : bool :=
  match s with SB b => b | SI _ z => negb (Z.eqb z 0) | SF _ (Fin q) => negb (qeqb q 0) | SF _ _ => true end.
Definition ret (v : val) : evr := Some (v, []).
Definition s_bin (op : binop) (a b : sval) : evr :=
  match op, a, b with
  | BDiv, _, _ =>
      match a, b with
      | SB _, _ | _, SB _ => None
      | _, _ =>       (* Python number / Python number raises on a zero divisor; NumPy gives inf / nan *)
          Some (VS (SF (s_py a && s_py b) (xdivx (s_x a) (s_x b))),
                if s_py a && s_py b then [(negb match s_x b with Fin q => qeqb q 0 | _ => false end, ZeroDivisionError)] else [])
      end
  | _, SB _, SB _ => None                                (* np.bool_ arithmetic: not modelled *)
  | _, SF _ _, _ | _, _, SF _ _ =>
      match xbin op (s_x a) (s_x b) with Some r => ret (VS (SF (s_py a && s_py b) r)) | None => None end
  | _, SI pa x, SI pb y => ret (VS (SI (pa && pb) (zbin op x y)))
  | _, SI pa x, SB y => ret (VS (SI pa (zbin op x (b2z y))))
  | _, SB x, SI pb y => ret (VS (SI pb (zbin op (b2z x) y)))
  end.
Definition s_cmp (op : vcmp) (a b : sval) : evr :=
  match a, b with
  | SI _ x, SI _ y => ret (VS (SB (zcmp op x y)))
  | _, _ => match s_fin a, s_fin b with Some x, Some y => ret (VS (SB (qcmp op x y))) | _, _ => None end
  end.

(* vectors *)
Definition as_qs (v : val) : option (list Q) :=
  match v with VB l => Some (map b2q l) | VZ l => Some (map inject_Z l) | VQ l => Some l | _ => None end.
Definition bc {A B} (a : list A) (b : list B) : list cond := [(bc_ok a b, ValueError)].
Definition v_bin (op : binop) (a b : val) : evr :=
  match a, b with
  | VS x, VS y => s_bin op x y
  | VB _, VB _ => None
  | VZ l, VZ m => match op with BDiv => None | _ => Some (VZ (bcv (zbin op) l m), bc l m) end
  | VZ l, VS (SI _ z) => match op with BDiv => None | _ => ret (VZ (map (fun x => zbin op x z) l)) end
  | VS (SI _ z), VZ m => match op with BDiv => None | _ => ret (VZ (map (fun y => zbin op z y) m)) end
  | VX l, VS y => match op with BMul => ret (VX (map (fun x => xmul x (s_x y)) l)) | _ => None end
  | VS x, VX m => match op with BMul => ret (VX (map (fun y => xmul (s_x x) y) m)) | _ => None end
  | VX l, _ => match op, as_qs b with
               | BMul, Some m => Some (VX (bcv (fun x y => xmul x (Fin y)) l m), bc l m) | _, _ => None end
  | _, VX m => match op, as_qs a with
               | BMul, Some l => Some (VX (bcv (fun x y => xmul (Fin x) y) l m), bc l m) | _, _ => None end
  | VS x, _ => match s_fin x, as_qs b with
               | Some q, Some m => match op with BDiv => None | _ => ret (VQ (map (fun y => qbin op q y) m)) end
               | _, _ => None end
  | _, VS y => match as_qs a, s_fin y with
               | Some l, Some q =>
                   match op with
                   | BDiv => ret (if qeqb q 0 then VX (map (fun x => xdiv x q) l) else VQ (map (fun x => x / q) l))
                   | _ => ret (VQ (map (fun x => qbin op x q) l)) end
               | _, _ => None end
  | _, _ => match as_qs a, as_qs b with
            | Some l, Some m => match op with BDiv => None | _ => Some (VQ (bcv (qbin op) l m), bc l m) end
            | _, _ => None end
  end.
Definition v_cmp (op : vcmp) (a b : val) : evr :=
  match a, b with
  | VS x, VS y => s_cmp op x y
  | VZ l, VZ m => Some (VB (bcv (zcmp op) l m), bc l m)
  | VZ l, VS (SI _ z) => ret (VB (map (fun x => zcmp op x z) l))
  | VS (SI _ z), VZ m => ret (VB (map (fun y => zcmp op z y) m))
  | VX _, _ | _, VX _ => None
  | VS x, _ => match s_fin x, as_qs b with Some q, Some m => ret (VB (map (fun y => qcmp op q y) m)) | _, _ => None end
  | _, VS y => match as_qs a, s_fin y with Some l, Some q => ret (VB (map (fun x => qcmp op x q) l)) | _, _ => None end
  | _, _ => match as_qs a, as_qs b with
            | Some l, Some m => Some (VB (bcv (qcmp op) l m), bc l m) | _, _ => None end
  end.
Definition v_logic (is_and : bool) (a b : val) : evr :=
  let f := if is_and then andb else orb in
  match a, b with
  | VB l, VB m => Some (VB (bcv f l m), bc l m)
  | VS (SB x), VS (SB y) => ret (VS (SB (f x y)))
  | VB l, VS (SB y) => ret (VB (map (fun x => f x y) l))
  | VS (SB x), VB m => ret (VB (map (fun y => f x y) m))
  | _, _ => None
  end.
Definition q_un (op : unop) (x : Q) : Q := match op with UAbs => Qabs x | UFloor => inject_Z (Qfloor x) end.
Definition v_un (op : unop) (a : val) : evr :=
  match a with
  | VQ l => ret (VQ (map (q_un op) l))
  | VZ l => match op with UAbs => ret (VZ (map Z.abs l)) | UFloor => None end
  | VS (SF py (Fin q)) => ret (VS (SF false (Fin (q_un op q))))
  | VS (SI py z) => match op with UAbs => ret (VS (SI false (Z.abs z))) | UFloor => None end
  | _ => None
  end.
Definition is_nil {A} (l : list A) : bool := match l with [] => true | _ => false end.
(* np.median: the middle element of the sorted array, or the mean of the two middle elements *)
Fixpoint vinsert (x : Q) (l : list Q) : list Q :=
  match l with [] => [x] | y :: t => if qleb x y then x :: l else y :: vinsert x t end.
Definition vsort (l : list Q) : list Q := fold_right vinsert [] l.
Definition vmedian (l : list Q) : Q :=
  let s := vsort l in let n := length l in
  if Nat.even n then (nth (n / 2 - 1) s 0 + nth (n / 2) s 0) / 2 else nth (n / 2) s 0.
Definition xmedian (l : list Q) : xval := match l with [] => NaN | _ => Fin (vmedian l) end.
(* Python slice a[lo:hi] of a sequence of length n: negative bounds count from the end, bounds are clipped *)
Definition slice_bound (n : nat) (b : option Z) (dflt : nat) : nat :=
  match b with
  | None => dflt
  | Some z => if (z <? 0)%Z then Z.to_nat (Z.max 0 (z + Z.of_nat n)) else Nat.min n (Z.to_nat z)
  end.
Definition vslice {A} (lo hi : option Z) (l : list A) : list A :=
  let n := length l in let a := slice_bound n lo 0 in let b := slice_bound n hi n in firstn (b - a) (skipn a l).
Definition v_red (op : redop) (a : val) : evr :=
  match op, a with
  | RSum, VQ l => ret (VS (SF false (Fin (qsum l))))
  | RSum, VZ l => ret (VS (SI false (vzsum l)))
  | RSum, VB l => ret (VS (SI false (vcount l)))
  | RSum, VX l => ret (VS (SF false (xsum l)))
  | RCount, VQ l => ret (VS (SI true (vcount (map (fun x => negb (qeqb x 0)) l))))
  | RCount, VZ l => ret (VS (SI true (vcount (map (fun x => negb (Z.eqb x 0)) l))))
  | RCount, VB l => ret (VS (SI true (vcount l)))
  | RAny, VB l => ret (VS (SB (existsb (fun b => b) l)))
  | RAll, VB l => ret (VS (SB (forallb (fun b => b) l)))
  (* min / max of an empty array: ValueError *)
  | RMinV, VQ l => Some (VS (SF false (Fin (match qmin_list l with Some m => m | None => 0 end))), [(negb (is_nil l), ValueError)])
  | RMaxV, VQ l => Some (VS (SF false (Fin (match qmax_list l with Some m => m | None => 0 end))), [(negb (is_nil l), ValueError)])
  | RMinV, VB l => Some (VS (SB (forallb (fun b => b) l)), [(negb (is_nil l), ValueError)])
  | RMaxV, VB l => Some (VS (SB (existsb (fun b => b) l)), [(negb (is_nil l), ValueError)])
  | RSize, VB l => ret (VS (SI true (Z.of_nat (length l))))
  | RSize, VZ l => ret (VS (SI true (Z.of_nat (length l))))
  | RSize, VQ l => ret (VS (SI true (Z.of_nat (length l))))
  | RSize, VX l => ret (VS (SI true (Z.of_nat (length l))))
  (* np.mean = sum / count (nan on an empty array); np.median: nan on an empty array *)
  | RMean, VQ l => ret (VS (SF false (xdiv (qsum l) (inject_Z (Z.of_nat (length l))))))
  | RMean, VB l => ret (VS (SF false (xdiv (inject_Z (vcount l)) (inject_Z (Z.of_nat (length l))))))
  | RMedian, VQ l => ret (VS (SF false (xmedian l)))
  | _, _ => None
  end.
Definition v_astype (t : dty) (a : val) : evr :=
  match t, a with
  | TFloat, VB l => ret (VQ (map b2q l))
  | TFloat, VZ l => ret (VQ (map inject_Z l))
  | TFloat, VQ l => ret (VQ l)
  | TFloat, VX l => ret (VX l)
  | TFloat, VS s => ret (VS (SF false (s_x s)))
  | _, _ => None
  end.
Definition v_pyfloat (a : val) : evr := match a with VS s => ret (VS (SF true (s_x s))) | _ => None end.
Definition v_pybool (a : val) : evr := match a with VS s => ret (VS (SB (s_truth s))) | _ => None end.
(* a[m]: the boolean mask must have the length of the array (IndexError) *)
Definition v_mask (a m : val) : evr :=
  match m with
  | VB mk =>
      match a with
      | VB l => Some (VB (vselect mk l), [((length mk =? length l)%nat, IndexError)])
      | VZ l => Some (VZ (vselect mk l), [((length mk =? length l)%nat, IndexError)])
      | VQ l => Some (VQ (vselect mk l), [((length mk =? length l)%nat, IndexError)])
      | _ => None
      end
  | _ => None
  end.
Definition v_where (m v old : val) : evr :=
  match m, old, v with
  | VB mk, VZ l, VS (SI _ z) =>
      Some (VZ (vmap2 (fun (b : bool) o => if b then z else o) mk l), [((length mk =? length l)%nat, IndexError)])
  | VB mk, VQ l, VS s =>
      match s_fin s with
      | Some q => Some (VQ (vmap2 (fun (b : bool) o => if b then q else o) mk l), [((length mk =? length l)%nat, IndexError)])
      | None => None end
  | _, _, _ => None
  end.
(* a Python list of scalars, as NumPy sees it *)
Fixpoint list_bools (l : list val) : option (list bool) :=
  match l with [] => Some [] | VS (SB b) :: t => option_map (cons b) (list_bools t) | _ => None end.
Fixpoint list_qs (l : list val) : option (list Q) :=
  match l with
  | [] => Some []
  | VS s :: t => match s_fin s, list_qs t with Some q, Some r => Some (q :: r) | _, _ => None end
  | _ => None end.
Definition v_list (l : list val) : evr :=
  match list_bools l with Some bs => ret (VB bs)
  | None => match list_qs l with Some qs => ret (VQ qs) | None => None end end.
Definition v_item (a : val) (i : nat) : evr :=
  match a with
  | VB l => Some (VS (SB (nth i l false)), [((i <? length l)%nat, IndexError)])
  | VZ l => Some (VS (SI false (nth i l 0%Z)), [((i <? length l)%nat, IndexError)])
  | VQ l => Some (VS (SF false (Fin (nth i l 0))), [((i <? length l)%nat, IndexError)])
  | _ => None
  end.

Definition v_slice (lo hi : option Z) (a : val) : evr :=
  match a with
  | VB l => ret (VB (vslice lo hi l)) | VZ l => ret (VZ (vslice lo hi l)) | VQ l => ret (VQ (vslice lo hi l))
  | _ => None end.
(* a[i], i < 0: counts from the end (IndexError when out of range) *)
Definition v_itemz (a : val) (i : Z) : evr :=
  match a with
  | VQ l => Some (VS (SF false (Fin (nth (Z.to_nat (Z.of_nat (length l) + i)) l 0))), [((0 <=? Z.of_nat (length l) + i)%Z, IndexError)])
  | VZ l => Some (VS (SI false (nth (Z.to_nat (Z.of_nat (length l) + i)) l 0%Z)), [((0 <=? Z.of_nat (length l) + i)%Z, IndexError)])
  | _ => None end.
Definition v_isnone (a : val) : evr := match a with VNone => ret (VS (SB true)) | _ => ret (VS (SB false)) end.
Definition vcat {A} (a b : list A) : list A := a ++ b.
Fixpoint concat_qs (l : list val) : option (list Q) :=
  match l with
  | [] => Some []
  | v :: t => match as_qs v, concat_qs t with Some a, Some r => Some (vcat a r) | _, _ => None end
  end.
Definition argn (args : list val) (i : nat) : evr := match nth_error args i with Some v => ret v | None => None end.
(* sequencing: the conditions of the operands come first, in order *)
Definition ebind (a : evr) (f : val -> evr) : evr :=
  match a with Some (x, ca) => match f x with Some (y, cf) => Some (y, ca ++ cf) | None => None end | None => None end.
Definition ebind2 (a b : evr) (f : val -> val -> evr) : evr :=
  match a with
  | Some (x, ca) => match b with
                    | Some (y, cb) => match f x y with Some (z, cf) => Some (z, ca ++ cb ++ cf) | None => None end
                    | None => None end
  | None => None end.
(* a lazily evaluated operand must not be able to raise (otherwise UNM) *)
Definition pure_only (a : evr) : evr := match a with Some (x, []) => Some (x, []) | _ => None end.

Section Eval.
Variable args : list val.
Variable ext : extfn -> list val -> out unit.
Fixpoint ev (a : vexp) : evr :=
  match a with
  | EVar _ => None
  | EArg i => argn args i
  | EInt z => ret (VS (SI true z))
  | EFloat q => ret (VS (SF true (Fin q)))
  | EBool b => ret (VS (SB b))
  | EBin op a b => ebind2 (ev a) (ev b) (v_bin op)
  | ECmp op a b => ebind2 (ev a) (ev b) (v_cmp op)
  | ELogic k a b => ebind2 (ev a) (ev b) (v_logic k)
  | EPyAnd a b => ebind (ev a) (fun x => match x, pure_only (ev b) with
                                         | VS s, Some (VS t, _) => ret (VS (if s_truth s then t else s)) | _, _ => None end)
  | EPyOr a b => ebind (ev a) (fun x => match x, pure_only (ev b) with
                                        | VS s, Some (VS t, _) => ret (VS (if s_truth s then s else t)) | _, _ => None end)
  | EPyNot a => ebind (ev a) (fun x => match x with VS s => ret (VS (SB (negb (s_truth s)))) | _ => None end)
  | EUn op a => ebind (ev a) (v_un op)
  | ERed op a => ebind (ev a) (v_red op)
  | EAstype t a => ebind (ev a) (v_astype t)
  | EPyFloat a => ebind (ev a) v_pyfloat
  | EPyBool a => ebind (ev a) v_pybool
  | EList l =>
      (fix evl (l : list vexp) (acc : list val) (cs : list cond) : evr :=
         match l with
         | [] => match v_list (rev acc) with Some (v, c) => Some (v, cs ++ c) | None => None end
         | x :: t => match ev x with Some (v, c) => evl t (v :: acc) (cs ++ c) | None => None end
         end) l [] []
  | EItem a i => ebind (ev a) (fun x => v_item x i)
  | ENone => ret VNone
  | EIsNone a => ebind (ev a) v_isnone
  | ESlice lo hi a => ebind (ev a) (v_slice lo hi)
  | EItemZ a i => ebind (ev a) (fun x => v_itemz x i)
  | EConcat l =>
      (fix evl (l : list vexp) (acc : list val) (cs : list cond) : evr :=
         match l with
         | [] => match concat_qs (rev acc) with Some qs => Some (VQ qs, cs) | None => None end
         | x :: t => match ev x with Some (v, c) => evl t (v :: acc) (cs ++ c) | None => None end
         end) l [] []
  | EMask a m => ebind2 (ev a) (ev m) v_mask
  | EWhere m v old =>
      match ev m, ev v, ev old with
      | Some (m', c1), Some (v', c2), Some (o', c3) =>
          match v_where m' v' o' with Some (r, c4) => Some (r, c1 ++ c2 ++ c3 ++ c4) | None => None end
      | _, _, _ => None end
  end.
(* check the conditions in order *)
Fixpoint chk {A} (cs : list cond) (k : out A) : out A :=
  match cs with [] => k | (b, e) :: t => if b then chk t k else EXN e end.
Fixpoint ev_list (l : list vexp) : option (list val * list cond) :=
  match l with
  | [] => Some ([], [])
  | x :: t => match ev x, ev_list t with
              | Some (v, c), Some (vs, cs) => Some (v :: vs, c ++ cs) | _, _ => None end
  end.
Fixpoint scalars (l : list val) : option (list sval) :=
  match l with [] => Some [] | VS s :: t => option_map (cons s) (scalars t) | _ => None end.
Fixpoint run_tree (t : rtree) : out (list sval) :=
  match t with
  | TRet es => match ev_list es with
               | Some (vs, cs) => match scalars vs with Some ss => chk cs (OK ss) | None => UNM end
               | None => UNM end
  | TRaise e => EXN e
  | TNone => UNM
  | TIf c a b => match ev c with
                 | Some (VS s, cs) => chk cs (if s_truth s then run_tree a else run_tree b)
                 | _ => UNM end
  | TSeq e t => match ev e with Some (_, cs) => chk cs (run_tree t) | None => UNM end
  | TAssume c t => match ev c with
                   | Some (VS (SB b), cs) => chk cs (if b then run_tree t else UNM)
                   | _ => UNM end
  | TCall f es t => match ev_list es with
                    | Some (vs, cs) => chk cs (obind (ext f vs) (fun _ => run_tree t))
                    | None => UNM end
  end.
End Eval.

Definition vrun (p : vprog) (ext : extfn -> list val -> out unit) (args : list val) : out (list sval) :=
  run_tree args ext (vp_tree p).
(* the returned scalars as float values *)
Definition vrun_x (p : vprog) (ext : extfn -> list val -> out unit) (args : list val) : out (list xval) :=
  obind (vrun p ext args) (fun l => OK (map s_x l)).
Definition no_ext : extfn -> list val -> out unit := fun _ _ => UNM.
