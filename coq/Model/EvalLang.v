(* The statement language of the evaluate() functions (keyword plumbing around util.filter_kwargs) and its
   symbolic execution to a normal form: per path, the ordered list  score key -> call tree  in which every
   filtered call carries exactly the keyword overrides that reach the callee (DESIGN.md section 6, C03).
   The programs are produced by translator/evaluate.py from /repo on every run. Definitions only. *)
From Coq Require Import List String Bool ZArith Arith.
Import ListNotations.
Open Scope string_scope.

Inductive const := CNone | CBool (b : bool) | CNum (n : Z) (d : positive) | CStr (s : string).
Inductive expr :=
| EInput (x : string)                                   (* parameter of evaluate() *)
| EVar (x : string)                                     (* local variable *)
| EGlobal (x : string)                                  (* module-level name, e.g. NO_CHORD *)
| EConst (c : const)
| EScore (k : string)                                   (* scores[k] *)
| EFiltered (f : string) (args : list expr) (usekw : bool)   (* util.filter_kwargs(f, args..., [kwargs...]) *)
| EDirect (f : string) (args : list expr) (kws : list (string * expr))   (* f(args..., k=v, ...) *)
| EMethod (m : string) (obj : expr) (args : list expr)  (* obj.m(args...) *)
| EAttr (a : string) (obj : expr).                      (* obj.a *)
Inductive target := TVar (x : string) | TScore (k : string).
Inductive stmt :=
| SSetKw (k : string) (c : const)                       (* kwargs[k] = c *)
| SSetDefaultKw (k : string) (c : const)                (* kwargs.setdefault(k, c) / if k not in kwargs: kwargs[k] = c *)
| SSaveKw (x : string) (k : string)                     (* x = kwargs[k] *)
| SRestoreKw (k : string) (x : string)                  (* kwargs[k] = x *)
| SIfKwNotNone (k : string) (body : list stmt)          (* if kwargs[k] is not None: body *)
| SIfOpaque (cond : string) (body : list stmt)          (* if <condition on the inputs>: body *)
| SBind (ts : list target) (e : expr)                   (* t1, ..., tn = e *)
| SReturn.                                              (* return scores *)

(* what a keyword holds, symbolically *)
Inductive kws := KBase (k : string)                     (* whatever the caller passed under k (possibly nothing) *)
               | KConst (c : const)                     (* forced by evaluate() *)
               | KDefault (k : string) (c : const).     (* the caller's value under k if any, else c *)
(* which of the CALLER's own keywords reach a callee besides the listed overrides:
   PNone: none (direct call, or filter_kwargs without **kwargs);  PDeclared: those the callee declares as parameters;
   PAll: all of them (the callee itself takes **kwargs) *)
Inductive pass_mode := PNone | PDeclared | PAll.
Inductive sval :=
| VInput (x : string) | VGlobal (x : string) | VConst (c : const)
| VProj (i n : nat) (v : sval)                          (* i-th component of an n-tuple *)
| VCall (f : string) (args : list sval) (kw : list (string * kwv)) (mode : pass_mode)
| VMethod (m : string) (obj : sval) (args : list sval)
| VAttr (a : string) (obj : sval)
| VError (msg : string)                                 (* unbound local, unknown callee, missing score key *)
with kwv := KwState (s : kws) | KwExpr (v : sval).

Fixpoint assoc {A} (k : string) (l : list (string * A)) : option A :=
  match l with [] => None | (k', a) :: t => if String.eqb k k' then Some a else assoc k t end.
Definition memk (k : string) (l : list string) := existsb (String.eqb k) l.
Definition sigs := list (string * (list string * bool)).       (* callee -> (positional parameter names, has **kwargs) *)

Record pstate := { st_kw : list (string * kws);          (* overrides, most recent first *)
                   st_loc : list (string * sval);
                   st_saved : list (string * kws);
                   st_scores : list (string * sval);     (* in insertion order *)
                   st_asm : list (kws * bool) }.         (* path assumptions: (value, is None) *)
Definition look (s : pstate) (k : string) : kws := match assoc k (st_kw s) with Some v => v | None => KBase k end.
Definition kws_eqb (a b : kws) : bool :=
  match a, b with
  | KBase x, KBase y => String.eqb x y
  | KConst CNone, KConst CNone => true
  | KConst (CBool x), KConst (CBool y) => Bool.eqb x y
  | KConst (CNum n d), KConst (CNum m e) => Z.eqb n m && Pos.eqb d e
  | KConst (CStr x), KConst (CStr y) => String.eqb x y
  | KDefault x c, KDefault y d =>
      String.eqb x y && match c, d with CNone, CNone => true | CBool p, CBool q => Bool.eqb p q
                        | CNum n e, CNum m f => Z.eqb n m && Pos.eqb e f | CStr p, CStr q => String.eqb p q | _, _ => false end
  | _, _ => false end.
Fixpoint dedup_aux {A} (seen : list string) (l : list (string * A)) : list (string * A) :=
  match l with [] => [] | (k, v) :: t => if memk k seen then dedup_aux seen t else (k, v) :: dedup_aux (k :: seen) t end.
Definition dedup_keys {A} (l : list (string * A)) : list (string * A) := dedup_aux [] l.

Section Exec.
Variable S : sigs.
(* util.filter_kwargs: everything if the callee has **kwargs, else only the callee's positional parameter names *)
Definition filtered_kw (s : pstate) (f : string) : option (list (string * kwv) * pass_mode) :=
  match assoc f S with
  | None => None
  | Some (ps, true) => Some (map (fun p => (fst p, KwState (snd p))) (dedup_keys (st_kw s)), PAll)
  | Some (ps, false) =>
      Some (flat_map (fun p => match look s p with KBase q => if String.eqb p q then [] else [(p, KwState (KBase q))]
                                               | v => [(p, KwState v)] end) ps, PDeclared)
  end.
Fixpoint ev (s : pstate) (e : expr) : sval :=
  match e with
  | EInput x => VInput x
  | EVar x => match assoc x (st_loc s) with Some v => v | None => VError ("unbound local " ++ x) end
  | EGlobal x => VGlobal x
  | EConst c => VConst c
  | EScore k => match assoc k (st_scores s) with Some v => v | None => VError ("missing score " ++ k) end
  | EFiltered f args usekw =>
      let a := map (ev s) args in
      if usekw then match filtered_kw s f with Some (kw, all) => VCall f a kw all | None => VError ("unknown callee " ++ f) end
      else VCall f a [] PNone
  | EDirect f args kw => VCall f (map (ev s) args) (map (fun p => (fst p, KwExpr (ev s (snd p)))) kw) PNone
  | EMethod m o args => VMethod m (ev s o) (map (ev s) args)
  | EAttr a o => VAttr a (ev s o)
  end.
Definition set_kw (s : pstate) (k : string) (v : kws) : pstate :=
  {| st_kw := (k, v) :: st_kw s; st_loc := st_loc s; st_saved := st_saved s; st_scores := st_scores s; st_asm := st_asm s |}.
Definition assume (s : pstate) (v : kws) (b : bool) : pstate :=
  {| st_kw := st_kw s; st_loc := st_loc s; st_saved := st_saved s; st_scores := st_scores s; st_asm := st_asm s ++ [(v, b)] |}.
(* scores[k] = v on an OrderedDict: in place if the key exists, appended otherwise *)
Fixpoint upd_score (k : string) (v : sval) (l : list (string * sval)) : list (string * sval) :=
  match l with [] => [(k, v)] | (k', v') :: t => if String.eqb k k' then (k, v) :: t else (k', v') :: upd_score k v t end.
Fixpoint bind_targets (s : pstate) (ts : list target) (i n : nat) (v : sval) : pstate :=
  match ts with
  | [] => s
  | t :: rest =>
      let vi := if Nat.eqb n 1 then v else VProj i n v in
      let s' := match t with
                | TVar x => {| st_kw := st_kw s; st_loc := (x, vi) :: st_loc s; st_saved := st_saved s; st_scores := st_scores s; st_asm := st_asm s |}
                | TScore k => {| st_kw := st_kw s; st_loc := st_loc s; st_saved := st_saved s;
                                 st_scores := upd_score k vi (st_scores s); st_asm := st_asm s |}
                end in
      bind_targets s' rest (Datatypes.S i) n v
  end.
Definition known_none (s : pstate) (v : kws) : option bool :=
  match v with
  | KConst CNone => Some true
  | KConst _ => Some false
  | _ => option_map snd (find (fun a => kws_eqb (fst a) v) (st_asm s))
  end.
Fixpoint exec (fuel : nat) (p : list stmt) (s : pstate) : list pstate :=
  match fuel with 0 => [] | Datatypes.S fuel' =>
  match p with
  | [] => [s]
  | c :: rest =>
      let k := exec fuel' rest in
      match c with
      | SSetKw key c0 => k (set_kw s key (KConst c0))
      | SSetDefaultKw key c0 =>
          match look s key with KBase q => k (set_kw s key (KDefault q c0)) | _ => k s end
      | SSaveKw x key => k {| st_kw := st_kw s; st_loc := st_loc s; st_saved := (x, look s key) :: st_saved s; st_scores := st_scores s; st_asm := st_asm s |}
      | SRestoreKw key x =>
          match assoc x (st_saved s) with Some v => k (set_kw s key v) | None => [] end
      | SIfKwNotNone key body =>
          let v := look s key in
          match known_none s v with
          | Some true => k s
          | Some false => flat_map k (exec fuel' body s)
          | None => k (assume s v true) ++ flat_map k (exec fuel' body (assume s v false))
          end
      | SIfOpaque cond body => k s ++ flat_map k (exec fuel' body s)   (* both outcomes, condition recorded by position *)
      | SBind ts e => k (bind_targets s ts 0 (List.length ts) (ev s e))
      | SReturn => [s]
      end
  end end.
End Exec.
Definition init_state : pstate := {| st_kw := []; st_loc := []; st_saved := []; st_scores := []; st_asm := [] |}.
(* the normal form of an evaluate(): per path, the assumptions and the ordered score list *)
Definition symexec (S : sigs) (p : list stmt) : list (list (kws * bool) * list (string * sval)) :=
  map (fun s => (st_asm s, st_scores s)) (exec S 200 p init_state).

(* return arities (C03: "values are real scalars, never tuples, including for empty annotations") *)
(* AKnown n: the return statement is a literal tuple of n components (n = 1 is never produced);
   AOpaque: an expression whose arity the syntax does not show (no constraint);  ADelegate g: `return g(...)` *)
Inductive arity := AKnown (n : nat) | AOpaque | ADelegate (g : string).
Definition arities := list (string * list arity).
Fixpoint resolve (fuel : nat) (A : arities) (a : arity) : list (option nat) :=
  match fuel with 0 => [None] | Datatypes.S f =>
    match a with
    | AKnown n => [Some n] | AOpaque => []
    | ADelegate g => match assoc g A with Some l => flat_map (resolve f A) l | None => [None] end
    end end.
Definition arity_ok (A : arities) (f : string) (n : nat) : bool :=
  match assoc f A with
  | None => false
  | Some l => forallb (fun o => match o with Some m => Nat.eqb m n | None => false end) (flat_map (resolve 5 A) l)
  end.
Fixpoint bind_sites (fuel : nat) (p : list stmt) : list (string * nat) :=
  match fuel with 0 => [] | Datatypes.S f =>
  flat_map (fun c => match c with
                     | SBind ts (EFiltered g _ _) => [(g, List.length ts)]
                     | SIfKwNotNone _ b | SIfOpaque _ b => bind_sites f b
                     | _ => [] end) p end.
Definition first_bad_arity (A : arities) (p : list stmt) : option (string * nat) :=
  find (fun s => negb (arity_ok A (fst s) (snd s))) (bind_sites 10 p).
