(* util.match_events / _fast_hit_windows / _outer_distance_mod_n / f_measure over exact rationals.
   The maximum matching is Model.Matching.bipartite_match on the graph built exactly as the code builds it
   (est-indexed adjacency lists in hit order). Definitions only. *)
From Coq Require Import List Bool Arith ZArith QArith Qabs Qminmax Qround.
From ME Require Import Model.Prelude Model.Dict Model.Matching.
Import ListNotations.

(* np.argsort on distinct values = indices sorted by value; ties are kept in index order (stable) *)
Fixpoint ins_sorted (x : Q * nat) (l : list (Q * nat)) : list (Q * nat) :=
  match l with [] => [x] | y :: t => if qltb (fst x) (fst y) then x :: l else y :: ins_sorted x t end.
Definition sort_indexed (l : list Q) : list (Q * nat) :=
  fold_left (fun acc x => ins_sorted x acc) (combine l (seq 0 (length l))) [].
Definition argsort (l : list Q) : list nat := map snd (sort_indexed l).
(* np.searchsorted on a sorted array *)
Fixpoint take_while {A} (p : A -> bool) (l : list A) : list A :=
  match l with [] => [] | x :: t => if p x then x :: take_while p t else [] end.
Definition searchsorted_left (s : list Q) (x : Q) : nat := length (take_while (fun y => qltb y x) s).
Definition searchsorted_right (s : list Q) (x : Q) : nat := length (take_while (fun y => qleb y x) s).
(* (ref index, est index) pairs in the order _fast_hit_windows emits them *)
Definition fast_hit_windows (ref est : list Q) (w : Q) : list (nat * nat) :=
  let si := sort_indexed ref in
  let rs := map fst si in let ri := map snd si in
  flat_map (fun je => let '(j, e) := je in
              let a := searchsorted_left rs (e - w) in let b := searchsorted_right rs (e + w) in
              map (fun r => (r, j)) (firstn (b - a) (skipn a ri)))
           (combine (seq 0 (length est)) est).
(* np.where(distance(ref, est) <= window): row-major, i.e. reference-major order *)
Definition hits_by_distance (dist : Q -> Q -> Q) (ref est : list Q) (w : Q) : list (nat * nat) :=
  flat_map (fun ir => let '(i, r) := ir in
              flat_map (fun je => let '(j, e) := je in if qleb (dist r e) w then [(i, j)] else [])
                       (combine (seq 0 (length est)) est))
           (combine (seq 0 (length ref)) ref).
Definition qmod (x m : Q) : Q := x - inject_Z (Qfloor (x / m)) * m.        (* np.mod for m > 0 *)
Definition outer_distance_mod_n (m : Q) (r e : Q) : Q :=
  let d := Qabs (qmod r m - qmod e m) in Qmin d (m - d).
Definition build_graph (hits : list (nat * nat)) : graph :=
  fold_left (fun G h => let '(r, e) := h in
               match dget G e with Some l => dset G e (l ++ [r]) | None => dset G e [r] end) hits [].
(* sorted(matching.items()): lexicographic on (ref index, est index) *)
Definition pair_ltb (a b : nat * nat) : bool := (fst a <? fst b) || ((fst a =? fst b) && (snd a <? snd b)).
Fixpoint ins_pair (x : nat * nat) (l : list (nat * nat)) : list (nat * nat) :=
  match l with [] => [x] | y :: t => if pair_ltb x y then x :: l else y :: ins_pair x t end.
Definition sort_pairs (l : list (nat * nat)) : list (nat * nat) := fold_left (fun acc x => ins_pair x acc) l [].
Definition match_hits (hits : list (nat * nat)) : option (list (nat * nat)) :=
  option_map sort_pairs (bipartite_match (build_graph hits)).
Definition match_events (ref est : list Q) (w : Q) : option (list (nat * nat)) :=
  match_hits (fast_hit_windows ref est w).
Definition match_events_dist (dist : Q -> Q -> Q) (ref est : list Q) (w : Q) : option (list (nat * nat)) :=
  match_hits (hits_by_distance dist ref est w).

(* util.f_measure *)
Definition f_measure (p r beta : Q) : Q :=
  if qeqb p 0 && qeqb r 0 then 0 else (1 + beta * beta) * p * r / (beta * beta * p + r).
