(* mir_eval/multipitch.py over exact rationals. Definitions only.

   Conventions
   * times and frequencies (Hz) are Q; a ragged frequency list is `list (list Q)`.
   * `frequencies_to_midi` uses log2.  It is applied elementwise *before* the matching, so the model is
     parametrised by `hz2midi : Q -> Q` (the map f |-> 69 + 12 log2 (f / 440) on positive f); the
     correspondence unit instantiates it with the table of the implementation's own outputs.
   * validate_frequencies (allow_negatives=False) only bounds |f|: negative frequencies pass `validate`, and
     log2 of a negative number is nan.  A MIDI value is therefore `option Q`, `None` = nan.  NumPy's sort /
     searchsorted order nan after every number (and nan "<=" nan there), all ordinary comparisons with nan are false.
   * counts are nat (lengths); the score arithmetic is done in Z/Q so that nothing is truncated.
   * hit *order* inside a frame: np.argsort (introsort / SIMD sort) is not stable on tied values, so the order of the
     hits of tied reference values is not modelled (we use the stable order); only the *size* of the maximum
     matching is used by multipitch.py and that does not depend on the order (Proofs/MultipitchProps.v).
   * scope: 1-d float arrays; time bases passed to resample_multipitch are non-decreasing (inside `metrics`
     this is guaranteed by validate; interp1d is called with assume_sorted=True). *)
From Coq Require Import List Bool Arith ZArith QArith Qabs Qminmax Qround.
From ME Require Import Model.Prelude Model.Dict Model.Matching Model.Events.
Import ListNotations.

Definition MAX_TIME : Q := 30000.
Definition MAX_FREQ : Q := 5000.
Definition MIN_FREQ : Q := 20.

(* ---------------------------------------------------------------- validate *)
Fixpoint nondecreasing (l : list Q) : bool :=
  match l with a :: (b :: _) as t => qleb a b && nondecreasing t | _ => true end.
(* util.validate_events on a 1-d array *)
Definition validate_events (ev : list Q) (max_time : Q) : res unit :=
  if existsb (fun t => qltb max_time t) ev then Raise ValueError
  else if negb (nondecreasing ev) then Raise ValueError        (* (np.diff(events) < 0).any() *)
  else Ok tt.
(* util.validate_frequencies(f, max, min, allow_negatives=False) on a 1-d array: bounds on |f| only *)
Definition validate_frequencies (f : list Q) (max_freq min_freq : Q) : res unit :=
  if existsb (fun x => qltb max_freq (Qabs x)) f then Raise ValueError
  else if existsb (fun x => qltb (Qabs x) min_freq) f then Raise ValueError
  else Ok tt.
Fixpoint validate_all_freqs (fs : list (list Q)) : res unit :=
  match fs with [] => Ok tt | f :: t => _ <- validate_frequencies f MAX_FREQ MIN_FREQ ;; validate_all_freqs t end.
Definition validate (ref_time : list Q) (ref_freqs : list (list Q)) (est_time : list Q) (est_freqs : list (list Q)) : res unit :=
  _ <- validate_events ref_time MAX_TIME ;;
  _ <- validate_events est_time MAX_TIME ;;
  if negb (length ref_time =? length ref_freqs)%nat then Raise ValueError
  else if negb (length est_time =? length est_freqs)%nat then Raise ValueError
  else _ <- validate_all_freqs ref_freqs ;; validate_all_freqs est_freqs.

(* ---------------------------------------------------------------- resample_multipitch *)
(* interp1d(kind='nearest'): x_bds = x/2.0; x_bds = x_bds[1:] + x_bds[:-1] *)
Fixpoint midpoints (l : list Q) : list Q :=
  match l with a :: (b :: _) as t => (b / 2 + a / 2) :: midpoints t | _ => [] end.
(* index (as produced by the interpolator, then .astype(int)) into  frequencies + [empty] *)
Definition nearest_index (times : list Q) (n_times : nat) (t : Q) : nat :=
  match times with
  | [] => n_times
  | t0 :: _ =>
      if qltb t t0 || qltb (last times t0) t then n_times                       (* below / above bounds: fill_value *)
      else Nat.min (searchsorted_left (midpoints times) t) (length times - 1)    (* side='left', clip(0, len(x)-1) *)
  end.
Definition resample_multipitch {A} (times : list Q) (freqs : list (list A)) (targets : list Q) : res (list (list A)) :=
  match targets with
  | [] => Ok []
  | _ =>
    match times with
    | [] => Ok (map (fun _ => []) targets)
    | _ =>
      if negb (length times =? length freqs)%nat then Raise ValueError           (* interp1d: x and y lengths differ *)
      else Ok (map (fun t => nth (nearest_index times (length freqs) t) (freqs ++ [[]]) []) targets)
    end
  end.

(* ---------------------------------------------------------------- MIDI / chroma *)
Definition mv := option Q.          (* None = nan *)
Definition to_midi (hz2midi : Q -> Q) (f : Q) : mv := if qltb f 0 then None else Some (hz2midi f).
Definition frequencies_to_midi (hz2midi : Q -> Q) (fs : list (list Q)) : list (list mv) := map (map (to_midi hz2midi)) fs.
Definition midi_to_chroma (fs : list (list mv)) : list (list mv) := map (map (option_map (fun x => qmod x 12))) fs.
Definition compute_num_freqs {A} (fs : list (list A)) : list nat := map (@length A) fs.

(* ---------------------------------------------------------------- per-frame matching, nan-aware *)
(* the order used by np.argsort / np.searchsorted: nan is larger than every number *)
Definition xlt (a b : mv) : bool :=
  match a, b with Some x, Some y => qltb x y | Some _, None => true | None, _ => false end.
Definition xle (a b : mv) : bool := negb (xlt b a).
Fixpoint ins_sorted_x (x : mv * nat) (l : list (mv * nat)) : list (mv * nat) :=
  match l with [] => [x] | y :: t => if xlt (fst x) (fst y) then x :: l else y :: ins_sorted_x x t end.
Definition sort_indexed_x (l : list mv) : list (mv * nat) :=
  fold_left (fun acc x => ins_sorted_x x acc) (combine l (seq 0 (length l))) [].
Definition searchsorted_left_x (s : list mv) (x : mv) : nat := length (take_while (fun y => xlt y x) s).
Definition searchsorted_right_x (s : list mv) (x : mv) : nat := length (take_while (fun y => xle y x) s).
(* util._fast_hit_windows *)
Definition fast_hit_windows_x (ref est : list mv) (w : Q) : list (nat * nat) :=
  let si := sort_indexed_x ref in
  let rs := map fst si in let ri := map snd si in
  flat_map (fun je => let '(j, e) := je in
              let a := searchsorted_left_x rs (option_map (fun e => e - w) e) in
              let b := searchsorted_right_x rs (option_map (fun e => e + w) e) in
              map (fun r => (r, j)) (firstn (b - a) (skipn a ri)))
           (combine (seq 0 (length est)) est).
(* np.where(distance(ref, est) <= window); a comparison with nan is False *)
Definition hits_by_distance_x (dist : Q -> Q -> Q) (ref est : list mv) (w : Q) : list (nat * nat) :=
  flat_map (fun ir => let '(i, r) := ir in
              flat_map (fun je => let '(j, e) := je in
                          match r, e with Some r, Some e => if qleb (dist r e) w then [(i, j)] else [] | _, _ => [] end)
                       (combine (seq 0 (length est)) est))
           (combine (seq 0 (length ref)) ref).
(* len(util.match_events(ref_frame, est_frame, window[, distance=_outer_distance_mod_n])).
   None only if the fuel of Model.Matching.bipartite_match ran out (never observed). *)
Definition tp_frame (chroma : bool) (w : Q) (ref est : list mv) : option nat :=
  option_map (@length _)
    (if chroma then match_hits (hits_by_distance_x (outer_distance_mod_n 12) ref est w)
     else match_hits (fast_hit_windows_x ref est w)).
(* compute_num_true_positives: zip(ref, est) truncates, the result has len(ref) entries (zeros beyond) *)
Fixpoint compute_num_true_positives (w : Q) (chroma : bool) (ref est : list (list mv)) : res (list nat) :=
  match ref with
  | [] => Ok []
  | r :: ref' =>
    match est with
    | [] => Ok (map (fun _ => 0%nat) ref)
    | e :: est' =>
      match tp_frame chroma w r e with
      | None => Raise OtherExn
      | Some t => ts <- compute_num_true_positives w chroma ref' est' ;; Ok (t :: ts)
      end
    end
  end.

(* ---------------------------------------------------------------- scores *)
Definition zsum (l : list Z) : Z := fold_right Z.add 0%Z l.
Fixpoint zip3 (f : Z -> Z -> Z -> Z) (a b c : list Z) : list Z :=
  match a, b, c with x :: a', y :: b', z :: c' => f x y z :: zip3 f a' b' c' | _, _, _ => [] end.
Fixpoint zip2 (f : Z -> Z -> Z) (a b : list Z) : list Z :=
  match a, b with x :: a', y :: b' => f x y :: zip2 f a' b' | _, _ => [] end.
Definition zq (z : Z) : Q := inject_Z z.
(* the three arrays have the same length (scope; NumPy would broadcast or raise otherwise) *)
Definition compute_accuracy (tp n_ref n_est : list Z) : Q * Q * Q :=
  let tps := zsum tp in
  let precision := if (0 <? zsum n_est)%Z then zq tps / zq (zsum n_est) else 0 in
  let recall := if (0 <? zsum n_ref)%Z then zq tps / zq (zsum n_ref) else 0 in
  let acc_denom := zsum (zip3 (fun e r t => e + r - t)%Z n_est n_ref tp) in
  let acc := if (0 <? acc_denom)%Z then zq tps / zq acc_denom else 0 in
  (precision, recall, acc).
Definition compute_err_score (tp n_ref n_est : list Z) : Q * Q * Q * Q :=
  let n_ref_sum := zsum n_ref in
  if (n_ref_sum =? 0)%Z then (0, 0, 0, 0) else
  let e_sub := zq (zsum (zip3 (fun r e t => Z.min r e - t)%Z n_ref n_est tp)) / zq n_ref_sum in
  let e_miss := zq (zsum (zip2 (fun r e => if (r - e <? 0)%Z then 0 else r - e)%Z n_ref n_est)) / zq n_ref_sum in
  let e_fa := zq (zsum (zip2 (fun r e => if (e - r <? 0)%Z then 0 else e - r)%Z n_ref n_est)) / zq n_ref_sum in
  let e_tot := zq (zsum (zip3 (fun r e t => Z.max r e - t)%Z n_ref n_est tp)) / zq n_ref_sum in
  (e_sub, e_miss, e_fa, e_tot).

Record mscores := { precision : Q; recall : Q; accuracy : Q; e_sub : Q; e_miss : Q; e_fa : Q; e_tot : Q }.
Definition scores_of (tp n_ref n_est : list nat) : mscores :=
  let tpz := map Z.of_nat tp in let rz := map Z.of_nat n_ref in let ez := map Z.of_nat n_est in
  let '(p, r, a) := compute_accuracy tpz rz ez in
  let '(s, m, f, t) := compute_err_score tpz rz ez in
  {| precision := p; recall := r; accuracy := a; e_sub := s; e_miss := m; e_fa := f; e_tot := t |}.
Definition scores_list (s : mscores) : list Q := [precision s; recall s; accuracy s; e_sub s; e_miss s; e_fa s; e_tot s].

(* ---------------------------------------------------------------- metrics *)
(* np.allclose(a, b): |a - b| <= atol + rtol * |b| elementwise, atol = 1e-8, rtol = 1e-5 (the doubles' exact values) *)
Definition ATOL : Q := 3022314549036573 # 302231454903657293676544.
Definition RTOL : Q := 5902958103587057 # 590295810358705651712.
Definition allclose (a b : list Q) : bool :=
  forallb (fun xy => qleb (Qabs (fst xy - snd xy)) (ATOL + RTOL * Qabs (snd xy))) (combine a b).
(* est_time.size != ref_time.size or not np.allclose(est_time, ref_time) *)
Definition resample_needed (est_time ref_time : list Q) : bool :=
  negb (length est_time =? length ref_time)%nat || negb (allclose est_time ref_time).

Record mp_trace := { resampled : bool; est_used : list (list Q); tp_raw : list nat; tp_chroma : list nat;
                     raw : mscores; chroma : mscores }.
Definition metrics_trace (hz2midi : Q -> Q) (w : Q) (ref_time : list Q) (ref_freqs : list (list Q))
                         (est_time : list Q) (est_freqs : list (list Q)) : res mp_trace :=
  _ <- validate ref_time ref_freqs est_time est_freqs ;;
  let rs := resample_needed est_time ref_time in
  est_freqs' <- (if rs then resample_multipitch est_time est_freqs ref_time else Ok est_freqs) ;;
  let ref_midi := frequencies_to_midi hz2midi ref_freqs in
  let est_midi := frequencies_to_midi hz2midi est_freqs' in
  let ref_chroma := midi_to_chroma ref_midi in
  let est_chroma := midi_to_chroma est_midi in
  let n_ref := compute_num_freqs ref_midi in
  let n_est := compute_num_freqs est_midi in
  tp <- compute_num_true_positives w false ref_midi est_midi ;;
  tpc <- compute_num_true_positives w true ref_chroma est_chroma ;;
  Ok {| resampled := rs; est_used := est_freqs'; tp_raw := tp; tp_chroma := tpc;
        raw := scores_of tp n_ref n_est; chroma := scores_of tpc n_ref n_est |}.
(* multipitch.metrics(..., window=w): the 14 returned numbers in order (default window 0.5) *)
Definition metrics (hz2midi : Q -> Q) (w : Q) ref_time ref_freqs est_time est_freqs : res (list Q) :=
  t <- metrics_trace hz2midi w ref_time ref_freqs est_time est_freqs ;;
  Ok (scores_list (raw t) ++ scores_list (chroma t)).
Definition default_window : Q := 1 # 2.

(* multipitch.evaluate: an OrderedDict with these keys, in this order *)
Definition evaluate_keys : list str :=
  ([ [80;114;101;99;105;115;105;111;110]; [82;101;99;97;108;108]; [65;99;99;117;114;97;99;121];
    [83;117;98;115;116;105;116;117;116;105;111;110;32;69;114;114;111;114]; [77;105;115;115;32;69;114;114;111;114];
    [70;97;108;115;101;32;65;108;97;114;109;32;69;114;114;111;114]; [84;111;116;97;108;32;69;114;114;111;114];
    [67;104;114;111;109;97;32;80;114;101;99;105;115;105;111;110]; [67;104;114;111;109;97;32;82;101;99;97;108;108];
    [67;104;114;111;109;97;32;65;99;99;117;114;97;99;121];
    [67;104;114;111;109;97;32;83;117;98;115;116;105;116;117;116;105;111;110;32;69;114;114;111;114];
    [67;104;114;111;109;97;32;77;105;115;115;32;69;114;114;111;114];
    [67;104;114;111;109;97;32;70;97;108;115;101;32;65;108;97;114;109;32;69;114;114;111;114];
    [67;104;114;111;109;97;32;84;111;116;97;108;32;69;114;114;111;114] ])%nat.
Definition evaluate (hz2midi : Q -> Q) (w : Q) ref_time ref_freqs est_time est_freqs : res (list (str * Q)) :=
  l <- metrics hz2midi w ref_time ref_freqs est_time est_freqs ;; Ok (combine evaluate_keys l).
