(* A small deep-embedded Python / NumPy / SciPy sub-language for the internals of mir_eval/hierarchy.py
   (_round, _hierarchy_bounds, _count_inversions, _compare_frame_rankings, _gauc, _lca, _meet): values, operators with the
   CPython / NumPy semantics of exactly the operations these functions use, and an environment-based evaluator (the
   architecture of Model/PyStr.v and Model/PatExp.v, neither of which is modified). Definitions only.

   translator/hierfuncs.py maps the syntax of each function body to an [fdef] (Gen/HierGen.v); what the syntax means on
   each type of value is decided HERE; Proofs/HierTie*.v prove each generated program equal to the hand-written model
   function of Model/Hierarchy.v.

   Reading of Python
   * Numbers. A float is an exact rational (DESIGN 2.1). Python scalars and NumPy scalars are NOT distinguished ([VInt],
     [VFloat]): they agree on + - *, comparisons, truth, float() and on / by a non-zero divisor; / by zero (where Python
     raises and NumPy gives inf / nan with a warning) is unmodelled ([UNM]), and so is np.mod with a non-positive modulus.
   * Integer arrays ([VNVec]) hold NON-NEGATIVE integers of unbounded size: rows of the uint8 LCA / meet matrices, the
     int64 counts / positions of np.unique, the indices of np.argsort. (uint8 wrap-around at 256 levels is outside the
     model, as in Model/Hierarchy.v.) Float arrays: [VQVec] (1-d), [VQMat] (2-d, row-major); integer matrices with
     possibly negative entries ([VZMat]: frame indices after astype(int)).
   * A 2-d boolean array (np.equal.outer, np.triu) is its shape and its entries ([VBMat r c f]); np.where lists the True cells in
     row-major order.
   * A scipy.sparse matrix of non-negative integers is the dense list of its rows ([VSp], shape = (number of rows,
     length of the first row)); [VArr2] is the ndarray .toarray() returns.
   * np.argsort returns SOME permutation that sorts its argument (the default quicksort is not stable): the evaluator
     takes it as a parameter [argsort]; a tie has to hold for every such function.
   * Iterators (itertools.chain / combinations / tee, zip) are read as the list of what they yield; the translator
     accepts them only where each is consumed at most once.
   * collections.defaultdict(lambda: c) with an immutable constant c: an association list with integer keys plus the
     default ([VDDict]); d[k] on a missing key returns c (that Python also inserts it cannot be observed: the translator
     accepts the dictionary only under d[k] and d[k] = v).
   * [UNM] ("unmodelled") is the result of every operation on operands outside the cases written below; a tie theorem can
     only hold if the program never reaches such a case.
   * Locals, in-place writes, calls: as in Model/PatExp.v. x[i] = v and x.append(v) are emitted by the translator only
     for names all of whose bindings create a fresh object and which reach no other name, so that rebinding the local is
     an exact reading. Calls of other functions are opaque ([ECall]): arguments are bound to the callee's parameters as
     Python does (signature read from the source in the same run); the callee receives one value per parameter.
   * `continue` ([SContinue], emitted only inside a loop body) goes on with the next element / the next test; no `break`.
   * A while loop runs under the evaluator's [fuel] (iterations); running out of fuel is [UNM]. *)
From Coq Require Import String.
From Coq Require Import List Bool Arith ZArith QArith Qabs Qminmax Qround.
From ME Require Import Model.Prelude Model.Events.
Import ListNotations.
Local Open Scope nat_scope.

Inductive out (A : Type) := OK (a : A) | EXN (e : exn) | UNM.
Arguments OK {A}. Arguments EXN {A}. Arguments UNM {A}.
Definition obind {A B} (r : out A) (f : A -> out B) : out B :=
  match r with OK a => f a | EXN e => EXN e | UNM => UNM end.
Notation "x <~ r ;; k" := (obind r (fun x => k)) (at level 61, r at next level, right associativity).
Definition of_opt {A} (o : option A) : out A := match o with Some a => OK a | None => UNM end.
Fixpoint omap {A B} (f : A -> option B) (l : list A) : option (list B) :=
  match l with
  | [] => Some []
  | a :: t => match f a, omap f t with Some b, Some bs => Some (b :: bs) | _, _ => None end
  end.

Inductive pv :=
| VNone | VBool (b : bool) | VInt (z : Z) | VFloat (q : Q)
| VStr (s : str)
| VList (l : list pv) | VTup (l : list pv)
| VNVec (l : list nat)                          (* 1-d integer array, entries >= 0 *)
| VQVec (l : list Q)                            (* 1-d float64 array *)
| VQMat (rows : list (list Q))                  (* 2-d float64 array *)
| VZMat (rows : list (list Z))                  (* 2-d integer array *)
| VSp (M : list (list nat))                     (* scipy.sparse matrix (lil / csr), entries >= 0 *)
| VArr2 (M : list (list nat))                   (* 2-d integer ndarray, entries >= 0 *)
| VSlice (lo hi : option Z)                     (* slice(lo, hi) *)
| VDDict (d : pv) (items : list (Z * pv))       (* defaultdict(lambda: d) with integer keys *)
| VBMat (r c : nat) (f : nat -> nat -> bool)    (* 2-d boolean array of shape (r, c): its entries *)
| VTy (t : string)                              (* the type objects int, float, np.uint8 (dtype arguments) *)
| VUnbound.

(* ------------------------------------------------------------------ numbers *)
Definition zq (z : Z) : Q := inject_Z z.
Definition zn (n : nat) : pv := VInt (Z.of_nat n).
Definition as_int (v : pv) : option Z := match v with VInt z => Some z | _ => None end.
Definition as_num (v : pv) : option Q := match v with VInt z => Some (zq z) | VFloat q => Some q | _ => None end.

(* ------------------------------------------------------------------ indices and slices *)
(* Python index -> position: negative indices count from the end; None = IndexError *)
Definition norm_idx (i : Z) (n : nat) : option nat :=
  if ((0 <=? i) && (i <? Z.of_nat n))%Z then Some (Z.to_nat i)
  else if ((i <? 0) && (- Z.of_nat n <=? i))%Z then Some (Z.to_nat (Z.of_nat n + i)) else None.
(* slice normalisation (step 1) of one bound against a dimension of length n *)
Definition norm_bound (n : nat) (z : Z) : nat :=
  if (z <? 0)%Z then Z.to_nat (Z.max 0 (z + Z.of_nat n)) else Nat.min (Z.to_nat z) n.
Definition slice_lo (n : nat) (lo : option Z) : nat := match lo with None => 0 | Some z => norm_bound n z end.
Definition slice_hi (n : nat) (hi : option Z) : nat := match hi with None => n | Some z => norm_bound n z end.
Definition py_slice {A} (lo hi : option Z) (l : list A) : list A :=
  let n := List.length l in firstn (slice_hi n hi - slice_lo n lo) (skipn (slice_lo n lo) l).
(* a[idx] for an index array *)
Definition fancy (l idx : list nat) : out (list nat) :=
  if forallb (fun i => i <? List.length l) idx then OK (map (fun i => nth i l 0) idx) else EXN IndexError.

(* ------------------------------------------------------------------ np.unique *)
(* sorted distinct values with their multiplicities *)
Fixpoint uq_insert (x : nat) (l : list (nat * nat)) : list (nat * nat) :=
  match l with
  | [] => [(x, 1)]
  | (v, c) :: t => if x <? v then (x, 1) :: l else if x =? v then (v, S c) :: t else (v, c) :: uq_insert x t
  end.
Definition uq_counts (l : list nat) : list (nat * nat) := fold_right uq_insert [] l.
(* index of the first occurrence *)
Fixpoint first_index (v : nat) (l : list nat) : nat :=
  match l with [] => 0 | x :: t => if x =? v then 0 else S (first_index v t) end.
(* itertools.combinations(l, 2) *)
Fixpoint combs {A} (l : list A) : list (A * A) :=
  match l with [] => [] | x :: t => map (pair x) t ++ combs t end.
(* zip *)
Fixpoint transpose_min (ls : list (list pv)) : list (list pv) :=
  match ls with
  | [] => []
  | [l] => map (fun x => [x]) l
  | l :: rest => map (fun p => fst p :: snd p) (combine l (transpose_min rest))
  end.

(* ------------------------------------------------------------------ defaultdict *)
Fixpoint dget (items : list (Z * pv)) (k : Z) : option pv :=
  match items with [] => None | (k', v) :: t => if (k' =? k)%Z then Some v else dget t k end.
Fixpoint dset (items : list (Z * pv)) (k : Z) (v : pv) : list (Z * pv) :=
  match items with
  | [] => [(k, v)]
  | (k', w) :: t => if (k' =? k)%Z then (k', v) :: t else (k', w) :: dset t k v
  end.

(* ------------------------------------------------------------------ matrices *)
Definition mshape (M : list (list nat)) : nat * nat := (List.length M, match M with [] => 0 | r :: _ => List.length r end).
Definition in_rng (lo hi i : nat) : bool := (lo <=? i) && (i <? hi).
Fixpoint mapi_from {A B} (k : nat) (f : nat -> A -> B) (l : list A) : list B :=
  match l with [] => [] | x :: t => f k x :: mapi_from (S k) f t end.
(* M[r0:r1, c0:c1] = v (bounds already normalised) *)
Definition assign_block (M : list (list nat)) (r0 r1 c0 c1 v : nat) : list (list nat) :=
  mapi_from 0 (fun i row => if in_rng r0 r1 i then mapi_from 0 (fun j x => if in_rng c0 c1 j then v else x) row else row) M.
(* int(x), ndarray.astype(int): truncation toward zero *)
Definition qtrunc (x : Q) : Z := if Qle_bool 0%Q x then Qfloor x else Qceiling x.

(* ------------------------------------------------------------------ operators *)
Inductive binop := Add | Sub | Mul | Div.
Inductive cmpop := Eq | Ne | Lt | Le | Gt | Ge.

Definition truth (v : pv) : out bool :=
  match v with
  | VNone => OK false | VBool b => OK b
  | VInt z => OK (negb (Z.eqb z 0))
  | VFloat q => OK (negb (qeqb q 0%Q))
  | VList l | VTup l => OK (negb (Nat.eqb (List.length l) 0))
  | _ => UNM
  end.

Definition zarith (op : binop) (x y : Z) : option Z :=
  match op with Add => Some (x + y)%Z | Sub => Some (x - y)%Z | Mul => Some (x * y)%Z | Div => None end.
Definition qarith (op : binop) (x y : Q) : option Q :=
  match op with
  | Add => Some (x + y)%Q | Sub => Some (x - y)%Q | Mul => Some (x * y)%Q
  | Div => if qeqb y 0%Q then None else Some (x / y)%Q end.
Definition num_op (op : binop) (a b : pv) : out pv :=
  match a with
  | VInt x => match b with
              | VInt y => match op with
                          | Div => of_opt (option_map VFloat (qarith Div (zq x) (zq y)))
                          | _ => of_opt (option_map VInt (zarith op x y)) end
              | VFloat y => of_opt (option_map VFloat (qarith op (zq x) y))
              | _ => UNM end
  | VFloat x => match b with
                | VInt y => of_opt (option_map VFloat (qarith op x (zq y)))
                | VFloat y => of_opt (option_map VFloat (qarith op x y))
                | _ => UNM end
  | _ => UNM
  end.
Fixpoint zipq (f : Q -> Q -> Q) (a b : list Q) : list Q :=
  match a, b with x :: a', y :: b' => f x y :: zipq f a' b' | _, _ => [] end.
Definition same_shape (a b : list (list Q)) : bool :=
  Nat.eqb (List.length a) (List.length b)
  && forallb (fun p => Nat.eqb (List.length (fst p)) (List.length (snd p))) (combine a b).
Definition bin_op (op : binop) (a b : pv) : out pv :=
  match a with
  | VQMat x =>
      match b with
      | VQMat y => match op with
                   | Sub => if same_shape x y then OK (VQMat (map (fun p => zipq Qminus (fst p) (snd p)) (combine x y))) else UNM
                   | _ => UNM end
      | VFloat y => match op with
                    | Div => if qeqb y 0%Q then UNM else OK (VQMat (map (map (fun t => (t / y)%Q)) x))
                    | _ => UNM end
      | _ => UNM end
  | _ => num_op op a b
  end.

Definition qcmp (op : cmpop) (x y : Q) : bool :=
  match op with Eq => qeqb x y | Ne => negb (qeqb x y) | Lt => qltb x y | Le => qleb x y
  | Gt => qltb y x | Ge => qleb y x end.
Definition zcmp (op : cmpop) (x y : Z) : bool :=
  match op with Eq => Z.eqb x y | Ne => negb (Z.eqb x y) | Lt => Z.ltb x y | Le => Z.leb x y
  | Gt => Z.ltb y x | Ge => Z.leb y x end.
Fixpoint zlist_eqb (a b : list Z) : bool :=
  match a, b with [] , [] => true | x :: a', y :: b' => Z.eqb x y && zlist_eqb a' b' | _, _ => false end.
Definition cmp_op (op : cmpop) (a b : pv) : out pv :=
  match a with
  | VInt x => match b with
              | VInt y => OK (VBool (zcmp op x y))
              | VFloat y => OK (VBool (qcmp op (zq x) y))
              | _ => UNM end
  | VFloat x => match b with
                | VInt y => OK (VBool (qcmp op x (zq y)))
                | VFloat y => OK (VBool (qcmp op x y))
                | _ => UNM end
  | VTup l1 => match b with                                  (* tuples of ints: shapes *)
               | VTup l2 => match omap as_int l1, omap as_int l2 with
                            | Some x, Some y => match op with
                                                | Eq => OK (VBool (zlist_eqb x y))
                                                | Ne => OK (VBool (negb (zlist_eqb x y)))
                                                | _ => UNM end
                            | _, _ => UNM end
               | _ => UNM end
  | _ => UNM
  end.

Definition seq_item (l : list pv) (i : pv) : out pv :=       (* list / tuple *)
  match i with
  | VInt z => match norm_idx z (List.length l) with Some n => of_opt (nth_error l n) | None => EXN IndexError end
  | _ => UNM end.
Definition get_item (a i : pv) : out pv :=
  match a with
  | VTup l => seq_item l i
  | VList l =>
      match i with
      | VSlice lo hi => OK (VList (py_slice lo hi l))
      | _ => seq_item l i
      end
  | VNVec l =>
      match i with
      | VInt z => match norm_idx z (List.length l) with Some n => OK (zn (nth n l 0)) | None => EXN IndexError end
      | VSlice lo hi => OK (VNVec (py_slice lo hi l))
      | VNVec idx => r <~ fancy l idx ;; OK (VNVec r)
      | _ => UNM end
  | VZMat m =>
      match i with
      | VInt z => match norm_idx z (List.length m) with
                  | Some n => OK (VList (map VInt (nth n m [])))        (* only ever unpacked / listed *)
                  | None => EXN IndexError end
      | _ => UNM end
  | VSp m =>
      match i with
      | VTup [VInt q; VSlice lo hi] =>                                  (* m[q, lo:hi]: a 1 x k sparse matrix *)
          match norm_idx q (List.length m) with
          | Some n => OK (VSp [py_slice lo hi (nth n m [])])
          | None => EXN IndexError end
      | _ => UNM end
  | VDDict d items =>
      match i with
      | VInt k => OK (match dget items k with Some v => v | None => d end)
      | _ => UNM end
  | _ => UNM
  end.
(* a[i] = v on a container a (the translator guarantees that a is not shared) *)
Definition set_item (a i v : pv) : out pv :=
  match a with
  | VDDict d items => match i with VInt k => OK (VDDict d (dset items k v)) | _ => UNM end
  | VSp m =>                                                 (* lil_matrix: m[r0:r1, c0:c1] = level *)
      match i with
      | VTup [VSlice rlo rhi; VSlice clo chi] =>
          match v with
          | VInt z =>
              if (z <? 0)%Z then UNM else
              let nr := List.length m in let nc := snd (mshape m) in
              OK (VSp (assign_block m (slice_lo nr rlo) (slice_hi nr rhi) (slice_lo nc clo) (slice_hi nc chi) (Z.to_nat z)))
          | _ => UNM end
      | _ => UNM end
  | _ => UNM
  end.
(* the elements a for loop / an unpacking / a constructor sees *)
Definition iter_elems (v : pv) : out (list pv) :=
  match v with
  | VList l | VTup l => OK l
  | VNVec l => OK (map zn l)
  | VQVec l => OK (map VFloat l)
  | VQMat m => OK (map VQVec m)
  | VZMat m => OK (map (fun r => VList (map VInt r)) m)
  | _ => UNM
  end.
Fixpoint iter_all (l : list pv) : out (list (list pv)) :=
  match l with [] => OK [] | v :: t => a <~ iter_elems v ;; r <~ iter_all t ;; OK (a :: r) end.
Fixpoint enum_from (n : Z) (l : list pv) : list pv :=
  match l with [] => [] | v :: t => VTup [VInt n; v] :: enum_from (n + 1)%Z t end.

Definition lookup_kw (k : string) (kws : list (string * pv)) : option pv :=
  match find (fun kv => String.eqb k (fst kv)) kws with Some kv => Some (snd kv) | None => None end.
Definition is_nil {A} (l : list A) : bool := match l with [] => true | _ => false end.
Fixpoint sum_vals (acc : pv) (l : list pv) : out pv :=
  match l with [] => OK acc | v :: t => a <~ num_op Add acc v ;; sum_vals a t end.
Definition as_qrows (v : pv) : option (list (list Q)) :=
  match v with
  | VQMat m => Some m
  | VList l => omap (fun r => match r with VList c | VTup c => omap as_num c | VQVec c => Some c | _ => None end) l
  | _ => None end.

(* a sequence of non-negative integers: an integer array or a Python list of ints *)
Definition as_nvec (v : pv) : option (list nat) :=
  match v with
  | VNVec l => Some l
  | VList l => omap (fun x => match x with VInt z => if (z <? 0)%Z then None else Some (Z.to_nat z) | _ => None end) l
  | _ => None end.
(* the True cells of a boolean matrix in row-major order (np.where / np.nonzero) *)
Definition true_cells (r c : nat) (f : nat -> nat -> bool) : list (nat * nat) :=
  filter (fun ij => f (fst ij) (snd ij)) (list_prod (seq 0 r) (seq 0 c)).

(* builtins, methods (".name", the receiver first) and NumPy / SciPy / itertools functions f(args, **kws) *)
Section Builtins.
Variable argsort : list nat -> list nat.
Local Open Scope string_scope.
Definition builtin (f : string) (args : list pv) (kws : list (string * pv)) : out pv :=
  if f =? "len" then
    match args, kws with
    | [VList l], [] | [VTup l], [] => OK (zn (List.length l))
    | [VNVec l], [] => OK (zn (List.length l))
    | [VQVec l], [] => OK (zn (List.length l))
    | [VQMat m], [] => OK (zn (List.length m))
    | _, _ => UNM end
  else if f =? "float" then
    match args, kws with [v], [] => of_opt (option_map VFloat (as_num v)) | _, _ => UNM end
  else if f =? "int" then
    match args, kws with
    | [VInt z], [] => OK (VInt z)
    | [VFloat q], [] => OK (VInt (qtrunc q))
    | _, _ => UNM end
  else if f =? "min" then
    match args, kws with
    | [VInt x; VInt y], [] => OK (VInt (Z.min x y))
    | [VList l], [] =>                                          (* of a list of floats: the first smallest *)
        match omap (fun v => match v with VFloat q => Some q | _ => None end) l with
        | Some (x :: t) => OK (VFloat (fold_left Qmin t x))
        | Some [] => EXN ValueError
        | None => UNM end
    | _, _ => UNM end
  else if f =? "max" then
    match args, kws with
    | [VInt x; VInt y], [] => OK (VInt (Z.max x y))
    | [VList l], [] =>
        match omap (fun v => match v with VFloat q => Some q | _ => None end) l with
        | Some (x :: t) => OK (VFloat (fold_left Qmax t x))
        | Some [] => EXN ValueError
        | None => UNM end
    | _, _ => UNM end
  else if f =? "sum" then
    match args, kws with [VList l], [] => sum_vals (VInt 0) l | _, _ => UNM end
  else if f =? "list" then
    match args, kws with [v], [] => els <~ iter_elems v ;; OK (VList els) | _, _ => UNM end
  else if f =? "range" then
    match args, kws with
    | [VInt n], [] => OK (VList (map zn (seq 0 (Z.to_nat n))))
    | _, _ => UNM end
  else if f =? "enumerate" then
    match args, kws with
    | [v; VInt k], [] => els <~ iter_elems v ;; OK (VList (enum_from k els))
    | [v], [] => els <~ iter_elems v ;; OK (VList (enum_from 0 els))
    | _, _ => UNM end
  else if f =? "zip" then
    match kws with
    | [] => match args with
            | [] => UNM
            | _ => ls <~ iter_all args ;; OK (VList (map VTup (transpose_min ls))) end
    | _ => UNM end
  else if f =? "zip*" then                                    (* zip( *x ) *)
    match args, kws with
    | [v], [] => els <~ iter_elems v ;; ls <~ iter_all els ;; OK (VList (map VTup (transpose_min ls)))
    | _, _ => UNM end
  else if f =? "slice*" then                                  (* slice( *x ) *)
    match args, kws with
    | [v], [] => els <~ iter_elems v ;;
                 match els with
                 | [VInt hi] => OK (VSlice None (Some hi))
                 | [VInt lo; VInt hi] => OK (VSlice (Some lo) (Some hi))
                 | _ => UNM end
    | _, _ => UNM end
  else if f =? "np.equal.outer" then
    match args, kws with
    | [a; b], [] => match as_nvec a, as_nvec b with
                    | Some x, Some y => OK (VBMat (List.length x) (List.length y) (fun i j => Nat.eqb (nth i x 0) (nth j y 0)))
                    | _, _ => UNM end
    | _, _ => UNM end
  else if f =? "np.triu" then
    match args, kws with
    | [VBMat r c g], [] => OK (VBMat r c (fun i j => Nat.leb i j && g i j))
    | _, _ => UNM end
  else if f =? "np.where" then
    match args, kws with
    | [VBMat r c g], [] => OK (VTup [VNVec (map fst (true_cells r c g)); VNVec (map snd (true_cells r c g))])
    | _, _ => UNM end
  else if f =? "scipy.sparse.csr_matrix" then
    match args, kws with [VSp m], [] => OK (VSp m) | _, _ => UNM end
  else if f =? "slice" then
    match args, kws with
    | [VInt hi], [] => OK (VSlice None (Some hi))
    | [VInt lo; VInt hi], [] => OK (VSlice (Some lo) (Some hi))
    | _, _ => UNM end
  else if f =? "itertools.chain*" then                       (* itertools.chain( *x ) *)
    match args, kws with
    | [v], [] => els <~ iter_elems v ;; ls <~ iter_all els ;; OK (VList (concat ls))
    | _, _ => UNM end
  else if f =? "itertools.combinations" then
    match args, kws with
    | [v; VInt 2%Z], [] => els <~ iter_elems v ;; OK (VList (map (fun p => VTup [fst p; snd p]) (combs els)))
    | _, _ => UNM end
  else if f =? "itertools.tee" then
    match args, kws with
    | [VList l], [] => OK (VTup [VList l; VList l])
    | _, _ => UNM end
  else if f =? "collections.defaultdict" then                (* collections.defaultdict(lambda: c), c an int or a slice *)
    match args, kws with
    | [VInt z], [] => OK (VDDict (VInt z) [])
    | [VSlice lo hi], [] => OK (VDDict (VSlice lo hi) [])
    | _, _ => UNM end
  else if f =? "np.argsort" then
    match args, kws with [VNVec l], [] => OK (VNVec (argsort l)) | _, _ => UNM end
  else if f =? "np.unique" then
    match args, kws with
    | [VNVec l], [(k, VBool true)] =>
        if k =? "return_counts" then
          let u := uq_counts l in OK (VTup [VNVec (map fst u); VNVec (map snd u)])
        else UNM
    | [VNVec l], [(k1, VBool true); (k2, VBool true)] =>
        if (k1 =? "return_index") && (k2 =? "return_counts") then
          let u := uq_counts l in
          OK (VTup [VNVec (map fst u); VNVec (map (fun p => first_index (fst p) l) u); VNVec (map snd u)])
        else UNM
    | _, _ => UNM end
  else if f =? "np.sum" then
    match args, kws with [VNVec l], [] => OK (zn (fold_right Nat.add 0 l)) | _, _ => UNM end
  else if f =? "np.array_equal" then                          (* same shape and same entries *)
    match args, kws with
    | [VNVec x; VNVec y], [] => OK (VBool (if list_eq_dec Nat.eq_dec x y then true else false))
    | _, _ => UNM end
  else if f =? ".any" then
    match args, kws with [VNVec l], [] => OK (VBool (existsb (fun x => negb (Nat.eqb x 0)) l)) | _, _ => UNM end
  else if f =? "np.concatenate" then
    match args, kws with [VTup [VNVec a; VNVec b]], [] => OK (VNVec (a ++ b)) | _, _ => UNM end
  else if f =? "np.mod" then
    match args, kws with
    | [t; VFloat m], [] =>
        if qltb 0%Q m then
          match t with
          | VQMat x => OK (VQMat (map (map (fun u => qmod u m)) x))
          | _ => of_opt (option_map (fun u => VFloat (qmod u m)) (as_num t)) end
        else UNM
    | _, _ => UNM end
  else if f =? "np.asarray" then
    match args, kws with
    | [VQMat m], [] => OK (VQMat m)                            (* already an array *)
    | [v], [] => match as_qrows v with
                 | Some (r :: rs) =>                          (* a non-empty list of rows of equal length *)
                     if forallb (fun r' => Nat.eqb (List.length r') (List.length r)) rs then OK (VQMat (r :: rs)) else UNM
                 | _ => UNM end
    | _, _ => UNM end
  else if f =? "scipy.sparse.lil_matrix" then
    match args, kws with
    | [VTup [VInt r; VInt c]], [(k, VTy t)] =>
        if (k =? "dtype") && (t =? "np.uint8") then
          if ((0 <=? r) && (0 <=? c))%Z then OK (VSp (repeat (repeat 0 (Z.to_nat c)) (Z.to_nat r))) else EXN ValueError
        else UNM
    | _, _ => UNM end
  else if f =? ".shape" then
    match args, kws with
    | [VSp m], [] => OK (VTup [zn (fst (mshape m)); zn (snd (mshape m))])
    | _, _ => UNM end
  else if f =? ".toarray" then
    match args, kws with [VSp m], [] => OK (VArr2 m) | _, _ => UNM end
  else if f =? ".tocsr" then
    match args, kws with [VSp m], [] => OK (VSp m) | _, _ => UNM end
  else if f =? ".ravel" then
    match args, kws with [VArr2 m], [] => OK (VNVec (concat m)) | _, _ => UNM end
  else if f =? ".astype" then
    match args, kws with
    | [VQMat m; VTy t], [] => if t =? "int" then OK (VZMat (map (map qtrunc) m)) else UNM
    | _, _ => UNM end
  else UNM.
End Builtins.

(* ------------------------------------------------------------------ syntax *)
Inductive exp :=
| ELoc (x : string) | ETy (t : string)
| ENone | EBool (b : bool) | EInt (z : Z) | EFloat (q : Q) | EStr (s : str)
| ETuple (l : list exp) | EList (l : list exp)
| ECmp (op : cmpop) (a b : exp)
| EIsNone (a : exp)
| ENot (a : exp) | EAnd (a b : exp) | EOr (a b : exp)
| EBin (op : binop) (a b : exp)
| EIndex (a i : exp)
| ESlice (lo hi : option exp)
| EBuiltin (f : string) (pos : list exp) (kws : list (string * exp))
| ECall (f : string) (pos : list exp) (kws : list (string * exp))
| EComp (body : exp) (gens : list (list string * exp * list exp)).    (* [body for x.. in it1 if c.. for ...] *)

Inductive stmt :=
| SAssign (x : string) (e : exp)
| SUnpack (xs : list string) (e : exp)              (* x1, ..., xk = e   (k >= 2) *)
| SAug (x : string) (op : binop) (e : exp)          (* x op= e, x holding a number *)
| SSetItem (x : string) (i e : exp)                 (* x[i] = e,   x a local that holds a fresh, unshared object *)
| SAppend (x : string) (e : exp)                    (* x.append(e), same condition *)
| SIf (c : exp) (a b : list stmt)
| SFor (xs : list string) (it : exp) (body : list stmt)
| SWhile (c : exp) (body : list stmt)
| SReturn (e : exp)
| SRaise (e : exn)
| SContinue
| SPass.

Record fdef := { f_params : list (string * option exp);
                 f_locals : list string;
                 f_body : list stmt }.

(* ------------------------------------------------------------------ binding of call arguments (as Model/PatExp.v) *)
Definition env := list (string * pv).
Fixpoint lookup (x : string) (en : env) : option pv :=
  match en with [] => None | (y, v) :: t => if String.eqb x y then Some v else lookup x t end.
Fixpoint update (x : string) (v : pv) (en : env) : option env :=
  match en with
  | [] => None
  | (y, w) :: t => if String.eqb x y then Some ((y, v) :: t) else option_map (cons (y, w)) (update x v t)
  end.
Fixpoint mem_name (p : string) (l : list string) : bool :=
  match l with [] => false | k :: t => String.eqb p k || mem_name p t end.
Fixpoint nodup_names (l : list string) : bool :=
  match l with [] => true | k :: t => negb (mem_name k t) && nodup_names t end.
Definition sigv := list (string * option pv).
Fixpoint bind_params (ps : sigv) (pos : list pv) (kws : list (string * pv)) : option (list pv) :=
  match ps with
  | [] => match pos with [] => Some [] | _ => None end
  | (p, d) :: ps' =>
      match pos with
      | a :: pos' => match lookup p kws with
                     | Some _ => None
                     | None => option_map (cons a) (bind_params ps' pos' kws) end
      | [] => match lookup p kws, d with
              | Some a, _ => option_map (cons a) (bind_params ps' [] kws)
              | None, Some dv => option_map (cons dv) (bind_params ps' [] kws)
              | None, None => None
              end
      end
  end.
Definition bind_args (ps : sigv) (pos : list pv) (kws : list (string * pv)) : option (list pv) :=
  if forallb (fun kw => mem_name (fst kw) (map fst ps)) kws && nodup_names (map fst kws)
  then bind_params ps pos kws else None.
Definition const_val (e : exp) : option pv :=
  match e with
  | ENone => Some VNone | EBool b => Some (VBool b) | EInt z => Some (VInt z) | EFloat q => Some (VFloat q)
  | EStr s => Some (VStr s)
  | _ => None
  end.
Fixpoint sig_of (ps : list (string * option exp)) : option sigv :=
  match ps with
  | [] => Some []
  | (p, None) :: t => option_map (cons (p, None)) (sig_of t)
  | (p, Some d) :: t => match const_val d, sig_of t with
                        | Some v, Some r => Some ((p, Some v) :: r)
                        | _, _ => None end
  end.
Fixpoint sigs_of (l : list (string * list (string * option exp))) : list (string * option sigv) :=
  match l with [] => [] | (n, ps) :: t => (n, sig_of ps) :: sigs_of t end.
Definition fun_params (funs : list (string * fdef)) : list (string * list (string * option exp)) :=
  map (fun nf => (fst nf, f_params (snd nf))) funs.

(* ------------------------------------------------------------------ evaluation *)
Section Eval.
Variable argsort : list nat -> list nat.               (* np.argsort on integer vectors *)
Variable fuel : nat.                                   (* iterations allowed to a while loop *)
Variable sigs : list (string * option sigv).           (* signatures of the functions that may be called *)
Variable ext : string -> list pv -> out pv.            (* their meaning: one value per parameter *)

Fixpoint assoc_sig (f : string) (l : list (string * option sigv)) : option sigv :=
  match l with [] => None | (g, s) :: t => if String.eqb f g then s else assoc_sig f t end.
Definition lookup_sig (f : string) : option sigv := assoc_sig f sigs.
Definition call (f : string) (ps : list pv) (ks : list (string * pv)) : out pv :=
  match lookup_sig f with
  | Some sg => match bind_args sg ps ks with Some vs => ext f vs | None => UNM end
  | None => UNM
  end.
Definition concatM (l : list (out (list pv))) : out (list pv) :=
  fold_right (fun r acc => a <~ r ;; b <~ acc ;; OK (a ++ b)) (OK []) l.
Definition read_loc (x : string) (en : env) : out pv :=
  match lookup x en with Some VUnbound => EXN OtherExn | Some v => OK v | None => UNM end.
(* the variables of a comprehension live in front of the environment *)
Definition comp_bind (xs : list string) (el : pv) (en : env) : out env :=
  match xs with
  | [x] => OK ((x, el) :: en)
  | _ => els <~ iter_elems el ;;
         if Nat.eqb (List.length els) (List.length xs) then OK (combine xs els ++ en) else EXN ValueError
  end.

Fixpoint eval (en : env) (e : exp) {struct e} : out pv :=
  match e with
  | ELoc x => read_loc x en
  | ETy t => OK (VTy t)
  | ENone => OK VNone | EBool b => OK (VBool b) | EInt z => OK (VInt z) | EFloat q => OK (VFloat q) | EStr s => OK (VStr s)
  | ETuple l => vs <~ (fix evs (l : list exp) : out (list pv) :=
                         match l with [] => OK [] | a :: t => v <~ eval en a ;; r <~ evs t ;; OK (v :: r) end) l ;;
                OK (VTup vs)
  | EList l => vs <~ (fix evs (l : list exp) : out (list pv) :=
                        match l with [] => OK [] | a :: t => v <~ eval en a ;; r <~ evs t ;; OK (v :: r) end) l ;;
               OK (VList vs)
  | ECmp op a b => x <~ eval en a ;; y <~ eval en b ;; cmp_op op x y
  | EIsNone a => x <~ eval en a ;; OK (VBool (match x with VNone => true | _ => false end))
  | ENot a => x <~ eval en a ;; t <~ truth x ;; OK (VBool (negb t))
  | EAnd a b => x <~ eval en a ;; t <~ truth x ;; if t then eval en b else OK x
  | EOr a b => x <~ eval en a ;; t <~ truth x ;; if t then OK x else eval en b
  | EBin op a b => x <~ eval en a ;; y <~ eval en b ;; bin_op op x y
  | EIndex a i => x <~ eval en a ;; y <~ eval en i ;; get_item x y
  | ESlice lo hi =>
      l <~ match lo with None => OK None | Some a => v <~ eval en a ;; of_opt (option_map Some (as_int v)) end ;;
      h <~ match hi with None => OK None | Some a => v <~ eval en a ;; of_opt (option_map Some (as_int v)) end ;;
      OK (VSlice l h)
  | EBuiltin f pos kws =>
      ps <~ (fix evs (l : list exp) : out (list pv) :=
               match l with [] => OK [] | a :: t => v <~ eval en a ;; r <~ evs t ;; OK (v :: r) end) pos ;;
      ks <~ (fix evk (l : list (string * exp)) : out (list (string * pv)) :=
               match l with [] => OK [] | (k, a) :: t => v <~ eval en a ;; r <~ evk t ;; OK ((k, v) :: r) end) kws ;;
      builtin argsort f ps ks
  | ECall f pos kws =>
      ps <~ (fix evs (l : list exp) : out (list pv) :=
               match l with [] => OK [] | a :: t => v <~ eval en a ;; r <~ evs t ;; OK (v :: r) end) pos ;;
      ks <~ (fix evk (l : list (string * exp)) : out (list (string * pv)) :=
               match l with [] => OK [] | (k, a) :: t => v <~ eval en a ;; r <~ evk t ;; OK ((k, v) :: r) end) kws ;;
      call f ps ks
  | EComp body gens =>
      vs <~ (fix gen (gs : list (list string * exp * list exp)) (en : env) {struct gs} : out (list pv) :=
               match gs with
               | [] => v <~ eval en body ;; OK [v]
               | (xs, it, conds) :: gs' =>
                   v <~ eval en it ;; els <~ iter_elems v ;;
                   concatM (map (fun el =>
                     en' <~ comp_bind xs el en ;;
                     keep <~ (fix all (cs : list exp) : out bool :=
                                match cs with
                                | [] => OK true
                                | c :: ct => cv <~ eval en' c ;; t <~ truth cv ;; if t then all ct else OK false
                                end) conds ;;
                     if keep then gen gs' en' else OK []) els)
               end) gens en ;;
      OK (VList vs)
  end.

(* ---- statements ---- *)
Inductive sres := SNorm (en : env) | SRet (v : pv) | SExn (e : exn) | SCnt (en : env) | SUnm.
Definition lift_e {A} (r : out A) (k : A -> sres) : sres :=
  match r with OK a => k a | EXN e => SExn e | UNM => SUnm end.
Definition set1 (x : string) (v : pv) (en : env) : sres :=
  match update x v en with Some en' => SNorm en' | None => SUnm end.
Fixpoint set_all (xs : list string) (vs : list pv) (en : env) : sres :=
  match xs, vs with
  | [], [] => SNorm en
  | x :: xt, v :: vt => match update x v en with Some en' => set_all xt vt en' | None => SUnm end
  | _, _ => SExn ValueError
  end.
Definition unpack (xs : list string) (v : pv) (en : env) : sres :=
  lift_e (iter_elems v) (fun els => set_all xs els en).
Definition bind_target (xs : list string) (v : pv) (en : env) : sres :=
  match xs with [x] => set1 x v en | _ => unpack xs v en end.
Fixpoint for_loop (step : pv -> env -> sres) (els : list pv) (en : env) : sres :=
  match els with
  | [] => SNorm en
  | v :: t => match step v en with SNorm en' | SCnt en' => for_loop step t en' | r => r end
  end.
Fixpoint while_loop (cond : env -> out bool) (body : env -> sres) (k : nat) (en : env) : sres :=
  match k with
  | O => SUnm
  | S k' => lift_e (cond en) (fun t =>
              if t then match body en with SNorm en' | SCnt en' => while_loop cond body k' en' | r => r end else SNorm en)
  end.
Definition run_block (f : stmt -> env -> sres) : list stmt -> env -> sres :=
  fix go (l : list stmt) (en : env) : sres :=
    match l with [] => SNorm en | s :: r => match f s en with SNorm en' => go r en' | o => o end end.
Definition for_step (blk : list stmt -> env -> sres) (xs : list string) (body : list stmt) (el : pv) (en : env) : sres :=
  match bind_target xs el en with SNorm en' => blk body en' | o => o end.
Definition is_number (v : pv) : bool := match v with VInt _ | VFloat _ => true | _ => false end.

Fixpoint exec (s : stmt) (en : env) {struct s} : sres :=
  match s with
  | SAssign x e => lift_e (eval en e) (fun v => set1 x v en)
  | SUnpack xs e => lift_e (eval en e) (fun v => unpack xs v en)
  | SAug x op e =>
      lift_e (eval en (ELoc x)) (fun a => lift_e (eval en e) (fun b =>
        if is_number a then lift_e (bin_op op a b) (fun v => set1 x v en) else SUnm))
  | SSetItem x i e =>
      lift_e (eval en e) (fun v => lift_e (eval en (ELoc x)) (fun a => lift_e (eval en i) (fun j =>
        lift_e (set_item a j v) (fun a' => set1 x a' en))))
  | SAppend x e =>
      lift_e (eval en (ELoc x)) (fun a => lift_e (eval en e) (fun v =>
        match a with VList l => set1 x (VList (l ++ [v])) en | _ => SUnm end))
  | SIf c a b =>
      lift_e (eval en c) (fun v => lift_e (truth v) (fun t => run_block exec (if t then a else b) en))
  | SFor xs it body =>
      lift_e (eval en it) (fun v => lift_e (iter_elems v) (fun els =>
        for_loop (for_step (run_block exec) xs body) els en))
  | SWhile c body =>
      while_loop (fun en' => v <~ eval en' c ;; truth v) (run_block exec body) fuel en
  | SReturn e => lift_e (eval en e) SRet
  | SRaise x => SExn x
  | SContinue => SCnt en
  | SPass => SNorm en
  end.
Definition exec_block : list stmt -> env -> sres := run_block exec.

Definition init_env (f : fdef) (args : list pv) : env :=
  combine (map fst (f_params f)) args ++ map (fun x => (x, VUnbound)) (f_locals f).
Definition run_fun (f : fdef) (args : list pv) : out pv :=
  if Nat.eqb (List.length args) (List.length (f_params f)) then
    match exec_block (f_body f) (init_env f args) with
    | SNorm _ => OK VNone | SRet v => OK v | SExn e => EXN e | SCnt _ | SUnm => UNM end
  else UNM.
End Eval.
