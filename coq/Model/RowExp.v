(* A small deep-embedded language for the row-wise reading of the NumPy code of the chord comparison
   functions of chord.py (thirds ... sevenths_inv), and its evaluator. Definitions only.

   translator/chordrules.py maps the *syntax* of each function body (Python ast) to a value of [rprog]
   (Gen/ChordRules.v); the *meaning* of every NumPy idiom is given here, by [ev]; Proofs/ChordRulesTie.v
   proves that the meaning of the translated body is the hand-written rule of Model/ChordCmp.v.

   Row-wise reading. encode_many(labels, flag) returns three arrays (roots (n,), semitones (n,12),
   basses (n,)); row i of the three is the encoding of label i. Every array expression of the bodies is
   elementwise along the row axis, so its row i depends on row i of the inputs only:
     shape (n,)     <->  a scalar per row            [VS]
     shape (n,k)    <->  a vector per row            [VBs]/[VIs]   (reductions use axis=1 / axis=-1)
     shape (k,n)    <->  a vector per row, stacked by np.array([...]) of (n,) arrays  (reductions use axis=0)
     shape (k,), () <->  constants broadcast to every row
   The translator checks these shape kinds (and refuses anything that mixes rows); dtypes (bool / int64 /
   float64) are dynamic here, because NumPy's meaning depends on them: bool*bool is "and", bool+bool is "or",
   an assignment into an array casts to the dtype of the array, a masked assignment needs a bool mask.
   Floats: only integer-valued float64 occur (0.0, 1.0, -1.0); [SF z] is the float with value z.
   Anything NumPy would reject, or that is outside what is modelled, evaluates to [None]. *)
From Coq Require Import String.
From Coq Require Import ZArith List Bool.
From ME Require Import Model.Prelude Model.ChordParse Model.ChordCmp Gen.ChordTables.
Import ListNotations.
Open Scope Z_scope.

Inductive side := Ref | Est.
Inductive cmpop := CEq | CNe | CLt | CLe | CGt | CGe.
Inductive dtype := DBool | DInt | DFloat.

Inductive rexp :=
| RVar (x : string)                        (* a local variable of the body *)
| RRoot (s : side)                         (* encode_many(<side>_labels, _)[0] *)
| RBitmap (s : side)                       (* encode_many(<side>_labels, _)[1] *)
| RBass (s : side)                         (* encode_many(<side>_labels, _)[2] *)
| RInt (z : Z) | RFloat (z : Z) | RBool (b : bool)   (* Python literals 3, -1.0, True *)
| RQual (name : list nat)                  (* np.array(QUALITIES[name]) : one row of Gen.ChordTables.QUALITIES *)
| RStack (l : list rexp)                   (* np.array([e1, ..., ek]) of per-row scalars (shape (k,n)) *)
| RSlice (lo : nat) (hi : option nat) (a : rexp)     (* a[:, lo:hi]  (or a[lo:hi] on a constant row) *)
| RIdx (a i : rexp)                        (* a[:, i] with a constant i; a[m, i[m]] under the mask m of an assignment *)
| RCmp (op : cmpop) (a b : rexp)           (* a == b, np.equal(a, b), a < b, ... (elementwise, broadcasting constants) *)
| RMul (a b : rexp) | RAdd (a b : rexp)    (* a * b, a + b *)
| RLAnd (a b : rexp) | RLOr (a b : rexp)   (* np.logical_and(a, b), np.logical_or(a, b) *)
| RAll (a : rexp) | RAny (a : rexp) | RSum (a : rexp)   (* np.all / np.any / np.sum over the per-row vector *)
| RAstype (t : dtype) (a : rexp)           (* a.astype(np.float64) *)
| RRot (a b : rexp)                        (* rotate_bitmaps_to_roots(a, b): the primitive [rot] of ChordCmp *)
| RFull (t : dtype) (z : Z)                (* np.ones(x.shape, dtype=t) / np.zeros(x.shape, dtype=t), x of shape (n,) *)
| RWhere (m v old : rexp).                 (* the array [old] after  old[m] = v *)

(* statements: x = e ;  x[m] = v  (also  np.logical_or(a, b, x)  as  x[True] = logical_or(a, b)) *)
Inductive stmt := SLet (x : string) (e : rexp) | SMask (x : string) (m v : rexp).
Record rprog := { rp_validate : bool;        (* the body starts with validate(reference_labels, estimated_labels) *)
                  rp_ref_reduce : bool;      (* second argument of encode_many(reference_labels, _) *)
                  rp_est_reduce : bool;      (* second argument of encode_many(estimated_labels, _) *)
                  rp_body : list stmt;
                  rp_ret : string }.         (* return <name> *)

(* ---- values ---- *)
Inductive sval := SB (b : bool) | SI (z : Z) | SF (z : Z).
Inductive rval := VS (s : sval) | VBs (l : list bool) | VIs (l : list Z).

Definition to_z (s : sval) : Z := match s with SB b => b2z b | SI z => z | SF z => z end.
Definition truthy (s : sval) : bool := match s with SB b => b | SI z => negb (z =? 0) | SF z => negb (z =? 0) end.
Definition dtype_of (s : sval) : dtype := match s with SB _ => DBool | SI _ => DInt | SF _ => DFloat end.
Definition cast (t : dtype) (s : sval) : sval :=
  match t with DBool => SB (truthy s) | DInt => SI (to_z s) | DFloat => SF (to_z s) end.
Definition cmpz (op : cmpop) (a b : Z) : bool :=
  match op with CEq => a =? b | CNe => negb (a =? b) | CLt => a <? b | CLe => a <=? b | CGt => b <? a | CGe => b <=? a end.
(* NumPy arithmetic on scalars of the three dtypes: bool op bool stays bool (and / or) *)
Definition s_arith (fb : bool -> bool -> bool) (fz : Z -> Z -> Z) (a b : sval) : sval :=
  match a, b with
  | SB x, SB y => SB (fb x y)
  | SF _, _ | _, SF _ => SF (fz (to_z a) (to_z b))
  | _, _ => SI (fz (to_z a) (to_z b))
  end.

Fixpoint map2 {A B C} (f : A -> B -> C) (a : list A) (b : list B) : list C :=
  match a, b with x :: a', y :: b' => f x y :: map2 f a' b' | _, _ => [] end.
Definition samelen {A B} (a : list A) (b : list B) : bool := Nat.eqb (length a) (length b).
Definition zsum (l : list Z) : Z := fold_right Z.add 0 l.
Definition count_true (l : list bool) : Z := fold_right (fun b acc => b2z b + acc) 0 l.
Definition nonzero (z : Z) : bool := negb (z =? 0).

Definition vv_cmp (op : cmpop) (l m : list Z) : option rval :=
  if samelen l m then Some (VBs (map2 (cmpz op) l m)) else None.
Definition vv_mul (l m : list Z) : option rval := if samelen l m then Some (VIs (map2 Z.mul l m)) else None.
Definition vv_add (l m : list Z) : option rval := if samelen l m then Some (VIs (map2 Z.add l m)) else None.
Definition bb_mul (l m : list bool) : option rval := if samelen l m then Some (VBs (map2 andb l m)) else None.

Definition v_cmp (op : cmpop) (a b : rval) : option rval :=
  match a, b with
  | VS x, VS y => Some (VS (SB (cmpz op (to_z x) (to_z y))))
  | VIs l, VIs m => vv_cmp op l m
  | VIs l, VS y => Some (VBs (map (fun x => cmpz op x (to_z y)) l))
  | VS x, VIs m => Some (VBs (map (fun y => cmpz op (to_z x) y) m))
  | _, _ => None
  end.
Definition v_mul (a b : rval) : option rval :=
  match a, b with
  | VS x, VS y => Some (VS (s_arith andb Z.mul x y))
  | VIs l, VIs m => vv_mul l m
  | VBs l, VBs m => bb_mul l m
  | _, _ => None
  end.
Definition v_add (a b : rval) : option rval :=
  match a, b with
  | VS x, VS y => Some (VS (s_arith orb Z.add x y))
  | VIs l, VIs m => vv_add l m
  | _, _ => None
  end.
Definition v_land (a b : rval) : option rval :=
  match a, b with VS x, VS y => Some (VS (SB (truthy x && truthy y))) | _, _ => None end.
Definition v_lor (a b : rval) : option rval :=
  match a, b with VS x, VS y => Some (VS (SB (truthy x || truthy y))) | _, _ => None end.
Definition v_all (a : rval) : option rval :=
  match a with VBs l => Some (VS (SB (forallb id l))) | VIs l => Some (VS (SB (forallb nonzero l))) | VS _ => None end.
Definition v_any (a : rval) : option rval :=
  match a with VBs l => Some (VS (SB (existsb id l))) | VIs l => Some (VS (SB (existsb nonzero l))) | VS _ => None end.
Definition v_sum (a : rval) : option rval :=
  match a with VBs l => Some (VS (SI (count_true l))) | VIs l => Some (VS (SI (zsum l))) | VS _ => None end.
Definition v_astype (t : dtype) (a : rval) : option rval :=
  match a with VS s => Some (VS (cast t s)) | _ => None end.

Definition v_slice {A} (lo : nat) (hi : option nat) (l : list A) : list A :=
  let l' := match lo with O => l | _ => skipn lo l end in
  match hi with None => l' | Some h => firstn (h - lo) l' end.
Definition r_slice (lo : nat) (hi : option nat) (a : rval) : option rval :=
  match a with VIs l => Some (VIs (v_slice lo hi l)) | VBs l => Some (VBs (v_slice lo hi l)) | VS _ => None end.

(* Python indexing of a sequence of known length by an integer (negative indices count from the end) *)
Definition py_index (l : list Z) (z : Z) : option Z :=
  let n := Z.of_nat (length l) in
  if (0 <=? z) && (z <? n) then Some (nthz l (Z.to_nat z))
  else if (- n <=? z) && (z <? 0) then Some (nthz l (Z.to_nat (z + n))) else None.
Definition v_idx (a i : rval) : option rval :=
  match a, i with
  | VIs l, VS (SI z) => match py_index l z with Some x => Some (VS (SI x)) | None => None end
  | _, _ => None
  end.
Definition v_rot (a b : rval) : option rval :=
  match a, b with
  | VIs l, VS (SI z) => if Nat.eqb (length l) 12 then Some (VIs (rot l z)) else None
  | _, _ => None
  end.

Fixpoint stack_b (l : list (option rval)) : option (list bool) :=
  match l with
  | [] => Some []
  | Some (VS (SB b)) :: t => match stack_b t with Some r => Some (b :: r) | None => None end
  | _ => None
  end.
Fixpoint stack_i (l : list (option rval)) : option (list Z) :=
  match l with
  | [] => Some []
  | Some (VS (SB b)) :: t => match stack_i t with Some r => Some (b2z b :: r) | None => None end
  | Some (VS (SI z)) :: t => match stack_i t with Some r => Some (z :: r) | None => None end
  | _ => None
  end.
Definition v_stack (l : list (option rval)) : option rval :=
  match stack_b l with Some bs => Some (VBs bs)
  | None => match stack_i l with Some zs => Some (VIs zs) | None => None end end.

(* old[m] = v : the mask must be a bool per row, old and v scalars per row; the stored value is cast to the
   dtype of old; v is only needed in the rows where the mask holds (a[m, i[m]] is evaluated on those rows only) *)
Definition v_where (m : rval) (v : option rval) (old : rval) : option rval :=
  match old, m with
  | VS o, VS (SB b) =>
      match v with
      | Some (VS x) =>
          Some (VS (match o with
                    | SB ob => SB (if b then truthy x else ob)
                    | SI oz => SI (if b then to_z x else oz)
                    | SF oz => SF (if b then to_z x else oz) end))
      | Some _ => None
      | None => if b then None else Some old
      end
  | _, _ => None
  end.

Definition r_qual (name : list nat) : option rval :=
  match lookup name QUALITIES with Some v => Some (VIs v) | None => None end.
Definition sd (s : side) (r e : cenc) : cenc := match s with Ref => r | Est => e end.

Definition bind1 (a : option rval) (f : rval -> option rval) : option rval :=
  match a with Some x => f x | None => None end.
Definition bind2 (a b : option rval) (f : rval -> rval -> option rval) : option rval :=
  match a with Some x => match b with Some y => f x y | None => None end | None => None end.

Section Ev.
Variables r e : cenc.
Fixpoint ev (a : rexp) : option rval :=
  match a with
  | RVar _ => None                                   (* unbound variable *)
  | RRoot s => Some (VS (SI (root (sd s r e))))
  | RBitmap s => Some (VIs (bm (sd s r e)))
  | RBass s => Some (VS (SI (bass (sd s r e))))
  | RInt z => Some (VS (SI z))
  | RFloat z => Some (VS (SF z))
  | RBool b => Some (VS (SB b))
  | RQual name => r_qual name
  | RStack l => v_stack ((fix evl (l : list rexp) := match l with [] => [] | x :: t => ev x :: evl t end) l)
  | RSlice lo hi a => bind1 (ev a) (r_slice lo hi)
  | RIdx a i => bind2 (ev a) (ev i) v_idx
  | RCmp op a b => bind2 (ev a) (ev b) (v_cmp op)
  | RMul a b => bind2 (ev a) (ev b) v_mul
  | RAdd a b => bind2 (ev a) (ev b) v_add
  | RLAnd a b => bind2 (ev a) (ev b) v_land
  | RLOr a b => bind2 (ev a) (ev b) v_lor
  | RAll a => bind1 (ev a) v_all
  | RAny a => bind1 (ev a) v_any
  | RSum a => bind1 (ev a) v_sum
  | RAstype t a => bind1 (ev a) (v_astype t)
  | RRot a b => bind2 (ev a) (ev b) v_rot
  | RFull t z => Some (VS (cast t (SI z)))
  | RWhere m v old => bind2 (ev m) (ev old) (fun m' old' => v_where m' (ev v) old')
  end.
End Ev.

(* ---- statements: meaning by substitution (the language is pure; x[m] = v rebinds x) ---- *)
Definition env := list (string * rexp).
Fixpoint elookup (x : string) (en : env) : option rexp :=
  match en with [] => None | (y, a) :: t => if String.eqb x y then Some a else elookup x t end.
Fixpoint subst (en : env) (a : rexp) : rexp :=
  match a with
  | RVar x => match elookup x en with Some b => b | None => RVar x end
  | RStack l => RStack (map (subst en) l)
  | RSlice lo hi a => RSlice lo hi (subst en a)
  | RIdx a i => RIdx (subst en a) (subst en i)
  | RCmp op a b => RCmp op (subst en a) (subst en b)
  | RMul a b => RMul (subst en a) (subst en b)
  | RAdd a b => RAdd (subst en a) (subst en b)
  | RLAnd a b => RLAnd (subst en a) (subst en b)
  | RLOr a b => RLOr (subst en a) (subst en b)
  | RAll a => RAll (subst en a)
  | RAny a => RAny (subst en a)
  | RSum a => RSum (subst en a)
  | RAstype t a => RAstype t (subst en a)
  | RRot a b => RRot (subst en a) (subst en b)
  | RWhere m v old => RWhere (subst en m) (subst en v) (subst en old)
  | RRoot _ | RBitmap _ | RBass _ | RInt _ | RFloat _ | RBool _ | RQual _ | RFull _ _ => a
  end.
Fixpoint inline (ss : list stmt) (en : env) : env :=
  match ss with
  | [] => en
  | SLet x a :: t => inline t ((x, subst en a) :: en)
  | SMask x m v :: t => inline t ((x, RWhere (subst en m) (subst en v) (subst en (RVar x))) :: en)
  end.
Definition rp_expr (p : rprog) : rexp := subst (inline (rp_body p) []) (RVar (rp_ret p)).

(* the value returned for one row (as an integer: the scores are -1.0, 0.0, 1.0); None = outside the model *)
Definition reval_opt (p : rprog) (r e : cenc) : option Z :=
  match ev r e (rp_expr p) with Some (VS s) => Some (to_z s) | _ => None end.
Definition reval (p : rprog) (r e : cenc) : Z :=
  match reval_opt p r e with Some z => z | None => -2 end.

(* one row, from the labels: validate, encode_many(labels, flag), body *)
Definition reval_labels (p : rprog) (r e : str) : res Z :=
  _ <- (if rp_validate p then (_ <- validate_label r ;; validate_label e) else Ok tt) ;;
  er <- encode r (rp_ref_reduce p) false ;; ee <- encode e (rp_est_reduce p) false ;;
  match reval_opt p (of_enc er) (of_enc ee) with Some z => Ok z | None => Raise OtherExn end.
