(* The instantiation of the language of Model/PatExp.v for mir_eval/pattern.py: the embedding of annotations into
   Python values, the meaning of the callees (the functions of the hand-written model Model/Pattern.v; util.f_measure is
   Model.Events.f_measure, tied in Proofs/ScalarFuncsTie.v; pattern.validate is tied in Proofs/ValidatorsTie.v), the
   embedding of the model's results into Python values with the scalar types Python produces, and [run].
   Definitions only. *)
From Coq Require Import String.
From Coq Require Import List Bool Arith ZArith QArith.
From ME Require Import Model.Prelude Model.Events Model.Pattern Model.PatExp Gen.PatternGen.
Import ListNotations.

Definition lift {A} (f : A -> pv) (r : res A) : out pv := match r with Ok a => OK (f a) | Raise e => EXN e end.

(* ---- annotations: a list of patterns = list of lists of lists of (onset, midi) tuples of floats ---- *)
Definition v_note (n : note) : pv := VTup [VFloat (fst n); VFloat (snd n)].
Definition v_occ (o : occ) : pv := VList (map v_note o).
Definition v_pat (p : pattern) : pv := VList (map v_occ p).
Definition v_pats (ps : list pattern) : pv := VList (map v_pat ps).
Definition d_note (v : pv) : option note := match v with VTup [VFloat a; VFloat b] => Some (a, b) | _ => None end.
Definition d_occ (v : pv) : option occ := match v with VList l => omap d_note l | _ => None end.
Definition d_pat (v : pv) : option pattern := match v with VList l => omap d_occ l | _ => None end.
Definition d_pats (v : pv) : option (list pattern) := match v with VList l => omap d_pat l | _ => None end.

(* ---- results, with the scalar types Python produces ---- *)
Definition cardinality_score : str := [99;97;114;100;105;110;97;108;105;116;121;95;115;99;111;114;101]%nat.
(* util.f_measure(precision, recall, beta): the literal 0.0 when both are 0, otherwise arithmetic on the arguments
   (np.float64 as soon as one of them is). When the denominator is 0 Python raises or returns nan: not modelled. *)
Definition fm_ext (p r b : pv) : out pv :=
  match as_num p, as_num r, as_num b with
  | Some x, Some y, Some z =>
      if qeqb x 0 && qeqb y 0 then OK (VFloat (f_measure x y z))
      else if qeqb (z * z * x + y) 0 then UNM
      else OK ((if is_py_num p && is_py_num r && is_py_num b then VFloat else VNpF) (f_measure x y z))
  | _, _, _ => UNM
  end.
Definition py_zero_fpr : pv := VTup [VFloat 0; VFloat 0; VFloat 0].
(* (F, P, R) with P, R np.float64 (np.mean) *)
Definition np_fpr (t : fpr) : pv :=
  let '(f, p, r) := t in VTup [(if qeqb p 0 && qeqb r 0 then VFloat f else VNpF f); VNpF p; VNpF r].
(* (F, P, R) with P, R Python floats (k / float(n)) *)
Definition py_fpr (t : fpr) : pv := let '(f, p, r) := t in VTup [VFloat f; VFloat p; VFloat r].

(* _compute_score_matrix: the float division raises as soon as one pair of occurrences is empty on both sides *)
Definition score_matrix_res (p q : pattern) : res (list (list Q)) :=
  if existsb Pattern.is_nil p && existsb Pattern.is_nil q then Raise ZeroDivisionError else Ok (score_matrix p q).

Definition standard_pv (ref est : list pattern) (tol : Q) : out pv :=
  match standard_FPR ref est tol with
  | Ok t => OK (if no_notes ref est then py_zero_fpr else py_fpr t)
  | Raise e => EXN e end.
Definition establishment_pv (ref est : list pattern) : out pv :=
  match establishment_FPR ref est with
  | Ok t => OK (if no_notes ref est then py_zero_fpr else np_fpr t)
  | Raise e => EXN e end.
(* occurrence_FPR: precision = recall = 0 (Python ints) when no pair of patterns passes the threshold *)
Definition occurrence_pv (ref est : list pattern) (thres : Q) : out pv :=
  match occurrence_FPR ref est thres with
  | Ok t => OK (if no_notes ref est then py_zero_fpr
                else if Pattern.is_nil (rel_pairs thres ref est) then VTup [VFloat 0; VInt 0; VInt 0]
                else np_fpr t)
  | Raise e => EXN e end.
Definition three_layer_pv (ref est : list pattern) : out pv :=
  match three_layer_FPR ref est with
  | Ok t => OK (if no_notes ref est then py_zero_fpr else np_fpr t)
  | Raise e => EXN e end.
(* the first-n metrics: 0.0 on empty annotations, otherwise the np.float64 of the callee (its 0.0 when the truncated estimate is empty) *)
Definition first_n_P_pv (ref est : list pattern) (n : Z) : out pv :=
  match first_n_three_layer_P ref est n with
  | Ok x => OK ((if no_notes ref est || no_notes ref (first_n n est) then VFloat else VNpF) x)
  | Raise e => EXN e end.
Definition first_n_R_pv (ref est : list pattern) (n : Z) : out pv :=
  match first_n_target_proportion_R ref est n with
  | Ok x => OK ((if no_notes ref est || no_notes ref (first_n n est) then VFloat else VNpF) x)
  | Raise e => EXN e end.
(* the nested helpers of three_layer_FPR, read sequentially (loop order, first exception) *)
Fixpoint rmapM {A B} (f : A -> res B) (l : list A) : res (list B) :=
  match l with [] => Ok [] | a :: t => b <- f a ;; bs <- rmapM f t ;; Ok (b :: bs) end.
(* compute_first_layer_PR: s / float(len(ref_occs)), s / float(len(est_occs)) *)
Definition layer1_PR (o1 o2 : occ) : res (Q * Q) :=
  if Pattern.is_nil o1 || Pattern.is_nil o2 then Raise ZeroDivisionError
  else let s := qnat (inter_count o1 o2) in Ok (s / qnat (length o1), s / qnat (length o2)).
Definition cell1 (o1 o2 : occ) : res Q := pr <- layer1_PR o1 o2 ;; Ok (f_measure (fst pr) (snd pr) 1).
(* compute_layer(ref_pattern, est_pattern, layer=1) *)
Definition layer1_res (p q : pattern) : res (list (list Q)) := rmapM (fun o1 => rmapM (cell1 o1) q) p.
(* compute_second_layer_PR: np.max / np.mean of an empty F_1 (an empty pattern: excluded by validate) is not modelled *)
Definition layer2_pv (p q : pattern) : out pv :=
  if Pattern.is_nil p || Pattern.is_nil q then UNM
  else match layer1_res p q with
       | Ok _ => OK (VTup [VNpF (layer2_P p q); VNpF (layer2_R p q)])
       | Raise e => EXN e end.
Definition cell2 (p q : pattern) : out Q :=
  if Pattern.is_nil p || Pattern.is_nil q then UNM
  else match layer1_res p q with Ok _ => OK (layer2_F p q) | Raise e => EXN e end.
(* compute_layer(reference_patterns, estimated_patterns, layer=2) *)
Definition layer2_out (ref est : list pattern) : out (list (list Q)) := mapM (fun p => mapM (cell2 p) est) ref.

Local Open Scope string_scope.
(* one value per parameter, in the order of the callee's signature *)
Definition pat_ext (f : string) (vs : list pv) : out pv :=
  if f =? "validate" then
    match vs with
    | [r; e] => match d_pats r, d_pats e with
                | Some r', Some e' => lift (fun _ => VNone) (validate r' e')
                | _, _ => UNM end
    | _ => UNM end
  else if f =? "util.f_measure" then
    match vs with [p; r; b] => fm_ext p r b | _ => UNM end
  else if f =? "_n_onset_midi" then
    match vs with
    | [ps] => match d_pats ps with Some ps' => OK (VInt (Z.of_nat (n_onset_midi ps'))) | None => UNM end
    | _ => UNM end
  else if f =? "_occurrence_intersection" then
    match vs with
    | [a; b] => match d_occ a, d_occ b with
                | Some a', Some b' => OK (VSet (map v_note (inter_set a' b')))
                | _, _ => UNM end
    | _ => UNM end
  else if f =? "_compute_score_matrix" then
    match vs with
    | [p; q; VStr m] =>
        if seqb m cardinality_score then
          match d_pat p, d_pat q with
          | Some p', Some q' => lift (VMat (List.length q')) (score_matrix_res p' q')
          | _, _ => UNM end
        else UNM
    | _ => UNM end
  else if f =? "establishment_FPR" then
    match vs with
    | [r; e; VStr m] =>
        if seqb m cardinality_score then
          match d_pats r, d_pats e with Some r', Some e' => establishment_pv r' e' | _, _ => UNM end
        else UNM
    | _ => UNM end
  else if f =? "three_layer_FPR" then
    match vs with
    | [r; e] => match d_pats r, d_pats e with Some r', Some e' => three_layer_pv r' e' | _, _ => UNM end
    | _ => UNM end
  else if f =? "three_layer_FPR.compute_first_layer_PR" then
    match vs with
    | [a; b] => match d_occ a, d_occ b with
                | Some a', Some b' => lift (fun pr => VTup [VFloat (fst pr); VFloat (snd pr)]) (layer1_PR a' b')
                | _, _ => UNM end
    | _ => UNM end
  else if f =? "three_layer_FPR.compute_second_layer_PR" then
    match vs with
    | [a; b] => match d_pat a, d_pat b with
                | Some a', Some b' => layer2_pv a' b'
                | _, _ => UNM end
    | _ => UNM end
  else if f =? "three_layer_FPR.compute_layer" then
    match vs with
    | [a; b; VInt 1] => match d_pat a, d_pat b with
                        | Some a', Some b' => lift (VMat (List.length b')) (layer1_res a' b')
                        | _, _ => UNM end
    | [a; b; VInt 2] => match d_pats a, d_pats b with
                        | Some a', Some b' => m <~ layer2_out a' b' ;; OK (VMat (List.length b') m)
                        | _, _ => UNM end
    | _ => UNM end
  else UNM.

Definition pat_sigs : list (string * option sigv) := sigs_of (fun_params pattern_funs ++ pattern_prims).
Definition run (f : fdef) (args : list pv) : out pv := run_fun pat_sigs pat_ext f args.

(* the numeric view of a result: (F, P, R) whatever the scalar types *)
Definition fpr_view (o : out pv) : out fpr :=
  v <~ o ;;
  match v with
  | VTup [a; b; c] => match as_num a, as_num b, as_num c with
                      | Some x, Some y, Some z => OK (x, y, z)
                      | _, _, _ => UNM end
  | _ => UNM end.
Definition num_view (o : out pv) : out Q := v <~ o ;; of_opt (as_num v).
Definition of_res {A} (r : res A) : out A := match r with Ok a => OK a | Raise e => EXN e end.
