(* The programs of Gen/IOGen.v (mir_eval/io.py) run by the evaluator of Model/IoExp.v, with the opaque callees
   instantiated by the functions of Model/IO.v / Model/Key.v. Definitions only.

   How the loaders' arguments are given: filename = [PPath text] (path or open text file with that content),
   delimiter = [PSrc (PDelim d)], comment = [PNone] or [PSrc (PComment r)], converters = a list of [PFun]. *)
From Coq Require Import String.
From Coq Require Import List Bool Arith ZArith QArith.
From ME Require Import Model.Prelude Model.Regex Model.Key Model.IO Model.IoExp Gen.IOGen.
Import ListNotations.
Close Scope Q_scope.
Local Open Scope string_scope.

Definition io_sigs (num : Type) : list (string * option (sigv num)) :=
  sigs_of num (map (fun nf => (fst nf, f_params (snd nf))) io_funs ++ io_callees).

Section Inst.
Variable num : Type.
Variable conv : str -> option num.
Variable convv : str -> option num.
Variable val : num -> xval.
Notation pv := (pv num).

Definition emb_value (v : value num) : pv := match v with VNum x => PNum num x | VStr s => PStr num s end.
Definition emb_col (c : list (value num)) : pv := PList num (map emb_value c).
Definition emb_ld (r : ldret num) : pv :=
  match r with Single c => emb_col c | Cols cs => PTup num (map emb_col cs) end.
Definition emb_rres {A} (f : A -> pv) (r : rres A) : out pv :=
  match r with
  | ROk a => OK (f a)
  | RaiseAt row e => EXN e (XRows [Z.of_nat row])
  | RaiseNoRow e => EXN e (XRows [])
  end.
Definition emb_warn (w : option warning) : list xinfo := match w with Some x => [XWarn x] | None => [] end.
Definition emb_wres {A} (f : A -> pv) (r : wres A) : out pv * list xinfo := (emb_rres f (fst r), emb_warn (snd r)).
Definition emb_comment (c : option re) : pv := match c with None => PNone num | Some r => PSrc num (PComment r) end.

Definition get_fun (v : pv) : option cv := match v with PFun _ c => Some c | _ => None end.
Definition get_convs (v : pv) : option (list cv) := match v with PList _ l => omap get_fun l | _ => None end.
Definition get_comment (v : pv) : option (option re) :=
  match v with PNone _ => Some None | PSrc _ (PComment r) => Some (Some r) | _ => None end.
Definition row2 (r : list num) : option (num * num) := match r with [a; b] => Some (a, b) | _ => None end.
Definition of_validator (w : option warning) : out pv :=
  match w with Some x => EXN ValueError (XWarn x) | None => OK (PNone num) end.

Definition io_ext (f : string) (args : list pv) : out pv :=
  if f =? "_open" then
    match args with [PPath _ t; PStr _ [114]] => OK (PFile num t) | _ => UNM end
  else if f =? "load_delimited" then
    match args with
    | [PPath _ t; cs; PSrc _ (PDelim d); cm] =>
        match get_convs cs, get_comment cm with
        | Some convs, Some c => emb_rres emb_ld (load_delimited num conv convs d c t)
        | _, _ => UNM end
    | _ => UNM end
  else if f =? "util.validate_events" then
    match args with
    | [PArr _ l; PQ _ q] => if Qeq_bool q 30000%Q then of_validator (validate_events (map val l)) else UNM
    | _ => UNM end
  else if f =? "util.validate_intervals" then
    match args with
    | [PMat _ 2 rows] =>
        match omap row2 rows with
        | Some ps => of_validator (validate_intervals (map (fun p => (val (fst p), val (snd p))) ps))
        | None => UNM end
    | _ => UNM end
  else if f =? "key.validate_key" then
    match args with
    | [PStr _ ks] => match validate_key ks with
                     | Ok _ => OK (PNone num)
                     | Raise ValueError => EXN ValueError (XWarn WKey)
                     | Raise e => EXN e (XRows []) end
    | _ => UNM end
  else if f =? "tempo.validate_tempi" then
    match args with
    | [PArr _ l; PBool _ true] => of_validator (validate_tempi (map val l))
    | _ => UNM end
  else UNM.

Definition io_run (f : fdef) (args : list pv) : out pv * list xinfo :=
  run_fun num conv convv val (io_sigs num) io_ext f args.
End Inst.
