(* A small deep-embedded Python / NumPy / SciPy sub-language for the numeric cores of mir_eval/segment.py
   (_contingency_matrix, _adjusted_rand_index, _mutual_info_score, _entropy and the summation skeleton of
   _adjusted_mutual_info_score): values, operators with the CPython / NumPy meaning of exactly the operations used, and an
   environment-based evaluator with generator sums, `for` loops and opaque callees. Definitions only.

   translator/corefuncs.py maps the syntax of each function body to an [fdef] (Gen/CoreFuncsGen.v); what the syntax means
   on each type of value is decided HERE; Proofs/CoreFuncsTie.v proves each generated program equal to the hand-written
   model of Model/SegmentCluster.v (and to explicit float terms for the entropic cores) for all inputs.

   Reading of Python / NumPy / SciPy (the trusted part)
   * Integers are exact (Python ints are unbounded; the int64 entries that occur are frame counts <= the number of frames,
     so no int64 operation of the accepted fragment can wrap: products of counts are only ever formed on Python ints, which
     is exactly what the seeded changes C16-1 / C16-b3 alter - int64 array arithmetic is NOT in the fragment).
     Every scalar carries a flag py = "is a Python object" (literals, len, shape, scipy.special.comb(exact=1), float(),
     sums of Python numbers) as opposed to a NumPy scalar (array elements, reductions).  Python number / Python zero raises
     ZeroDivisionError; a NumPy division by an exact zero is outside the reading ([UNM]).
   * A float is a TERM [fl]: an exact rational [FQ q], or a symbolic application of np.log / np.exp / gammaln / np.sqrt /
     max and of + - * / to such terms ("log is an opaque real-valued function").  Arithmetic on two rationals is carried
     out exactly (so the log-free cores - ARI - compute in Q as the model does); anything else builds the term as written,
     in the order written.  Decisions (comparisons, zero tests) need rationals: on a symbolic float they are [UNM].
   * int64 index arrays are lists of nat ([VNs]; labels and counts are non-negative), matrices carry their column count
     (a (0, C) matrix has a shape).  float64 arrays are lists of [fl].
   * np.unique = SegmentCluster.uniq (sorted distinct values), return_inverse = SegmentCluster.class_idx of every entry;
     scipy.sparse.coo_matrix((data, (rows, cols)), shape=(R, C), dtype=np.int64).toarray(): cell (i, j) = the sum of the
     data entries k with rows[k] = i and cols[k] = j; ValueError when the three arrays differ in length or an index is out
     of range.  np.bincount(x)[i] = number of entries equal to i, for i <= max(x).
   * [UNM] ("unmodelled") is the result of every operation on operands outside the cases written below; a tie theorem can
     only hold if the program never reaches such a case.
   * Locals: one slot per parameter and local from the start; reading an unbound slot raises (UnboundLocalError =
     [OtherExn]).  The variable of a generator expression is local to it.
   * x /= e on an array is in place in NumPy; the translator only emits it for a local bound once, to the copy made by a
     boolean-mask index, and read nowhere between as an alias, so that rebinding the local is an exact reading.
   * Calls of other functions of the module are opaque ([ECall]): arguments are evaluated left to right and bound to the
     callee's parameters as Python does (signatures read from the source in the same run). *)
From Coq Require Import String.
From Coq Require Import List Bool Arith ZArith QArith.
From ME Require Import Model.Prelude.
From ME Require Model.SegmentCluster.
Import ListNotations.
Open Scope Q_scope.
Module SC := ME.Model.SegmentCluster.

Inductive out (A : Type) := OK (a : A) | EXN (e : exn) | UNM.
Arguments OK {A}. Arguments EXN {A}. Arguments UNM {A}.
Definition obind {A B} (r : out A) (f : A -> out B) : out B :=
  match r with OK a => f a | EXN e => EXN e | UNM => UNM end.
Notation "x <~ r ;; k" := (obind r (fun x => k)) (at level 61, r at next level, right associativity).
Definition of_opt {A} (o : option A) : out A := match o with Some a => OK a | None => UNM end.

(* ------------------------------------------------------------------ floats as terms *)
Inductive fl :=
| FQ (q : Q)
| FLog (a : fl) | FExp (a : fl) | FGln (a : fl) | FSqrt (a : fl)
| FAdd (a b : fl) | FSub (a b : fl) | FMul (a b : fl) | FDiv (a b : fl) | FNeg (a : fl) | FMax (a b : fl).
Definition fadd (a b : fl) : fl := match a, b with FQ x, FQ y => FQ (x + y) | _, _ => FAdd a b end.
Definition fsub (a b : fl) : fl := match a, b with FQ x, FQ y => FQ (x - y) | _, _ => FSub a b end.
Definition fmul (a b : fl) : fl := match a, b with FQ x, FQ y => FQ (x * y) | _, _ => FMul a b end.
Definition fneg (a : fl) : fl := match a with FQ x => FQ (- x) | _ => FNeg a end.
(* NumPy float division: by an exact zero it is inf / nan (outside the reading) *)
Definition fdiv (a b : fl) : option fl :=
  match b with
  | FQ y => if qeqb y 0 then None else Some (match a with FQ x => FQ (x / y) | _ => FDiv a b end)
  | _ => Some (FDiv a b)
  end.
Definition fsum (l : list fl) : fl := fold_right fadd (FQ 0) l.
Definition nQ (n : nat) : Q := inject_Z (Z.of_nat n).
Definition fnat (n : nat) : fl := FQ (nQ n).
Definition fq_of (a : fl) : option Q := match a with FQ q => Some q | _ => None end.

Inductive sv :=
| VNone
| VBool (b : bool)
| VInt (py : bool) (z : Z)
| VFlt (py : bool) (x : fl)
| VNs (l : list nat)                          (* int64, shape (n,), entries >= 0 *)
| VNss (c : nat) (m : list (list nat))        (* int64, shape (length m, c) *)
| VFs (l : list fl)                           (* float64, shape (n,) *)
| VFss (c : nat) (m : list (list fl))         (* float64, shape (length m, c) *)
| VZss (c : nat) (m : list (list Z))          (* int64 with entries of either sign, shape (length m, c) *)
| VBs (l : list bool)
| VBss (c : nat) (m : list (list bool))
| VTup (l : list sv)
| VUnbound.

Inductive binop := Add | Sub | Mul | Div.
Inductive cmpop := Eq | Ne | Lt | Le | Gt | Ge.
Definition qcmp (op : cmpop) (x y : Q) : bool :=
  match op with Eq => qeqb x y | Ne => negb (qeqb x y) | Lt => qltb x y | Le => qleb x y | Gt => qltb y x | Ge => qleb y x end.
Definition zcmp (op : cmpop) (x y : Z) : bool :=
  match op with Eq => Z.eqb x y | Ne => negb (Z.eqb x y) | Lt => Z.ltb x y | Le => Z.leb x y | Gt => Z.ltb y x | Ge => Z.leb y x end.

(* ------------------------------------------------------------------ lists *)
Definition norm_idx (i : Z) (n : nat) : option nat :=
  match i with
  | Z0 => if (0 <? n)%nat then Some 0%nat else None
  | Zpos p => if (Pos.to_nat p <? n)%nat then Some (Pos.to_nat p) else None
  | Zneg p => if (Pos.to_nat p <=? n)%nat then Some (n - Pos.to_nat p)%nat else None
  end.
Fixpoint vselect {A} (m : list bool) (l : list A) : list A :=
  match m, l with b :: m', x :: l' => if b then x :: vselect m' l' else vselect m' l' | _, _ => [] end.
Fixpoint vmap2 {A B C} (f : A -> B -> C) (a : list A) (b : list B) : list C :=
  match a, b with x :: a', y :: b' => f x y :: vmap2 f a' b' | _, _ => [] end.
Fixpoint mapo {A B} (f : A -> option B) (l : list A) : option (list B) :=
  match l with
  | [] => Some []
  | x :: t => match f x, mapo f t with Some y, Some r => Some (y :: r) | _, _ => None end
  end.
Definition zrange (a b : Z) : list Z := map (fun i => (a + Z.of_nat i)%Z) (seq 0 (Z.to_nat (b - a))).
(* coo_matrix(...).toarray() *)
Fixpoint coo_cell (i j : nat) (data : list nat) (rc : list (nat * nat)) : nat :=
  match data, rc with
  | d :: data', (r, c) :: rc' => ((if (r =? i)%nat && (c =? j)%nat then d else 0) + coo_cell i j data' rc')%nat
  | _, _ => 0%nat
  end.
Definition coo_toarray (data rows cols : list nat) (R C : nat) : out (list (list nat)) :=
  if negb ((length data =? length rows)%nat && (length rows =? length cols)%nat) then EXN ValueError
  else if negb (forallb (fun r => (r <? R)%nat) rows && forallb (fun c => (c <? C)%nat) cols) then EXN ValueError
  else OK (map (fun i => map (fun j => coo_cell i j data (combine rows cols)) (seq 0 C)) (seq 0 R)).
(* np.bincount *)
Definition bincount (l : list nat) : list nat :=
  match l with
  | [] => []
  | _ => map (fun i => length (filter (Nat.eqb i) l)) (seq 0 (S (fold_right Nat.max 0%nat l)))
  end.
(* an exact non-negative integer held in a float (astype(int), data of coo_matrix) *)
Definition nat_of_fl (a : fl) : option nat :=
  match a with
  | FQ q => let z := Qnum q in
            if (Qden q =? 1)%positive && (0 <=? z)%Z then Some (Z.to_nat z) else None
  | _ => None
  end.

(* an exact integer held in a float (np.array(..., dtype="int")) *)
Definition z_of_fl (a : fl) : option Z :=
  match a with FQ q => if (Qden q =? 1)%positive then Some (Qnum q) else None | _ => None end.
(* np.resize(l, (r, c)): the entries of l repeated cyclically, row-major (zeros when l is empty) *)
Definition resize (l : list nat) (r c : nat) : list (list nat) :=
  map (fun i => map (fun j => nth ((i * c + j) mod length l) l 0%nat) (seq 0 c)) (seq 0 r).

(* ------------------------------------------------------------------ operators *)
Definition truth (v : sv) : out bool :=
  match v with
  | VNone => OK false | VBool b => OK b | VInt _ z => OK (negb (Z.eqb z 0))
  | VFlt _ (FQ q) => OK (negb (qeqb q 0))
  | VTup l => OK (negb (Nat.eqb (length l) 0))
  | _ => UNM
  end.
Definition fl_of_scalar (v : sv) : option (bool * fl) :=
  match v with VInt p z => Some (p, FQ (inject_Z z)) | VFlt p x => Some (p, x) | _ => None end.
Definition arith_ff (op : binop) (py : bool) (x y : fl) : out sv :=
  match op with
  | Add => OK (VFlt py (fadd x y)) | Sub => OK (VFlt py (fsub x y)) | Mul => OK (VFlt py (fmul x y))
  | Div => if py then match y with
                      | FQ q => if qeqb q 0 then EXN ZeroDivisionError
                                else match fdiv x y with Some r => OK (VFlt true r) | None => UNM end
                      | _ => UNM end
           else match fdiv x y with Some r => OK (VFlt false r) | None => UNM end
  end.
Definition arr_op (op : binop) (x y : fl) : option fl :=
  match op with Add => Some (fadd x y) | Sub => Some (fsub x y) | Mul => Some (fmul x y) | Div => fdiv x y end.
Definition bin_op (op : binop) (a b : sv) : out sv :=
  match a, b with
  | VInt pa x, VInt pb y =>
      match op with
      | Add => OK (VInt (pa && pb) (x + y)) | Sub => OK (VInt (pa && pb) (x - y)) | Mul => OK (VInt (pa && pb) (x * y))
      | Div => if (y =? 0)%Z then (if pa && pb then EXN ZeroDivisionError else UNM)
               else OK (VFlt (pa && pb) (FQ (inject_Z x / inject_Z y)))
      end
  | VNss c m, VInt _ k =>
      match op with Add => if (0 <=? k)%Z then OK (VNss c (map (map (fun x => (x + Z.to_nat k)%nat)) m)) else UNM | _ => UNM end
  | VFs l, VFs m => if Nat.eqb (length l) (length m)
                    then match mapo (fun p => arr_op op (fst p) (snd p)) (combine l m) with Some r => OK (VFs r) | None => UNM end
                    else UNM
  | VFs l, _ => match fl_of_scalar b with
                | Some (_, s) => match mapo (fun x => arr_op op x s) l with Some r => OK (VFs r) | None => UNM end
                | None => UNM end
  | _, VFs l => match fl_of_scalar a with
                | Some (_, s) => match mapo (fun y => arr_op op s y) l with Some r => OK (VFs r) | None => UNM end
                | None => UNM end
  | _, _ => match fl_of_scalar a, fl_of_scalar b with
            | Some (pa, x), Some (pb, y) => arith_ff op (pa && pb) x y
            | _, _ => UNM end
  end.
Definition neg_op (a : sv) : out sv :=
  match a with
  | VInt p z => OK (VInt p (- z)) | VFlt p x => OK (VFlt p (fneg x)) | VFs l => OK (VFs (map fneg l))
  | _ => UNM
  end.
Definition q_of_scalar (v : sv) : option Q :=
  match v with VInt _ z => Some (inject_Z z) | VFlt _ (FQ q) => Some q | _ => None end.
Definition cmp_op (op : cmpop) (a b : sv) : out sv :=
  match a, b with
  | VInt _ x, VInt _ y => OK (VBool (zcmp op x y))
  | VFs l, _ => match q_of_scalar b, mapo fq_of l with
                | Some s, Some qs => OK (VBs (map (fun x => qcmp op x s) qs))
                | _, _ => UNM end
  | VFss c m, _ => match q_of_scalar b, mapo (mapo fq_of) m with
                   | Some s, Some qm => OK (VBss c (map (map (fun x => qcmp op x s)) qm))
                   | _, _ => UNM end
  | _, _ => match q_of_scalar a, q_of_scalar b with
            | Some x, Some y => OK (VBool (qcmp op x y))
            | _, _ => UNM end
  end.
Definition get_item (a i : sv) : out sv :=
  match a, i with
  | VTup l, VInt _ z =>
      match norm_idx z (length l) with Some n => of_opt (nth_error l n) | None => EXN IndexError end
  | VNs l, VInt _ z =>
      match norm_idx z (length l) with
      | Some n => of_opt (option_map (fun k => VInt false (Z.of_nat k)) (nth_error l n)) | None => EXN IndexError end
  | VFs l, VInt _ z =>
      match norm_idx z (length l) with Some n => of_opt (option_map (VFlt false) (nth_error l n)) | None => EXN IndexError end
  | VFs l, VBs m => if Nat.eqb (length m) (length l) then OK (VFs (vselect m l)) else EXN IndexError
  | VFss c m, VBss c' b =>                                   (* boolean mask: a copy of the selected cells, row-major *)
      if Nat.eqb c c' && Nat.eqb (length m) (length b) then OK (VFs (vselect (concat b) (concat m))) else EXN IndexError
  | _, _ => UNM
  end.
Definition iter_elems (v : sv) : out (list sv) :=
  match v with
  | VTup l => OK l
  | VNs l => OK (map (fun k => VInt false (Z.of_nat k)) l)
  | VFs l => OK (map (VFlt false) l)
  | _ => UNM
  end.

Local Open Scope string_scope.
Definition attr (a : sv) (f : string) : out sv :=
  if f =? "shape" then
    match a with
    | VNs l => OK (VTup [VInt true (Z.of_nat (length l))])
    | VFs l => OK (VTup [VInt true (Z.of_nat (length l))])
    | VNss c m => OK (VTup [VInt true (Z.of_nat (length m)); VInt true (Z.of_nat c)])
    | VFss c m => OK (VTup [VInt true (Z.of_nat (length m)); VInt true (Z.of_nat c)])
    | _ => UNM end
  else if f =? "T" then
    match a with VNss c m => OK (VNss (length m) (SC.transpose c m)) | _ => UNM end
  else UNM.
Definition col_sums_f (c : nat) (m : list (list fl)) : list fl :=
  map (fun j => fsum (map (fun r => nth j r (FQ 0)) m)) (seq 0 c).
(* methods; "sum_axis" = .sum(axis=k), "astype_float" = .astype(float) / .astype(np.float64) *)
Definition meth (a : sv) (m : string) (args : list sv) : out sv :=
  match a, args with
  | VFs l, [] => if m =? "sum" then OK (VFlt false (fsum l))
                 else if m =? "astype_int32" then match mapo nat_of_fl l with Some r => OK (VNs r) | None => UNM end
                 else UNM
  | VNs l, [] => if m =? "astype_float" then OK (VFs (map fnat l)) else UNM
  | VNss c t, [] =>
      if m =? "flatten" then OK (VNs (concat t))
      else if m =? "astype_float" then OK (VFss c (map (map fnat) t))
      else UNM
  | VNss c t, [VInt _ k] =>
      if m =? "sum_axis" then
        (if (k =? 1)%Z then OK (VNs (SC.row_sums t)) else if (k =? 0)%Z then OK (VNs (SC.col_sums c t)) else UNM)
      else UNM
  | VFss c t, [VInt _ k] =>
      if m =? "sum_axis" then
        (if (k =? 1)%Z then OK (VFs (map fsum t)) else if (k =? 0)%Z then OK (VFs (col_sums_f c t)) else UNM)
      else UNM
  | _, _ => UNM
  end.

Definition npf (f : string) (args : list sv) : out sv :=
  if f =? "len" then
    match args with
    | [VNs l] => OK (VInt true (Z.of_nat (length l)))
    | [VFs l] => OK (VInt true (Z.of_nat (length l)))
    | [VTup l] => OK (VInt true (Z.of_nat (length l)))
    | _ => UNM end
  else if f =? "float" then
    match args with
    | [VFlt _ x] => OK (VFlt true x)
    | [VInt _ z] => OK (VFlt true (FQ (inject_Z z)))
    | _ => UNM end
  else if f =? "np.unique" then match args with [VNs l] => OK (VNs (SC.uniq l)) | _ => UNM end
  else if f =? "np.unique_inverse" then
    match args with [VNs l] => OK (VTup [VNs (SC.uniq l); VNs (map (SC.class_idx (SC.uniq l)) l)]) | _ => UNM end
  else if f =? "np.ones" then
    match args with [VInt _ n] => if (0 <=? n)%Z then OK (VFs (repeat (FQ 1) (Z.to_nat n))) else EXN ValueError | _ => UNM end
  else if f =? "coo_toarray_int64" then      (* coo_matrix((data, (rows, cols)), shape=(R, C), dtype=np.int64).toarray() *)
    match args with
    | [VFs data; VNs rows; VNs cols; VInt _ R; VInt _ C] =>
        if (R <? 0)%Z || (C <? 0)%Z then EXN ValueError else
        match mapo nat_of_fl data with
        | Some d => m <~ coo_toarray d rows cols (Z.to_nat R) (Z.to_nat C) ;; OK (VNss (Z.to_nat C) m)
        | None => UNM end
    | _ => UNM end
  else if f =? "np.bincount" then match args with [VNs l] => OK (VNs (bincount l)) | _ => UNM end
  else if f =? "np.sum" then
    match args with
    | [VFs l] => OK (VFlt false (fsum l))
    | [VFss c m] => OK (VFlt false (fsum (concat m)))
    | _ => UNM end
  else if f =? "np.sum_axis" then
    match args with
    | [VFss c m; VInt _ k] =>
        if (k =? 1)%Z then OK (VFs (map fsum m)) else if (k =? 0)%Z then OK (VFs (col_sums_f c m)) else UNM
    | _ => UNM end
  else if f =? "np.outer" then
    match args with [VFs a; VFs b] => OK (VFss (length b) (map (fun x => map (fun y => fmul x y) b) a)) | _ => UNM end
  else if f =? "np.log" then
    match args with
    | [VFs l] => OK (VFs (map FLog l))
    | [VFlt _ x] => OK (VFlt false (FLog x))
    | _ => UNM end
  else if f =? "np.array_int" then             (* np.array(<list of lists of numbers>, dtype="int") *)
    match args with
    | [VTup rows] =>
        match mapo (fun r => match r with
                             | VTup es => mapo (fun e => match e with VInt _ z => Some z | VFlt _ x => z_of_fl x | _ => None end) es
                             | _ => None end) rows with
        | Some (r0 :: t) => if forallb (fun r => Nat.eqb (length r) (length r0)) t then OK (VZss (length r0) (r0 :: t)) else UNM
        | _ => UNM end
    | _ => UNM end
  else if f =? "np.maximum" then
    match args with [VZss c m; VInt _ k] => OK (VZss c (map (map (fun x => Z.max x k)) m)) | _ => UNM end
  else if f =? "np.minimum" then
    match args with
    | [VNss c m; VNss c' m'] =>
        if Nat.eqb c c' && Nat.eqb (length m) (length m') then OK (VNss c (vmap2 (vmap2 Nat.min) m m')) else UNM
    | _ => UNM end
  else if f =? "np.resize" then
    match args with
    | [VNs l; VTup [VInt _ r; VInt _ c]] =>
        if (r <? 0)%Z || (c <? 0)%Z then EXN ValueError else OK (VNss (Z.to_nat c) (resize l (Z.to_nat r) (Z.to_nat c)))
    | _ => UNM end
  else if f =? "comb_exact" then               (* scipy.special.comb(n, 2, exact=1): a Python int *)
    match args with
    | [VInt _ n; VInt _ 2%Z] => if (n <? 0)%Z then UNM else OK (VInt true (n * (n - 1) / 2)%Z)
    | _ => UNM end
  else if f =? "comb_float" then               (* scipy.special.comb(n, 2): an np.float64 *)
    match args with
    | [VInt _ n; VInt _ 2%Z] => if (n <? 0)%Z then UNM else OK (VFlt false (FQ (inject_Z (n * (n - 1) / 2)%Z)))
    | _ => UNM end
  else UNM.
Local Close Scope string_scope.

(* ------------------------------------------------------------------ syntax *)
Inductive exp :=
| ELoc (x : string)
| ENone | EBool (b : bool) | EInt (z : Z) | EFloat (q : Q)
| ETuple (l : list exp)
| ECmp (a : exp) (rest : list (cmpop * exp))       (* a op1 b op2 c ...: a chained comparison *)
| EIsNone (a : exp)
| ENot (a : exp) | EAnd (a b : exp) | EOr (a b : exp)
| EBin (op : binop) (a b : exp) | ENeg (a : exp)
| EIndex (a i : exp)
| EAttr (a : exp) (f : string)
| EMeth (a : exp) (m : string) (args : list exp)
| ENp (f : string) (args : list exp)
| ESumGen (x : string) (it body : exp)             (* sum(body for x in it) *)
| EListComp (x : string) (it body : exp)           (* [body for x in it]: a list, read as a tuple *)
| ECall (f : string) (pos : list exp) (kws : list (string * exp)).

Inductive stmt :=
| SAssign (x : string) (e : exp)
| STupAssign (xs : list string) (e : exp)           (* a, b = e *)
| SAug (x : string) (op : binop) (e : exp)          (* x op= e: a number, or an unshared array *)
| SExpr (e : exp)
| SIf (c : exp) (a b : list stmt)
| SFor (x : string) (it : exp) (body : list stmt)
| SReturn (e : exp)
| SPass.

Record fdef := { f_params : list (string * option exp); f_locals : list string; f_body : list stmt }.

(* ------------------------------------------------------------------ binding of call arguments *)
Definition env := list (string * sv).
Fixpoint lookup (x : string) (en : env) : option sv :=
  match en with [] => None | (y, v) :: t => if String.eqb x y then Some v else lookup x t end.
Fixpoint update (x : string) (v : sv) (en : env) : option env :=
  match en with
  | [] => None
  | (y, w) :: t => if String.eqb x y then Some ((y, v) :: t) else option_map (cons (y, w)) (update x v t)
  end.
Fixpoint mem_name (p : string) (l : list string) : bool :=
  match l with [] => false | k :: t => String.eqb p k || mem_name p t end.
Fixpoint nodup_names (l : list string) : bool :=
  match l with [] => true | k :: t => negb (mem_name k t) && nodup_names t end.
Definition sigv := list (string * option sv).
Fixpoint bind_params (ps : sigv) (pos : list sv) (kws : list (string * sv)) : option (list sv) :=
  match ps with
  | [] => match pos with [] => Some [] | _ => None end
  | (p, d) :: ps' =>
      match pos with
      | a :: pos' => match lookup p kws with
                     | Some _ => None
                     | None => option_map (cons a) (bind_params ps' pos' kws) end
      | [] => match lookup p kws, d with
              | Some a, _ => option_map (cons a) (bind_params ps' [] kws)
              | None, Some dv => option_map (cons dv) (bind_params ps' [] kws)
              | None, None => None
              end
      end
  end.
Definition bind_args (ps : sigv) (pos : list sv) (kws : list (string * sv)) : option (list sv) :=
  if forallb (fun kw => mem_name (fst kw) (map fst ps)) kws && nodup_names (map fst kws)
  then bind_params ps pos kws else None.
Definition const_val (e : exp) : option sv :=
  match e with
  | ENone => Some VNone | EBool b => Some (VBool b) | EInt z => Some (VInt true z)
  | EFloat q => Some (VFlt true (FQ q))
  | _ => None
  end.
Fixpoint sig_of (ps : list (string * option exp)) : option sigv :=
  match ps with
  | [] => Some []
  | (p, None) :: t => option_map (cons (p, None)) (sig_of t)
  | (p, Some d) :: t => match const_val d, sig_of t with
                        | Some v, Some r => Some ((p, Some v) :: r)
                        | _, _ => None end
  end.
Fixpoint sigs_of (l : list (string * list (string * option exp))) : list (string * option sigv) :=
  match l with [] => [] | (n, ps) :: t => (n, sig_of ps) :: sigs_of t end.
Definition fun_params (funs : list (string * fdef)) : list (string * list (string * option exp)) :=
  map (fun nf => (fst nf, f_params (snd nf))) funs.

(* ------------------------------------------------------------------ evaluation *)
Section Eval.
Variable sigs : list (string * option sigv).
Variable ext : string -> list sv -> out sv.

Fixpoint assoc_sig (f : string) (l : list (string * option sigv)) : option sigv :=
  match l with [] => None | (g, s) :: t => if String.eqb f g then s else assoc_sig f t end.
Definition lookup_sig (f : string) : option sigv := assoc_sig f sigs.

(* sum(...) of the builtin: 0 + v1 + v2 + ... *)
Fixpoint py_sum (acc : sv) (l : list (out sv)) : out sv :=
  match l with [] => OK acc | r :: t => v <~ r ;; a <~ bin_op Add acc v ;; py_sum a t end.

Fixpoint eval (en : env) (e : exp) {struct e} : out sv :=
  match e with
  | ELoc x => match lookup x en with Some VUnbound => EXN OtherExn | Some v => OK v | None => UNM end
  | ENone => OK VNone | EBool b => OK (VBool b) | EInt z => OK (VInt true z)
  | EFloat q => OK (VFlt true (FQ q))
  | ETuple l => vs <~ (fix evs (l : list exp) : out (list sv) :=
                         match l with [] => OK [] | a :: t => v <~ eval en a ;; r <~ evs t ;; OK (v :: r) end) l ;;
                OK (VTup vs)
  | ECmp a rest =>
      x <~ eval en a ;;
      (fix chain (x : sv) (l : list (cmpop * exp)) : out sv :=
         match l with
         | [] => OK (VBool true)
         | (op, b) :: t =>
             y <~ eval en b ;; r <~ cmp_op op x y ;;
             match t with
             | [] => OK r
             | _ => c <~ truth r ;; if c then chain y t else OK r
             end
         end) x rest
  | EIsNone a => x <~ eval en a ;; OK (VBool (match x with VNone => true | _ => false end))
  | ENot a => x <~ eval en a ;; t <~ truth x ;; OK (VBool (negb t))
  | EAnd a b => x <~ eval en a ;; t <~ truth x ;; if t then eval en b else OK x
  | EOr a b => x <~ eval en a ;; t <~ truth x ;; if t then OK x else eval en b
  | EBin op a b => x <~ eval en a ;; y <~ eval en b ;; bin_op op x y
  | ENeg a => x <~ eval en a ;; neg_op x
  | EIndex a i => x <~ eval en a ;; y <~ eval en i ;; get_item x y
  | EAttr a f => x <~ eval en a ;; attr x f
  | EMeth a m args =>
      x <~ eval en a ;;
      vs <~ (fix evs (l : list exp) : out (list sv) :=
               match l with [] => OK [] | a :: t => v <~ eval en a ;; r <~ evs t ;; OK (v :: r) end) args ;;
      meth x m vs
  | ENp f args =>
      vs <~ (fix evs (l : list exp) : out (list sv) :=
               match l with [] => OK [] | a :: t => v <~ eval en a ;; r <~ evs t ;; OK (v :: r) end) args ;;
      npf f vs
  | ESumGen x it body =>
      c <~ eval en it ;; els <~ iter_elems c ;;
      py_sum (VInt true 0) (map (fun v => eval ((x, v) :: en) body) els)
  | EListComp x it body =>
      c <~ eval en it ;; els <~ iter_elems c ;;
      vs <~ (fix seqo (l : list (out sv)) : out (list sv) :=
               match l with [] => OK [] | r :: t => v <~ r ;; w <~ seqo t ;; OK (v :: w) end)
            (map (fun v => eval ((x, v) :: en) body) els) ;;
      OK (VTup vs)
  | ECall f pos kws =>
      ps <~ (fix evs (l : list exp) : out (list sv) :=
               match l with [] => OK [] | a :: t => v <~ eval en a ;; r <~ evs t ;; OK (v :: r) end) pos ;;
      ks <~ (fix evk (l : list (string * exp)) : out (list (string * sv)) :=
               match l with [] => OK [] | (k, a) :: t => v <~ eval en a ;; r <~ evk t ;; OK ((k, v) :: r) end) kws ;;
      match lookup_sig f with
      | Some sg => match bind_args sg ps ks with Some vs => ext f vs | None => UNM end
      | None => UNM
      end
  end.

Inductive sres := SNorm (en : env) | SRet (v : sv) | SExn (e : exn) | SUnm.
Definition lift_e {A} (r : out A) (k : A -> sres) : sres :=
  match r with OK a => k a | EXN e => SExn e | UNM => SUnm end.
Definition set1 (x : string) (v : sv) (en : env) : sres :=
  match update x v en with Some en' => SNorm en' | None => SUnm end.
Fixpoint set_many (xs : list string) (vs : list sv) (en : env) : sres :=
  match xs, vs with
  | [], [] => SNorm en
  | x :: xs', v :: vs' => match set1 x v en with SNorm en' => set_many xs' vs' en' | o => o end
  | _, _ => SExn ValueError                          (* too many / not enough values to unpack *)
  end.
Fixpoint for_loop (step : sv -> env -> sres) (els : list sv) (en : env) : sres :=
  match els with
  | [] => SNorm en
  | v :: t => match step v en with SNorm en' => for_loop step t en' | r => r end
  end.
Definition run_block (f : stmt -> env -> sres) : list stmt -> env -> sres :=
  fix go (l : list stmt) (en : env) : sres :=
    match l with [] => SNorm en | s :: r => match f s en with SNorm en' => go r en' | o => o end end.
Definition for_step (blk : list stmt -> env -> sres) (x : string) (body : list stmt) (el : sv) (en : env) : sres :=
  match set1 x el en with SNorm en' => blk body en' | o => o end.

Fixpoint exec (s : stmt) (en : env) {struct s} : sres :=
  match s with
  | SAssign x e => lift_e (eval en e) (fun v => set1 x v en)
  | STupAssign xs e => lift_e (eval en e) (fun v => lift_e (iter_elems v) (fun vs => set_many xs vs en))
  | SAug x op e =>
      lift_e (eval en (ELoc x)) (fun a => lift_e (eval en e) (fun b => lift_e (bin_op op a b) (fun v => set1 x v en)))
  | SExpr e => lift_e (eval en e) (fun _ => SNorm en)
  | SIf c a b => lift_e (eval en c) (fun v => lift_e (truth v) (fun t => run_block exec (if t then a else b) en))
  | SFor x it body =>
      lift_e (eval en it) (fun v => lift_e (iter_elems v) (fun els => for_loop (for_step (run_block exec) x body) els en))
  | SReturn e => lift_e (eval en e) SRet
  | SPass => SNorm en
  end.
Definition exec_block : list stmt -> env -> sres := run_block exec.

Definition init_env (f : fdef) (args : list sv) : env :=
  combine (map fst (f_params f)) args ++ map (fun x => (x, VUnbound)) (f_locals f).
Definition run_fun (f : fdef) (args : list sv) : out sv :=
  if Nat.eqb (length args) (length (f_params f)) then
    match exec_block (f_body f) (init_env f args) with
    | SNorm _ => OK VNone | SRet v => OK v | SExn e => EXN e | SUnm => UNM end
  else UNM.
End Eval.
