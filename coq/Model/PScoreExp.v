(* Extension of the Python / NumPy sub-language of Model/BeatExp.v for mir_eval.beat.p_score: the same values,
   syntax, operators and statement forms; a second primitive table [npf2] / [meth2] / [set_item2] that falls back to
   BeatExp's, and an evaluator [eval2] / [exec2] / [run_fun2] that is BeatExp's with those tables. Definitions only.

   translator/corefuncs_pscore.py maps the syntax of p_score to an [fdef] (Gen/CorePScoreGen.v); what the syntax
   means on each type of value is decided HERE; Proofs/CorePScoreTie*.v prove the generated program equal to
   Beat.p_score for all inputs.

   Reading of Python / NumPy added here (the trusted part; conventions of BeatExp.v apply: floats are exact
   rationals / +-inf / nan, ints - Python's and int64 - are unbounded Z, [UNM] outside the listed cases)
   * int(x): truncation toward zero of a finite float ([qtrunc]); int(nan) raises ValueError, int(+-inf) raises
     OverflowError ([OtherExn]); the result is a Python int.  np.int64(x), a.astype(np.int64): the C cast, also
     truncation toward zero; results are NumPy scalars / an int64 array.
   * min(a, b) (the builtin, two scalars): b if b < a else a.
   * np.ceil: [Qceiling] entrywise, the result is a float;  np.round (no decimals): round half to even ([rhe]),
     nan / inf unchanged.  np.array(a): a new array with the entries of a.
   * np.median of an int64 / float64 array: nan on the empty array (NumPy warns), otherwise the middle element /
     the mean of the two middle elements of the sorted entries ([median_q]; the sum of the two is halved).
   * np.flatnonzero of a float array: the positions of the entries != 0.
   * a[idx] = v with idx an int64 ARRAY (fancy-index store): every index is normalised as a Python index
     (negative = from the end), any index out of range raises IndexError, duplicates are allowed (the same value is
     stored again).
   * np.correlate(a, v, "full") on non-empty float arrays of lengths N, M: N + M - 1 entries,
         c[j] = sum_{n = 0 .. M-1} a[n + j - (M - 1)] * v[n]     (entries of a outside 0 .. N-1 count as 0);
     an empty argument raises ValueError.  (Index convention checked against NumPy: [correlate_numpy_*] in
     Proofs/CorePScoreTie.v.)
   * [fdiv_const a b r]: the translator folds a division of two float LITERALS with Python's own binary64
     arithmetic and hands over the operands and its result r; the evaluator accepts r only if it is within
     2^-54 |r| of the exact quotient a / b, strictly (then r, a binary64 number, is the correctly rounded quotient:
     half an ulp of r is at least 2^-54 |r| ... 2^-53 |r|). *)
From Coq Require Import String.
From Coq Require Import List Bool Arith ZArith QArith Qabs Qminmax Qround.
From ME Require Import Model.Prelude Model.BeatExp.
Import ListNotations.
Open Scope Q_scope.

(* ------------------------------------------------------------------ numbers *)
(* truncation toward zero: int(x), the C cast float -> int64 *)
Definition qtrunc (q : Q) : Z := Z.quot (Qnum q) (Zpos (Qden q)).
Definition qceil (q : Q) : Q := inject_Z (Qceiling q).
(* round half to even *)
Definition rhe (y : Q) : Z :=
  let f := Qfloor y in let d := y - inject_Z f in
  if qltb d (1#2) then f else if qltb (1#2) d then (f + 1)%Z else if Z.even f then f else (f + 1)%Z.
Fixpoint ins_q (x : Q) (l : list Q) : list Q :=
  match l with [] => [x] | y :: t => if qltb x y then x :: l else y :: ins_q x t end.
Definition sort_q (l : list Q) : list Q := fold_left (fun acc x => ins_q x acc) l [].
Definition median_q (l : list Q) : xval :=
  match l with
  | [] => NaN
  | _ => let s := sort_q l in let n := length s in
         Fin (if Nat.even n then (nth (n / 2 - 1) s 0 + nth (n / 2) s 0) / 2 else nth (n / 2) s 0)
  end.
Definition xround (x : xval) : xval := match x with Fin q => Fin (inject_Z (rhe q)) | o => o end.
Definition xceil (x : xval) : xval := match x with Fin q => Fin (qceil q) | o => o end.

(* ------------------------------------------------------------------ np.correlate(a, v, "full") *)
(* a[i] with 0 outside the array *)
Definition nthq (l : list Q) (i : Z) : Q := if (i <? 0)%Z then 0 else nth (Z.to_nat i) l 0.
Definition corr_at (a v : list Q) (j : Z) : Q :=
  qsum (map (fun n => nthq a (n + j - (Z.of_nat (length v) - 1)) * nthq v n) (zrange 0 (Z.of_nat (length v)))).
Definition correlate_full (a v : list Q) : list Q :=
  map (corr_at a v) (zrange 0 (Z.of_nat (length a + length v - 1))).

(* ------------------------------------------------------------------ fancy-index store *)
Fixpoint scatter (l : list Q) (idx : list Z) (q : Q) : option (list Q) :=
  match idx with
  | [] => Some l
  | i :: t => match norm_idx i (length l) with Some n => scatter (set_nth l n q) t q | None => None end
  end.
Definition set_item2 (a i v : bv) : out bv :=
  match a, i with
  | VArrQ l, VArrZ idx =>
      match fin_of v with
      | Some q => match scatter l idx q with Some l' => OK (VArrQ l') | None => EXN IndexError end
      | None => UNM end
  | _, _ => set_item a i v
  end.

(* ------------------------------------------------------------------ primitives *)
Definition pow2 (n : positive) : Q := 1 # (2 ^ n).
Local Open Scope string_scope.
Definition meth2 (a : bv) (m : string) (args : list bv) : out bv :=
  if m =? "astype_int64" then
    match a, args with
    | VArrQ l, [] => OK (VArrZ (map qtrunc l))
    | VArrZ l, [] => OK (VArrZ l)
    | _, _ => UNM end
  else meth a m args.

Section Prims2.
Variable fexp : Q -> Q.
Definition npf2 (f : string) (args : list bv) : out bv :=
  if f =? "int" then
    match args with
    | [VInt _ z] => OK (VInt true z)
    | [VFlt _ (Fin q)] => OK (VInt true (qtrunc q))
    | [VFlt _ NaN] => EXN ValueError
    | [VFlt _ _] => EXN OtherExn                       (* OverflowError *)
    | _ => UNM end
  else if f =? "min" then
    match args with
    | [a; b] => if is_scalar a && is_scalar b
                then r <~ cmp_op Lt b a ;; t <~ truth r ;; OK (if t then b else a)
                else UNM
    | _ => UNM end
  else if f =? "np.int64" then
    match args with
    | [VInt _ z] => OK (VInt false z)
    | [VFlt _ (Fin q)] => OK (VInt false (qtrunc q))
    | _ => UNM end
  else if f =? "np.ceil" then
    match args with
    | [VFlt _ x] => OK (VFlt false (xceil x))
    | [VArrQ l] => OK (VArrQ (map qceil l))
    | _ => UNM end
  else if f =? "np.round" then
    match args with
    | [VFlt _ x] => OK (VFlt false (xround x))
    | _ => UNM end
  else if f =? "np.array" then
    match args with
    | [VArrQ l] => OK (VArrQ l)
    | [VArrZ l] => OK (VArrZ l)
    | _ => UNM end
  else if f =? "np.median" then
    match args with
    | [VArrZ l] => OK (VFlt false (median_q (map inject_Z l)))
    | [VArrQ l] => OK (VFlt false (median_q l))
    | _ => UNM end
  else if f =? "np.flatnonzero" then
    match args with
    | [VArrQ l] => OK (VArrZ (nz_from 0 (map (fun q => negb (qeqb q 0)) l)))
    | _ => npf fexp f args end
  else if f =? "np.correlate_full" then
    match args with
    | [VArrQ a; VArrQ v] =>
        match a, v with
        | [], _ | _, [] => EXN ValueError
        | _, _ => OK (VArrQ (correlate_full a v)) end
    | _ => UNM end
  else if f =? "fdiv_const" then
    match args with
    | [VFlt true (Fin a); VFlt true (Fin b); VFlt true (Fin r)] =>
        if qeqb b 0 then UNM
        else if qltb (Qabs (a / b - r)) (Qabs r * pow2 54) then OK (VFlt true (Fin r)) else UNM
    | _ => UNM end
  else npf fexp f args.
End Prims2.
Local Close Scope string_scope.

(* ------------------------------------------------------------------ evaluation (BeatExp's, with the tables above) *)
Section Eval2.
Variable sigs : list (string * option sigv).
Variable ext : string -> list bv -> out bv.
Variable fexp : Q -> Q.

Fixpoint eval2 (en : env) (e : exp) {struct e} : out bv :=
  match e with
  | ELoc x => match lookup x en with Some VUnbound => EXN OtherExn | Some v => OK v | None => UNM end
  | ENone => OK VNone | EBool b => OK (VBool true b) | EInt z => OK (VInt true z)
  | EFloat q => OK (VFlt true (Fin q)) | EInf => OK (VFlt true PInf)
  | ETuple l => vs <~ (fix evs (l : list exp) : out (list bv) :=
                         match l with [] => OK [] | a :: t => v <~ eval2 en a ;; r <~ evs t ;; OK (v :: r) end) l ;;
                OK (VTup vs)
  | EList l => vs <~ (fix evs (l : list exp) : out (list bv) :=
                        match l with [] => OK [] | a :: t => v <~ eval2 en a ;; r <~ evs t ;; OK (v :: r) end) l ;;
               OK (VList vs)
  | ECmp op a b => x <~ eval2 en a ;; y <~ eval2 en b ;; cmp_op op x y
  | ENot a => x <~ eval2 en a ;; t <~ truth x ;; OK (VBool true (negb t))
  | EAnd a b => x <~ eval2 en a ;; t <~ truth x ;; if t then eval2 en b else OK x
  | EOr a b => x <~ eval2 en a ;; t <~ truth x ;; if t then OK x else eval2 en b
  | EBin op a b => x <~ eval2 en a ;; y <~ eval2 en b ;; bin_op op x y
  | ENeg a => x <~ eval2 en a ;; neg_op x
  | EIndex a i => x <~ eval2 en a ;; y <~ eval2 en i ;; get_item x y
  | ESlice a lo hi st =>
      x <~ eval2 en a ;;
      l <~ match lo with Some e' => v <~ eval2 en e' ;; OK (Some v) | None => OK None end ;;
      h <~ match hi with Some e' => v <~ eval2 en e' ;; OK (Some v) | None => OK None end ;;
      s <~ match st with Some e' => v <~ eval2 en e' ;; OK (Some v) | None => OK None end ;;
      slice_val x l h s
  | EAttr a f => x <~ eval2 en a ;; attr x f
  | EMeth a m args =>
      x <~ eval2 en a ;;
      vs <~ (fix evs (l : list exp) : out (list bv) :=
               match l with [] => OK [] | a :: t => v <~ eval2 en a ;; r <~ evs t ;; OK (v :: r) end) args ;;
      meth2 x m vs
  | ENp f args =>
      vs <~ (fix evs (l : list exp) : out (list bv) :=
               match l with [] => OK [] | a :: t => v <~ eval2 en a ;; r <~ evs t ;; OK (v :: r) end) args ;;
      npf2 fexp f vs
  | ECall f pos kws =>
      ps <~ (fix evs (l : list exp) : out (list bv) :=
               match l with [] => OK [] | a :: t => v <~ eval2 en a ;; r <~ evs t ;; OK (v :: r) end) pos ;;
      ks <~ (fix evk (l : list (string * exp)) : out (list (string * bv)) :=
               match l with [] => OK [] | (k, a) :: t => v <~ eval2 en a ;; r <~ evk t ;; OK ((k, v) :: r) end) kws ;;
      match assoc_sig f sigs with
      | Some sg => match bind_args sg ps ks with Some vs => ext f vs | None => UNM end
      | None => UNM
      end
  end.

Fixpoint exec2 (s : stmt) (en : env) {struct s} : sres :=
  match s with
  | SAssign x e => lift_e (eval2 en e) (fun v => set1 x v en)
  | SAug x op e =>
      lift_e (eval2 en (ELoc x)) (fun a => lift_e (eval2 en e) (fun b =>
        if is_scalar a then lift_e (bin_op op a b) (fun v => set1 x v en) else SUnm))
  | SSetItem x i e =>
      lift_e (eval2 en e) (fun v => lift_e (eval2 en (ELoc x)) (fun a => lift_e (eval2 en i) (fun j =>
        lift_e (set_item2 a j v) (fun a' => set1 x a' en))))
  | SAppend x e =>
      lift_e (eval2 en (ELoc x)) (fun a => lift_e (eval2 en e) (fun v =>
        match a with VList l => set1 x (VList (l ++ [v])) en | _ => SUnm end))
  | SExpr e => lift_e (eval2 en e) (fun _ => SNorm en)
  | SWarn => SNorm en
  | SIf c a b => lift_e (eval2 en c) (fun v => lift_e (truth v) (fun t => run_block exec2 (if t then a else b) en))
  | SFor x it body =>
      lift_e (eval2 en it) (fun v => lift_e (iter_elems v) (fun els => for_loop (for_step (run_block exec2) x body) els en))
  | SReturn e => lift_e (eval2 en e) SRet
  | SPass => SNorm en
  end.
Definition exec_block2 : list stmt -> env -> sres := run_block exec2.

Definition run_fun2 (f : fdef) (args : list bv) : out bv :=
  if Nat.eqb (length args) (length (f_params f)) then
    match exec_block2 (f_body f) (init_env f args) with
    | SNorm _ => OK VNone | SRet v => OK v | SExn e => EXN e | SUnm => UNM end
  else UNM.
End Eval2.
