(* Validators of mir_eval that are not modelled elsewhere, on an input-shape descriptor.  Definitions only.

   * `arr` describes a NumPy array by its number of dimensions, its shape and its row-major flattening, so that the
     shape-level checks of the validators (`ndim != 1`, `ndim != 2 or shape[1] != 2`, `size`, `shape[0]`) have content:
       util.validate_events, util.validate_intervals, util.validate_frequencies
     are transcribed statement by statement IN THE ORDER OF THE CODE (e.g. validate_events tests the magnitudes before
     the dimension; validate_frequencies tests the dimension last).
   * chord.validate (label lists), the checks in front of chord.directional_hamming_distance / overseg / underseg / seg.
   * shape-level versions of the task validators that other files model on well-shaped data only
     (beat/onset.validate, segment.validate_boundary / validate_structure, hierarchy.validate_hier_intervals,
     multipitch.validate, transcription.validate, transcription_velocity.validate); Proofs/ValidatorsProps.v proves
     that on well-shaped arrays they coincide with those models.
   Every raise of these functions is a ValueError (InvalidChordException for chord labels), EXCEPT
     - `hierarchy`'s `intervals_hier[0]` on an empty list: IndexError;
     - on a 0-d array (shape = ()): `len(a)` raises TypeError ("len() of unsized object") and `a.shape[0]` raises
       IndexError BEFORE any validation in segment.validate_boundary (len), hierarchy.validate_hier_intervals (len, through
       util.generate_labels), melody.validate_voicing / validate, transcription.validate (pitches),
       transcription_velocity.validate (velocities) (.shape[0]): [arr_len], [arr_shape0].
   Warnings are not modelled.
   NOTE (faithful, a known finding): validate_frequencies with allow_negatives=False bounds |f| only, so negative
   frequencies whose magnitude is in range pass. *)
From Coq Require Import List Bool Arith ZArith QArith Qabs Qminmax.
From ME Require Import Model.Prelude Model.ChordParse.
Import ListNotations.

Record arr := mkarr { ndim : nat; shape : list nat; data : list Q }.

Definition flat2 (ivs : list (Q * Q)) : list Q := flat_map (fun p => [fst p; snd p]) ivs.
(* a 1-d array, an (n, 2) array *)
Definition arr1 (l : list Q) : arr := mkarr 1 [length l] l.
Definition arr2 (ivs : list (Q * Q)) : arr := mkarr 2 [length ivs; 2%nat] (flat2 ivs).
(* rows of an (n, 2) array from its flattening *)
Fixpoint rows2 (l : list Q) : list (Q * Q) := match l with a :: b :: t => (a, b) :: rows2 t | _ => [] end.
Definition rows (a : arr) : list (Q * Q) := rows2 (data a).
Definition size_of (sh : list nat) : nat := fold_right Nat.mul 1%nat sh.
(* the descriptor is consistent: ndim = len(shape), size = prod(shape) *)
Definition wf_arr (a : arr) : bool := (ndim a =? length (shape a))%nat && (length (data a) =? size_of (shape a))%nat.
Definition shape0 (a : arr) : nat := nth 0 (shape a) 0%nat.           (* a.shape[0] = len(a) *)
Definition asize (a : arr) : nat := length (data a).                   (* a.size *)
(* len(a): a 0-d array is unsized (TypeError);  a.shape[0]: the shape tuple of a 0-d array is empty (IndexError) *)
Definition arr_len (a : arr) : res nat := match shape a with [] => Raise TypeError | n :: _ => Ok n end.
Definition arr_shape0 (a : arr) : res nat := match shape a with [] => Raise IndexError | n :: _ => Ok n end.

(* (np.diff(events) < 0).any() is false *)
Fixpoint nondecreasing (l : list Q) : bool :=
  match l with a :: (b :: _) as t => qleb a b && nondecreasing t | _ => true end.

(* ---------------------------------------------------------------- util.validate_events(events, max_time) *)
Definition validate_events_arr (max_time : Q) (a : arr) : res unit :=
  if existsb (fun t => qltb max_time t) (data a) then Raise ValueError          (* (events > max_time).any() *)
  else if negb (ndim a =? 1)%nat then Raise ValueError                          (* events.ndim != 1 *)
  else if negb (nondecreasing (data a)) then Raise ValueError                   (* (np.diff(events) < 0).any() *)
  else Ok tt.

(* ---------------------------------------------------------------- util.validate_intervals(intervals) *)
Definition is_n_by_2 (a : arr) : bool := (ndim a =? 2)%nat && (nth 1 (shape a) 0 =? 2)%nat.
Definition validate_intervals_arr (a : arr) : res unit :=
  if negb (is_n_by_2 a) then Raise ValueError                                   (* ndim != 2 or shape[1] != 2 *)
  else if existsb (fun x => qltb x 0) (data a) then Raise ValueError            (* (intervals < 0).any() *)
  else if existsb (fun iv => qleb (snd iv) (fst iv)) (rows a) then Raise ValueError   (* (iv[:, 1] <= iv[:, 0]).any() *)
  else Ok tt.

(* ---------------------------------------------------------------- util.validate_frequencies(f, max, min, allow_negatives) *)
Definition validate_frequencies_arr (max_freq min_freq : Q) (allow_negatives : bool) (a : arr) : res unit :=
  let f := if allow_negatives then map Qabs (data a) else data a in             (* frequencies = np.abs(frequencies) *)
  if existsb (fun x => qltb max_freq (Qabs x)) f then Raise ValueError          (* (np.abs(f) > max_freq).any() *)
  else if existsb (fun x => qltb (Qabs x) min_freq) f then Raise ValueError     (* (np.abs(f) < min_freq).any() *)
  else if negb (ndim a =? 1)%nat then Raise ValueError                          (* f.ndim != 1 *)
  else Ok tt.

(* ---------------------------------------------------------------- chord.validate(reference_labels, estimated_labels) *)
Fixpoint validate_labels (l : list str) : res unit :=
  match l with [] => Ok tt | s :: t => _ <- validate_label s ;; validate_labels t end.
Definition chord_validate (r e : list str) : res unit :=
  if negb (length r =? length e)%nat then Raise ValueError                      (* N != M *)
  else _ <- validate_labels r ;; validate_labels e.

(* ---------------------------------------------------------------- checks of chord.directional_hamming_distance *)
(* (reference_intervals[:-1, 1] > reference_intervals[1:, 0]).any()  (false for fewer than two rows) *)
Fixpoint overlaps (ivs : list (Q * Q)) : bool :=
  match ivs with a :: ((b :: _) as t) => qltb (fst b) (snd a) || overlaps t | _ => false end.
Definition dhd_checks (ref est : arr) : res unit :=
  _ <- validate_intervals_arr est ;;
  _ <- validate_intervals_arr ref ;;
  if overlaps (rows ref) then Raise ValueError else Ok tt.
(* overseg = 1 - dhd(ref, est); underseg = 1 - dhd(est, ref); seg = min(underseg(..), overseg(..)), left to right.
   Only the checks: the computation after them can still fail (reference_intervals[-1, 1] on an empty array). *)
Definition overseg_checks (ref est : arr) : res unit := dhd_checks ref est.
Definition underseg_checks (ref est : arr) : res unit := dhd_checks est ref.
Definition seg_checks (ref est : arr) : res unit := _ <- dhd_checks est ref ;; dhd_checks ref est.

(* exception behaviour of the whole functions: after the checks the only failing statement is `reference_intervals[-1, 1]`
   on an empty reference (the loop body np.diff(np.hstack([start, .., end])).max() has at least one element, the final float
   division never raises) *)
Definition dhd_outcome (ref est : arr) : res unit :=
  _ <- dhd_checks ref est ;; match rows ref with [] => Raise IndexError | _ => Ok tt end.
Definition seg_outcome (ref est : arr) : res unit := _ <- dhd_outcome est ref ;; dhd_outcome ref est.

(* ---------------------------------------------------------------- beat.validate / onset.validate *)
Definition EV_MAX_TIME : Q := 30000.
Definition events_validate_arr (ref est : arr) : res unit :=
  _ <- validate_events_arr EV_MAX_TIME ref ;; validate_events_arr EV_MAX_TIME est.

(* ---------------------------------------------------------------- segment.validate_boundary / validate_structure *)
(* transcription.validate_intervals(ref, est): the two util validators, nothing else *)
Definition validate_pair_arr (ref est : arr) : res unit :=
  _ <- validate_intervals_arr ref ;; validate_intervals_arr est.
(* segment.validate_boundary first compares len(reference_intervals), len(estimated_intervals) with min_size (for the
   warnings): a 0-d array is rejected there with TypeError, before any validation *)
Definition validate_boundary_arr (ref est : arr) : res unit :=
  _ <- arr_len ref ;; _ <- arr_len est ;; validate_pair_arr ref est.
Definition np_atol : Q := (3022314549036573 # 302231454903657293676544)%Q.     (* the binary64 1e-08 *)
Definition np_rtol : Q := (5902958103587057 # 590295810358705651712)%Q.        (* the binary64 1e-05 *)
Definition allclose (a b : Q) : bool := qleb (Qabs (a - b)) (np_atol + np_rtol * Qabs b)%Q.
Definition validate_one_arr (a : arr) (nlabels : nat) : res unit :=
  _ <- validate_intervals_arr a ;;
  if negb (shape0 a =? nlabels)%nat then Raise ValueError                       (* intervals.shape[0] != len(labels) *)
  else match qmin_list (data a) with                                            (* intervals.size > 0 *)
       | Some m => if allclose m 0 then Ok tt else Raise ValueError             (* not np.allclose(intervals.min(), 0.0) *)
       | None => Ok tt
       end.
Definition validate_structure_arr (ri : arr) (nrl : nat) (ei : arr) (nel : nat) : res unit :=
  _ <- validate_one_arr ri nrl ;;
  _ <- validate_one_arr ei nel ;;
  match qmax_list (data ri), qmax_list (data ei) with
  | Some a, Some b => if allclose a b then Ok tt else Raise ValueError          (* End times do not match *)
  | _, _ => Ok tt
  end.

(* ---------------------------------------------------------------- hierarchy.validate_hier_intervals *)
(* every deeper level against the top level with generated labels (util.generate_labels(x) has len(x) entries: TypeError
   on a 0-d array, for the top level before the loop and for each deeper level before it is validated);
   a single-level hierarchy is not validated beyond that; `intervals_hier[0]` of an empty list raises IndexError *)
Fixpoint validate_levels_arr (top : arr) (rest : list arr) : res unit :=
  match rest with
  | [] => Ok tt
  | l :: t => n <- arr_len l ;; _ <- validate_structure_arr top (shape0 top) l n ;; validate_levels_arr top t
  end.
Definition validate_hier_arr (H : list arr) : res unit :=
  match H with [] => Raise IndexError | top :: rest => _ <- arr_len top ;; validate_levels_arr top rest end.

(* ---------------------------------------------------------------- multipitch.validate *)
Definition MP_MAX_TIME : Q := 30000.
Definition MP_MAX_FREQ : Q := 5000.
Definition MP_MIN_FREQ : Q := 20.
Fixpoint validate_all_freqs_arr (fs : list arr) : res unit :=
  match fs with
  | [] => Ok tt
  | f :: t => _ <- validate_frequencies_arr MP_MAX_FREQ MP_MIN_FREQ false f ;; validate_all_freqs_arr t
  end.
Definition multipitch_validate_arr (rt : arr) (rf : list arr) (et : arr) (ef : list arr) : res unit :=
  _ <- validate_events_arr MP_MAX_TIME rt ;;
  _ <- validate_events_arr MP_MAX_TIME et ;;
  if negb (ndim rt =? 1)%nat then Raise ValueError                              (* unreachable after validate_events *)
  else if negb (ndim et =? 1)%nat then Raise ValueError
  else if negb (asize rt =? length rf)%nat then Raise ValueError                (* ref_time.size != len(ref_freqs) *)
  else if negb (asize et =? length ef)%nat then Raise ValueError
  else _ <- validate_all_freqs_arr rf ;; validate_all_freqs_arr ef.

(* ---------------------------------------------------------------- transcription.validate / transcription_velocity.validate *)
(* pitches and velocities are 1-d arrays (lists): .shape[0] = length; `x.size > 0 and np.min(x) <= 0` = some element <= 0 *)
Definition transcription_validate_arr (ri : arr) (rp : list Q) (ei : arr) (ep : list Q) : res unit :=
  _ <- validate_intervals_arr ri ;;
  _ <- validate_intervals_arr ei ;;
  if negb (shape0 ri =? length rp)%nat then Raise ValueError
  else if negb (shape0 ei =? length ep)%nat then Raise ValueError
  else if existsb (fun p => qleb p 0) rp then Raise ValueError
  else if existsb (fun p => qleb p 0) ep then Raise ValueError
  else Ok tt.
Definition velocity_validate_arr (ri : arr) (rp rv : list Q) (ei : arr) (ep ev : list Q) : res unit :=
  _ <- transcription_validate_arr ri rp ei ep ;;
  if negb (length rv =? length rp)%nat then Raise ValueError
  else if negb (length ev =? length ep)%nat then Raise ValueError
  else if existsb (fun v => qltb v 0) rv then Raise ValueError
  else if existsb (fun v => qltb v 0) ev then Raise ValueError
  else Ok tt.

(* the same on arrays of any shape: `.shape[0]` of a 0-d pitch / velocity array raises IndexError (after the intervals have
   been validated); `x.size > 0 and np.min(x) <= 0` looks at all elements *)
Definition transcription_validate_nd (ri rp ei ep : arr) : res unit :=
  _ <- validate_intervals_arr ri ;;
  _ <- validate_intervals_arr ei ;;
  n <- arr_shape0 rp ;;
  if negb (shape0 ri =? n)%nat then Raise ValueError else
  m <- arr_shape0 ep ;;
  if negb (shape0 ei =? m)%nat then Raise ValueError
  else if existsb (fun p => qleb p 0) (data rp) then Raise ValueError
  else if existsb (fun p => qleb p 0) (data ep) then Raise ValueError
  else Ok tt.
Definition velocity_validate_nd (ri rp rv ei ep ev : arr) : res unit :=
  _ <- transcription_validate_nd ri rp ei ep ;;
  n <- arr_shape0 rv ;;
  if negb (n =? shape0 rp)%nat then Raise ValueError else
  m <- arr_shape0 ev ;;
  if negb (m =? shape0 ep)%nat then Raise ValueError
  else if existsb (fun v => qltb v 0) (data rv) then Raise ValueError
  else if existsb (fun v => qltb v 0) (data ev) then Raise ValueError
  else Ok tt.

(* ---------------------------------------------------------------- melody.validate_voicing / melody.validate on arrays of any shape *)
(* the list-level models are Model/Melody.v; here `.shape[0]` of a 0-d array raises IndexError, in the order of evaluation
   (`or` is lazy: the later operands are not evaluated once a mismatch is found) *)
Definition voicing_out_of_range (v : Q) : bool := qltb v 0 || qltb 1 v.
Definition melody_validate_voicing_nd (rv ev : arr) : res unit :=
  n <- arr_shape0 rv ;; m <- arr_shape0 ev ;;
  if negb (n =? m)%nat then Raise ValueError
  else if existsb voicing_out_of_range (data rv) then Raise ValueError
  else if existsb voicing_out_of_range (data ev) then Raise ValueError
  else Ok tt.
Definition melody_validate_nd (rv rc ev ec : arr) : res unit :=
  a <- arr_shape0 rv ;; b <- arr_shape0 rc ;;
  if negb (a =? b)%nat then Raise ValueError else
  c <- arr_shape0 ev ;; d <- arr_shape0 ec ;;
  if negb (c =? d)%nat then Raise ValueError
  else if negb (b =? d)%nat then Raise ValueError
  else Ok tt.

(* ---------------------------------------------------------------- exception tags (correspondence at tag level) *)
(* 0 = returns, 1 = ValueError, 2 = InvalidChordException, 3 = TypeError, 4 = IndexError, 5 = any other exception class *)
Definition tag {A} (r : res A) : nat :=
  match r with
  | Ok _ => 0 | Raise ValueError => 1 | Raise InvalidChord => 2 | Raise TypeError => 3 | Raise IndexError => 4 | Raise _ => 5
  end%nat.
