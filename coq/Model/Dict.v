From Coq Require Import List Arith Bool Lia.
Import ListNotations.
Set Implicit Arguments.
Section Dict.
Variable V : Type.
Definition dict := list (nat * V).
Fixpoint dget (d : dict) (k : nat) : option V :=
  match d with [] => None | (k', v) :: t => if Nat.eqb k k' then Some v else dget t k end.
Definition dmem (d : dict) (k : nat) : bool := match dget d k with Some _ => true | None => false end.
Fixpoint dset (d : dict) (k : nat) (v : V) : dict :=
  match d with [] => [(k, v)] | (k', v') :: t => if Nat.eqb k k' then (k, v) :: t else (k', v') :: dset t k v end.
Fixpoint ddel (d : dict) (k : nat) : dict :=
  match d with [] => [] | (k', v') :: t => if Nat.eqb k k' then ddel t k else (k', v') :: ddel t k end.
Definition keys (d : dict) : list nat := map fst d.

Lemma dget_dset_same d k v : dget (dset d k v) k = Some v.
Proof. induction d as [|[k' v'] t IH]; simpl; [now rewrite Nat.eqb_refl|].
  destruct (Nat.eqb k k') eqn:E; simpl; [now rewrite Nat.eqb_refl| now rewrite E]. Qed.
Lemma dget_dset_other d k k' v : k' <> k -> dget (dset d k v) k' = dget d k'.
Proof. intros H. induction d as [|[k2 v2] t IH]; simpl.
  - destruct (Nat.eqb k' k) eqn:E; [apply Nat.eqb_eq in E; congruence|reflexivity].
  - destruct (Nat.eqb k k2) eqn:E; simpl.
    + apply Nat.eqb_eq in E; subst k2. destruct (Nat.eqb k' k) eqn:E2; [apply Nat.eqb_eq in E2; congruence|reflexivity].
    + destruct (Nat.eqb k' k2); [reflexivity|exact IH]. Qed.
Lemma dget_ddel_same d k : dget (ddel d k) k = None.
Proof. induction d as [|[k' v'] t IH]; simpl; [reflexivity|].
  destruct (Nat.eqb k k') eqn:E; simpl; [exact IH| now rewrite E]. Qed.
Lemma dget_ddel_other d k k' : k' <> k -> dget (ddel d k) k' = dget d k'.
Proof. intros H. induction d as [|[k2 v2] t IH]; simpl; [reflexivity|].
  destruct (Nat.eqb k k2) eqn:E; simpl.
  - apply Nat.eqb_eq in E; subst k2. destruct (Nat.eqb k' k) eqn:E2; [apply Nat.eqb_eq in E2; congruence|exact IH].
  - destruct (Nat.eqb k' k2); [reflexivity|exact IH]. Qed.
Lemma dget_ddel_sub d k k' x : dget (ddel d k) k' = Some x -> dget d k' = Some x.
Proof. destruct (Nat.eq_dec k' k) as [->|H]; [rewrite dget_ddel_same; discriminate| now rewrite dget_ddel_other]. Qed.
Lemma dget_In d k v : dget d k = Some v -> In (k, v) d.
Proof. induction d as [|[k' v'] t IH]; simpl; [discriminate|].
  destruct (Nat.eqb k k') eqn:E; [apply Nat.eqb_eq in E; intros [= ->]; subst; now left| intros H; right; auto]. Qed.
Lemma In_dget d k v : NoDup (keys d) -> In (k, v) d -> dget d k = Some v.
Proof. induction d as [|[k' v'] t IH]; simpl; [tauto|]. intros ND [H|H].
  - inversion H; subst. now rewrite Nat.eqb_refl.
  - inversion ND as [|? ? Hn ND']; subst. destruct (Nat.eqb k k') eqn:E; [|auto].
    apply Nat.eqb_eq in E; subst. exfalso; apply Hn. change k' with (fst (k', v)). now apply in_map. Qed.
Lemma dget_keys d k : dget d k <> None <-> In k (keys d).
Proof. induction d as [|[k' v'] t IH]; simpl; [tauto|].
  destruct (Nat.eqb k k') eqn:E.
  - apply Nat.eqb_eq in E; subst. split; [now left|discriminate].
  - apply Nat.eqb_neq in E. rewrite IH. split; [now right| intros [H|H]; [congruence|exact H]]. Qed.
Lemma keys_dset d k v : keys (dset d k v) = if dmem d k then keys d else keys d ++ [k].
Proof. unfold dmem. induction d as [|[k' v'] t IH]; simpl; [reflexivity|].
  destruct (Nat.eqb k k') eqn:E; simpl.
  - apply Nat.eqb_eq in E; now subst.
  - rewrite IH. destruct (dget t k); reflexivity. Qed.
Lemma NoDup_snoc (A : Type) (l : list A) (x : A) : NoDup l -> ~ In x l -> NoDup (l ++ [x]).
Proof. induction l as [|y t IH]; simpl; intros ND H; [constructor; [tauto|constructor]|].
  inversion ND; subst. constructor; [rewrite in_app_iff; simpl; intuition congruence | apply IH; tauto]. Qed.
Lemma NoDup_keys_dset d k v : NoDup (keys d) -> NoDup (keys (dset d k v)).
Proof. intros H. rewrite keys_dset. unfold dmem. destruct (dget d k) eqn:E; [exact H|].
  apply NoDup_snoc; [exact H|]. rewrite <- dget_keys. congruence. Qed.
Lemma keys_ddel_incl d k : incl (keys (ddel d k)) (keys d).
Proof. induction d as [|[k' v'] t IH]; simpl; [apply incl_refl|].
  destruct (Nat.eqb k k'); simpl; [now apply incl_tl| apply incl_cons; [now left| now apply incl_tl]]. Qed.
Lemma NoDup_keys_ddel d k : NoDup (keys d) -> NoDup (keys (ddel d k)).
Proof. induction d as [|[k' v'] t IH]; simpl; intros ND; [constructor|]. inversion ND; subst.
  destruct (Nat.eqb k k'); simpl; [auto|]. constructor; [|auto]. intros HI. apply keys_ddel_incl in HI. tauto. Qed.
End Dict.
