(* mir_eval/alignment.py: validate, absolute_error, percentage_correct, percentage_correct_segments over exact rationals
   (karaoke_perceptual_metric uses scipy.stats.skewnorm and is outside the model).  Definitions only.
   Timestamp vectors are lists of Q.  The isinstance / ndim checks of validate are modelled on a small input type. *)
From Coq Require Import List Bool Arith ZArith QArith Qabs Qminmax.
From ME Require Import Model.Prelude.
Import ListNotations.

Definition qnat (n : nat) : Q := inject_Z (Z.of_nat n).
Definition qmean (l : list Q) : Q := qsum l / qnat (length l).

(* x[1:] - x[:-1] *)
Fixpoint diffs (l : list Q) : list Q :=
  match l with a :: ((b :: _) as t) => (b - a) :: diffs t | _ => [] end.

(* validate on 1-d arrays: every failure is a ValueError *)
Definition validate (ref est : list Q) : res unit :=
  if (length ref =? 0)%nat then Raise ValueError else
  if negb (length est =? length ref)%nat then Raise ValueError else
  if negb (forallb (fun d => qleb 0 d) (diffs ref)) then Raise ValueError else
  if negb (forallb (fun d => qleb 0 d) (diffs est)) then Raise ValueError else
  if negb (forallb (fun t => qleb 0 t) ref) then Raise ValueError else
  if negb (forallb (fun t => qleb 0 t) est) then Raise ValueError else Ok tt.

(* what can be passed: something that is not an ndarray, or an ndarray with ndim dimensions (data = its flattening) *)
Inductive tsin := NotArray | Nd (ndim : nat) (data : list Q).
Definition validate_in (ref est : tsin) : res (list Q * list Q) :=
  match ref, est with
  | Nd 1 r, Nd 1 e => _ <- validate r e ;; Ok (r, e)
  | _, _ => Raise ValueError
  end.

(* np.median: middle element of the sorted array, or the mean of the two middle elements *)
Fixpoint qinsert (x : Q) (l : list Q) : list Q :=
  match l with [] => [x] | y :: t => if qleb x y then x :: l else y :: qinsert x t end.
Definition qsort (l : list Q) : list Q := fold_right qinsert [] l.
Definition qmedian (l : list Q) : Q :=
  let s := qsort l in let n := length l in
  if Nat.even n then (nth (n / 2 - 1) s 0 + nth (n / 2) s 0) / 2 else nth (n / 2) s 0.

Definition deviations (ref est : list Q) : list Q := map (fun re => Qabs (fst re - snd re)) (combine ref est).

(* absolute_error : (median, mean) *)
Definition absolute_error (ref est : list Q) : res (Q * Q) :=
  _ <- validate ref est ;;
  let d := deviations ref est in Ok (qmedian d, qmean d).

(* percentage_correct = np.mean(deviations <= window) *)
Definition count_within (window : Q) (d : list Q) : nat := length (filter (fun x => qleb x window) d).
Definition percentage_correct (ref est : list Q) (window : Q) : res Q :=
  _ <- validate ref est ;;
  let d := deviations ref est in Ok (qnat (count_within window d) / qnat (length d)).

(* percentage_correct_segments.  `last ref 0`, `hd 0 ref` and `qmaxl` (np.max) are only evaluated after validate has
   established that ref (and est, of the same length) is non-empty, so their defaults are unreachable. *)
Definition overlap (rs re es ee : Q) : Q := Qmax (Qmin re ee - Qmax rs es) 0.
Fixpoint overlaps (rs re es ee : list Q) : list Q :=
  match rs, re, es, ee with
  | a :: rs', b :: re', c :: es', d :: ee' => overlap a b c d :: overlaps rs' re' es' ee'
  | _, _, _, _ => []
  end.
Definition qmaxl (l : list Q) : Q := match l with [] => 0 | x :: t => fold_left Qmax t x end.
Definition percentage_correct_segments (ref est : list Q) (duration : option Q) : res Q :=
  _ <- validate ref est ;;
  match duration with
  | Some d =>
      if qleb d 0 then Raise ValueError else
      if qltb d (qmaxl ref) then Raise ValueError else
      if qltb d (qmaxl est) then Raise ValueError else
      Ok (qsum (overlaps (0 :: ref) (ref ++ [d]) (0 :: est) (est ++ [d])) / d)
  | None =>
      let d := last ref 0 - hd 0 ref in
      if qleb d 0 then Raise ValueError else
      Ok (qsum (overlaps (removelast ref) (tl ref) (removelast est) (tl est)) / d)
  end.
