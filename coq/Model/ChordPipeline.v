(* mir_eval/chord.py: merge_chord_intervals, directional_hamming_distance, overseg, underseg, seg and the body of
   evaluate, statement by statement, over exact rationals and label strings.

   An (n,2) float array is a `list (Q*Q)` (Model/Intervals.v), a label list a `list str`.  Every place where the Python
   raises is an explicit `Raise`; every NumPy float division is `xdiv` (never raises).

   What the code does (and the model mirrors), as opposed to what one might expect:
   * merge_chord_intervals encodes with reduce_extended_chords=True (the 12 comparison functions use False), zips the
     rows with the encodings (zip truncates to the shorter of the two), and fuses a row into the previous group whenever
     its (root, bitmap, bass) equals the group's -- without looking at the times (a gap between the two rows is absorbed).
     The result of no rows is `np.array([])`, of shape (0,): validate_intervals rejects it (ndim != 2).
   * directional_hamming_distance validates the ESTIMATED intervals first, then the reference, then the non-overlap of the
     reference only; an empty (0,2) reference passes all of that and fails at `reference_intervals[-1, 1]` (IndexError).
   * evaluate computes the 12 accuracies before the segmentation scores, "underseg" before "overseg".
   Definitions only. *)
From Coq Require Import List Bool Arith ZArith QArith Qminmax Qabs.
From ME Require Import Model.Prelude Model.Intervals Model.ChordParse Model.ChordCmp Model.ChordScore Gen.ChordTables.
Import ListNotations.
Open Scope Q_scope.

(* ------------------------------------------------------------------------------------------ *)
(* encode_many(labels, reduce): encode(label, reduce) for every label in order (the local cache  *)
(* only avoids recomputation); the first failing label raises                                   *)
(* ------------------------------------------------------------------------------------------ *)
Definition encode_many (labels : list str) (reduce : bool) : res (list enc) :=
  mapM (fun s => encode s reduce false) labels.

(* rt == prev_rt and not (st != prev_st).any() and ba == prev_ba *)
Definition enc_eqb (a b : enc) : bool :=
  let '(r1, b1, s1) := a in let '(r2, b2, s2) := b in (r1 =? r2)%Z && leqb b1 b2 && (s1 =? s2)%Z.

(* ------------------------------------------------------------------------------------------ *)
(* merge_chord_intervals                                                                       *)
(* ------------------------------------------------------------------------------------------ *)
(* the loop after the first row: `prev` = (prev_rt, prev_st, prev_ba), `cur` = merged_ivs[-1] *)
Fixpoint fuse (prev : enc) (cur : iv) (rows : list (iv * enc)) : list iv :=
  match rows with
  | [] => [cur]
  | (v, e) :: r => if enc_eqb e prev then fuse prev (fst cur, snd v) r       (* merged_ivs[-1][-1] = e *)
                   else cur :: fuse e v r                                      (* merged_ivs.append([s, e]) *)
  end.
(* the loop on rows already paired with their encodings (prev_* = None: the first row always opens a group) *)
Definition fuse_rows (rows : list (iv * enc)) : list iv :=
  match rows with [] => [] | (v, e) :: r => fuse e v r end.
(* [] stands for np.array([]) of shape (0,) *)
Definition merge_chord_intervals (ivs : list iv) (labels : list str) : res (list iv) :=
  encs <- encode_many labels true ;; Ok (fuse_rows (combine ivs encs)).

(* ------------------------------------------------------------------------------------------ *)
(* directional_hamming_distance                                                                *)
(* ------------------------------------------------------------------------------------------ *)
(* (reference_intervals[:-1, 1] > reference_intervals[1:, 0]).any() *)
Fixpoint overlaps (l : list iv) : bool :=
  match l with
  | a :: (b :: _) as t => qltb (fst b) (snd a) || overlaps t
  | _ => false
  end.
(* np.diff of a :: l *)
Fixpoint diffs (a : Q) (l : list Q) : list Q :=
  match l with [] => [] | b :: t => (b - a) :: diffs b t end.
(* np.diff(np.hstack([start, est_ts[(est_ts >= start) & (est_ts < end)], end])).max(); the array always has >= 2
   entries, so the difference array is never empty (the [] branch is unreachable) *)
Definition max_piece (est_ts : list Q) (s e : Q) : Q :=
  match diffs s (filter (fun t => Qle_bool s t && qltb t e) est_ts ++ [e]) with
  | [] => 0
  | d :: ds => fold_left Qmax ds d
  end.
Definition directional_hamming_distance (ref est : list iv) : res xval :=
  _ <- validate_intervals est ;;
  _ <- validate_intervals ref ;;
  if overlaps ref then Raise ValueError
  else
    let est_ts := sort_uniq (flat est) in
    let seg := qsum (map (fun v => (snd v - fst v) - max_piece est_ts (fst v) (snd v)) ref) in
    match ref with
    | [] => Raise IndexError                                   (* reference_intervals[-1, 1] *)
    | r0 :: _ => Ok (xdiv seg (snd (last ref r0) - fst r0))
    end.

(* 1 - x on a NumPy float *)
Definition xone_minus (x : xval) : xval :=
  match x with Fin q => Fin (1 - q) | PInf => NInf | NInf => PInf | NaN => NaN end.
Definition xltb (a b : xval) : bool :=
  match a, b with
  | Fin x, Fin y => qltb x y
  | NInf, Fin _ | NInf, PInf | Fin _, PInf => true
  | _, _ => false
  end.
(* Python's min(a, b): b if b < a else a *)
Definition py_min (a b : xval) : xval := if xltb b a then b else a.

Definition overseg (ref est : list iv) : res xval := d <- directional_hamming_distance ref est ;; Ok (xone_minus d).
Definition underseg (ref est : list iv) : res xval := d <- directional_hamming_distance est ref ;; Ok (xone_minus d).
Definition seg (ref est : list iv) : res xval := u <- underseg ref est ;; o <- overseg ref est ;; Ok (py_min u o).

(* the same three on arrays produced by merge_chord_intervals, where [] is the shape-(0,) array: validate_intervals
   raises ValueError on it (est first, then ref) *)
Definition dhd_arrays (ref est : list iv) : res xval :=
  match est, ref with
  | [], _ => Raise ValueError
  | _, [] => Raise ValueError
  | _, _ => directional_hamming_distance ref est
  end.

(* ------------------------------------------------------------------------------------------ *)
(* the 12 comparison functions on label lists: validate (lengths, every reference label, every  *)
(* estimated label), encode_many(reference, False), encode_many(estimated, False), compare      *)
(* ------------------------------------------------------------------------------------------ *)
Definition encode_pairs (rl el : list str) : res (list (cenc * cenc)) :=
  if negb (Nat.eqb (length rl) (length el)) then Raise ValueError
  else
    _ <- mapM validate_label rl ;;
    _ <- mapM validate_label el ;;
    er <- encode_many rl false ;;
    ee <- encode_many el false ;;
    Ok (combine (map of_enc er) (map of_enc ee)).
Definition compare_many (c : cenc -> cenc -> Z) (rl el : list str) : res (list Z) :=
  p <- encode_pairs rl el ;; Ok (map (fun x => c (fst x) (snd x)) p).

(* ------------------------------------------------------------------------------------------ *)
(* evaluate: the 15 scores in the order of the returned OrderedDict                             *)
(* ------------------------------------------------------------------------------------------ *)
Definition score_names : list str :=
  [ [116;104;105;114;100;115]; [116;104;105;114;100;115;95;105;110;118]; [116;114;105;97;100;115];
    [116;114;105;97;100;115;95;105;110;118]; [116;101;116;114;97;100;115]; [116;101;116;114;97;100;115;95;105;110;118];
    [114;111;111;116]; [109;105;114;101;120]; [109;97;106;109;105;110]; [109;97;106;109;105;110;95;105;110;118];
    [115;101;118;101;110;116;104;115]; [115;101;118;101;110;116;104;115;95;105;110;118];
    [117;110;100;101;114;115;101;103]; [111;118;101;114;115;101;103]; [115;101;103] ]%nat.

(* everything after adjust_intervals (est already spans the reference) *)
Definition chord_scores (ri : list iv) (rl : list str) (ei : list iv) (el : list str) : res (list xval) :=
  mr <- merge_chord_intervals ri rl ;;
  me <- merge_chord_intervals ei el ;;
  m <- merge_labeled_intervals ri rl ei el ;;
  let '(ivs, rl2, el2) := m in
  durations <- intervals_to_durations ivs ;;
  (* every comparison function validates and encodes the same two lists: the first one (thirds) raises or none does *)
  encs <- encode_pairs rl2 el2 ;;
  accs <- mapM (fun c => wa (map (fun x => c (fst x) (snd x)) encs) durations) rules ;;
  d_u <- dhd_arrays me mr ;;                      (* scores['underseg'] = underseg(merged_ref, merged_est) *)
  d_o <- dhd_arrays mr me ;;                      (* scores['overseg'] *)
  let u := xone_minus d_u in let o := xone_minus d_o in
  Ok (accs ++ [u; o; py_min o u]).               (* scores['seg'] = min(scores['overseg'], scores['underseg']) *)

Definition chord_evaluate (ri : list iv) (rl : list str) (ei : list iv) (el : list str) : res (list xval) :=
  (* ref_intervals.min(), ref_intervals.max(): ValueError on a zero-size array *)
  match qmin_list (flat ri), qmax_list (flat ri) with
  | Some tmin, Some tmax =>
      adj <- adjust_intervals NO_CHORD NO_CHORD ei (Some el) (Some tmin) (Some tmax) ;;
      match snd adj with
      | Some el' => chord_scores ri rl (fst adj) el'
      | None => Raise OtherExn                   (* unreachable: labels were supplied *)
      end
  | _, _ => Raise ValueError
  end.
Definition chord_evaluate_named ri rl ei el : res (list (str * xval)) :=
  s <- chord_evaluate ri rl ei el ;; Ok (combine score_names s).
