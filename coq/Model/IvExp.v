(* A small deep-embedded Python / NumPy sub-language for the interval pre-processing helpers of mir_eval/util.py
   (adjust_intervals, adjust_events, merge_labeled_intervals, sort_labeled_intervals, interpolate_intervals,
   intervals_to_samples, index_labels): values, operators with the CPython / NumPy meaning of exactly the operations
   used, and an environment-based evaluator with `for` loops, list comprehensions, in-place list operations on
   OWNED lists and opaque callees. Definitions only.

   translator/intervalfuncs.py maps the syntax of each function body to an [fdef] (Gen/IntervalGen.v); what the syntax
   means on each type of value is decided HERE; Proofs/IntervalTie*.v prove each generated program equal to the
   hand-written model function of Model/Intervals.v for all inputs.

   Reading of Python / NumPy (the trusted part)
   * Numbers are exact: a float is an [xval] (a rational, +-inf or nan; DESIGN.md 2.1), an int an unbounded Z. Every
     scalar carries a flag py = "is a Python object" (literals, len, int(), .size, .tolist() entries) as opposed to a
     NumPy scalar (array elements, reductions); a parameter has an arbitrary flag. Python number / Python zero raises
     ZeroDivisionError; a division with a NumPy operand follows IEEE (Prelude.xdiv).
   * A float64 (n,2) array is [VMat], a list of pairs (arrays only hold finite values here); [VMat2 a b] is the (2,n)
     array np.array([a, b]); [VIdx] is the (k,1) int64 result of np.argwhere on a 1-d mask. Arithmetic is EXACT: in
     particular np.arange(n, dtype=np.float32) * sample_size + offset is computed exactly, which is what NumPy
     returns only where the float32 operations are exact (the dyadic lattice of Model/Intervals.sample_grid).
   * np.maximum(s, A) is entrywise [Qmax s a], np.minimum(s, A) entrywise [Qmin s a] (operand order as written).
   * np.unique = sorted, numerically equal values merged (Intervals.sort_uniq); np.searchsorted is only given a
     meaning on a non-decreasing array ([UNM] otherwise); np.argsort is the STABLE argsort (NumPy's default kind is not
     stable: the reading is exact for distinct keys only, as in Model/Intervals.v).
   * Lists: [VList own l]. own = false: an object the caller (or anybody else) may hold -- every list parameter;
     own = true: an object created by this activation that no other name reaches (list(...), a literal, a slice, a
     comprehension, l * n). In-place operations (insert, append, slice assignment) on a list that is not owned are [UNM]:
     a tie theorem can only hold if the program never modifies an object of the caller. The translator guarantees
     that a name used for an in-place operation is never copied to another name or container.
   * Labels are arbitrary values (they are only moved around), so the model's label type is [val] itself.
   * "%s<suffix>" % s is defined for a str s and a suffix without further % ([fmt_s]); str.lower is ASCII lower-casing.
   * [UNM] ("unmodelled") is the result of every operation on operands outside the cases written below.
   * Locals: one slot per parameter and local from the start; reading an unbound slot raises (OtherExn).
   * Calls of other functions of the module are opaque ([ECall]): arguments are evaluated left to right and bound to the
     callee's parameters as Python does (signatures read from the source in the same run). *)
From Coq Require Import String.
From Coq Require Import List Bool Arith ZArith QArith Qabs Qminmax Qround.
From ME Require Import Model.Prelude.
From ME Require Model.VecExp Model.Intervals.
Import ListNotations.
Open Scope Q_scope.

Inductive out (A : Type) := OK (a : A) | EXN (e : exn) | UNM.
Arguments OK {A}. Arguments EXN {A}. Arguments UNM {A}.
Definition obind {A B} (r : out A) (f : A -> out B) : out B :=
  match r with OK a => f a | EXN e => EXN e | UNM => UNM end.
Notation "x <~ r ;; k" := (obind r (fun x => k)) (at level 61, r at next level, right associativity).
Definition of_opt {A} (o : option A) : out A := match o with Some a => OK a | None => UNM end.

Inductive val :=
| VNone
| VBool (b : bool)
| VInt (py : bool) (z : Z)
| VFlt (py : bool) (x : xval)
| VStr (s : str)
| VArrQ (l : list Q) | VArrZ (l : list Z) | VArrB (l : list bool)
| VMat (l : list (Q * Q))
| VMat2 (a b : list Q)
| VIdx (l : list Z)
| VList (own : bool) (l : list val)
| VTup (l : list val)
| VDict (own : bool) (kv : list (val * val))
| VUnbound.

Notation xadd := VecExp.xadd.
Notation xsub := VecExp.xsub.
Notation xmul := VecExp.xmul.
Notation xdivx := VecExp.xdivx.

Inductive binop := Add | Sub | Mul | Div | Mod.
Inductive cmpop := Eq | Ne | Lt | Le | Gt | Ge.
Definition qcmp (op : cmpop) (x y : Q) : bool :=
  match op with Eq => qeqb x y | Ne => negb (qeqb x y) | Lt => qltb x y | Le => qleb x y | Gt => qltb y x | Ge => qleb y x end.
Definition zcmp (op : cmpop) (x y : Z) : bool :=
  match op with Eq => Z.eqb x y | Ne => negb (Z.eqb x y) | Lt => Z.ltb x y | Le => Z.leb x y | Gt => Z.ltb y x | Ge => Z.leb y x end.
Definition xrank (a : xval) : Z := match a with NInf => 0 | PInf => 2 | _ => 1 end%Z.
Definition xcmp (op : cmpop) (a b : xval) : bool :=
  match a, b with
  | Fin x, Fin y => qcmp op x y
  | NaN, _ | _, NaN => match op with Ne => true | _ => false end
  | _, _ => zcmp op (xrank a) (xrank b)
  end.

(* ------------------------------------------------------------------ lists *)
Definition norm_idx (i : Z) (n : nat) : option nat :=
  match i with
  | Z0 => if (0 <? n)%nat then Some 0%nat else None
  | Zpos p => if (Pos.to_nat p <? n)%nat then Some (Pos.to_nat p) else None
  | Zneg p => if (Pos.to_nat p <=? n)%nat then Some (n - Pos.to_nat p)%nat else None
  end.
Fixpoint vselect {A} (m : list bool) (l : list A) : list A :=
  match m, l with b :: m', x :: l' => if b then x :: vselect m' l' else vselect m' l' | _, _ => [] end.
Fixpoint vmap2 {A B C} (f : A -> B -> C) (a : list A) (b : list B) : list C :=
  match a, b with x :: a', y :: b' => f x y :: vmap2 f a' b' | _, _ => [] end.
Definition py_norm (n x : Z) : Z := if (x <? 0)%Z then Z.max (x + n) 0 else Z.min x n.
(* l[a:b], None = omitted bound *)
Definition py_slice {A} (a b : option Z) (l : list A) : list A :=
  let n := Z.of_nat (length l) in
  let a' := match a with Some x => py_norm n x | None => 0%Z end in
  let b' := match b with Some x => py_norm n x | None => n end in
  firstn (Z.to_nat (b' - a')) (skipn (Z.to_nat a') l).
(* l[a:b] = v on a Python list *)
Definition py_set_slice {A} (a b : Z) (v l : list A) : list A :=
  let n := Z.of_nat (length l) in
  let a' := Z.to_nat (py_norm n a) in let b' := Z.to_nat (py_norm n b) in
  firstn a' l ++ v ++ skipn (Nat.max a' b') l.
(* l.insert(i, v) *)
Definition py_insert {A} (i : Z) (v : A) (l : list A) : list A :=
  let k := Z.to_nat (py_norm (Z.of_nat (length l)) i) in firstn k l ++ v :: skipn k l.
Fixpoint nz_from (i : Z) (l : list bool) : list Z :=
  match l with [] => [] | b :: t => if b then i :: nz_from (i + 1)%Z t else nz_from (i + 1)%Z t end.
Definition zrange (a b : Z) : list Z := map (fun i => (a + Z.of_nat i)%Z) (seq 0 (Z.to_nat (b - a))).
Definition list_rep {A} (l : list A) (n : Z) : list A := concat (repeat l (Z.to_nat n)).
(* stable argsort *)
Fixpoint ins_key (x : Q * nat) (l : list (Q * nat)) : list (Q * nat) :=
  match l with [] => [x] | y :: t => if qltb (fst x) (fst y) then x :: l else y :: ins_key x t end.
Definition argsort_q (keys : list Q) : list nat :=
  map snd (fold_left (fun acc x => ins_key x acc) (combine keys (seq 0 (length keys))) []).
Fixpoint zipn (ls : list (list val)) (fuel : nat) : list (list val) :=
  match fuel with
  | O => []
  | S f => if existsb (fun l => match l with [] => true | _ => false end) ls then []
           else map (fun l => hd VNone l) ls :: zipn (map (@tl val) ls) f
  end.
Definition min_len (ls : list (list val)) : nat :=
  match ls with [] => 0%nat | l :: t => fold_left (fun m x => Nat.min m (length x)) t (length l) end.

Fixpoint all_fins (l : list val) : option (list Q) :=
  match l with
  | [] => Some []
  | VFlt _ (Fin q) :: t => option_map (cons q) (all_fins t)
  | _ => None
  end.
Fixpoint all_strs (l : list val) : option (list str) :=
  match l with
  | [] => Some []
  | VStr s :: t => option_map (cons s) (all_strs t)
  | _ => None
  end.
Fixpoint all_bools (l : list val) : option (list bool) :=
  match l with
  | [] => Some []
  | VBool b :: t => option_map (cons b) (all_bools t)
  | _ => None
  end.
(* a finite scalar, as an array operation sees it *)
Definition fin_of (v : val) : option Q :=
  match v with VInt _ z => Some (inject_Z z) | VFlt _ (Fin q) => Some q | _ => None end.
Definition flt_of (v : val) : option Q := match v with VFlt _ (Fin q) => Some q | _ => None end.
Fixpoint all_nums (l : list val) : option (list Q) :=
  match l with
  | [] => Some []
  | v :: t => match fin_of v, all_nums t with Some q, Some r => Some (q :: r) | _, _ => None end
  end.

(* ------------------------------------------------------------------ operators *)
Definition truth (v : val) : out bool :=
  match v with
  | VNone => OK false | VBool b => OK b | VInt _ z => OK (negb (Z.eqb z 0))
  | VList _ l | VTup l => OK (negb (Nat.eqb (length l) 0))
  | VArrB [b] => OK b
  | VArrB _ => EXN ValueError
  | _ => UNM
  end.

Definition is_zero (x : xval) : bool := match x with Fin q => qeqb q 0 | _ => false end.
(* "%s<rest>" % s *)
Definition fmt_s (fmt : str) (v : val) : out val :=
  match fmt with
  | a :: b :: rest =>
      if Nat.eqb a 37 && Nat.eqb b 115 && negb (existsb (fun c => Nat.eqb c 37) rest)
      then match v with VStr p => OK (VStr (p ++ rest)) | _ => UNM end
      else UNM
  | _ => UNM
  end.
Definition arith_xx (op : binop) (py : bool) (x y : xval) : out val :=
  match op with
  | Add => OK (VFlt py (xadd x y)) | Sub => OK (VFlt py (xsub x y)) | Mul => OK (VFlt py (xmul x y))
  | Div => if py && is_zero y then EXN ZeroDivisionError else OK (VFlt py (xdivx x y))
  | Mod => UNM
  end.
Definition arr_scalar (op : binop) (l : list Q) (s : Q) (left : bool) : out val :=
  match op with
  | Add => OK (VArrQ (map (fun x => if left then x + s else s + x) l))
  | Sub => OK (VArrQ (map (fun x => if left then x - s else s - x) l))
  | Mul => OK (VArrQ (map (fun x => if left then x * s else s * x) l))
  | _ => UNM
  end.
Definition bin_op (op : binop) (a b : val) : out val :=
  match a with
  | VInt pa x =>
      match b with
      | VInt pb y => match op with
                     | Add => OK (VInt (pa && pb) (x + y)) | Sub => OK (VInt (pa && pb) (x - y))
                     | Mul => OK (VInt (pa && pb) (x * y)) | _ => UNM end
      | VFlt pb y => arith_xx op (pa && pb) (Fin (inject_Z x)) y
      | VArrQ l => arr_scalar op l (inject_Z x) false
      | _ => UNM end
  | VFlt pa x =>
      match b with
      | VInt pb y => arith_xx op (pa && pb) x (Fin (inject_Z y))
      | VFlt pb y => arith_xx op (pa && pb) x y
      | VArrQ l => match x with Fin s => arr_scalar op l s false | _ => UNM end
      | _ => UNM end
  | VArrQ l => match fin_of b with Some s => arr_scalar op l s true | None => UNM end
  | VList _ l => match b with VInt _ n => match op with Mul => OK (VList true (list_rep l n)) | _ => UNM end | _ => UNM end
  | VStr f => match op with Mod => fmt_s f b | _ => UNM end
  | _ => UNM
  end.

Definition cmp_op (op : cmpop) (a b : val) : out val :=
  match a with
  | VInt _ x =>
      match b with
      | VInt _ y => OK (VBool (zcmp op x y))
      | VFlt _ y => OK (VBool (xcmp op (Fin (inject_Z x)) y))
      | _ => UNM end
  | VFlt _ x =>
      match b with
      | VInt _ y => OK (VBool (xcmp op x (Fin (inject_Z y))))
      | VFlt _ y => OK (VBool (xcmp op x y))
      | VArrQ l => match x with Fin s => OK (VArrB (map (fun y => qcmp op s y) l)) | _ => UNM end
      | _ => UNM end
  | VArrQ l =>
      match b with
      | VArrQ m => if Nat.eqb (length l) (length m) then OK (VArrB (vmap2 (qcmp op) l m)) else UNM
      | _ => match fin_of b with Some s => OK (VArrB (map (fun x => qcmp op x s) l)) | None => UNM end
      end
  | _ => UNM
  end.
(* a in b for a bool a and a list of bools (False == np.False_) *)
Definition in_op (a b : val) : out val :=
  match a with
  | VBool x => match b with
               | VList _ l => match all_bools l with Some bs => OK (VBool (existsb (Bool.eqb x) bs)) | None => UNM end
               | _ => UNM end
  | _ => UNM
  end.

Definition key_eqb (a b : val) : option bool :=
  match a with
  | VStr s => match b with VStr t => Some (seqb s t) | VInt _ _ => Some false | _ => None end
  | VInt _ x => match b with VInt _ y => Some (Z.eqb x y) | VStr _ => Some false | _ => None end
  | _ => None
  end.
Fixpoint dict_get (k : val) (kv : list (val * val)) : out val :=
  match kv with
  | [] => EXN KeyError
  | (k', v) :: t => match key_eqb k k' with Some true => OK v | Some false => dict_get k t | None => UNM end
  end.
Fixpoint dict_set (k v : val) (kv : list (val * val)) : out (list (val * val)) :=
  match kv with
  | [] => OK [(k, v)]
  | (k', v') :: t => match key_eqb k k' with
                     | Some true => OK ((k', v) :: t)
                     | Some false => r <~ dict_set k v t ;; OK ((k', v') :: r)
                     | None => UNM end
  end.

Fixpoint rows_at (l : list (Q * Q)) (idx : list Z) : out (list (Q * Q)) :=
  match idx with
  | [] => OK []
  | i :: t => match norm_idx i (length l) with
              | Some n => match nth_error l n with
                          | Some r => rest <~ rows_at l t ;; OK (r :: rest)
                          | None => UNM end
              | None => EXN IndexError end
  end.
Definition get_item (a i : val) : out val :=
  match a with
  | VArrQ l => match i with
               | VInt _ z => match norm_idx z (length l) with
                             | Some n => of_opt (option_map (fun q => VFlt false (Fin q)) (nth_error l n))
                             | None => EXN IndexError end
               | _ => UNM end
  | VArrZ l => match i with
               | VInt _ z => match norm_idx z (length l) with
                             | Some n => of_opt (option_map (VInt false) (nth_error l n))
                             | None => EXN IndexError end
               | VArrB m => if Nat.eqb (length m) (length l) then OK (VArrZ (vselect m l)) else EXN IndexError
               | _ => UNM end
  | VMat l => match i with VArrZ idx => r <~ rows_at l idx ;; OK (VMat r) | _ => UNM end
  | VList _ l | VTup l =>
      match i with
      | VInt _ z => match norm_idx z (length l) with Some n => of_opt (nth_error l n) | None => EXN IndexError end
      | _ => UNM end
  | VDict _ kv => dict_get i kv
  | _ => UNM
  end.
(* a[i, j] *)
Definition get_item2 (a i j : val) : out val :=
  match a with
  | VMat l =>
      match i, j with
      | VInt _ zi, VInt _ zj =>
          match norm_idx zi (length l) with
          | Some n => match nth_error l n with
                      | Some r => match norm_idx zj 2 with
                                  | Some O => OK (VFlt false (Fin (fst r)))
                                  | Some _ => OK (VFlt false (Fin (snd r)))
                                  | None => EXN IndexError end
                      | None => UNM end
          | None => EXN IndexError end
      | _, _ => UNM end
  | VIdx l =>
      match i, j with
      | VInt _ zi, VInt _ zj =>
          match norm_idx zi (length l) with
          | Some n => match nth_error l n with
                      | Some r => match norm_idx zj 1 with Some _ => OK (VInt false r) | None => EXN IndexError end
                      | None => UNM end
          | None => EXN IndexError end
      | _, _ => UNM end
  | _ => UNM
  end.
(* a[:, j] *)
Definition get_col (a : val) (j : Z) : out val :=
  match a with
  | VMat l => match norm_idx j 2 with
              | Some O => OK (VArrQ (map fst l))
              | Some _ => OK (VArrQ (map snd l))
              | None => EXN IndexError end
  | _ => UNM
  end.
Definition opt_int (v : option val) : out (option Z) :=
  match v with None | Some VNone => OK None | Some (VInt _ z) => OK (Some z) | _ => UNM end.
Definition slice_val (a : val) (lo hi : option val) : out val :=
  lo' <~ opt_int lo ;; hi' <~ opt_int hi ;;
  match a with
  | VArrQ l => OK (VArrQ (py_slice lo' hi' l))
  | VArrZ l => OK (VArrZ (py_slice lo' hi' l))
  | VMat l => OK (VMat (py_slice lo' hi' l))
  | VList _ l => OK (VList true (py_slice lo' hi' l))
  | _ => UNM
  end.
Definition iter_elems (v : val) : out (list val) :=
  match v with
  | VList _ l | VTup l => OK l
  | VArrQ l => OK (map (fun q => VFlt false (Fin q)) l)
  | VArrZ l => OK (map (VInt false) l)
  | VMat l => OK (map (fun r => VArrQ [fst r; snd r]) l)
  | _ => UNM
  end.
Fixpoint mapO {A B} (f : A -> out B) (l : list A) : out (list B) :=
  match l with [] => OK [] | x :: t => y <~ f x ;; r <~ mapO f t ;; OK (y :: r) end.

Local Open Scope string_scope.
Definition attr (a : val) (f : string) : out val :=
  if f =? "size" then
    match a with
    | VMat l => OK (VInt true (2 * Z.of_nat (length l)))
    | VArrQ l => OK (VInt true (Z.of_nat (length l)))
    | _ => UNM end
  else if f =? "T" then
    match a with
    | VMat2 x y => if Nat.eqb (length x) (length y) then OK (VMat (combine x y)) else UNM
    | _ => UNM end
  else UNM.
Definition meth (a : val) (m : string) (args : list val) : out val :=
  match args with
  | [] =>
      if m =? "min" then
        match a with
        | VMat l => match qmin_list (Intervals.flat l) with Some x => OK (VFlt false (Fin x)) | None => EXN ValueError end
        | VArrQ l => match qmin_list l with Some x => OK (VFlt false (Fin x)) | None => EXN ValueError end
        | _ => UNM end
      else if m =? "max" then
        match a with
        | VMat l => match qmax_list (Intervals.flat l) with Some x => OK (VFlt false (Fin x)) | None => EXN ValueError end
        | VArrQ l => match qmax_list l with Some x => OK (VFlt false (Fin x)) | None => EXN ValueError end
        | _ => UNM end
      else if m =? "tolist" then
        match a with VArrQ l => OK (VList true (map (fun q => VFlt true (Fin q)) l)) | _ => UNM end
      else if m =? "lower" then
        match a with VStr s => OK (VStr (Intervals.lower_ascii s)) | _ => UNM end
      else UNM
  | _ => UNM
  end.

(* the rows np.vstack sees *)
Definition rows_of (v : val) : option (list (Q * Q)) :=
  match v with
  | VMat l => Some l
  | VList _ [a; b] => match fin_of a, fin_of b with Some x, Some y => Some [(x, y)] | _, _ => None end
  | _ => None
  end.
(* the entries np.concatenate sees (1-d) *)
Definition entries_of (v : val) : option (list Q) :=
  match v with
  | VArrQ l => Some l
  | VList _ l => all_nums l
  | _ => None
  end.
Fixpoint concat_opt {A B} (f : A -> option (list B)) (l : list A) : option (list B) :=
  match l with
  | [] => Some []
  | x :: t => match f x, concat_opt f t with Some a, Some r => Some (a ++ r)%list | _, _ => None end
  end.
Definition seq_items (v : val) : option (list val) :=
  match v with VList _ l | VTup l => Some l | _ => None end.
Definition len_of (v : val) : option nat :=
  match v with
  | VList _ l | VTup l => Some (length l)
  | VArrQ l => Some (length l) | VArrZ l => Some (length l) | VArrB l => Some (length l)
  | VMat l => Some (length l) | VIdx l => Some (length l)
  | VDict _ kv => Some (length kv)
  | VStr s => Some (length s)
  | _ => None
  end.
Definition xfloor (x : xval) : xval := match x with Fin q => Fin (inject_Z (Qfloor q)) | _ => x end.
(* int(x): truncation towards zero *)
Definition qtrunc (q : Q) : Z := if qltb q 0 then Qceiling q else Qfloor q.

Definition npf (f : string) (args : list val) : out val :=
  if f =? "len" then
    match args with [v] => match len_of v with Some n => OK (VInt true (Z.of_nat n)) | None => UNM end | _ => UNM end
  else if f =? "list" then match args with [VList _ l] => OK (VList true l) | _ => UNM end
  else if f =? "str" then match args with [VStr s] => OK (VStr s) | _ => UNM end
  else if f =? "int" then
    match args with
    | [VFlt _ (Fin q)] => OK (VInt true (qtrunc q))
    | [VFlt _ NaN] => EXN ValueError
    | [VFlt _ _] => EXN OtherExn                         (* OverflowError *)
    | [VInt _ z] => OK (VInt true z)
    | _ => UNM end
  else if f =? "np.floor" then match args with [VFlt _ x] => OK (VFlt false (xfloor x)) | _ => UNM end
  else if f =? "np.array" then
    match args with
    | [VList _ [VList _ [a; b]]] => match flt_of a, flt_of b with Some x, Some y => OK (VMat [(x, y)]) | _, _ => UNM end
    | [VList _ [VArrQ a; VArrQ b]] => if Nat.eqb (length a) (length b) then OK (VMat2 a b) else UNM
    | _ => UNM end
  else if f =? "np.asarray" then
    match args with
    | [VArrQ l] => OK (VArrQ l)
    | [VList _ l] => match all_fins l with Some qs => OK (VArrQ qs) | None => UNM end
    | _ => UNM end
  else if f =? "np.argwhere" then match args with [VArrB m] => OK (VIdx (nz_from 0 m)) | _ => UNM end
  else if f =? "np.maximum" then
    match args with
    | [s; VMat l] => match fin_of s with
                     | Some t => OK (VMat (map (fun i => (Qmax t (fst i), Qmax t (snd i))) l))
                     | None => UNM end
    | _ => UNM end
  else if f =? "np.minimum" then
    match args with
    | [s; VMat l] => match fin_of s with
                     | Some t => OK (VMat (map (fun i => (Qmin t (fst i), Qmin t (snd i))) l))
                     | None => UNM end
    | _ => UNM end
  else if f =? "np.vstack" then
    match args with
    | [v] => match seq_items v with
             | Some parts => match concat_opt rows_of parts with Some r => OK (VMat r) | None => UNM end
             | None => UNM end
    | _ => UNM end
  else if f =? "np.concatenate" then
    match args with
    | [v] => match seq_items v with
             | Some parts => match concat_opt entries_of parts with Some r => OK (VArrQ r) | None => UNM end
             | None => UNM end
    | _ => UNM end
  else if f =? "np.concatenate_axis0" then
    match args with
    | [v] => match seq_items v with
             | Some parts => match concat_opt (fun p => match p with VMat l => Some l | _ => None end) parts with
                             | Some r => OK (VMat r) | None => UNM end
             | None => UNM end
    | _ => UNM end
  else if f =? "np.unique" then
    match args with
    | [VMat l] => OK (VArrQ (Intervals.sort_uniq (Intervals.flat l)))
    | [VArrQ l] => OK (VArrQ (Intervals.sort_uniq l))
    | _ => UNM end
  else if f =? "np.arange" then match args with [VInt _ n] => OK (VArrZ (zrange 0 n)) | _ => UNM end
  else if f =? "np.arange_float32" then
    match args with [VInt _ n] => OK (VArrQ (map inject_Z (zrange 0 n))) | _ => UNM end
  else if f =? "np.any" then match args with [VArrB l] => OK (VBool (existsb (fun b => b) l)) | _ => UNM end
  else if f =? "np.searchsorted_left" then
    match args with
    | [VArrQ ts; VArrQ vs] => if Intervals.decreases ts then UNM
                              else OK (VArrZ (map (fun v => Z.of_nat (Intervals.ss_left ts v)) vs))
    | _ => UNM end
  else if f =? "np.searchsorted_right" then
    match args with
    | [VArrQ ts; VArrQ vs] => if Intervals.decreases ts then UNM
                              else OK (VArrZ (map (fun v => Z.of_nat (Intervals.ss_right ts v)) vs))
    | _ => UNM end
  else if f =? "np.argsort" then
    match args with [VArrQ k] => OK (VArrZ (map Z.of_nat (argsort_q k))) | _ => UNM end
  else if f =? "zip" then
    r <~ mapO iter_elems args ;; OK (VList true (map VTup (zipn r (min_len r))))
  else if f =? "enumerate" then
    match args with
    | [v] => l <~ iter_elems v ;; OK (VList true (map (fun p => VTup [VInt true (Z.of_nat (fst p)); snd p])
                                                        (combine (seq 0 (length l)) l)))
    | _ => UNM end
  else if f =? "sorted_set" then                         (* sorted(set(l)) for a list of str *)
    match args with
    | [VList _ l] => match all_strs l with Some ss => OK (VList true (map VStr (Intervals.sorted_set ss))) | None => UNM end
    | _ => UNM end
  else UNM.
Local Close Scope string_scope.

(* ------------------------------------------------------------------ syntax *)
Inductive exp :=
| ELoc (x : string)
| ENone | EBool (b : bool) | EInt (z : Z) | EFloat (q : Q) | EStr (s : str)
| ETuple (l : list exp) | EList (l : list exp) | EDict
| ECmp (op : cmpop) (a b : exp)
| EIsNone (a : exp) | EIn (a b : exp)
| ENot (a : exp) | EAnd (a b : exp) | EOr (a b : exp)
| EBin (op : binop) (a b : exp)
| EIndex (a i : exp)
| EIndex2 (a i j : exp)
| ECol (a : exp) (j : Z)
| ESlice (a : exp) (lo hi : option exp)
| EAttr (a : exp) (f : string)
| EMeth (a : exp) (m : string) (args : list exp)
| ENp (f : string) (args : list exp)
| ECall (f : string) (pos : list exp) (kws : list (string * exp))
| EComp (body : exp) (x : string) (it : exp).         (* [body for x in it] *)

Inductive target := TName (x : string) | TTuple (xs : list string).
Inductive stmt :=
| SAssign (t : target) (e : exp)
| SSetSlice (x : string) (lo hi e : exp)            (* x[lo:hi] = e,  x an owned list *)
| SSetKey (x : string) (k e : exp)                  (* x[k] = e,      x an owned dict *)
| SAppend (x : string) (e : exp)                    (* x.append(e),   x an owned list *)
| SInsert (x : string) (i e : exp)                  (* x.insert(i, e) *)
| SExpr (e : exp)
| SIf (c : exp) (a b : list stmt)
| SFor (t : target) (it : exp) (body : list stmt)
| SReturn (e : exp)
| SRaise (e : exn)
| SPass.

Record fdef := { f_params : list (string * option exp); f_locals : list string; f_body : list stmt }.

(* ------------------------------------------------------------------ binding of call arguments *)
Definition env := list (string * val).
Fixpoint lookup (x : string) (en : env) : option val :=
  match en with [] => None | (y, v) :: t => if String.eqb x y then Some v else lookup x t end.
Fixpoint update (x : string) (v : val) (en : env) : option env :=
  match en with
  | [] => None
  | (y, w) :: t => if String.eqb x y then Some ((y, v) :: t) else option_map (cons (y, w)) (update x v t)
  end.
Fixpoint mem_name (p : string) (l : list string) : bool :=
  match l with [] => false | k :: t => String.eqb p k || mem_name p t end.
Fixpoint nodup_names (l : list string) : bool :=
  match l with [] => true | k :: t => negb (mem_name k t) && nodup_names t end.
Definition sigv := list (string * option val).
Fixpoint bind_params (ps : sigv) (pos : list val) (kws : list (string * val)) : option (list val) :=
  match ps with
  | [] => match pos with [] => Some [] | _ => None end
  | (p, d) :: ps' =>
      match pos with
      | a :: pos' => match lookup p kws with
                     | Some _ => None
                     | None => option_map (cons a) (bind_params ps' pos' kws) end
      | [] => match lookup p kws, d with
              | Some a, _ => option_map (cons a) (bind_params ps' [] kws)
              | None, Some dv => option_map (cons dv) (bind_params ps' [] kws)
              | None, None => None
              end
      end
  end.
Definition bind_args (ps : sigv) (pos : list val) (kws : list (string * val)) : option (list val) :=
  if forallb (fun kw => mem_name (fst kw) (map fst ps)) kws && nodup_names (map fst kws)
  then bind_params ps pos kws else None.
Definition const_val (e : exp) : option val :=
  match e with
  | ENone => Some VNone | EBool b => Some (VBool b) | EInt z => Some (VInt true z)
  | EFloat q => Some (VFlt true (Fin q)) | EStr s => Some (VStr s)
  | _ => None
  end.
Fixpoint sig_of (ps : list (string * option exp)) : option sigv :=
  match ps with
  | [] => Some []
  | (p, None) :: t => option_map (cons (p, None)) (sig_of t)
  | (p, Some d) :: t => match const_val d, sig_of t with
                        | Some v, Some r => Some ((p, Some v) :: r)
                        | _, _ => None end
  end.
Fixpoint sigs_of (l : list (string * list (string * option exp))) : list (string * option sigv) :=
  match l with [] => [] | (n, ps) :: t => (n, sig_of ps) :: sigs_of t end.
Definition fun_params (funs : list (string * fdef)) : list (string * list (string * option exp)) :=
  map (fun nf => (fst nf, f_params (snd nf))) funs.

(* ------------------------------------------------------------------ evaluation *)
Section Eval.
Variable sigs : list (string * option sigv).
Variable ext : string -> list val -> out val.

Fixpoint assoc_sig (f : string) (l : list (string * option sigv)) : option sigv :=
  match l with [] => None | (g, s) :: t => if String.eqb f g then s else assoc_sig f t end.
Definition lookup_sig (f : string) : option sigv := assoc_sig f sigs.
Definition eval_opt (ev : exp -> out val) (o : option exp) : out (option val) :=
  match o with Some e => v <~ ev e ;; OK (Some v) | None => OK None end.

Fixpoint eval (en : env) (e : exp) {struct e} : out val :=
  match e with
  | ELoc x => match lookup x en with Some VUnbound => EXN OtherExn | Some v => OK v | None => UNM end
  | ENone => OK VNone | EBool b => OK (VBool b) | EInt z => OK (VInt true z)
  | EFloat q => OK (VFlt true (Fin q)) | EStr s => OK (VStr s)
  | ETuple l => vs <~ (fix evs (l : list exp) : out (list val) :=
                         match l with [] => OK [] | a :: t => v <~ eval en a ;; r <~ evs t ;; OK (v :: r) end) l ;;
                OK (VTup vs)
  | EList l => vs <~ (fix evs (l : list exp) : out (list val) :=
                        match l with [] => OK [] | a :: t => v <~ eval en a ;; r <~ evs t ;; OK (v :: r) end) l ;;
               OK (VList true vs)
  | EDict => OK (VDict true [])
  | ECmp op a b => x <~ eval en a ;; y <~ eval en b ;; cmp_op op x y
  | EIsNone a => x <~ eval en a ;; OK (VBool (match x with VNone => true | _ => false end))
  | EIn a b => x <~ eval en a ;; y <~ eval en b ;; in_op x y
  | ENot a => x <~ eval en a ;; t <~ truth x ;; OK (VBool (negb t))
  | EAnd a b => x <~ eval en a ;; t <~ truth x ;; if t then eval en b else OK x
  | EOr a b => x <~ eval en a ;; t <~ truth x ;; if t then OK x else eval en b
  | EBin op a b => x <~ eval en a ;; y <~ eval en b ;; bin_op op x y
  | EIndex a i => x <~ eval en a ;; y <~ eval en i ;; get_item x y
  | EIndex2 a i j => x <~ eval en a ;; y <~ eval en i ;; z <~ eval en j ;; get_item2 x y z
  | ECol a j => x <~ eval en a ;; get_col x j
  | ESlice a lo hi =>
      x <~ eval en a ;;
      l <~ match lo with Some e' => v <~ eval en e' ;; OK (Some v) | None => OK None end ;;
      h <~ match hi with Some e' => v <~ eval en e' ;; OK (Some v) | None => OK None end ;;
      slice_val x l h
  | EAttr a f => x <~ eval en a ;; attr x f
  | EMeth a m args =>
      x <~ eval en a ;;
      vs <~ (fix evs (l : list exp) : out (list val) :=
               match l with [] => OK [] | a :: t => v <~ eval en a ;; r <~ evs t ;; OK (v :: r) end) args ;;
      meth x m vs
  | ENp f args =>
      vs <~ (fix evs (l : list exp) : out (list val) :=
               match l with [] => OK [] | a :: t => v <~ eval en a ;; r <~ evs t ;; OK (v :: r) end) args ;;
      npf f vs
  | ECall f pos kws =>
      ps <~ (fix evs (l : list exp) : out (list val) :=
               match l with [] => OK [] | a :: t => v <~ eval en a ;; r <~ evs t ;; OK (v :: r) end) pos ;;
      ks <~ (fix evk (l : list (string * exp)) : out (list (string * val)) :=
               match l with [] => OK [] | (k, a) :: t => v <~ eval en a ;; r <~ evk t ;; OK ((k, v) :: r) end) kws ;;
      match lookup_sig f with
      | Some sg => match bind_args sg ps ks with Some vs => ext f vs | None => UNM end
      | None => UNM
      end
  | EComp body x it =>
      v <~ eval en it ;; els <~ iter_elems v ;;
      r <~ mapO (fun el => eval ((x, el) :: en) body) els ;;
      OK (VList true r)
  end.

Inductive sres := SNorm (en : env) | SRet (v : val) | SExn (e : exn) | SUnm.
Definition lift_e {A} (r : out A) (k : A -> sres) : sres :=
  match r with OK a => k a | EXN e => SExn e | UNM => SUnm end.
Definition set1 (x : string) (v : val) (en : env) : sres :=
  match update x v en with Some en' => SNorm en' | None => SUnm end.
Fixpoint set_many (xs : list string) (vs : list val) (en : env) : sres :=
  match xs, vs with
  | [], [] => SNorm en
  | x :: xs', v :: vs' => match set1 x v en with SNorm en' => set_many xs' vs' en' | o => o end
  | _, _ => SExn ValueError                          (* too many / not enough values to unpack *)
  end.
Definition assign (t : target) (v : val) (en : env) : sres :=
  match t with
  | TName x => set1 x v en
  | TTuple xs => lift_e (iter_elems v) (fun vs => set_many xs vs en)
  end.
Fixpoint for_loop (step : val -> env -> sres) (els : list val) (en : env) : sres :=
  match els with
  | [] => SNorm en
  | v :: t => match step v en with SNorm en' => for_loop step t en' | r => r end
  end.
Definition run_block (f : stmt -> env -> sres) : list stmt -> env -> sres :=
  fix go (l : list stmt) (en : env) : sres :=
    match l with [] => SNorm en | s :: r => match f s en with SNorm en' => go r en' | o => o end end.
Definition for_step (blk : list stmt -> env -> sres) (t : target) (body : list stmt) (el : val) (en : env) : sres :=
  match assign t el en with SNorm en' => blk body en' | o => o end.
Definition as_int (v : val) : out Z := match v with VInt _ z => OK z | _ => UNM end.

Fixpoint exec (s : stmt) (en : env) {struct s} : sres :=
  match s with
  | SAssign t e => lift_e (eval en e) (fun v => assign t v en)
  | SSetSlice x lo hi e =>
      lift_e (eval en (ELoc x)) (fun a => lift_e (eval en lo) (fun l => lift_e (eval en hi) (fun h =>
        lift_e (eval en e) (fun v => lift_e (as_int l) (fun l' => lift_e (as_int h) (fun h' =>
          match a, v with
          | VList true old, VList _ new => set1 x (VList true (py_set_slice l' h' new old)) en
          | _, _ => SUnm end))))))
  | SSetKey x k e =>
      lift_e (eval en (ELoc x)) (fun a => lift_e (eval en k) (fun kv => lift_e (eval en e) (fun v =>
        match a with
        | VDict true d => lift_e (dict_set kv v d) (fun d' => set1 x (VDict true d') en)
        | _ => SUnm end)))
  | SAppend x e =>
      lift_e (eval en (ELoc x)) (fun a => lift_e (eval en e) (fun v =>
        match a with VList true l => set1 x (VList true (l ++ [v])) en | _ => SUnm end))
  | SInsert x i e =>
      lift_e (eval en (ELoc x)) (fun a => lift_e (eval en i) (fun iv => lift_e (eval en e) (fun v =>
        lift_e (as_int iv) (fun k =>
          match a with VList true l => set1 x (VList true (py_insert k v l)) en | _ => SUnm end))))
  | SExpr e => lift_e (eval en e) (fun _ => SNorm en)
  | SIf c a b => lift_e (eval en c) (fun v => lift_e (truth v) (fun t => run_block exec (if t then a else b) en))
  | SFor t it body =>
      lift_e (eval en it) (fun v => lift_e (iter_elems v) (fun els => for_loop (for_step (run_block exec) t body) els en))
  | SReturn e => lift_e (eval en e) SRet
  | SRaise e => SExn e
  | SPass => SNorm en
  end.
Definition exec_block : list stmt -> env -> sres := run_block exec.

Definition init_env (f : fdef) (args : list val) : env :=
  combine (map fst (f_params f)) args ++ map (fun x => (x, VUnbound)) (f_locals f).
Definition run_fun (f : fdef) (args : list val) : out val :=
  if Nat.eqb (length args) (length (f_params f)) then
    match exec_block (f_body f) (init_env f args) with
    | SNorm _ => OK VNone | SRet v => OK v | SExn e => EXN e | SUnm => UNM end
  else UNM.
End Eval.
