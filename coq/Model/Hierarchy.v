(* mir_eval/hierarchy.py: _count_inversions, _compare_frame_rankings, _gauc, _lca, _meet, _round,
   _hierarchy_bounds, validate_hier_intervals, tmeasure, lmeasure.  Definitions only.

   Conventions.
   * Levels / matrix entries are [nat] (the implementation stores them as uint8: the model is the
     implementation for hierarchies of at most 255 levels; the property ranges over 1..4).
   * A dense integer matrix is [list (list nat)] (rows); scipy sparse matrices are compared after
     [.toarray()].
   * Frame indices are [Z] and go through Python's slice normalisation ([norm_idx]), so that negative
     indices (possible only for single-level "hierarchies", which validate_hier_intervals does not
     inspect) behave as in NumPy.
   * Times, window, frame_size, beta are [Q]; [_round] is computed exactly as written
     ([t - np.mod(t, frame_size)]), which coincides with the float computation whenever the float
     operations are exact (dyadic frame sizes, lattice times).
   * Every level of a hierarchy is an (k, 2) float ndarray (k = 0 allowed) - what
     [validate_intervals] assumes after its shape test; label lists have the length of their level. *)
From Coq Require Import List Bool Arith ZArith QArith Qabs Qminmax Qround.
From ME Require Import Model.Prelude Model.Events.
Import ListNotations.
Local Open Scope nat_scope.

(* ------------------------------------------------------------------------------------------ *)
(* np.unique(x, return_counts=True): sorted distinct values with multiplicities                 *)
Definition wl := list (nat * nat).
Fixpoint uc_insert (x : nat) (l : wl) : wl :=
  match l with
  | [] => [(x, 1)]
  | (v, c) :: t => if x <? v then (x, 1) :: l else if x =? v then (v, S c) :: t else (v, c) :: uc_insert x t
  end.
Definition ucounts (l : list nat) : wl := fold_right uc_insert [] l.
(* np.sum(a_counts[i:]) *)
Definition wsum (A : wl) : nat := fold_right (fun p s => snd p + s) 0 A.

(* the loop  while i < len(a) and j < len(b)  of _count_inversions; the lists are the suffixes a[i:], b[j:] *)
Fixpoint ci_loop (fuel : nat) (A B : wl) (acc : nat) : nat :=
  match fuel with
  | 0 => acc
  | S f =>
    match A, B with
    | (a, _) :: A', (b, cb) :: B' => if a <? b then ci_loop f A' B acc else ci_loop f A B' (acc + wsum A * cb)
    | _, _ => acc
    end
  end.
Definition count_inversions (a b : list nat) : nat :=
  let A := ucounts a in let B := ucounts b in ci_loop (length A + length B) A B 0.

(* ------------------------------------------------------------------------------------------ *)
(* _compare_frame_rankings                                                                      *)
(* idx = np.argsort(ref); ref[idx], est[idx]: pairs sorted by reference value (which permutation of
   equal keys argsort picks is irrelevant downstream: every slice goes through np.unique) *)
Fixpoint ins_by_ref (x : nat * nat) (l : list (nat * nat)) : list (nat * nat) :=
  match l with [] => [x] | y :: t => if fst x <=? fst y then x :: l else y :: ins_by_ref x t end.
Definition sort_by_ref (l : list (nat * nat)) : list (nat * nat) := fold_right ins_by_ref [] l.
(* np.unique(ref_sorted, return_index=True, return_counts=True), positions.append(len(ref_sorted)) and
   index[level] = slice(start, end): on a sorted array the first occurrence of a level is the sum of the
   counts of the smaller levels *)
Fixpoint with_pos (start : nat) (u : wl) : list (nat * (nat * nat)) :=
  match u with [] => [] | (v, c) :: t => (v, (start, start + c)) :: with_pos (start + c) t end.
(* index = defaultdict(lambda: slice(0)); ref_map = defaultdict(lambda: 0) *)
Definition dd_slice (index : list (nat * (nat * nat))) (l : nat) : nat * nat :=
  match find (fun p => fst p =? l) index with Some p => snd p | None => (0, 0) end.
Definition dd_count (u : wl) (l : nat) : nat :=
  match find (fun p => fst p =? l) u with Some p => snd p | None => 0 end.
Definition take_slice {A} (se : nat * nat) (l : list A) : list A := firstn (snd se - fst se) (skipn (fst se) l).
(* itertools.combinations(levels, 2) *)
Fixpoint combs2 (l : list nat) : list (nat * nat) :=
  match l with [] => [] | x :: t => map (pair x) t ++ combs2 t end.
Definition level_pairs (transitive : bool) (levels : list nat) : list (nat * nat) :=
  if transitive then combs2 levels else map (fun i => (i, S i)) levels.
(* (inversions, normalizer); the Python returns the normalizer as a float holding this integer *)
Definition cfr (ref est : list nat) (transitive : bool) : nat * nat :=
  let srt := sort_by_ref (combine ref est) in
  let est_sorted := map snd srt in
  let u := ucounts (map fst srt) in
  let index := with_pos 0 u in
  let lp := level_pairs transitive (map fst u) in
  let normalizer := fold_right (fun ij s => dd_count u (fst ij) * dd_count u (snd ij) + s) 0 lp in
  if normalizer =? 0 then (0, 0)
  else (fold_right (fun ij s => count_inversions (take_slice (dd_slice index (fst ij)) est_sorted)
                                                (take_slice (dd_slice index (snd ij)) est_sorted) + s) 0 lp,
        normalizer).
(* est[idx] raises IndexError when est is shorter than ref; extra entries of est are never read *)
Definition compare_frame_rankings (ref est : list nat) (transitive : bool) : res (nat * nat) :=
  if length est <? length ref then Raise IndexError else Ok (cfr ref est transitive).

(* ------------------------------------------------------------------------------------------ *)
(* _gauc on dense matrices                                                                      *)
Definition mat := list (list nat).
Definition mshape (M : mat) : nat * nat := (length M, match M with [] => 0 | r :: _ => length r end).
Definition remove_at {A} (i : nat) (l : list A) : list A := firstn i l ++ skipn (S i) l.
Definition qnat (k : nat) : Q := inject_Z (Z.of_nat k).
(* one query frame: slice(max(0, q - w), min(n, q + w)) of row q, .toarray().ravel() (always 1-d, also for a slice
   of one element), drop position min(q, w), compare the rankings *)
Definition gauc_slice (M : mat) (n w q : nat) : list nat :=
  let lo := q - w in let hi := Nat.min n (q + w) in firstn (hi - lo) (skipn lo (nth q M [])).
Definition gauc_query (ref est : mat) (transitive : bool) (n w q : nat) : nat * nat :=
  let idx := Nat.min q w in
  cfr (remove_at idx (gauc_slice ref n w q)) (remove_at idx (gauc_slice est n w q)) transitive.
Definition gauc_term (p : nat * nat) : Q := (1 - qnat (fst p) / qnat (snd p))%Q.
Definition counted (terms : list (nat * nat)) : list (nat * nat) := filter (fun p => negb (snd p =? 0)) terms.
Definition gauc_mean (terms : list (nat * nat)) : Q :=
  match counted terms with [] => 0%Q | c => (qsum (map gauc_term c) / qnat (length c))%Q end.
(* the only exception left is the shape test *)
Definition gauc (ref est : mat) (transitive : bool) (window : option nat) : res Q :=
  if negb ((fst (mshape ref) =? fst (mshape est)) && (snd (mshape ref) =? snd (mshape est))) then Raise ValueError
  else
    let n := length ref in
    let w := match window with None => n | Some w => w end in
    Ok (gauc_mean (map (gauc_query ref est transitive n w) (seq 0 n))).

(* ------------------------------------------------------------------------------------------ *)
(* _lca and _meet on integer frame intervals                                                    *)
(* Python slice normalisation (step 1) of one bound against a dimension of length n *)
Definition norm_idx (n : nat) (z : Z) : nat :=
  if (z <? 0)%Z then Z.to_nat (Z.max 0 (z + Z.of_nat n)) else Nat.min (Z.to_nat z) n.
Definition in_rng (lo hi i : nat) : bool := (lo <=? i) && (i <? hi).
Fixpoint mapi_from {A B} (k : nat) (f : nat -> A -> B) (l : list A) : list B :=
  match l with [] => [] | x :: t => f k x :: mapi_from (S k) f t end.
(* M[r0:r1, c0:c1] = v  (bounds already normalised) *)
Definition assign_block (M : mat) (r0 r1 c0 c1 v : nat) : mat :=
  mapi_from 0 (fun i row => if in_rng r0 r1 i then mapi_from 0 (fun j x => if in_rng c0 c1 j then v else x) row else row) M.
Definition zeros (n : nat) : mat := repeat (repeat 0 n) n.
Definition assign_slices (n : nat) (M : mat) (rows cols : Z * Z) (v : nat) : mat :=
  assign_block M (norm_idx n (fst rows)) (norm_idx n (snd rows)) (norm_idx n (fst cols)) (norm_idx n (snd cols)) v.

Definition lca_level (n level : nat) (M : mat) (ivs : list (Z * Z)) : mat :=
  fold_left (fun M iv => assign_slices n M iv iv level) ivs M.
(* for level, x in enumerate(hier, level): M = step level M x *)
Fixpoint levels_from {X} (step : nat -> mat -> X -> mat) (level : nat) (M : mat) (H : list X) : mat :=
  match H with [] => M | x :: H' => levels_from step (S level) (step level M x) H' end.
Definition lca_frames (n : nat) (H : list (list (Z * Z))) : mat := levels_from (lca_level n) 1 (zeros n) H.

(* str(s).lower() of index_labels, ASCII part *)
Definition hlower (s : str) : str := map (fun c => if (65 <=? c) && (c <=? 90) then c + 32 else c) s.
Definition seg := (Z * Z * str)%type.
Definition seg_iv (s : seg) : Z * Z := fst s.
Definition seg_lab (s : seg) : str := snd s.
Definition lab_agree (a b : seg) : bool := seqb (hlower (seg_lab a)) (hlower (seg_lab b)).
(* the pairs of np.where(np.triu(np.equal.outer(lab_enc, lab_enc))): row-major pairs a <= b with equal label codes
   (index_labels gives two segments the same code iff their lower-cased labels are equal) *)
Definition agree_pairs (segs : list seg) : list ((nat * seg) * (nat * seg)) :=
  let isegs := combine (seq 0 (length segs)) segs in
  filter (fun ab => (fst (fst ab) <=? fst (snd ab)) && lab_agree (snd (fst ab)) (snd (snd ab))) (list_prod isegs isegs).
Definition meet_level (n level : nat) (M : mat) (segs : list seg) : mat :=
  fold_left (fun M ab =>
               let '((a, sa), (b, sb)) := ab in
               let M1 := assign_slices n M (seg_iv sa) (seg_iv sb) level in
               if a =? b then M1 else assign_slices n M1 (seg_iv sb) (seg_iv sa) level)
            (agree_pairs segs) M.
Definition meet_frames (n : nat) (H : list (list seg)) : mat := levels_from (meet_level n) 1 (zeros n) H.

(* ------------------------------------------------------------------------------------------ *)
(* times -> frames                                                                              *)
(* _round(t, frame_size) = t - np.mod(t, frame_size) *)
Definition hround (t fs : Q) : Q := (t - qmod t fs)%Q.
(* int(x) / ndarray.astype(int): truncation toward zero *)
Definition qtrunc (x : Q) : Z := if Qle_bool 0%Q x then Qfloor x else Qceiling x.
Definition frame_of (t fs : Q) : Z := qtrunc (hround t fs / fs)%Q.
Definition hier := list (list (Q * Q)).
Definition boundaries (H : hier) : list Q := flat_map (flat_map (fun p => [fst p; snd p])) H.
(* _hierarchy_bounds: min()/max() of an empty sequence raise ValueError *)
Definition hier_bounds (H : hier) : res (Q * Q) :=
  match boundaries H with [] => Raise ValueError | x :: t => Ok (fold_left Qmin t x, fold_left Qmax t x) end.
Definition n_frames (H : hier) (fs : Q) : res nat :=
  b <- hier_bounds H ;;
  Ok (Z.to_nat (qtrunc ((hround (snd b) fs - hround (fst b) fs) / fs)%Q)).
Definition frame_iv (fs : Q) (p : Q * Q) : Z * Z := (frame_of (fst p) fs, frame_of (snd p) fs).
Definition lca (H : hier) (fs : Q) : res mat :=
  n <- n_frames H fs ;; Ok (lca_frames n (map (map (frame_iv fs)) H)).
Definition lhier := list (list (Q * Q * str)).
Definition lh_intervals (L : lhier) : hier := map (map fst) L.
Definition meet (L : lhier) (fs : Q) : res mat :=
  n <- n_frames (lh_intervals L) fs ;;
  Ok (meet_frames n (map (map (fun s => (frame_iv fs (fst s), snd s))) L)).

(* ------------------------------------------------------------------------------------------ *)
(* validate_hier_intervals (= segment.validate_structure of every deeper level against the top level
   with synthetic labels; the warnings have no effect on the result)                             *)
Definition np_atol : Q := (3022314549036573 # 302231454903657293676544)%Q.   (* the double 1e-8 *)
Definition np_rtol : Q := (5902958103587057 # 590295810358705651712)%Q.     (* the double 1e-5 *)
Definition allclose (a b : Q) : bool := qleb (Qabs (a - b)%Q) (np_atol + np_rtol * Qabs b)%Q.
Definition valid_intervals (iv : list (Q * Q)) : bool :=
  negb (existsb (fun p => qltb (fst p) 0%Q || qltb (snd p) 0%Q) iv) && negb (existsb (fun p => qleb (snd p) (fst p)) iv).
Definition ends (iv : list (Q * Q)) : list Q := flat_map (fun p => [fst p; snd p]) iv.
Definition vs_one (iv : list (Q * Q)) : bool :=
  valid_intervals iv && match qmin_list (ends iv) with None => true | Some m => allclose m 0%Q end.
Definition validate_structure (top lvl : list (Q * Q)) : res unit :=
  if vs_one top && vs_one lvl
     && match qmax_list (ends top), qmax_list (ends lvl) with Some a, Some b => allclose a b | _, _ => true end
  then Ok tt else Raise ValueError.
Fixpoint validate_levels (top : list (Q * Q)) (rest : hier) : res unit :=
  match rest with [] => Ok tt | l :: t => _ <- validate_structure top l ;; validate_levels top t end.
Definition validate_hier (H : hier) : res unit :=
  match H with [] => Raise IndexError | top :: rest => validate_levels top rest end.

(* ------------------------------------------------------------------------------------------ *)
(* tmeasure / lmeasure                                                                          *)
Definition window_frames (window : option Q) (fs : Q) : res (option nat) :=
  match window with
  | None => Ok None
  | Some w => if qltb w fs then Raise ValueError else Ok (Some (Z.to_nat (qtrunc (hround w fs / fs)%Q)))
  end.
Definition tmeasure (ref est : hier) (transitive : bool) (window : option Q) (fs beta : Q) : res (Q * Q * Q) :=
  if qleb fs 0%Q then Raise ValueError else
  wf <- window_frames window fs ;;
  _ <- validate_hier ref ;;
  _ <- validate_hier est ;;
  rl <- lca ref fs ;;
  el <- lca est fs ;;
  r <- gauc rl el transitive wf ;;
  p <- gauc el rl transitive wf ;;
  Ok (p, r, f_measure p r beta).
Definition lmeasure (ref est : lhier) (fs beta : Q) : res (Q * Q * Q) :=
  if qleb fs 0%Q then Raise ValueError else
  _ <- validate_hier (lh_intervals ref) ;;
  _ <- validate_hier (lh_intervals est) ;;
  rm <- meet ref fs ;;
  em <- meet est fs ;;
  r <- gauc rm em true None ;;
  p <- gauc em rm true None ;;
  Ok (p, r, f_measure p r beta).
