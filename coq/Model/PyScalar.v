(* Python scalar expressions (None, bool, int, float, str) with the operators used by the small scalar
   functions that translator/scalarfuncs.py maps to Gen/ScalarFuncs.v (util.f_measure, the decision ladder of
   key.weighted_score). Definitions only.

   The translator emits a *shallow* term: one Gallina function per Python function, built from the
   combinators below, in the evaluation order of Python (left operand first; `and`/`or` short-circuit; an
   `if` evaluates its test first). What an operator does on each type of operand is decided here:
     - int op int stays int; anything with a float is a float; bool counts as the int 0/1;
     - `/` is true division and raises ZeroDivisionError on a zero divisor (Python floats; NumPy float64
       scalars would give inf/nan with a warning instead: callers passing those are outside this reading);
     - `%` on ints is floor-mod with the sign of the divisor (= Z.modulo);
     - `==` never raises; it is numeric on numbers, structural on strings, and False across types;
     - arithmetic or ordering on None / str raises TypeError.
   Floats are exact rationals (DESIGN.md section 2.1): a float literal is the rational its decimal text denotes. *)
From Coq Require Import List Bool ZArith QArith.
From ME Require Import Model.Prelude.
Import ListNotations.

Inductive pyv := PNone | PBool (b : bool) | PInt (z : Z) | PFloat (q : Q) | PStr (s : str).
Inductive pynum := NI (z : Z) | NF (q : Q).
Inductive pycmp := PEq | PNe | PLt | PLe | PGt | PGe.

Definition as_num (v : pyv) : option pynum :=
  match v with
  | PBool b => Some (NI (if b then 1 else 0)%Z) | PInt z => Some (NI z) | PFloat q => Some (NF q)
  | _ => None end.
Definition nq (n : pynum) : Q := match n with NI z => inject_Z z | NF q => q end.
Definition truth (v : pyv) : bool :=
  match v with
  | PNone => false | PBool b => b | PInt z => negb (Z.eqb z 0) | PFloat q => negb (Qeq_bool q 0)
  | PStr s => match s with [] => false | _ => true end end.

Definition py_arith (fz : Z -> Z -> Z) (fq : Q -> Q -> Q) (a b : pyv) : res pyv :=
  match as_num a, as_num b with
  | Some (NI x), Some (NI y) => Ok (PInt (fz x y))
  | Some x, Some y => Ok (PFloat (fq (nq x) (nq y)))
  | _, _ => Raise TypeError end.
Definition py_add := py_arith Z.add Qplus.
Definition py_sub := py_arith Z.sub Qminus.
Definition py_mul := py_arith Z.mul Qmult.
Definition py_div (a b : pyv) : res pyv :=
  match as_num a, as_num b with
  | Some x, Some y => if Qeq_bool (nq y) 0 then Raise ZeroDivisionError else Ok (PFloat (nq x / nq y))
  | _, _ => Raise TypeError end.
Definition py_mod (a b : pyv) : res pyv :=
  match as_num a, as_num b with
  | Some (NI x), Some (NI y) => if Z.eqb y 0 then Raise ZeroDivisionError else Ok (PInt (x mod y))
  | Some _, Some _ => Raise OtherExn                 (* float modulo: not modelled *)
  | _, _ => Raise TypeError end.
(* a ** n for a literal n >= 0 *)
Definition py_pow (n : nat) (a : pyv) : res pyv :=
  match as_num a with
  | Some (NI x) => Ok (PInt (x ^ Z.of_nat n))
  | Some (NF q) => Ok (PFloat (q ^ Z.of_nat n))
  | None => Raise TypeError end.

Definition py_eq (a b : pyv) : bool :=
  match as_num a, as_num b with
  | Some (NI x), Some (NI y) => Z.eqb x y
  | Some x, Some y => Qeq_bool (nq x) (nq y)
  | _, _ => match a, b with
            | PNone, PNone => true
            | PStr s, PStr t => seqb s t
            | _, _ => false end
  end.
Definition py_order (op : pycmp) (x y : Q) : bool :=
  match op with PLt => negb (Qle_bool y x) | PLe => Qle_bool x y | PGt => negb (Qle_bool x y) | PGe => Qle_bool y x
  | PEq => Qeq_bool x y | PNe => negb (Qeq_bool x y) end.
Definition py_cmp (op : pycmp) (a b : pyv) : res pyv :=
  match op with
  | PEq => Ok (PBool (py_eq a b))
  | PNe => Ok (PBool (negb (py_eq a b)))
  | _ => match as_num a, as_num b with
         | Some x, Some y => Ok (PBool (py_order op (nq x) (nq y)))
         | _, _ => Raise TypeError end          (* str < str etc.: not modelled, None < _ raises TypeError *)
  end.
Definition py_is_none (v : pyv) : bool := match v with PNone => true | _ => false end.

(* ---- the combinators the generated text is made of (operands are themselves computations) ---- *)
Definition pe_lift2 (f : pyv -> pyv -> res pyv) (a b : res pyv) : res pyv := x <- a ;; y <- b ;; f x y.
Definition pe_add := pe_lift2 py_add.
Definition pe_sub := pe_lift2 py_sub.
Definition pe_mul := pe_lift2 py_mul.
Definition pe_div := pe_lift2 py_div.
Definition pe_mod := pe_lift2 py_mod.
Definition pe_pow (n : nat) (a : res pyv) : res pyv := x <- a ;; py_pow n x.
Definition pe_cmp (op : pycmp) := pe_lift2 (py_cmp op).
Definition pe_is_none (a : res pyv) : res pyv := x <- a ;; Ok (PBool (py_is_none x)).
Definition pe_is_not_none (a : res pyv) : res pyv := x <- a ;; Ok (PBool (negb (py_is_none x))).
Definition pe_not (a : res pyv) : res pyv := x <- a ;; Ok (PBool (negb (truth x))).
Definition pe_and (a b : res pyv) : res pyv := x <- a ;; if truth x then b else Ok x.       (* a and b *)
Definition pe_or (a b : res pyv) : res pyv := x <- a ;; if truth x then Ok x else b.        (* a or b *)
Definition py_if (c t f : res pyv) : res pyv := x <- c ;; if truth x then t else f.         (* if c: t  else/then: f *)
Definition py_let (a : res pyv) (k : pyv -> res pyv) : res pyv := x <- a ;; k x.            (* name = a ; k *)

(* embeddings used by the tie theorems *)
Definition of_oz (o : option Z) : pyv := match o with Some z => PInt z | None => PNone end.
Definition of_ostr (o : option str) : pyv := match o with Some s => PStr s | None => PNone end.
