(* mir_eval/tempo.py: validate_tempi, validate, detection over exact rationals.  Definitions only.
   Tempo arrays are lists of xval so that the np.isfinite test of the validator is representable; after validation
   they are lists of Q of length exactly 2.  The reference weight and tol are finite numbers (Q). *)
From Coq Require Import List Bool Arith ZArith QArith Qabs Qminmax.
From ME Require Import Model.Prelude.
Import ListNotations.

Fixpoint all_fin (l : list xval) : option (list Q) :=
  match l with
  | [] => Some []
  | Fin q :: t => option_map (cons q) (all_fin t)
  | _ :: _ => None
  end.

(* validate_tempi: returns the (finite) values on success *)
Definition validate_tempi (tempi : list xval) (reference : bool) : res (list Q) :=
  if negb (length tempi =? 2)%nat then Raise ValueError else
  match all_fin tempi with
  | None => Raise ValueError                                            (* not np.all(np.isfinite(tempi)) *)
  | Some qs =>
    if existsb (fun t => qltb t 0) qs then Raise ValueError else        (* np.any(tempi < 0) *)
    if reference && forallb (fun t => qeqb t 0) qs then Raise ValueError else Ok qs
  end.

Definition validate (ref : list xval) (w : Q) (est : list xval) : res (list Q * list Q) :=
  r <- validate_tempi ref true ;;
  e <- validate_tempi est false ;;
  if qltb w 0 || qltb 1 w then Raise ValueError else Ok (r, e).

Definition b2q (b : bool) : Q := if b then 1 else 0.

(* hits[i] : ref_t > 0 and np.min(np.abs(ref_t - estimated_tempi) / float(ref_t)) <= tol *)
Definition rel_err (r e : Q) : Q := Qabs (r - e) / r.
Definition hit (tol r e0 e1 : Q) : bool := qltb 0 r && qleb (Qmin (rel_err r e0) (rel_err r e1)) tol.

Definition detection (ref : list xval) (w : Q) (est : list xval) (tol : Q) : res (Q * bool * bool) :=
  re <- validate ref w est ;;
  if qltb tol 0 || qltb 1 tol then Raise ValueError else
  match re with
  | ([r0; r1], [e0; e1]) =>
      let h0 := hit tol r0 e0 e1 in
      let h1 := hit tol r1 e0 e1 in
      Ok (w * b2q h0 + (1 - w) * b2q h1, h0 || h1, h0 && h1)
  | _ => Raise ValueError          (* unreachable: validate_tempi returned lists of length 2 *)
  end.
