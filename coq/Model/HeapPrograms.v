(* C15, layer 2: the write-relevant skeletons of the anchored helpers of mir_eval, hand-transcribed statement by
   statement into the object language of Model/Heap.v (definitions only; the proofs are in Proofs/HeapHelpers.v,
   the correspondence with the running code in harness/units/purity_helpers.py).

     util.adjust_intervals, util.adjust_events          label list copied at the top (`labels = list(labels)`)
     melody.freq_to_voicing                             `voicing = np.array(voicing, dtype=float)` before the masked store
     melody.hz2cents, melody.resample_melody_series     stores into arrays they allocate themselves
     melody.to_cent_voicing                             np.insert branches, calls of freq_to_voicing / resampling
     segment.evaluate (shape)                           kwargs['window'] = ... on its own **kwargs dict
   and the versions of adjust_intervals / adjust_events / freq_to_voicing BEFORE the fixes (`*_old`).

   Identity-relevant steps are constructors (EFresh / EAlias / EView / SWrite / SCall); array and list CONTENTS are
   computed exactly for adjust_intervals, adjust_events and freq_to_voicing (so returned values and the final state
   of every argument can be compared with the running code); the numeric contents of hz2cents and of the scipy
   interpolation are not write-relevant and are abstracted (`opaque`: an array of the right provenance). *)
From Coq Require Import List String Bool Arith ZArith QArith Qminmax Qabs Qround.
From ME Require Import Model.Prelude Model.Heap.
Import ListNotations.
Open Scope string_scope.
Open Scope list_scope.
Open Scope nat_scope.

Notation "'olet' x := a 'in' b" := (match a with Some x => b | None => None end)
  (at level 200, x name, a at level 100, b at level 200, right associativity).
Notation "a ;;; b" := (SSeq a b) (at level 65, right associativity).

(* ------------------------------------------------------------------------------------------------ readers *)
Definition onum (en : env) (x : var) : option Q := match lookup en x with Some (VScal (CNum q)) => Some q | _ => None end.
Definition ostr (en : env) (x : var) : option str := match lookup en x with Some (VScal (CStr s)) => Some s | _ => None end.
Definition is_none (en : env) (x : var) : option bool :=
  match lookup en x with Some VNone => Some true | Some _ => Some false | None => None end.
Definition read_arr (h : heap) (v : val) : option (list Q) :=
  match v with
  | VRef l => match hget h l with Some (OArr qs) => Some qs | _ => None end
  | VView l s n => match hget h l with
                   | Some (OArr qs) => if s + n <=? List.length qs then Some (firstn n (skipn s qs)) else None
                   | _ => None end
  | _ => None
  end.
Definition read_list (h : heap) (v : val) : option (list val) :=
  match v with VRef l => match hget h l with Some (OList xs) => Some xs | _ => None end | _ => None end.
Definition oarr (en : env) (h : heap) (x : var) : option (list Q) := olet v := lookup en x in read_arr h v.
Definition olist (en : env) (h : heap) (x : var) : option (list val) := olet v := lookup en x in read_list h v.

Definition nilb {A} (l : list A) : bool := match l with [] => true | _ => false end.
Definition n2q (n : nat) : Q := inject_Z (Z.of_nat n).
Definition q2n (q : Q) : nat := Z.to_nat (Qfloor q).
Definition b2q (b : bool) : Q := if b then 1%Q else 0%Q.
Fixpoint rows (xs : list Q) : list (Q * Q) := match xs with a :: b :: t => (a, b) :: rows t | _ => [] end.
(* np.argwhere(cond)[:, 0] *)
Definition where_idx {A} (p : A -> bool) (l : list A) : list nat :=
  map fst (filter (fun kv => p (snd kv)) (combine (seq 0 (List.length l)) l)).
(* first_idx[0, 0] *)
Definition first0 (en : env) (h : heap) (x : var) : option nat :=
  olet a := oarr en h x in match a with q :: _ => Some (q2n q) | [] => None end.

(* list(x), np.array(x) *)
Definition list_copy (x : var) : env -> heap -> option obj := fun en h => olet xs := olist en h x in Some (OList xs).
Definition arr_copy (x : var) : env -> heap -> option obj := fun en h => olet qs := oarr en h x in Some (OArr qs).
(* contents that are not write-relevant: some array derived from x *)
Definition opaque (x : var) : env -> heap -> option obj := arr_copy x.

(* ------------------------------------------------------------------------------------------------ util.adjust_intervals *)
(* parameters: intervals labels t_min t_max start_label end_label; an (n,2) array is its row-major cell list *)
Definition ai_params : list var := ["intervals"; "labels"; "t_min"; "t_max"; "start_label"; "end_label"].

Definition ai_min_block : stmt :=
  SIfNotNone "t_min" (
    (* first_idx = np.argwhere(intervals[:, 1] > t_min) *)
    SAssign "first_idx" (EFresh (fun en h => olet t := onum en "t_min" in olet iv := oarr en h "intervals" in
                                 Some (OArr (map n2q (where_idx (fun r => qltb t (snd r)) (rows iv)))))) ;;;
    SIf (fun en h => olet fi := oarr en h "first_idx" in Some (negb (nilb fi)))
      ( SIfNotNone "labels"
          (* labels = labels[first_idx[0, 0]:]       slicing a list copies *)
          (SAssign "labels" (EFresh (fun en h => olet k := first0 en h "first_idx" in olet ls := olist en h "labels" in
                                     Some (OList (skipn k ls))))) SSkip ;;;
        (* intervals = intervals[first_idx[0, 0]:]   a basic slice of an array is a view *)
        SAssign "intervals" (EView "intervals" (fun en h => olet k := first0 en h "first_idx" in olet iv := oarr en h "intervals" in
                                                Some (2 * k, List.length iv - 2 * k))) )
      SSkip ;;;
    (* intervals = np.maximum(t_min, intervals) *)
    SAssign "intervals" (EFresh (fun en h => olet t := onum en "t_min" in olet iv := oarr en h "intervals" in Some (OArr (map (Qmax t) iv)))) ;;;
    (* if intervals.min() > t_min:    (.min() of an empty array raises) *)
    SIf (fun en h => olet t := onum en "t_min" in olet iv := oarr en h "intervals" in olet mn := qmin_list iv in Some (qltb t mn))
      ( SAssign "intervals" (EFresh (fun en h => olet t := onum en "t_min" in olet iv := oarr en h "intervals" in olet mn := qmin_list iv in
                                     Some (OArr (t :: mn :: iv)))) ;;;
        SIfNotNone "labels"
          (* labels.insert(0, start_label) *)
          (SWrite "labels" (UObj (fun en h o => olet v := lookup en "start_label" in
                                  match o with OList xs => Some (OList (v :: xs)) | _ => None end))) SSkip )
      SSkip )
  SSkip.

Definition ai_max_block : stmt :=
  SIfNotNone "t_max" (
    (* last_idx = np.argwhere(intervals[:, 0] >= t_max) *)
    SAssign "last_idx" (EFresh (fun en h => olet t := onum en "t_max" in olet iv := oarr en h "intervals" in
                                Some (OArr (map n2q (where_idx (fun r => Qle_bool t (fst r)) (rows iv)))))) ;;;
    SIf (fun en h => olet li := oarr en h "last_idx" in Some (negb (nilb li)))
      ( SIfNotNone "labels"
          (SAssign "labels" (EFresh (fun en h => olet k := first0 en h "last_idx" in olet ls := olist en h "labels" in
                                     Some (OList (firstn k ls))))) SSkip ;;;
        SAssign "intervals" (EView "intervals" (fun en h => olet k := first0 en h "last_idx" in Some (0, 2 * k))) )
      SSkip ;;;
    SAssign "intervals" (EFresh (fun en h => olet t := onum en "t_max" in olet iv := oarr en h "intervals" in Some (OArr (map (Qmin t) iv)))) ;;;
    SIf (fun en h => olet t := onum en "t_max" in olet iv := oarr en h "intervals" in olet mx := qmax_list iv in Some (qltb mx t))
      ( SAssign "intervals" (EFresh (fun en h => olet t := onum en "t_max" in olet iv := oarr en h "intervals" in olet mx := qmax_list iv in
                                     Some (OArr (iv ++ [mx; t])))) ;;;
        SIfNotNone "labels"
          (* labels.append(end_label) *)
          (SWrite "labels" (UObj (fun en h o => olet v := lookup en "end_label" in
                                  match o with OList xs => Some (OList (xs ++ [v])) | _ => None end))) SSkip )
      SSkip )
  SSkip.

(* `if labels is not None: labels = list(labels)`: the fix *)
Definition copy_labels : stmt := SIfNotNone "labels" (SAssign "labels" (EFresh (list_copy "labels"))) SSkip.

Definition ai_rest : stmt :=
  SIf (fun en h => olet a := is_none en "t_min" in olet b := is_none en "t_max" in olet iv := oarr en h "intervals" in
                   Some (negb a && negb b && nilb iv))
    ( (* return np.array([[t_min, t_max]]), [start_label] *)
      SAssign "r0" (EFresh (fun en h => olet a := onum en "t_min" in olet b := onum en "t_max" in Some (OArr [a; b]))) ;;;
      SAssign "r1" (EFresh (fun en h => olet v := lookup en "start_label" in Some (OList [v]))) ;;;
      SReturn ["r0"; "r1"] )
    ( SIf (fun en h => olet a := is_none en "t_min" in olet b := is_none en "t_max" in olet iv := oarr en h "intervals" in
                       Some ((a || b) && nilb iv))
        SRaise SSkip ) ;;;
  ai_min_block ;;; ai_max_block ;;;
  SReturn ["intervals"; "labels"].

Definition ai_body : stmt := copy_labels ;;; ai_rest.
Definition ai_body_old : stmt := ai_rest.
Definition adjust_intervals_def : fdef := mk_fdef ai_params None ai_body.
Definition adjust_intervals_old_def : fdef := mk_fdef ai_params None ai_body_old.

(* ------------------------------------------------------------------------------------------------ util.adjust_events *)
Definition ae_params : list var := ["events"; "labels"; "t_min"; "t_max"; "label_prefix"].
Definition s_T_MIN : str := [84; 95; 77; 73; 78].      (* "T_MIN" *)
Definition s_T_MAX : str := [84; 95; 77; 65; 88].      (* "T_MAX" *)

Definition ae_min_block : stmt :=
  SIfNotNone "t_min" (
    SAssign "first_idx" (EFresh (fun en h => olet t := onum en "t_min" in olet ev := oarr en h "events" in
                                 Some (OArr (map n2q (where_idx (fun e => Qle_bool t e) ev))))) ;;;
    SIf (fun en h => olet fi := oarr en h "first_idx" in Some (negb (nilb fi)))
      ( SIfNotNone "labels"
          (SAssign "labels" (EFresh (fun en h => olet k := first0 en h "first_idx" in olet ls := olist en h "labels" in
                                     Some (OList (skipn k ls))))) SSkip ;;;
        SAssign "events" (EView "events" (fun en h => olet k := first0 en h "first_idx" in olet ev := oarr en h "events" in
                                          Some (k, List.length ev - k))) )
      SSkip ;;;
    (* if events[0] > t_min:     (IndexError on an empty array) *)
    SIf (fun en h => olet t := onum en "t_min" in olet ev := oarr en h "events" in olet e0 := hd_error ev in Some (qltb t e0))
      ( SAssign "events" (EFresh (fun en h => olet t := onum en "t_min" in olet ev := oarr en h "events" in Some (OArr (t :: ev)))) ;;;
        SIfNotNone "labels"
          (SWrite "labels" (UObj (fun en h o => olet p := ostr en "label_prefix" in
                                  match o with OList xs => Some (OList (VScal (CStr (p ++ s_T_MIN)) :: xs)) | _ => None end))) SSkip )
      SSkip )
  SSkip.

Definition ae_max_block : stmt :=
  SIfNotNone "t_max" (
    SAssign "last_idx" (EFresh (fun en h => olet t := onum en "t_max" in olet ev := oarr en h "events" in
                                Some (OArr (map n2q (where_idx (fun e => qltb t e) ev))))) ;;;
    SIf (fun en h => olet li := oarr en h "last_idx" in Some (negb (nilb li)))
      ( SIfNotNone "labels"
          (SAssign "labels" (EFresh (fun en h => olet k := first0 en h "last_idx" in olet ls := olist en h "labels" in
                                     Some (OList (firstn k ls))))) SSkip ;;;
        SAssign "events" (EView "events" (fun en h => olet k := first0 en h "last_idx" in Some (0, k))) )
      SSkip ;;;
    (* if events[-1] < t_max: *)
    SIf (fun en h => olet t := onum en "t_max" in olet ev := oarr en h "events" in
                     match ev with [] => None | e0 :: _ => Some (qltb (last ev e0) t) end)
      ( SAssign "events" (EFresh (fun en h => olet t := onum en "t_max" in olet ev := oarr en h "events" in Some (OArr (ev ++ [t])))) ;;;
        SIfNotNone "labels"
          (SWrite "labels" (UObj (fun en h o => olet p := ostr en "label_prefix" in
                                  match o with OList xs => Some (OList (xs ++ [VScal (CStr (p ++ s_T_MAX))])) | _ => None end))) SSkip )
      SSkip )
  SSkip.

Definition ae_rest : stmt := ae_min_block ;;; ae_max_block ;;; SReturn ["events"; "labels"].
Definition ae_body : stmt := copy_labels ;;; ae_rest.
Definition ae_body_old : stmt := ae_rest.
Definition adjust_events_def : fdef := mk_fdef ae_params None ae_body.
Definition adjust_events_old_def : fdef := mk_fdef ae_params None ae_body_old.

(* ------------------------------------------------------------------------------------------------ melody.freq_to_voicing *)
Definition ftv_params : list var := ["frequencies"; "voicing"].
Fixpoint mask_zero (fr cells : list Q) : list Q :=
  match fr, cells with f :: ft, c :: ct => (if qeqb f 0 then 0%Q else c) :: mask_zero ft ct | _, _ => [] end.
(* voicing[frequencies == 0] = 0: the boolean index must have the length of the array, except that NumPy accepts an
   empty boolean index on any array *)
Definition ftv_store : upd :=
  UCells (fun en h cells => olet fr := oarr en h "frequencies" in
          if nilb fr then Some cells else if List.length fr =? List.length cells then Some (mask_zero fr cells) else None).
Definition ftv_tail : stmt :=
  SAssign "r0" (EFresh (fun en h => olet fr := oarr en h "frequencies" in Some (OArr (map Qabs fr)))) ;;;
  SReturn ["r0"; "voicing"].
Definition ftv_else : stmt :=
  (* voicing = (frequencies > 0).astype(float) *)
  SAssign "voicing" (EFresh (fun en h => olet fr := oarr en h "frequencies" in Some (OArr (map (fun f => b2q (qltb 0 f)) fr)))).
Definition ftv_body : stmt :=
  SIfNotNone "voicing"
    ( (* voicing = np.array(voicing, dtype=float): the fix *)
      SAssign "voicing" (EFresh (arr_copy "voicing")) ;;; SWrite "voicing" ftv_store )
    ftv_else ;;;
  ftv_tail.
Definition ftv_body_old : stmt := SIfNotNone "voicing" (SWrite "voicing" ftv_store) ftv_else ;;; ftv_tail.
Definition freq_to_voicing_def : fdef := mk_fdef ftv_params None ftv_body.
Definition freq_to_voicing_old_def : fdef := mk_fdef ftv_params None ftv_body_old.

(* ------------------------------------------------------------------------------------------------ melody.hz2cents *)
Definition hz2cents_def : fdef := mk_fdef ["freq_hz"; "base_frequency"] None (
  SAssign "freq_cent" (EFresh (opaque "freq_hz")) ;;;                            (* np.zeros(freq_hz.shape[0]) *)
  SAssign "freq_nonz_ind" (EFresh (opaque "freq_hz")) ;;;                        (* np.flatnonzero(freq_hz) *)
  SAssign "normalized_frequency" (EFresh (opaque "freq_hz")) ;;;                 (* np.abs(freq_hz[ind]) / base_frequency *)
  SWrite "freq_cent" (UCells (fun _ _ cells => Some cells)) ;;;                  (* freq_cent[freq_nonz_ind] = 1200 * np.log2(..) *)
  SReturn ["freq_cent"]).

(* ------------------------------------------------------------------------------------------------ melody.resample_melody_series *)
Definition rms_def : fdef := mk_fdef ["times"; "frequencies"; "voicing"; "times_new"; "kind"] None (
  SAssign "times" (EFresh (opaque "times")) ;;;                                  (* np.round(times, 10) *)
  SAssign "times_new" (EFresh (opaque "times_new")) ;;;
  SIf (fun en h => olet t := oarr en h "times" in olet tn := oarr en h "times_new" in
                   olet a := qmax_list tn in olet b := qmax_list t in Some (qltb b a))
    ( SAssign "times" (EFresh (opaque "times")) ;;;                              (* np.append(times, times_new.max()) *)
      SAssign "frequencies" (EFresh (opaque "frequencies")) ;;;                  (* np.append(frequencies, 0) *)
      SAssign "voicing" (EFresh (opaque "voicing")) )
    SSkip ;;;
  SIf (fun en _ => olet k := ostr en "kind" in Some (negb (seqb k [122; 101; 114; 111]) && negb (seqb k [110; 101; 97; 114; 101; 115; 116])))
    ( SAssign "frequencies_held" (EFresh (arr_copy "frequencies")) ;;;           (* np.array(frequencies) *)
      SLoop (fun en h => olet fr := oarr en h "frequencies" in Some (List.length fr - 1))
        (SIf (fun _ _ => Some true)
           (SWrite "frequencies_held" (UCells (fun _ _ cells => Some cells)))    (* frequencies_held[n + 1] = frequencies_held[n] *)
           SSkip) ;;;
      SAssign "frequencies_resampled" (EFresh (opaque "times_new")) ;;;          (* interp1d(...)(times_new) *)
      SAssign "frequency_mask" (EFresh (opaque "times_new")) ;;;
      SWrite "frequencies_resampled" (UCells (fun _ _ cells => Some cells)) )    (* frequencies_resampled *= frequency_mask != 0 *)
    ( SAssign "frequencies_resampled" (EFresh (opaque "times_new")) ) ;;;
  SAssign "voicing_resampled" (EFresh (opaque "times_new")) ;;;
  SReturn ["frequencies_resampled"; "voicing_resampled"]).

(* ------------------------------------------------------------------------------------------------ melody.to_cent_voicing *)
Definition tcv_params : list var :=
  ["ref_time"; "ref_freq"; "est_time"; "est_freq"; "est_voicing"; "ref_reward"; "base_frequency"; "hop"; "kind"].
Definition first_positive (x : var) : env -> heap -> option bool :=
  fun en h => olet t := oarr en h x in olet t0 := hd_error t in Some (qltb 0 t0).
(* np.insert(x, 0, x[0]) *)
Definition insert_first (x : var) : expr := EFresh (fun en h => olet a := oarr en h x in olet a0 := hd_error a in Some (OArr (a0 :: a))).
Definition tcv_body (ftv : fname) : stmt :=
  SIf (first_positive "ref_time")
    ( SAssign "ref_time" (EFresh (fun en h => olet a := oarr en h "ref_time" in Some (OArr (0%Q :: a)))) ;;;
      SAssign "ref_freq" (insert_first "ref_freq") ;;;
      SIfNotNone "ref_reward" (SAssign "ref_reward" (insert_first "ref_reward")) SSkip )
    SSkip ;;;
  SIf (first_positive "est_time")
    ( SAssign "est_time" (EFresh (fun en h => olet a := oarr en h "est_time" in Some (OArr (0%Q :: a)))) ;;;
      SAssign "est_freq" (insert_first "est_freq") ;;;
      SIfNotNone "est_voicing" (SAssign "est_voicing" (insert_first "est_voicing")) SSkip )
    SSkip ;;;
  SCall ["ref_freq"; "ref_voicing"] ftv ["ref_freq"; "ref_reward"] None ;;;
  SCall ["est_freq"; "est_voicing"] ftv ["est_freq"; "est_voicing"] None ;;;
  SCall ["ref_cent"] "hz2cents" ["ref_freq"; "base_frequency"] None ;;;
  SCall ["est_cent"] "hz2cents" ["est_freq"; "base_frequency"] None ;;;
  SIfNotNone "hop"
    ( SAssign "tb" (EFresh (opaque "ref_time")) ;;;                              (* constant_hop_timebase(hop, ref_time.max()) *)
      SCall ["ref_cent"; "ref_voicing"] "resample_melody_series" ["ref_time"; "ref_cent"; "ref_voicing"; "tb"; "kind"] None ;;;
      SAssign "tb" (EFresh (opaque "est_time")) ;;;
      SCall ["est_cent"; "est_voicing"] "resample_melody_series" ["est_time"; "est_cent"; "est_voicing"; "tb"; "kind"] None )
    ( SCall ["est_cent"; "est_voicing"] "resample_melody_series" ["est_time"; "est_cent"; "est_voicing"; "ref_time"; "kind"] None ) ;;;
  SIf (fun en h => olet r := oarr en h "ref_cent" in olet e := oarr en h "est_cent" in Some (List.length e <=? List.length r))
    ( SAssign "est_cent" (EFresh (opaque "est_cent")) ;;;                        (* np.append(est_cent, np.zeros(len_diff)) *)
      SAssign "est_voicing" (EFresh (opaque "est_voicing")) )
    ( SAssign "est_cent" (EView "est_cent" (fun en h => olet r := oarr en h "ref_cent" in Some (0, List.length r))) ;;;
      SAssign "est_voicing" (EView "est_voicing" (fun en h => olet r := oarr en h "ref_voicing" in Some (0, List.length r))) ) ;;;
  SReturn ["ref_voicing"; "ref_cent"; "est_voicing"; "est_cent"].
Definition to_cent_voicing_def : fdef := mk_fdef tcv_params None (tcv_body "freq_to_voicing").

(* ------------------------------------------------------------------------------------------------ an evaluate() *)
(* segment.evaluate: adjust both annotations, force kwargs['window'], call a metric with **kwargs, store into scores *)
Definition s_window : str := [119; 105; 110; 100; 111; 119].
Definition set_key (k : str) (v : val) : upd :=
  UObj (fun _ _ o => match o with
                     | ODict kvs => Some (ODict (filter (fun kv => negb (seqb (fst kv) k)) kvs ++ [(k, v)]))
                     | _ => None end).
Definition detection_def : fdef := mk_fdef ["reference_intervals"; "estimated_intervals"] (Some "kwargs") (
  SAssign "reference_boundaries" (EFresh (opaque "reference_intervals")) ;;;     (* util.intervals_to_boundaries *)
  SAssign "estimated_boundaries" (EFresh (opaque "estimated_intervals")) ;;;
  SAssign "precision" (EConst (fun _ _ => Some (CNum 0))) ;;;
  SReturn ["precision"; "precision"; "precision"]).
Definition evaluate_def : fdef := mk_fdef ["ref_intervals"; "ref_labels"; "est_intervals"; "est_labels"] (Some "kwargs") (
  SAssign "zero" (EConst (fun _ _ => Some (CNum 0))) ;;;
  SAssign "none" ENone ;;;
  SAssign "tmin_label" (EConst (fun _ _ => Some (CStr [95; 95; 84; 95; 77; 73; 78]))) ;;;
  SAssign "tmax_label" (EConst (fun _ _ => Some (CStr [95; 95; 84; 95; 77; 65; 88]))) ;;;
  SCall ["ref_intervals"; "ref_labels"] "adjust_intervals" ["ref_intervals"; "ref_labels"; "zero"; "none"; "tmin_label"; "tmax_label"] None ;;;
  SAssign "ref_max" (EConst (fun en h => olet iv := oarr en h "ref_intervals" in olet m := qmax_list iv in Some (CNum m))) ;;;
  SCall ["est_intervals"; "est_labels"] "adjust_intervals" ["est_intervals"; "est_labels"; "zero"; "ref_max"; "tmin_label"; "tmax_label"] None ;;;
  SAssign "scores" (EFresh (fun _ _ => Some (ODict []))) ;;;
  SWrite "kwargs" (set_key s_window (VScal (CNum (1#2)))) ;;;                    (* kwargs['window'] = 0.5 *)
  SCall ["p"; "r"; "f"] "detection" ["ref_intervals"; "est_intervals"] (Some "kwargs") ;;;
  SWrite "scores" (UObj (fun en _ o => olet p := lookup en "p" in match o with ODict kvs => Some (ODict (kvs ++ [([80], p)])) | _ => None end)) ;;;
  SWrite "kwargs" (set_key s_window (VScal (CNum (3#1)))) ;;;                    (* kwargs['window'] = 3.0 *)
  SCall ["p"; "r"; "f"] "detection" ["ref_intervals"; "est_intervals"] (Some "kwargs") ;;;
  SWrite "scores" (UObj (fun en _ o => olet p := lookup en "p" in match o with ODict kvs => Some (ODict (kvs ++ [([81], p)])) | _ => None end)) ;;;
  SReturn ["scores"]).

(* ------------------------------------------------------------------------------------------------ programs *)
Definition helpers_prog : prog :=
  [ ("adjust_intervals", adjust_intervals_def); ("adjust_events", adjust_events_def);
    ("freq_to_voicing", freq_to_voicing_def); ("hz2cents", hz2cents_def); ("resample_melody_series", rms_def);
    ("to_cent_voicing", to_cent_voicing_def); ("detection", detection_def); ("evaluate", evaluate_def) ].
(* the library before the fixes: to_cent_voicing reaches the caller's est_voicing / ref_reward through freq_to_voicing *)
Definition helpers_prog_old : prog :=
  [ ("adjust_intervals", adjust_intervals_old_def); ("adjust_events", adjust_events_old_def);
    ("freq_to_voicing", freq_to_voicing_old_def); ("hz2cents", hz2cents_def); ("resample_melody_series", rms_def);
    ("to_cent_voicing", to_cent_voicing_def); ("detection", detection_def); ("evaluate", evaluate_def) ].

Definition FUEL : nat := 200.

(* ------------------------------------------------------------------------------------------------ harness interface *)
(* a caller's heap built from argument contents; what the caller sees afterwards *)
Inductive arg := ANone | ANum (q : Q) | AStr (s : str) | AArr (qs : list Q) | AStrs (ls : list str).
Definition arg_obj (a : arg) : option obj :=
  match a with AArr qs => Some (OArr qs) | AStrs ls => Some (OList (map (fun s => VScal (CStr s)) ls)) | _ => None end.
Fixpoint place (args : list arg) (h : heap) : list val * heap :=
  match args with
  | [] => ([], h)
  | a :: t =>
      match arg_obj a with
      | Some o => let '(vs, h') := place t (h ++ [o]) in (VRef (List.length h) :: vs, h')
      | None => let '(vs, h') := place t h in
                ((match a with ANum q => VScal (CNum q) | AStr s => VScal (CStr s) | _ => VNone end) :: vs, h')
      end
  end.
Definition read_strs (h : heap) (v : val) : option (list str) :=
  olet xs := read_list h v in
  fold_right (fun x acc => match x, acc with VScal (CStr s), Some r => Some (s :: r) | _, _ => None end) (Some []) xs.
(* the argument as the caller sees it after the call *)
Definition arg_after (h : heap) (a : arg) (v : val) : option arg :=
  match a with
  | AArr _ => olet qs := read_arr h v in Some (AArr qs)
  | AStrs _ => olet ls := read_strs h v in Some (AStrs ls)
  | _ => Some a
  end.
Definition args_after (h : heap) (args : list arg) (vs : list val) : list (option arg) :=
  map (fun av => arg_after h (fst av) (snd av)) (combine args vs).

Definition qlist_eqb (a b : list Q) : bool :=
  (List.length a =? List.length b) && forallb (fun p => Qeq_bool (fst p) (snd p)) (combine a b).
Definition strs_eqb (a b : list str) : bool :=
  (List.length a =? List.length b) && forallb (fun p => seqb (fst p) (snd p)) (combine a b).
Definition arg_eqb (a b : arg) : bool :=
  match a, b with
  | ANone, ANone => true
  | ANum x, ANum y => Qeq_bool x y
  | AStr x, AStr y => seqb x y
  | AArr x, AArr y => qlist_eqb x y
  | AStrs x, AStrs y => strs_eqb x y
  | _, _ => false
  end.
Definition oarg_eqb (a : option arg) (b : arg) : bool := match a with Some x => arg_eqb x b | None => false end.

(* a returned value as content: array, list of strings, or None *)
Definition ret_content (h : heap) (v : val) : option arg :=
  match v with
  | VNone => Some ANone
  | VScal (CNum q) => Some (ANum q)
  | VScal (CStr s) => Some (AStr s)
  | _ => match read_arr h v with
         | Some qs => Some (AArr qs)
         | None => olet ls := read_strs h v in Some (AStrs ls)
         end
  end.

(* observation of one call: (arguments afterwards, None = raised | Some returned contents) *)
Definition observe (P : prog) (d : fdef) (args : list arg) : option (list (option arg) * option (list (option arg))) :=
  let '(vs, h0) := place args [] in
  match invoke P FUEL d vs [] h0 with
  | OReturn rs h' => Some (args_after h' args vs, Some (map (ret_content h') rs))
  | ONormal _ h' => Some (args_after h' args vs, Some [])
  | ORaise h' => Some (args_after h' args vs, None)
  | OFuel => None
  end.

(* recorded: arguments after the call, raised?, returned contents (compared when `cmp_ret`) *)
Definition agrees (cmp_ret : bool) (obs : option (list (option arg) * option (list (option arg))))
                  (after : list arg) (raised : bool) (rets : list arg) : bool :=
  match obs with
  | None => false
  | Some (aft, r) =>
      (List.length aft =? List.length after) && forallb (fun p => oarg_eqb (fst p) (snd p)) (combine aft after) &&
      match r with
      | None => raised
      | Some rs => negb raised && (negb cmp_ret || ((List.length rs =? List.length rets) && forallb (fun p => oarg_eqb (fst p) (snd p)) (combine rs rets)))
      end
  end.
