(* The hit-based event metrics over exact rationals:
     beat.f_measure, onset.f_measure, segment.detection, segment.deviation
   (+ util.validate_events, util.validate_intervals, util.intervals_to_boundaries, beat.trim_beats).
   The hit count is the length of Model.Events.match_events (maximum matching by the transcription of
   util._bipartite_match); `None` = matching fuel exhausted (never observed). Definitions only.

   Conventions.
   * Arrays are lists; an (n,2) interval array is a list of pairs (so the `ndim` checks of the validators, which
     cannot fail on a well-shaped array, are not modelled).
   * The functions `*_b`/un-suffixed `beat_f_measure`, `onset_f_measure` are the computations AFTER validation;
     the `*_v` versions prepend the validators (every validator failure is a ValueError; warnings are not modelled).
   * util.intervals_to_boundaries = np.unique(np.ravel(np.round(intervals, 5))).  `round_dec 5` below is np.round
     in exact arithmetic (x*10^5, round-half-to-even, /10^5); on dyadic inputs with at most 5 binary places
     (the 1/32 lattice of the correspondence unit) it is the identity (Example round_dec_lattice).
     np.unique = sort + remove duplicates is modelled exactly by `sort_unique`. *)
From Coq Require Import List Bool Arith ZArith QArith Qabs Qminmax Qround.
From ME Require Import Model.Prelude Model.Dict Model.Matching Model.Events.
Import ListNotations.

(* ---------- hit count ---------- *)
Definition nhits (ref est : list Q) (w : Q) : option nat := option_map (@length _) (match_events ref est w).
Definition qnat (n : nat) : Q := inject_Z (Z.of_nat n).
(* precision = float(len(matching))/len(est), recall = float(len(matching))/len(ref), util.f_measure(p, r, beta) *)
Definition prf (h nref nest : nat) (beta : Q) : Q * Q * Q :=
  let p := qnat h / qnat nest in let r := qnat h / qnat nref in (p, r, f_measure p r beta).
Definition is_empty {A} (l : list A) : bool := match l with [] => true | _ => false end.

(* ---------- validators ---------- *)
Definition MAX_TIME : Q := 30000.
(* (np.diff(events) < 0).any() is false *)
Definition nondecreasing (l : list Q) : bool := forallb (fun ab => negb (qltb (snd ab) (fst ab))) (combine l (tl l)).
Definition validate_events (max_time : Q) (l : list Q) : res unit :=
  if existsb (fun x => qltb max_time x) l then Raise ValueError
  else if negb (nondecreasing l) then Raise ValueError else Ok tt.
Definition validate_intervals (ivs : list (Q * Q)) : res unit :=
  if existsb (fun iv => qltb (fst iv) 0 || qltb (snd iv) 0) ivs then Raise ValueError
  else if existsb (fun iv => qleb (snd iv) (fst iv)) ivs then Raise ValueError else Ok tt.
(* beat.trim_beats *)
Definition trim_beats (min_beat_time : Q) (l : list Q) : list Q := filter (fun x => qleb min_beat_time x) l.

(* ---------- beat.f_measure / onset.f_measure (after validation) ---------- *)
Definition beat_f_measure (ref est : list Q) (w : Q) : option Q :=
  if is_empty est || is_empty ref then Some 0
  else option_map (fun h => snd (prf h (length ref) (length est) 1)) (nhits ref est w).
(* returns (F, P, R) *)
Definition onset_f_measure (ref est : list Q) (w : Q) : option (Q * Q * Q) :=
  if is_empty ref || is_empty est then Some (0, 0, 0)
  else option_map (fun h => let '(p, r, f) := prf h (length ref) (length est) 1 in (f, p, r)) (nhits ref est w).
Definition beat_f_measure_v (ref est : list Q) (w : Q) : res (option Q) :=
  _ <- validate_events MAX_TIME ref ;; _ <- validate_events MAX_TIME est ;; Ok (beat_f_measure ref est w).
Definition onset_f_measure_v (ref est : list Q) (w : Q) : res (option (Q * Q * Q)) :=
  _ <- validate_events MAX_TIME ref ;; _ <- validate_events MAX_TIME est ;; Ok (onset_f_measure ref est w).

(* ---------- util.intervals_to_boundaries ---------- *)
Definition round_half_even (y : Q) : Z :=
  let f := Qfloor y in let d := y - inject_Z f in
  if qltb d (1#2) then f else if qltb (1#2) d then (f + 1)%Z else if Z.even f then f else (f + 1)%Z.
Definition round_dec (k : nat) (x : Q) : Q :=
  let s := inject_Z (10 ^ Z.of_nat k) in inject_Z (round_half_even (x * s)) / s.
Fixpoint ins_uniq (x : Q) (l : list Q) : list Q :=
  match l with
  | [] => [x]
  | y :: t => if qltb x y then x :: l else if qeqb x y then l else y :: ins_uniq x t
  end.
Definition sort_unique (l : list Q) : list Q := fold_left (fun acc x => ins_uniq x acc) l [].
Definition flat (ivs : list (Q * Q)) : list Q := flat_map (fun iv => [fst iv; snd iv]) ivs.
Definition intervals_to_boundaries (ivs : list (Q * Q)) : list Q := sort_unique (map (round_dec 5) (flat ivs)).
(* b[1:-1] *)
Definition trim_ends (l : list Q) : list Q := removelast (tl l).
Definition trimmed (trim : bool) (l : list Q) : list Q := if trim then trim_ends l else l.

(* ---------- segment.detection: returns (P, R, F) ---------- *)
Definition detection_b (rb eb : list Q) (w beta : Q) (trim : bool) : option (Q * Q * Q) :=
  let rb := trimmed trim rb in let eb := trimmed trim eb in
  if is_empty rb || is_empty eb then Some (0, 0, 0)
  else option_map (fun h => prf h (length rb) (length eb) beta) (nhits rb eb w).
Definition validate_boundary (ref est : list (Q * Q)) : res unit :=
  _ <- validate_intervals ref ;; validate_intervals est.
Definition detection (ref est : list (Q * Q)) (w beta : Q) (trim : bool) : res (option (Q * Q * Q)) :=
  _ <- validate_boundary ref est ;;
  Ok (detection_b (intervals_to_boundaries ref) (intervals_to_boundaries est) w beta trim).

(* ---------- segment.deviation: (reference_to_estimated, estimated_to_reference) ---------- *)
Fixpoint qins (x : Q) (l : list Q) : list Q :=
  match l with [] => [x] | y :: t => if qltb x y then x :: l else y :: qins x t end.
Definition qsort (l : list Q) : list Q := fold_left (fun acc x => qins x acc) l [].
(* np.median: NaN on an empty array, the middle element / the mean of the two middle elements otherwise *)
Definition median_ne (l : list Q) : Q :=
  let s := qsort l in let n := length s in
  if Nat.even n then (nth (n / 2 - 1) s 0 + nth (n / 2) s 0) / 2 else nth (n / 2) s 0.
Definition median (l : list Q) : xval := match l with [] => NaN | _ => Fin (median_ne l) end.
(* minimum of f over the non-empty list y0 :: yt *)
Definition min_over (f : Q -> Q) (y0 : Q) (yt : list Q) : Q := fold_left Qmin (map f yt) (f y0).
(* dist[i][j] = |ref_i - est_j| ; dist.min(axis=1) = row minima (per reference), dist.min(axis=0) = column minima *)
Definition deviation_b (rb eb : list Q) (trim : bool) : xval * xval :=
  match trimmed trim rb, trimmed trim eb with
  | r0 :: rt, e0 :: et =>
      let rows := map (fun r => min_over (fun e => Qabs (r - e)) e0 et) (r0 :: rt) in
      let cols := map (fun e => min_over (fun r => Qabs (r - e)) r0 rt) (e0 :: et) in
      (median rows, median cols)
  | _, _ => (NaN, NaN)
  end.
Definition deviation (ref est : list (Q * Q)) (trim : bool) : res (xval * xval) :=
  _ <- validate_boundary ref est ;;
  Ok (deviation_b (intervals_to_boundaries ref) (intervals_to_boundaries est) trim).

Example round_dec_lattice :
  forallb (fun x => qeqb (round_dec 5 x) x) [0; 1#32; 3#32; 5#2; 12345#32; 29999 + (31#32); 1#4; 7#8] = true.
Proof. vm_compute. reflexivity. Qed.
Example round_dec_half_even : (* 1/64 = 0.015625 -> 0.01562 ; 3/64 = 0.046875 -> 0.04688 *)
  qeqb (round_dec 5 (1#64)) (1562#100000) && qeqb (round_dec 5 (3#64)) (4688#100000) = true.
Proof. vm_compute. reflexivity. Qed.
