(* C15, layer 2: an explicit-heap object language for the write-relevant skeleton of Python/NumPy code, and the
   abstract interpretation of translator/writesites.py over the same language. Definitions only.

   A value model cannot see mutation. Here objects live in a store, names are bound to REFERENCES, and every
   expression is classified by what it does to object identity:
     EFresh     allocates a new object (literal, list(x), np.array(x), arithmetic, np.insert, np.vstack, slicing of a
                LIST x[i:], concatenation, .copy(), .astype(...))
     EAlias x   the same object (plain name, np.asarray(x), x.reshape(..))
     EView x    a basic slice of an ARRAY: a new array header over the SAME storage (location of x, offset, length)
     EElem x    the reference stored inside a container (x[i] of a list, for e in x, d[k])
     ENone / EConst   immutable None / number / string / bool
   and `SWrite x upd` writes THROUGH the reference held by x (x[mask] = v, x[k] = v, x op= v, x.append/insert/...).
   Content computations are shallow (Gallina functions of the current state), identity is deep (constructors):
   the abstract interpretation looks only at the constructors, so it is the translator's analysis.

   Parameters are ordinary names bound in the initial environment (origin {Param p} in the initial abstract
   environment, exactly as writesites.analyse does); `EParam p` is `EAlias p`.
   Calls are to functions of a program table (`SCall`, a statement because mir_eval's helpers return tuples);
   a callee with a `**kwargs` parameter receives a dict allocated by the call (CPython builds a new dict per call). *)
From Coq Require Import List String Bool Arith QArith.
From ME Require Import Model.Prelude.
Import ListNotations.
Open Scope string_scope.
Open Scope list_scope.
Open Scope nat_scope.

Definition loc := nat.
Definition var := string.
Definition fname := string.

Inductive scalar := CNum (q : Q) | CStr (s : str) | CBool (b : bool).
Inductive val :=
| VNone
| VScal (c : scalar)
| VRef (l : loc)                          (* reference to the object at l *)
| VView (l : loc) (start len : nat).      (* NumPy view: cells [start, start+len) of the array object at l *)
Inductive obj := OList (xs : list val) | OArr (xs : list Q) | ODict (kvs : list (str * val)).

(* The store is a finite map loc -> obj: position = location; objects are never freed (garbage is unobservable). *)
Definition heap := list obj.
Definition next_loc (h : heap) : loc := List.length h.
Definition hget (h : heap) (l : loc) : option obj := nth_error h l.
Definition halloc (h : heap) (o : obj) : loc * heap := (List.length h, h ++ [o]).
Fixpoint hset (h : heap) (l : loc) (o : obj) : heap :=
  match h, l with
  | [], _ => []
  | _ :: t, O => o :: t
  | x :: t, S l' => x :: hset t l' o
  end.

Definition env := list (var * val).
Fixpoint lookup (e : env) (x : var) : option val :=
  match e with [] => None | (y, v) :: t => if String.eqb y x then Some v else lookup t x end.
Definition ebind (x : var) (v : val) (e : env) : env := (x, v) :: e.
Fixpoint lookup_all (e : env) (xs : list var) : option (list val) :=
  match xs with
  | [] => Some []
  | x :: t => match lookup e x, lookup_all e t with Some v, Some vs => Some (v :: vs) | _, _ => None end
  end.
Fixpoint ebind_all (xs : list var) (vs : list val) (e : env) : option env :=
  match xs, vs with
  | [], [] => Some e
  | x :: xt, v :: vt => ebind_all xt vt (ebind x v e)
  | _, _ => None
  end.

(* the storage a value refers to *)
Definition vloc (v : val) : option loc := match v with VRef l | VView l _ _ => Some l | _ => None end.

(* ------------------------------------------------------------------------------------------------ syntax *)
Inductive expr :=
| ENone
| EConst (f : env -> heap -> option scalar)
| EFresh (f : env -> heap -> option obj)
| EAlias (x : var)
| EView (x : var) (f : env -> heap -> option (nat * nat))      (* (offset, length) relative to x *)
| EElem (x : var) (i : env -> heap -> option nat).
Definition EParam (p : var) : expr := EAlias p.

Inductive upd :=
| UObj (f : env -> heap -> obj -> option obj)               (* x.append(v), x.insert(i, v), x[k] = v on a list / dict, x.sort() ... *)
| UCells (f : env -> heap -> list Q -> option (list Q)).    (* x[mask] = v, x[i] = v, x op= v on an array or a view of one *)

Inductive stmt :=
| SSkip
| SAssign (x : var) (e : expr)
| SWrite (x : var) (u : upd)
| SIf (c : env -> heap -> option bool) (s1 s2 : stmt)
| SIfNotNone (x : var) (s1 s2 : stmt)                      (* if x is not None: s1 else: s2 *)
| SSeq (s1 s2 : stmt)
| SLoop (cnt : env -> heap -> option nat) (body : stmt)    (* for _ in range(cnt): body *)
| SCall (xs : list var) (f : fname) (args : list var) (kw : option var)     (* xs = f( *args, **kw ) *)
| SReturn (xs : list var)
| SRaise.

Record fdef := mk_fdef { f_params : list var; f_kwargs : option var; f_body : stmt }.
Definition prog := list (fname * fdef).
Fixpoint lookup_fn (P : prog) (f : fname) : option fdef :=
  match P with [] => None | (g, d) :: t => if String.eqb g f then Some d else lookup_fn t f end.

(* ------------------------------------------------------------------------------------------------ semantics *)
(* Every place where the Python would raise (unbound name, failing shallow operation, write through None) is an
   explicit ORaise carrying the heap: an exception does not undo writes already made. *)
Inductive outcome :=
| ONormal (e : env) (h : heap)
| OReturn (vs : list val) (h : heap)
| ORaise (h : heap)
| OFuel.
Definition out_heap (o : outcome) : option heap :=
  match o with ONormal _ h | OReturn _ h | ORaise h => Some h | OFuel => None end.

Definition eval_expr (e : expr) (en : env) (h : heap) : option (val * heap) :=
  match e with
  | ENone => Some (VNone, h)
  | EConst f => match f en h with Some c => Some (VScal c, h) | None => None end
  | EFresh f => match f en h with Some o => Some (VRef (List.length h), h ++ [o]) | None => None end
  | EAlias x => match lookup en x with Some v => Some (v, h) | None => None end
  | EView x f =>
      match lookup en x, f en h with
      | Some (VRef l), Some (s, n) => Some (VView l s n, h)
      | Some (VView l s0 _), Some (s, n) => Some (VView l (s0 + s) n, h)
      | _, _ => None
      end
  | EElem x i =>
      match lookup en x, i en h with
      | Some (VRef l), Some k =>
          match hget h l with
          | Some (OList xs) => match nth_error xs k with Some v => Some (v, h) | None => None end
          | Some (ODict kvs) => match nth_error kvs k with Some kv => Some (snd kv, h) | None => None end
          | Some (OArr qs) => match nth_error qs k with Some q => Some (VScal (CNum q), h) | None => None end
          | None => None
          end
      | Some (VView l s n), Some k =>
          match hget h l with
          | Some (OArr qs) => if k <? n then match nth_error qs (s + k) with Some q => Some (VScal (CNum q), h) | None => None end else None
          | _ => None
          end
      | _, _ => None
      end
  end.

(* the write goes to the object at the location held by x; nothing else changes *)
Definition do_write (u : upd) (en : env) (h : heap) (v : val) : option heap :=
  match v, u with
  | VRef l, UObj f =>
      match hget h l with
      | Some o => match f en h o with Some o' => Some (hset h l o') | None => None end
      | None => None
      end
  | VRef l, UCells f =>
      match hget h l with
      | Some (OArr qs) =>
          match f en h qs with
          | Some qs' => if List.length qs' =? List.length qs then Some (hset h l (OArr qs')) else None
          | None => None
          end
      | _ => None
      end
  | VView l s n, UCells f =>
      match hget h l with
      | Some (OArr qs) =>
          if s + n <=? List.length qs then
            match f en h (firstn n (skipn s qs)) with
            | Some seg' => if List.length seg' =? n then Some (hset h l (OArr (firstn s qs ++ seg' ++ skipn (s + n) qs))) else None
            | None => None
            end
          else None
      | _ => None
      end
  | _, _ => None
  end.

Fixpoint iter (step : env -> heap -> outcome) (k : nat) (en : env) (h : heap) : outcome :=
  match k with
  | O => ONormal en h
  | S k' => match step en h with ONormal e' h' => iter step k' e' h' | o => o end
  end.

(* entering a call: positional binding, and a NEW dict for the callee's **kwargs *)
Definition enter (d : fdef) (vs : list val) (items : list (str * val)) (h : heap) : option (env * heap) :=
  if List.length vs =? List.length (f_params d) then
    match f_kwargs d with
    | None => Some (combine (f_params d) vs, h)
    | Some k => Some ((k, VRef (List.length h)) :: combine (f_params d) vs, h ++ [ODict items])
    end
  else None.
Definition kw_items (en : env) (h : heap) (kw : option var) : list (str * val) :=
  match kw with
  | None => []
  | Some k => match lookup en k with
              | Some (VRef l) => match hget h l with Some (ODict it) => it | _ => [] end
              | _ => []
              end
  end.
Definition finish_call (xs : list var) (en : env) (o : outcome) : outcome :=
  match o with
  | OReturn vs h2 => match ebind_all xs vs en with Some e' => ONormal e' h2 | None => ORaise h2 end
  | ONormal _ h2 => match xs with [] => ONormal en h2 | [x] => ONormal (ebind x VNone en) h2 | _ => ORaise h2 end
  | ORaise h2 => ORaise h2
  | OFuel => OFuel
  end.

Section Exec.
Variable P : prog.
(* fuel bounds the depth of the derivation (statement nesting + call depth); OFuel = not enough fuel *)
Fixpoint exec (fuel : nat) (s : stmt) (en : env) (h : heap) : outcome :=
  match fuel with
  | O => OFuel
  | S n =>
    match s with
    | SSkip => ONormal en h
    | SAssign x e => match eval_expr e en h with Some (v, h') => ONormal (ebind x v en) h' | None => ORaise h end
    | SWrite x u =>
        match lookup en x with
        | Some v => match do_write u en h v with Some h' => ONormal en h' | None => ORaise h end
        | None => ORaise h
        end
    | SIf c s1 s2 =>
        match c en h with Some true => exec n s1 en h | Some false => exec n s2 en h | None => ORaise h end
    | SIfNotNone x s1 s2 =>
        match lookup en x with Some VNone => exec n s2 en h | Some _ => exec n s1 en h | None => ORaise h end
    | SSeq s1 s2 => match exec n s1 en h with ONormal e' h' => exec n s2 e' h' | o => o end
    | SLoop cnt body => match cnt en h with Some k => iter (exec n body) k en h | None => ORaise h end
    | SCall xs f args kw =>
        match lookup_fn P f, lookup_all en args with
        | Some d, Some vs =>
            match enter d vs (kw_items en h kw) h with
            | Some (cenv, h1) => finish_call xs en (exec n (f_body d) cenv h1)
            | None => ORaise h
            end
        | _, _ => ORaise h
        end
    | SReturn xs => match lookup_all en xs with Some vs => OReturn vs h | None => ORaise h end
    | SRaise => ORaise h
    end
  end.

(* a call from outside: argument values and keyword items, in the caller's heap h0 *)
Definition invoke (fuel : nat) (d : fdef) (vs : list val) (items : list (str * val)) (h0 : heap) : outcome :=
  match enter d vs items h0 with
  | Some (cenv, h1) => exec fuel (f_body d) cenv h1
  | None => ORaise h0
  end.
End Exec.

(* ------------------------------------------------------------------------------------------------ abstract interpretation *)
(* translator/writesites.py over this language: for each name the set of origins its value may share storage with *)
Inductive origin := Fresh | Kwargs | Param (p : var) | Global (n : string) | Unknown.
Definition origins := list origin.
Definition aenv := list (var * origins).
Definition origin_local (o : origin) : bool := match o with Fresh | Kwargs => true | _ => false end.
Definition local (os : origins) : bool := forallb origin_local os.
Definition is_fresh (o : origin) : bool := match o with Fresh => true | _ => false end.
Definition origin_eqb (a b : origin) : bool :=
  match a, b with
  | Fresh, Fresh | Kwargs, Kwargs | Unknown, Unknown => true
  | Param p, Param q => String.eqb p q
  | Global m, Global n => String.eqb m n
  | _, _ => false
  end.
(* origin sets are duplicate-free lists *)
Definition oadd (o : origin) (acc : origins) : origins := if existsb (origin_eqb o) acc then acc else o :: acc.
Definition ounion (a b : origins) : origins := fold_right oadd b a.

Fixpoint afind (a : aenv) (x : var) : option origins :=
  match a with [] => None | (y, o) :: t => if String.eqb y x then Some o else afind t x end.
(* a name the analysis has not seen: {Unknown} *)
Definition aget (a : aenv) (x : var) : origins := match afind a x with Some o => o | None => [Unknown] end.
Definition aset (a : aenv) (x : var) (o : origins) : aenv := (x, o) :: a.
Definition akeys (a : aenv) : list var := map fst a.
(* Fn.merge: union per name; a name bound on one side only also gets Unknown (that is aget on the other side) *)
Definition merge (a b : aenv) : aenv := map (fun k => (k, ounion (aget a k) (aget b k))) (akeys a ++ akeys b).
(* `if x is not None` / `if x is None`: on the branch where x is None it is an immutable fresh value *)
Definition refine_none (a : aenv) (x : var) : aenv := match afind a x with Some _ => aset a x [Fresh] | None => a end.

Definition aexpr (e : expr) (a : aenv) : origins :=
  match e with
  | ENone | EConst _ | EFresh _ => [Fresh]
  | EAlias x | EView x _ | EElem x _ => aget a x            (* Fn.org: Name; Subscript -> origins of the value *)
  end.
Definition aunion (a : aenv) (xs : list var) : origins := fold_right (fun x acc => ounion (aget a x) acc) [] xs.
(* a call: Fresh when the callee is known to return only fresh values, otherwise it may return any of its arguments *)
Definition acall (FS : list fname) (f : fname) (args : list var) (kw : option var) (a : aenv) : origins :=
  if existsb (String.eqb f) FS then [Fresh]
  else match aunion a (args ++ match kw with Some k => [k] | None => [] end) with [] => [Fresh] | o => o end.
Definition aset_all (a : aenv) (xs : list var) (o : origins) : aenv := fold_left (fun a x => aset a x o) xs a.

Section Abs.
Variable FS : list fname.            (* functions all of whose returned values are fresh (Fn.fresh_funcs) *)
Fixpoint astep (s : stmt) (a : aenv) : aenv :=
  match s with
  | SSkip | SWrite _ _ | SReturn _ | SRaise => a
  | SAssign x e => aset a x (aexpr e a)
  | SIf _ s1 s2 => merge (astep s1 a) (astep s2 a)
  | SIfNotNone x s1 s2 => merge (astep s1 a) (astep s2 (refine_none a x))
  | SSeq s1 s2 => astep s2 (astep s1 a)
  | SLoop _ b => let c1 := merge a (astep b a) in merge c1 (astep b c1)       (* the translator's two passes *)
  | SCall xs f args kw => aset_all a xs (acall FS f args kw a)
  end.
(* the write sites with the origins of their targets (what Gen/WriteSites.v lists) *)
Fixpoint asites (s : stmt) (a : aenv) : list (var * origins) :=
  match s with
  | SWrite x _ => [(x, aget a x)]
  | SIf _ s1 s2 => asites s1 a ++ asites s2 a
  | SIfNotNone x s1 s2 => asites s1 a ++ asites s2 (refine_none a x)
  | SSeq s1 s2 => asites s1 a ++ asites s2 (astep s1 a)
  | SLoop _ b => asites b (merge a (astep b a))                                (* recorded in the second pass *)
  | _ => []
  end.
(* origins of the returned values (Fn.returns) *)
Fixpoint aret (s : stmt) (a : aenv) : origins :=
  match s with
  | SReturn xs => aunion a xs
  | SIf _ s1 s2 => ounion (aret s1 a) (aret s2 a)
  | SIfNotNone x s1 s2 => ounion (aret s1 a) (aret s2 (refine_none a x))
  | SSeq s1 s2 => ounion (aret s1 a) (aret s2 (astep s1 a))
  | SLoop _ b => aret b (merge a (astep b a))
  | _ => []
  end.
(* b is no more local than a: every name local in b is local in a *)
Definition aleb_local (a b : aenv) : bool :=
  forallb (fun k => implb (local (aget b k)) (local (aget a k))) (akeys a ++ akeys b).
(* NOT done by the translator: the environment under which a loop body's sites are recorded must be a loop
   invariant (two passes are not always a fixpoint: Proofs/HeapSound.v two_pass_loop_unsound_refuted) *)
Fixpoint astable (s : stmt) (a : aenv) : bool :=
  match s with
  | SIf _ s1 s2 => astable s1 a && astable s2 a
  | SIfNotNone x s1 s2 => astable s1 a && astable s2 (refine_none a x)
  | SSeq s1 s2 => astable s1 a && astable s2 (astep s1 a)
  | SLoop _ b => let c1 := merge a (astep b a) in aleb_local (astep b c1) c1 && astable b c1
  | _ => true
  end.
Definition sites_local (s : stmt) (a : aenv) : bool := forallb (fun st => local (snd st)) (asites s a).
Definition writes_local_at (s : stmt) (a : aenv) : bool := sites_local s a && astable s a.
End Abs.

(* no reference is loaded out of a container (the Subscript rule "origins of the container" is not sound for
   shallow copies of nested containers: Proofs/HeapSound.v elem_rule_unsound_refuted) *)
Definition expr_elem_free (e : expr) : bool := match e with EElem _ _ => false | _ => true end.
Fixpoint elem_free (s : stmt) : bool :=
  match s with
  | SAssign _ e => expr_elem_free e
  | SIf _ s1 s2 | SIfNotNone _ s1 s2 | SSeq s1 s2 => elem_free s1 && elem_free s2
  | SLoop _ b => elem_free b
  | _ => true
  end.

(* writesites.analyse: parameters start as {Param p}, the **kwargs name as {Kwargs} *)
Definition init_aenv (d : fdef) : aenv :=
  match f_kwargs d with Some k => [(k, [Kwargs])] | None => [] end ++ map (fun p => (p, [Param p])) (f_params d).
Definition writes_local (FS : list fname) (d : fdef) : bool := writes_local_at FS (f_body d) (init_aenv d).

(* the returns-only-fresh summaries: S is consistent when every member's returned origins are {Fresh} under S itself *)
Definition returns_fresh (FS : list fname) (d : fdef) : bool :=
  forallb is_fresh (aret FS (f_body d) (init_aenv d)).
Definition summaries_ok (P : prog) (FS : list fname) : bool :=
  forallb (fun f => match lookup_fn P f with Some d => returns_fresh FS d | None => false end) FS.
(* the translator's iteration from the empty set (monotone, so every iterate is consistent) *)
Definition fresh_round (P : prog) (FS : list fname) : list fname :=
  map fst (filter (fun fd => match aret FS (f_body (snd fd)) (init_aenv (snd fd)) with [] => false | r => forallb is_fresh r end) P).
Fixpoint fresh_iter (P : prog) (k : nat) : list fname := match k with O => [] | S k' => fresh_round P (fresh_iter P k') end.
Definition fresh_funcs (P : prog) : list fname := fresh_iter P 4.

(* the whole program passes layer 1 *)
Definition prog_ok (P : prog) (FS : list fname) : bool :=
  summaries_ok P FS && forallb (fun fd => writes_local FS (snd fd) && elem_free (f_body (snd fd))) P.
