(* A small deep-embedded language for the *wrapper* metric functions: validate, handle empty inputs, call a
   matcher / helper, turn a hit count into precision / recall / F (transcription, transcription_velocity,
   onset, beat, segment.detection). Definitions only.

   translator/wrapfuncs.py maps the syntax of a body to a [wprog] (Gen/WrapFuncs.v) and copies the *signature*
   (parameter names in order, literal defaults) of every function that is called; what the body means is
   decided here; Proofs/WrapFuncsTie.v proves each program equal to the hand-written model with the callees
   instantiated by the model's own functions.

   Calls. A call site is kept as written: the positional arguments and the (name, value) keyword arguments.
   [bind_args] binds them to the callee's parameters exactly as Python does (positionals first, then keywords
   by name, then defaults; too many positionals, an unknown keyword, a parameter given twice, a missing
   required parameter make the program meaningless, [TBad]). The callee then receives one value per parameter,
   in the order of its signature, so that an argument that is no longer forwarded shows up as the default
   value in its place.
   Values of calls are bound once ([TCall] pushes the result; [WRes i] reads it), the rest of the body is pure
   and is flattened to a decision tree by substitution, as in Model/VecExp.v. *)
From Coq Require Import String.
From Coq Require Import List Bool Arith ZArith QArith Qround.
From ME Require Import Model.Prelude.
Import ListNotations.
Open Scope Q_scope.

Inductive wout (A : Type) := WOK (a : A) | WEXN (e : exn) | WFUEL | WUNM.
  (* WFUEL: the matcher ran out of fuel (the models' [None]); WUNM: outside the modelled fragment *)
Arguments WOK {A}. Arguments WEXN {A}. Arguments WFUEL {A}. Arguments WUNM {A}.
Definition wbind {A B} (r : wout A) (f : A -> wout B) : wout B :=
  match r with WOK a => f a | WEXN e => WEXN e | WFUEL => WFUEL | WUNM => WUNM end.

Inductive wcmp := WEq | WNe | WLt | WLe | WGt | WGe.
(* the functions that may be called (which Python function each denotes: [callee_names]) *)
Inductive extfn :=
| X_tr_validate | X_tr_validate_intervals | X_tr_match_notes | X_tr_match_note_onsets | X_tr_match_note_offsets
| X_tr_average_overlap_ratio
| X_tv_validate | X_tv_match_notes | X_tv_match_notes_tail
| X_util_f_measure | X_util_match_events | X_util_intervals_to_boundaries
| X_onset_validate | X_beat_validate | X_segment_validate_boundary
| X_mp_compute_accuracy | X_mp_compute_err_score
| X_chord_dhd | X_chord_overseg | X_chord_underseg
| X_util_validate_intervals
(* NumPy functions used as primitives (their signatures are fixed in the translator) *)
| X_np_round | X_np_ravel | X_np_unique | X_np_diff | X_np_abs | X_nd_flatten | X_np_allclose
| X_np_subtract_outer | X_nd_min | X_np_median
| X_chord_encode_many
(* third group (translator/wrapfuncs2.py): hierarchy.tmeasure / lmeasure / evaluate, the segment structure metrics *)
| X_hier_validate | X_hier_lca | X_hier_meet | X_hier_gauc | X_hier_round
| X_hier_bounds | X_hier_align | X_hier_fk_tmeasure | X_hier_fk_lmeasure
| X_seg_validate_structure | X_util_intervals_to_samples | X_util_index_labels
| X_seg_contingency | X_seg_ari_core | X_seg_mi_core | X_seg_ami_core | X_seg_nmi_core | X_seg_entropy | X_seg_nce
| X_np_equal_outer | X_np_logical_and | X_nd_invert | X_nd_sum | X_nd_astype_float | X_nd_dot | X_nd_T | X_nd_shape
| X_sp_entropy | X_np_log2 | X_np_sqrt | X_np_array_float.
Local Open Scope string_scope.
Definition callee_names : list (string * extfn) :=
  [("transcription.validate", X_tr_validate); ("transcription.validate_intervals", X_tr_validate_intervals);
   ("transcription.match_notes", X_tr_match_notes); ("transcription.match_note_onsets", X_tr_match_note_onsets);
   ("transcription.match_note_offsets", X_tr_match_note_offsets);
   ("transcription.average_overlap_ratio", X_tr_average_overlap_ratio);
   ("transcription_velocity.validate", X_tv_validate); ("transcription_velocity.match_notes", X_tv_match_notes);
   ("transcription_velocity.match_notes#tail", X_tv_match_notes_tail);
   ("util.f_measure", X_util_f_measure); ("util.match_events", X_util_match_events);
   ("util.intervals_to_boundaries", X_util_intervals_to_boundaries);
   ("onset.validate", X_onset_validate); ("beat.validate", X_beat_validate);
   ("segment.validate_boundary", X_segment_validate_boundary);
   ("multipitch.compute_accuracy", X_mp_compute_accuracy); ("multipitch.compute_err_score", X_mp_compute_err_score);
   ("chord.directional_hamming_distance", X_chord_dhd); ("chord.overseg", X_chord_overseg); ("chord.underseg", X_chord_underseg);
   ("util.validate_intervals", X_util_validate_intervals);
   ("np.round", X_np_round); ("np.ravel", X_np_ravel); ("np.unique", X_np_unique); ("np.diff", X_np_diff); ("np.abs", X_np_abs);
   ("ndarray.flatten", X_nd_flatten); ("np.allclose", X_np_allclose); ("np.subtract.outer", X_np_subtract_outer);
   ("ndarray.min", X_nd_min); ("np.median", X_np_median); ("chord.encode_many", X_chord_encode_many);
   (* third group *)
   ("hierarchy.validate_hier_intervals", X_hier_validate); ("hierarchy._lca", X_hier_lca); ("hierarchy._meet", X_hier_meet);
   ("hierarchy._gauc", X_hier_gauc); ("hierarchy._round", X_hier_round); ("hierarchy._hierarchy_bounds", X_hier_bounds);
   ("hierarchy._align_intervals", X_hier_align);
   ("util.filter_kwargs(hierarchy.tmeasure)", X_hier_fk_tmeasure); ("util.filter_kwargs(hierarchy.lmeasure)", X_hier_fk_lmeasure);
   ("segment.validate_structure", X_seg_validate_structure); ("util.intervals_to_samples", X_util_intervals_to_samples);
   ("util.index_labels", X_util_index_labels); ("segment._contingency_matrix", X_seg_contingency);
   ("segment._adjusted_rand_index", X_seg_ari_core); ("segment._mutual_info_score", X_seg_mi_core);
   ("segment._adjusted_mutual_info_score", X_seg_ami_core); ("segment._normalized_mutual_info_score", X_seg_nmi_core);
   ("segment._entropy", X_seg_entropy); ("segment.nce", X_seg_nce);
   ("np.equal.outer", X_np_equal_outer); ("np.logical_and", X_np_logical_and); ("ndarray.__invert__", X_nd_invert);
   ("ndarray.sum", X_nd_sum); ("ndarray.astype(float)", X_nd_astype_float); ("ndarray.dot", X_nd_dot); ("ndarray.T", X_nd_T);
   ("ndarray.shape", X_nd_shape); ("scipy.stats.entropy", X_sp_entropy); ("np.log2", X_np_log2); ("np.sqrt", X_np_sqrt);
   ("np.array(dtype=float)", X_np_array_float)].
Local Close Scope string_scope.

Inductive wexp :=
| WVar (x : string) | WArg (i : nat) | WRes (i : nat)     (* local; i-th parameter; value of the i-th call *)
| WInt (z : Z) | WFloat (q : Q) | WBool (b : bool) | WNoneE
| WLen (a : wexp) | WSize (a : wexp)                      (* len(a); a.size *)
| WPyFloat (a : wexp)                                     (* float(a) *)
| WDiv (a b : wexp)                                       (* a / b on Python numbers *)
| WCmp (op : wcmp) (a b : wexp)
| WOr (a b : wexp) | WAnd (a b : wexp) | WNot (a : wexp)  (* Python or / and / not *)
| WTrim (a : wexp)                                        (* a[1:-1] *)
| WInit (a : wexp) | WTail (a : wexp)                     (* a[:-1], a[1:] *)
| WSub (a b : wexp)                                       (* a - b on numbers (b may be a NumPy float: inf / nan) *)
| WMin (a b : wexp)                                       (* builtin min(a, b) = b if b < a else a *)
| WPairs (a b : wexp)                                     (* np.asarray(list(zip(a, b))) of two 1-d arrays: an (n,2) array *)
| WNan                                                    (* np.nan *)
| WColumn (a : wexp) (j : nat)                            (* a[:, j] of an (n,2) array, j = 0, 1 *)
| WNeAny (a b : wexp)                                     (* (a != b).any() on int vectors (b may be None) *)
| WEmptyList                                              (* [] (a Python list that will hold [start, end] pairs) *)
| WAppendPair (l a b : wexp)                              (* the list l after l.append([a, b]) *)
| WSetLastSnd (l a : wexp)                                (* the list l after l[-1][-1] = a *)
| WAsArray (a : wexp)                                     (* np.array(l) of a list of pairs *)
(* third group *)
| WIsNone (a : wexp)                                      (* a is None *)
| WPyInt (a : wexp)                                       (* int(a) *)
| WItem (a : wexp) (i : Z)                                (* a[i] on a tuple / list, i an integer literal *)
| WAdd (a b : wexp) | WMul (a b : wexp)                   (* a + b, a * b on numbers *)
| WMax (a b : wexp)                                       (* builtin max(a, b) = b if b > a else a *)
| WEmptyDict                                              (* collections.OrderedDict() *)
| WDictSet (d : wexp) (k : string) (v : wexp).            (* the dict d after d[k] = v, k a string literal *)

Inductive stmt :=
| SLet (x : string) (e : wexp)
| SCallLet (x : option string) (f : string) (pos : list wexp) (kws : list (string * wexp))   (* [x =] f(pos, kws) *)
| SCallLetN (xs : list string) (f : string) (pos : list wexp) (kws : list (string * wexp))    (* x1, ..., xk = f(pos, kws) *)
| SIf (c : wexp) (a b : list stmt)
| SReturn (es : list wexp)
| SRaise (e : exn)
(* for v1, ..., vk in zip(s1, ..., sk): body -- the body only rebinds the state variables [st]; it is given as a
   program of the parameters v1 .. vk, st1 .. stm that returns the new values of st1 .. stm *)
| SFor (vars : list string) (seqs : list wexp) (st : list string) (body : list stmt).
Definition sigt := list (string * option wexp).            (* parameters in order, with their literal defaults *)
Record wprog := { wp_params : list string; wp_body : list stmt }.

Inductive rtree :=
| TRet (es : list wexp) | TRaise (e : exn) | TNone | TBad
| TIf (c : wexp) (a b : rtree) | TSeq (e : wexp) (t : rtree)
| TCall (f : extfn) (args : list wexp) (t : rtree)        (* the result becomes the next [WRes] *)
| TCallN (k : nat) (f : extfn) (args : list wexp) (t : rtree)    (* the result is a k-tuple; its components become the next k [WRes] *)
| TFor (step : rtree) (seqs inits : list wexp) (t : rtree).      (* step reads row ++ state as [WRes]; the final state becomes the next [WRes] *)

(* ---- Python's binding of the arguments of a call to the parameters of the callee ---- *)
Fixpoint kw_lookup (p : string) (kws : list (string * wexp)) : option wexp :=
  match kws with [] => None | (k, a) :: t => if String.eqb p k then Some a else kw_lookup p t end.
Fixpoint mem_str (p : string) (l : list string) : bool :=
  match l with [] => false | k :: t => String.eqb p k || mem_str p t end.
Fixpoint nodup_str (l : list string) : bool :=
  match l with [] => true | k :: t => negb (mem_str k t) && nodup_str t end.
Fixpoint bind_params (ps : sigt) (pos : list wexp) (kws : list (string * wexp)) : option (list wexp) :=
  match ps with
  | [] => match pos with [] => Some [] | _ => None end                          (* too many positional arguments *)
  | (p, d) :: ps' =>
      match pos with
      | a :: pos' => match kw_lookup p kws with
                     | Some _ => None                                           (* multiple values for p *)
                     | None => option_map (cons a) (bind_params ps' pos' kws) end
      | [] => match kw_lookup p kws, d with
              | Some a, _ => option_map (cons a) (bind_params ps' [] kws)
              | None, Some dv => option_map (cons dv) (bind_params ps' [] kws)
              | None, None => None                                              (* missing required argument *)
              end
      end
  end.
Definition bind_args (ps : sigt) (pos : list wexp) (kws : list (string * wexp)) : option (list wexp) :=
  if forallb (fun kw => mem_str (fst kw) (map fst ps)) kws && nodup_str (map fst kws)   (* unexpected / repeated keyword *)
  then bind_params ps pos kws else None.
Fixpoint assoc {A} (x : string) (l : list (string * A)) : option A :=
  match l with [] => None | (y, a) :: t => if String.eqb x y then Some a else assoc x t end.

(* ---- flattening ---- *)
Definition env := list (string * wexp).
Fixpoint subst (en : env) (a : wexp) : wexp :=
  match a with
  | WVar x => match assoc x en with Some b => b | None => WVar x end
  | WLen a => WLen (subst en a)
  | WSize a => WSize (subst en a)
  | WPyFloat a => WPyFloat (subst en a)
  | WDiv a b => WDiv (subst en a) (subst en b)
  | WCmp op a b => WCmp op (subst en a) (subst en b)
  | WOr a b => WOr (subst en a) (subst en b)
  | WAnd a b => WAnd (subst en a) (subst en b)
  | WNot a => WNot (subst en a)
  | WTrim a => WTrim (subst en a)
  | WInit a => WInit (subst en a)
  | WTail a => WTail (subst en a)
  | WSub a b => WSub (subst en a) (subst en b)
  | WMin a b => WMin (subst en a) (subst en b)
  | WPairs a b => WPairs (subst en a) (subst en b)
  | WColumn a j => WColumn (subst en a) j
  | WNeAny a b => WNeAny (subst en a) (subst en b)
  | WAppendPair l a b => WAppendPair (subst en l) (subst en a) (subst en b)
  | WSetLastSnd l a => WSetLastSnd (subst en l) (subst en a)
  | WAsArray a => WAsArray (subst en a)
  | WArg _ | WRes _ | WInt _ | WFloat _ | WBool _ | WNoneE | WNan | WEmptyList => a
  | WIsNone a => WIsNone (subst en a)
  | WPyInt a => WPyInt (subst en a)
  | WItem a i => WItem (subst en a) i
  | WAdd a b => WAdd (subst en a) (subst en b)
  | WMul a b => WMul (subst en a) (subst en b)
  | WMax a b => WMax (subst en a) (subst en b)
  | WEmptyDict => WEmptyDict
  | WDictSet d k v => WDictSet (subst en d) k (subst en v)
  end.
Section Flat.
Variable sigs : list (string * sigt).          (* the signatures read from the source (Gen/WrapFuncs.v) *)
(* k: the rest of the body, given the environment and the number of calls made so far *)
Fixpoint flat_stmt (s : stmt) (k : env -> nat -> rtree) (en : env) (n : nat) : rtree :=
  match s with
  | SLet x e => let e' := subst en e in TSeq e' (k ((x, e') :: en) n)
  | SCallLet x f pos kws =>
      match assoc f sigs, assoc f callee_names with
      | Some ps, Some id =>
          match bind_args ps (map (subst en) pos) (map (fun kw => (fst kw, subst en (snd kw))) kws) with
          | Some args => TCall id args (k (match x with Some y => (y, WRes n) :: en | None => en end) (S n))
          | None => TBad end
      | _, _ => TBad
      end
  | SCallLetN xs f pos kws =>
      match assoc f sigs, assoc f callee_names with
      | Some ps, Some id =>
          match bind_args ps (map (subst en) pos) (map (fun kw => (fst kw, subst en (snd kw))) kws) with
          | Some args =>
              TCallN (length xs) id args
                     (k ((fix bindn (xs : list string) (i : nat) : env :=
                            match xs with [] => en | x :: t => (x, WRes i) :: bindn t (S i) end) xs n) (length xs + n)%nat)
          | None => TBad end
      | _, _ => TBad
      end
  | SIf c a b =>
      let fb := fix fb (l : list stmt) (k : env -> nat -> rtree) : env -> nat -> rtree :=
                  match l with [] => k | s :: t => flat_stmt s (fb t k) end in
      TIf (subst en c) (fb a k en n) (fb b k en n)
  | SReturn es => TRet (map (subst en) es)
  | SRaise e => TRaise e
  | SFor vars seqs st body =>
      let fb := fix fb (l : list stmt) (k : env -> nat -> rtree) : env -> nat -> rtree :=
                  match l with [] => k | s :: t => flat_stmt s (fb t k) end in
      let res_env := fix res_env (ps : list string) (i : nat) : env :=
                       match ps with [] => [] | p :: t => (p, WRes i) :: res_env t (S i) end in
      let step := fb body (fun en' _ => TRet (map (fun x => subst en' (WVar x)) st))
                     (res_env (vars ++ st) 0%nat) (length vars + length st)%nat in
      TFor step (map (subst en) seqs) (map (fun x => subst en (WVar x)) st)
           (k ((fix bindn (xs : list string) (i : nat) : env :=
                  match xs with [] => en | x :: t => (x, WRes i) :: bindn t (S i) end) st n) (length st + n)%nat)
  end.
Fixpoint flat_block (l : list stmt) (k : env -> nat -> rtree) : env -> nat -> rtree :=
  match l with [] => k | s :: t => flat_stmt s (flat_block t k) end.
Fixpoint arg_env (ps : list string) (i : nat) : env :=
  match ps with [] => [] | p :: t => (p, WArg i) :: arg_env t (S i) end.
Definition wp_tree (p : wprog) : rtree := flat_block (wp_body p) (fun _ _ => TNone) (arg_env (wp_params p) 0) 0%nat.
End Flat.

(* ---- values ---- *)
Inductive wval :=
| WNone | WB (b : bool) | WZ (z : Z) | WQ (q : Q) | WX (x : xval)      (* None, bool, int, float, float result that may be nan *)
| WIvs (l : list (Q * Q))            (* an (n,2) array of intervals *)
| WPs (l : list (Q * Q))             (* pitches: (Hz, np.log2 Hz) as in Model/Transcription.v *)
| WQs (l : list Q)                   (* a 1-d float array *)
| WM (m : list (nat * nat))          (* a matching: list of index pairs *)
| WZs (l : list Z)                   (* a 1-d int array (per-frame counts) *)
| WTup (l : list wval)               (* a tuple returned by a callee *)
| WCol (l : list Q)                  (* an (n,1) float array *)
| WMat (m : list (list Q))           (* an (n,k) float array, by rows *)
| WZss (m : list (list Z))           (* an (n,k) int array, by rows (chord bitmaps) *)
| WStrs (l : list str)               (* a list of strings (chord labels) *)
(* third group *)
| WNs (l : list nat)                 (* a list / 1-d array of non-negative ints (label indices) *)
| WNss (m : list (list nat))         (* a matrix of non-negative ints, by rows (LCA / meet matrices, contingency tables) *)
| WBss (m : list (list bool))        (* a boolean matrix, by rows (agreement matrices) *)
| WDict (d : list (string * wval)).  (* a dict with string keys, in insertion order *)
Definition cond := (bool * exn)%type.
Definition evr := option (wval * list cond).
Definition ret (v : wval) : evr := Some (v, []).
Definition as_q (v : wval) : option Q := match v with WZ z => Some (inject_Z z) | WQ q => Some q | _ => None end.
Definition w_truth (v : wval) : option bool :=
  match v with WB b => Some b | WZ z => Some (negb (Z.eqb z 0)) | WQ q => Some (negb (qeqb q 0)) | WNone => Some false | _ => None end.
Definition w_len (v : wval) : evr :=
  match v with
  | WIvs l => ret (WZ (Z.of_nat (length l))) | WPs l => ret (WZ (Z.of_nat (length l)))
  | WQs l => ret (WZ (Z.of_nat (length l))) | WM l => ret (WZ (Z.of_nat (length l)))
  | WNs l => ret (WZ (Z.of_nat (length l)))
  | _ => None end.
Definition w_size (v : wval) : evr :=
  match v with
  | WQs l => ret (WZ (Z.of_nat (length l))) | WPs l => ret (WZ (Z.of_nat (length l)))
  | WIvs l => ret (WZ (2 * Z.of_nat (length l)))
  | _ => None end.
Definition w_float (v : wval) : evr := match as_q v with Some q => ret (WQ q) | None => None end.
(* third group: NumPy scalars (np.float64 / np.int64 results, [WX]). Arithmetic in which one operand is a NumPy scalar
   is NumPy's: no exception, inf / nan instead (no signed zeros arise: every zero divisor met is +0.0) *)
Definition np_x (v : wval) : option xval :=
  match v with WZ z => Some (Fin (inject_Z z)) | WQ q => Some (Fin q) | WX x => Some x | _ => None end.
Definition x_div (a b : xval) : xval :=
  match a, b with
  | NaN, _ | _, NaN => NaN
  | Fin x, Fin y => xdiv x y
  | Fin _, PInf | Fin _, NInf => Fin 0
  | PInf, Fin y => if qltb y 0 then NInf else PInf
  | NInf, Fin y => if qltb y 0 then PInf else NInf
  | _, _ => NaN
  end.
Definition x_mul (a b : xval) : xval :=
  match a, b with
  | NaN, _ | _, NaN => NaN
  | Fin x, Fin y => Fin (x * y)
  | Fin x, PInf | PInf, Fin x => if qeqb x 0 then NaN else if qltb 0 x then PInf else NInf
  | Fin x, NInf | NInf, Fin x => if qeqb x 0 then NaN else if qltb 0 x then NInf else PInf
  | PInf, PInf | NInf, NInf => PInf
  | PInf, NInf | NInf, PInf => NInf
  end.
Definition x_add (a b : xval) : xval :=
  match a, b with
  | NaN, _ | _, NaN => NaN
  | Fin x, Fin y => Fin (x + y)
  | PInf, NInf | NInf, PInf => NaN
  | PInf, _ | _, PInf => PInf
  | NInf, _ | _, NInf => NInf
  end.
Definition x_ltb (a b : xval) : bool :=
  match a, b with
  | Fin x, Fin y => qltb x y
  | NInf, Fin _ | NInf, PInf | Fin _, PInf => true
  | _, _ => false
  end.
Definition x_eqb (a b : xval) : bool :=
  match a, b with Fin x, Fin y => qeqb x y | PInf, PInf | NInf, NInf => true | _, _ => false end.
Definition w_div (a b : wval) : evr :=      (* Python numbers: a zero divisor raises *)
  match as_q a, as_q b with
  | Some x, Some y => Some (WQ (x / y), [(negb (qeqb y 0), ZeroDivisionError)])
  | _, _ => match np_x a, np_x b with                                                                 (* third group *)
            | Some x, Some y => ret (WX (x_div x y))
            | _, _ => match a, as_q b with            (* a float matrix by a non-zero number (a zero divisor is outside the fragment) *)
                      | WMat m, Some y => if qeqb y 0 then None else ret (WMat (map (map (fun x => x / y)) m))
                      | _, _ => None end
            end
  end.
Definition w_cmp (op : wcmp) (a b : wval) : evr :=
  match a, b with
  | WNone, WNone => match op with WEq => ret (WB true) | WNe => ret (WB false) | _ => None end
  | WNone, WZ _ | WZ _, WNone | WNone, WQ _ | WQ _, WNone =>
      match op with WEq => ret (WB false) | WNe => ret (WB true) | _ => None end
  | WZ x, WZ y => ret (WB (match op with WEq => Z.eqb x y | WNe => negb (Z.eqb x y) | WLt => Z.ltb x y | WLe => Z.leb x y
                                     | WGt => Z.ltb y x | WGe => Z.leb y x end))
  | _, _ => match as_q a, as_q b with
            | Some x, Some y => ret (WB (match op with WEq => qeqb x y | WNe => negb (qeqb x y) | WLt => qltb x y
                                                  | WLe => qleb x y | WGt => qltb y x | WGe => qleb y x end))
            | _, _ => match np_x a, np_x b with          (* third group: a NumPy scalar operand; comparisons with nan are false *)
                      | Some x, Some y =>
                          ret (WB (match op with WEq => x_eqb x y | WNe => negb (x_eqb x y) | WLt => x_ltb x y
                                            | WLe => x_ltb x y || x_eqb x y | WGt => x_ltb y x | WGe => x_ltb y x || x_eqb x y end))
                      | _, _ => None end
            end
  end.
Definition w_trim (v : wval) : evr := match v with WQs l => ret (WQs (removelast (tl l))) | _ => None end.
Definition w_init (v : wval) : evr := match v with WQs l => ret (WQs (removelast l)) | _ => None end.
Definition w_tail (v : wval) : evr := match v with WQs l => ret (WQs (tl l)) | _ => None end.
Definition as_x (v : wval) : option xval :=
  match v with WZ z => Some (Fin (inject_Z z)) | WQ q => Some (Fin q) | WX x => Some x | _ => None end.
Definition xsubx (a b : xval) : xval :=
  match a, b with
  | Fin x, Fin y => Fin (x - y)
  | NaN, _ | _, NaN => NaN
  | Fin _, PInf => NInf | Fin _, NInf => PInf
  | PInf, PInf | NInf, NInf => NaN
  | PInf, _ => PInf | NInf, _ => NInf
  end.
Definition w_sub (a b : wval) : evr :=
  match a, b with
  | WZ x, WZ y => ret (WZ (x - y))
  | _, _ => match as_q a, as_q b with
            | Some x, Some y => ret (WQ (x - y))
            | _, _ => match as_x a, as_x b with Some x, Some y => ret (WX (xsubx x y)) | _, _ => None end
            end
  end.
Definition xltb (a b : xval) : bool :=
  match a, b with
  | Fin x, Fin y => qltb x y
  | NInf, Fin _ | NInf, PInf | Fin _, PInf => true
  | _, _ => false
  end.
(* builtin min(a, b): b if b < a else a (a comparison with nan is false) *)
Definition w_min (a b : wval) : evr :=
  match as_x a, as_x b with Some x, Some y => ret (if xltb y x then b else a) | _, _ => None end.
Definition w_column (v : wval) (j : nat) : evr :=
  match v, j with
  | WIvs l, O => ret (WQs (map fst l)) | WIvs l, S O => ret (WQs (map snd l))
  | _, _ => None end.
(* (a != b).any() on two int vectors: some element differs (vectors of different lengths count as different;
   chord bitmaps always have 12 entries); against None every element differs *)
Fixpoint zneq_any (a b : list Z) : bool :=
  match a, b with
  | [], [] => false
  | x :: a', y :: b' => negb (Z.eqb x y) || zneq_any a' b'
  | _, _ => true
  end.
Definition w_neany (a b : wval) : evr :=
  match a, b with
  | WZs x, WZs y => ret (WB (zneq_any x y))
  | WZs x, WNone => ret (WB (match x with [] => false | _ => true end))
  | _, _ => None end.
Definition w_append_pair (l a b : wval) : evr :=
  match l, as_q a, as_q b with WIvs x, Some p, Some q => ret (WIvs (x ++ [(p, q)])) | _, _, _ => None end.
Fixpoint set_last_snd (l : list (Q * Q)) (q : Q) : list (Q * Q) :=
  match l with [] => [] | [v] => [(fst v, q)] | v :: t => v :: set_last_snd t q end.
Definition w_set_last_snd (l a : wval) : evr :=
  match l, as_q a with
  | WIvs x, Some q => Some (WIvs (set_last_snd x q), [(negb (length x =? 0)%nat, IndexError)])
  | _, _ => None end.
Definition w_asarray (v : wval) : evr := match v with WIvs l => ret (WIvs l) | _ => None end.
Definition w_pairs (a b : wval) : evr :=
  match a, b with WQs x, WQs y => ret (WIvs (combine x y)) | _, _ => None end.
(* ---- third group ---- *)
Definition w_is_none (v : wval) : evr := ret (WB (match v with WNone => true | _ => false end)).
(* int(x): truncation toward zero; int(nan) raises ValueError, int(inf) OverflowError *)
Definition q_trunc (x : Q) : Z := if Qle_bool 0 x then Qfloor x else Qceiling x.
Definition w_int (v : wval) : evr :=
  match v with
  | WZ z => ret (WZ z) | WB b => ret (WZ (if b then 1 else 0)) | WQ q => ret (WZ (q_trunc q))
  | WX (Fin q) => ret (WZ (q_trunc q))
  | WX NaN => Some (WZ 0, [(false, ValueError)])
  | WX _ => Some (WZ 0, [(false, OtherExn)])
  | _ => None end.
(* t[i] on a tuple / list, Python indexing *)
Definition w_item (v : wval) (i : Z) : evr :=
  match v with
  | WTup l =>
      let j := if (i <? 0)%Z then (Z.of_nat (length l) + i)%Z else i in
      match (if (j <? 0)%Z then None else nth_error l (Z.to_nat j)) with
      | Some x => ret x
      | None => Some (WNone, [(false, IndexError)]) end
  | _ => None end.
Definition w_add (a b : wval) : evr :=
  match a, b with
  | WZ x, WZ y => ret (WZ (x + y))
  | _, _ => match as_q a, as_q b with
            | Some x, Some y => ret (WQ (x + y))
            | _, _ => match np_x a, np_x b with Some x, Some y => ret (WX (x_add x y)) | _, _ => None end
            end
  end.
Definition w_mul (a b : wval) : evr :=
  match a, b with
  | WZ x, WZ y => ret (WZ (x * y))
  | _, _ => match as_q a, as_q b with
            | Some x, Some y => ret (WQ (x * y))
            | _, _ => match np_x a, np_x b with Some x, Some y => ret (WX (x_mul x y)) | _, _ => None end
            end
  end.
(* builtin max(a, b): b if b > a else a (a comparison with nan is false) *)
Definition w_max (a b : wval) : evr :=
  match np_x a, np_x b with Some x, Some y => ret (if x_ltb x y then b else a) | _, _ => None end.
(* d[k] = v on a dict: an existing key keeps its position *)
Fixpoint dict_set (d : list (string * wval)) (k : string) (v : wval) : list (string * wval) :=
  match d with
  | [] => [(k, v)]
  | (k', v') :: t => if String.eqb k k' then (k, v) :: t else (k', v') :: dict_set t k v
  end.
Definition w_dict_set (k : string) (d v : wval) : evr :=
  match d with WDict l => ret (WDict (dict_set l k v)) | _ => None end.
Definition ebind (a : evr) (f : wval -> evr) : evr :=
  match a with Some (x, ca) => match f x with Some (y, cf) => Some (y, ca ++ cf) | None => None end | None => None end.
Definition ebind2 (a b : evr) (f : wval -> wval -> evr) : evr :=
  match a with
  | Some (x, ca) => match b with
                    | Some (y, cb) => match f x y with Some (z, cf) => Some (z, ca ++ cb ++ cf) | None => None end
                    | None => None end
  | None => None end.
Definition pure_only (a : evr) : evr := match a with Some (x, []) => Some (x, []) | _ => None end.

Section Eval.
Variable args : list wval.
Variable ext : extfn -> list wval -> wout wval.
Section Ev.
Variable results : list wval.
Fixpoint ev (a : wexp) : evr :=
  match a with
  | WVar _ => None
  | WArg i => match nth_error args i with Some v => ret v | None => None end
  | WRes i => match nth_error results i with Some v => ret v | None => None end
  | WInt z => ret (WZ z) | WFloat q => ret (WQ q) | WBool b => ret (WB b) | WNoneE => ret WNone
  | WLen a => ebind (ev a) w_len
  | WSize a => ebind (ev a) w_size
  | WPyFloat a => ebind (ev a) w_float
  | WDiv a b => ebind2 (ev a) (ev b) w_div
  | WCmp op a b => ebind2 (ev a) (ev b) (w_cmp op)
  | WOr a b => ebind (ev a) (fun x => match w_truth x, pure_only (ev b) with
                                      | Some t, Some (y, _) => ret (if t then x else y) | _, _ => None end)
  | WAnd a b => ebind (ev a) (fun x => match w_truth x, pure_only (ev b) with
                                       | Some t, Some (y, _) => ret (if t then y else x) | _, _ => None end)
  | WNot a => ebind (ev a) (fun x => match w_truth x with Some t => ret (WB (negb t)) | None => None end)
  | WTrim a => ebind (ev a) w_trim
  | WInit a => ebind (ev a) w_init
  | WTail a => ebind (ev a) w_tail
  | WSub a b => ebind2 (ev a) (ev b) w_sub
  | WMin a b => ebind2 (ev a) (ev b) w_min
  | WPairs a b => ebind2 (ev a) (ev b) w_pairs
  | WNan => ret (WX NaN)
  | WColumn a j => ebind (ev a) (fun x => w_column x j)
  | WNeAny a b => ebind2 (ev a) (ev b) w_neany
  | WEmptyList => ret (WIvs [])
  | WAppendPair l a b =>
      match ev l, ev a, ev b with
      | Some (l', c1), Some (a', c2), Some (b', c3) =>
          match w_append_pair l' a' b' with Some (r, c4) => Some (r, c1 ++ c2 ++ c3 ++ c4) | None => None end
      | _, _, _ => None end
  | WSetLastSnd l a => ebind2 (ev l) (ev a) w_set_last_snd
  | WAsArray a => ebind (ev a) w_asarray
  | WIsNone a => ebind (ev a) w_is_none
  | WPyInt a => ebind (ev a) w_int
  | WItem a i => ebind (ev a) (fun x => w_item x i)
  | WAdd a b => ebind2 (ev a) (ev b) w_add
  | WMul a b => ebind2 (ev a) (ev b) w_mul
  | WMax a b => ebind2 (ev a) (ev b) w_max
  | WEmptyDict => ret (WDict [])
  | WDictSet d k v => ebind2 (ev d) (ev v) (w_dict_set k)
  end.
Fixpoint ev_list (l : list wexp) : option (list wval * list cond) :=
  match l with
  | [] => Some ([], [])
  | x :: t => match ev x, ev_list t with Some (v, c), Some (vs, cs) => Some (v :: vs, c ++ cs) | _, _ => None end
  end.
End Ev.
(* the elements of a sequence that a for loop iterates over *)
Definition w_elems (v : wval) : option (list wval) :=
  match v with
  | WQs l => Some (map WQ l) | WZs l => Some (map WZ l) | WZss m => Some (map WZs m) | WIvs l => None
  | _ => None end.
(* zip: rows of the sequences, as long as the shortest *)
Fixpoint zip_rows (cols : list (list wval)) (fuel : nat) : list (list wval) :=
  match fuel with
  | O => []
  | S f =>
      match (fix heads (cs : list (list wval)) : option (list wval * list (list wval)) :=
               match cs with
               | [] => Some ([], [])
               | [] :: _ => None
               | (x :: t) :: r => match heads r with Some (hs, ts) => Some (x :: hs, t :: ts) | None => None end
               end) cols with
      | Some (row, rest) => match cols with [] => [] | _ => row :: zip_rows rest f end
      | None => []
      end
  end.
Fixpoint all_elems (vs : list wval) : option (list (list wval)) :=
  match vs with
  | [] => Some []
  | v :: t => match w_elems v, all_elems t with Some c, Some r => Some (c :: r) | _, _ => None end
  end.
(* the loop: one step per row, on row ++ state *)
Fixpoint loop_run (step : list wval -> wout (list wval)) (rows : list (list wval)) (st : list wval) : wout (list wval) :=
  match rows with
  | [] => WOK st
  | row :: rest => wbind (step (row ++ st)) (fun st' => loop_run step rest st')
  end.
Fixpoint chk {A} (cs : list cond) (k : wout A) : wout A :=
  match cs with [] => k | (b, e) :: t => if b then chk t k else WEXN e end.
Fixpoint run_tree (t : rtree) (results : list wval) : wout (list wval) :=
  match t with
  | TRet es => match ev_list results es with Some (vs, cs) => chk cs (WOK vs) | None => WUNM end
  | TRaise e => WEXN e
  | TNone => WOK [WNone]
  | TBad => WUNM
  | TIf c a b => match ev results c with
                 | Some (v, cs) => match w_truth v with
                                   | Some t => chk cs (if t then run_tree a results else run_tree b results)
                                   | None => WUNM end
                 | None => WUNM end
  | TSeq e t => match ev results e with Some (_, cs) => chk cs (run_tree t results) | None => WUNM end
  | TCall f es t => match ev_list results es with
                    | Some (vs, cs) => chk cs (wbind (ext f vs) (fun v => run_tree t (results ++ [v])))
                    | None => WUNM end
  | TCallN k f es t => match ev_list results es with
                       | Some (vs, cs) =>
                           chk cs (wbind (ext f vs) (fun v => match v with
                                                              | WTup l => if (length l =? k)%nat then run_tree t (results ++ l)
                                                                          else WEXN ValueError       (* unpacking *)
                                                              | _ => WUNM end))
                       | None => WUNM end
  | TFor step seqs inits t =>
      match ev_list results seqs, ev_list results inits with
      | Some (svs, c1), Some (st0, c2) =>
          match all_elems svs with
          | Some cols =>
              chk (c1 ++ c2)
                (wbind (loop_run (fun inp => run_tree step inp)
                                 (zip_rows cols (match cols with c :: _ => length c | [] => O end)) st0)
                       (fun st => run_tree t (results ++ st)))
          | None => WUNM end
      | _, _ => WUNM end
  end.
End Eval.

Definition wrun (sigs : list (string * sigt)) (p : wprog) (ext : extfn -> list wval -> wout wval) (args : list wval)
  : wout (list wval) := run_tree args ext (wp_tree sigs p) [].
